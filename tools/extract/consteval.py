"""Shared static evaluator for generators (`gen_Cxx.py`): evaluate CONSTANT expressions of /repo's source without importing it.

Purpose: a generator that reads a constant / table / struct format must not depend on HOW the value is spelled.  `0x400`, `1 << 10`,
`1024`, `SOME_NAME` (module constant), `Cls.SIZE` / `self.SIZE` / `cls.SIZE` (class constant), `bytes(16)`, `bytes([1] + [0] * 15)`,
`b"\\x01" + bytes(15)`, `struct.calcsize(FORMAT)`, `"<4I"` vs `"<IIII"` vs `"<" "I" "I" "I" "I"` must all give the same generated Lean text,
so that a behaviour-preserving rewrite of the source never changes (or breaks) the generated model.

    env = ModuleEnv(tree)                       # module-level constants and class constants, resolved lazily
    env.value("NAME")                           # module constant
    env.cls("KeyStore").value("KEY_STORE_SIZE") # class constant (inherited ones through bases defined in the same module)
    env.eval(node, cls="KeyStore", local={...}) # any constant expression, names looked up local -> class -> module
    norm_struct("<4s2H6I") == norm_struct("<4sHHIIIIII")        # [("<"), ("s",4), ("H",1) ...] canonical field list
    struct_fields(fmt) -> (byteorder, [(code, count_or_len)])   # expanded, `L`->`I`, `l`->`i` in standard-size modes

Unknown / non-constant expressions raise `NotConst` (generators turn that into an opaque stand-in, never a silent default).
"""
from __future__ import annotations

import ast
import operator
import re
import struct


class NotConst(Exception):
    pass


_BIN = {ast.Add: operator.add, ast.Sub: operator.sub, ast.Mult: operator.mul, ast.FloorDiv: operator.floordiv, ast.Mod: operator.mod,
        ast.LShift: operator.lshift, ast.RShift: operator.rshift, ast.BitOr: operator.or_, ast.BitAnd: operator.and_, ast.BitXor: operator.xor,
        ast.Pow: operator.pow}
_UN = {ast.USub: operator.neg, ast.UAdd: operator.pos, ast.Invert: operator.invert, ast.Not: operator.not_}
_CMP = {ast.Eq: operator.eq, ast.NotEq: operator.ne, ast.Lt: operator.lt, ast.LtE: operator.le, ast.Gt: operator.gt, ast.GtE: operator.ge}
_MISSING = object()


def _assign_targets(stmt):
    """(name, value_node) pairs of simple constant-looking assignments in a statement"""
    if isinstance(stmt, ast.Assign) and len(stmt.targets) == 1 and isinstance(stmt.targets[0], ast.Name):
        yield stmt.targets[0].id, stmt.value
    elif isinstance(stmt, ast.AnnAssign) and isinstance(stmt.target, ast.Name) and stmt.value is not None:
        yield stmt.target.id, stmt.value
    elif isinstance(stmt, ast.Assign) and len(stmt.targets) == 1 and isinstance(stmt.targets[0], ast.Tuple) and isinstance(stmt.value, ast.Tuple) \
            and len(stmt.targets[0].elts) == len(stmt.value.elts):
        for t, v in zip(stmt.targets[0].elts, stmt.value.elts):
            if isinstance(t, ast.Name):
                yield t.id, v


class ClassEnv:
    def __init__(self, menv: "ModuleEnv", node: ast.ClassDef):
        self.menv, self.node, self.name = menv, node, node.name
        self.nodes = {}
        for st in node.body:
            for n, v in _assign_targets(st):
                self.nodes[n] = v
        self._cache = {}

    def bases(self):
        for b in self.node.bases:
            if isinstance(b, ast.Name) and b.id in self.menv.classes:
                yield self.menv.classes[b.id]

    def has(self, name):
        return name in self.nodes or any(b.has(name) for b in self.bases())

    def value(self, name):
        if name in self._cache:
            return self._cache[name]
        if name in self.nodes:
            self._cache[name] = _MISSING  # cycle guard
            v = self.menv.eval(self.nodes[name], cls=self.name)
            self._cache[name] = v
            return v
        for b in self.bases():
            if b.has(name):
                return b.value(name)
        raise NotConst(f"{self.name}.{name} is not a class constant")


class ModuleEnv:
    def __init__(self, tree: ast.AST, extra: dict | None = None):
        self.tree = tree
        self.nodes, self.classes = {}, {}
        self.extra = dict(extra or {})     # values supplied by the generator (e.g. constants imported from another module)
        for st in tree.body:
            for n, v in _assign_targets(st):
                self.nodes[n] = v
            if isinstance(st, ast.ClassDef):
                self.classes[st.name] = ClassEnv(self, st)
        self._cache = {}

    def cls(self, name) -> ClassEnv:
        if name not in self.classes:
            raise NotConst(f"class {name} not found")
        return self.classes[name]

    def value(self, name):
        if name in self.extra:
            return self.extra[name]
        if name in self._cache:
            if self._cache[name] is _MISSING:
                raise NotConst(f"cyclic constant {name}")
            return self._cache[name]
        if name not in self.nodes:
            raise NotConst(f"{name} is not a module constant")
        self._cache[name] = _MISSING
        try:
            v = self.eval(self.nodes[name])
        except NotConst:
            del self._cache[name]
            raise
        self._cache[name] = v
        return v

    # ------------------------------------------------------------------ evaluation
    def eval(self, node, cls: str | None = None, local: dict | None = None):
        ev = lambda n: self.eval(n, cls, local)  # noqa: E731
        if isinstance(node, ast.Constant):
            return node.value
        if isinstance(node, ast.Name):
            if local and node.id in local:
                return local[node.id]
            if cls and self.classes.get(cls) and self.classes[cls].has(node.id):
                return self.classes[cls].value(node.id)
            if node.id in ("True", "False", "None"):
                return {"True": True, "False": False, "None": None}[node.id]
            return self.value(node.id)
        if isinstance(node, ast.Attribute):
            if isinstance(node.value, ast.Name):
                base = node.value.id
                if base in ("self", "cls") and cls:
                    return self.cls(cls).value(node.attr)
                if base in self.classes:
                    return self.cls(base).value(node.attr)
                if local and base in local and hasattr(local[base], node.attr):
                    return getattr(local[base], node.attr)
            raise NotConst(ast.unparse(node))
        if isinstance(node, ast.BinOp) and type(node.op) in _BIN:
            a, b = ev(node.left), ev(node.right)
            try:
                return _BIN[type(node.op)](a, b)
            except Exception as exc:  # noqa: BLE001
                raise NotConst(f"{ast.unparse(node)}: {exc}") from exc
        if isinstance(node, ast.UnaryOp) and type(node.op) in _UN:
            return _UN[type(node.op)](ev(node.operand))
        if isinstance(node, ast.BoolOp):
            vals = [ev(v) for v in node.values]
            r = vals[0]
            for v in vals[1:]:
                r = (r and v) if isinstance(node.op, ast.And) else (r or v)
            return r
        if isinstance(node, ast.Compare) and all(type(o) in _CMP for o in node.ops):
            left = ev(node.left)
            for o, c in zip(node.ops, node.comparators):
                right = ev(c)
                if not _CMP[type(o)](left, right):
                    return False
                left = right
            return True
        if isinstance(node, ast.IfExp):
            return ev(node.body) if ev(node.test) else ev(node.orelse)
        if isinstance(node, (ast.Tuple, ast.List)):
            out = []
            for e in node.elts:
                if isinstance(e, ast.Starred):
                    out.extend(ev(e.value))
                else:
                    out.append(ev(e))
            return tuple(out) if isinstance(node, ast.Tuple) else out
        if isinstance(node, ast.Set):
            return {ev(e) for e in node.elts}
        if isinstance(node, ast.Dict):
            d = {}
            for k, v in zip(node.keys, node.values):
                if k is None:
                    d.update(ev(v))
                else:
                    d[ev(k)] = ev(v)
            return d
        if isinstance(node, ast.Subscript):
            base = ev(node.value)
            sl = node.slice
            try:
                if isinstance(sl, ast.Slice):
                    return base[(ev(sl.lower) if sl.lower else None):(ev(sl.upper) if sl.upper else None):(ev(sl.step) if sl.step else None)]
                return base[ev(sl)]
            except NotConst:
                raise
            except Exception as exc:  # noqa: BLE001
                raise NotConst(f"{ast.unparse(node)}: {exc}") from exc
        if isinstance(node, ast.JoinedStr):
            parts = []
            for v in node.values:
                if isinstance(v, ast.Constant):
                    parts.append(str(v.value))
                elif isinstance(v, ast.FormattedValue) and v.format_spec is None and v.conversion == -1:
                    parts.append(str(ev(v.value)))
                else:
                    raise NotConst(ast.unparse(node))
            return "".join(parts)
        if isinstance(node, ast.Call):
            return self._call(node, cls, local)
        raise NotConst(ast.unparse(node) if hasattr(ast, "unparse") else type(node).__name__)

    def _call(self, node: ast.Call, cls, local):
        ev = lambda n: self.eval(n, cls, local)  # noqa: E731
        fn = node.func
        name = fn.id if isinstance(fn, ast.Name) else (ast.unparse(fn) if isinstance(fn, ast.Attribute) else None)
        if node.keywords and name not in ("int", "int.from_bytes", "bytes"):
            kw = {k.arg: ev(k.value) for k in node.keywords}
        else:
            kw = {k.arg: ev(k.value) for k in node.keywords}
        args = [ev(a) for a in node.args]
        try:
            if name == "bytes":
                return bytes(*args, **kw)
            if name == "bytearray":
                return bytes(bytearray(*args, **kw))
            if name in ("bytes.fromhex", "bytearray.fromhex"):
                return bytes.fromhex(*args)
            if name in ("len", "int", "min", "max", "abs", "sum", "sorted", "tuple", "list", "range", "hex", "str", "bool", "pow", "divmod", "ord", "chr",
                        "reversed", "set", "frozenset", "dict", "zip", "enumerate"):
                r = {"len": len, "int": int, "min": min, "max": max, "abs": abs, "sum": sum, "sorted": sorted, "tuple": tuple, "list": list, "range": range,
                     "hex": hex, "str": str, "bool": bool, "pow": pow, "divmod": divmod, "ord": ord, "chr": chr, "reversed": reversed, "set": set,
                     "frozenset": frozenset, "dict": dict, "zip": zip, "enumerate": enumerate}[name](*args, **kw)
                return list(r) if name in ("range", "reversed", "zip", "enumerate") else r
            if name in ("struct.calcsize", "calcsize"):
                return struct.calcsize(*args)
            if name in ("struct.pack", "pack"):
                return struct.pack(*args)
            if name in ("struct.unpack", "unpack", "struct.unpack_from", "unpack_from"):
                return struct.unpack_from(*args) if name.endswith("_from") else struct.unpack(*args)
            if name == "int.from_bytes":
                return int.from_bytes(*args, **kw)
            if isinstance(fn, ast.Attribute):
                recv = None
                try:
                    recv = ev(fn.value)
                except NotConst:
                    recv = None
                if isinstance(recv, (bytes, str, int, dict, list, tuple)) and fn.attr in (
                        "to_bytes", "upper", "lower", "encode", "decode", "hex", "join", "ljust", "rjust", "zfill", "strip", "get", "keys", "values", "items",
                        "bit_length", "index", "count", "replace", "format", "startswith", "endswith", "split"):
                    r = getattr(recv, fn.attr)(*args, **kw)
                    return list(r) if fn.attr in ("keys", "values", "items") else r
        except NotConst:
            raise
        except Exception as exc:  # noqa: BLE001
            raise NotConst(f"{ast.unparse(node)}: {exc}") from exc
        raise NotConst(f"call {ast.unparse(node)}")


# ---------------------------------------------------------------------------------------- struct formats
_STD_SIZES = {"x": 1, "c": 1, "b": 1, "B": 1, "?": 1, "h": 2, "H": 2, "i": 4, "I": 4, "l": 4, "L": 4, "q": 8, "Q": 8, "e": 2, "f": 4, "d": 8}
_CANON = {"L": "I", "l": "i"}          # same size and signedness in standard-size modes


def struct_fields(fmt: str):
    """'<4s2H6I' -> ('<', [('s',4), ('H',1), ('H',1), ('I',1) x6]) ; whitespace ignored; in standard-size modes L/l are written I/i.
    Native mode ('@' or no prefix) is returned un-canonicalised apart from the count expansion (sizes are platform dependent there)."""
    fmt = "".join(fmt.split())
    order = "@"
    if fmt and fmt[0] in "@=<>!":
        order, fmt = fmt[0], fmt[1:]
    if order == "!":
        order = ">"
    out = []
    for cnt, code in re.findall(r"(\d*)([xcbB?hHiIlLqQnNefdspP])", fmt):
        if "".join(f"{c}{k}" for c, k in re.findall(r"(\d*)([xcbB?hHiIlLqQnNefdspP])", fmt)) != fmt:
            raise NotConst(f"bad struct format {fmt!r}")
        n = int(cnt) if cnt else 1
        if order in "<>=":
            code = _CANON.get(code, code)
        if code in "sp":
            out.append((code, n))
        else:
            out.extend([(code, 1)] * n)
    return order, out


def norm_struct(fmt: str) -> str:
    """canonical spelling of a struct format: byte order + one code per field, byte strings as '<n>s' (so '<4I' == '<IIII' == '<LLLL')"""
    order, fields = struct_fields(fmt)
    return ("" if order == "@" else order) + "".join((f"{n}{c}" if c in "sp" else c) for c, n in fields)


def struct_layout(fmt: str):
    """[(offset, size, code)] per field in a standard-size mode (no alignment padding)"""
    order, fields = struct_fields(fmt)
    if order not in "<>=":
        raise NotConst("native-mode struct format: layout is platform dependent")
    off, out = 0, []
    for c, n in fields:
        size = n if c in "sp" else _STD_SIZES[c]
        out.append((off, size, c))
        off += size
    return out


if __name__ == "__main__":
    src = '''
import struct
A = 0x400
B = 1 << 10
C = A + B // 2
POLY = 0x1_04C1_1DB7
class K:
    SIZE = 1424
    OTP = 32
    D1 = bytes([1] + [0] * 15 + [2] + [0] * 15)
    D2 = b"\\x01" + bytes(15) + b"\\x02" + bytes(15)
    FMT = "<4s2H6I"
    FMT2 = "<" "4s" "HH" "IIIIII"
    N = struct.calcsize(FMT)
    M = OTP * 2
class L(K):
    X = K.SIZE + 1
T = {A: "a", 2: K.OTP}
'''
    env = ModuleEnv(ast.parse(src))
    assert env.value("A") == env.value("B") == 1024 and env.value("C") == 1536
    k = env.cls("K")
    assert k.value("D1") == k.value("D2") and len(k.value("D1")) == 32
    assert norm_struct(k.value("FMT")) == norm_struct(k.value("FMT2")) == "<4sHHIIIIII", norm_struct(k.value("FMT"))
    assert k.value("N") == 32 and k.value("M") == 64
    assert env.cls("L").value("X") == 1425 and env.cls("L").value("SIZE") == 1424
    assert env.value("T") == {1024: "a", 2: 32}
    assert norm_struct("<7L") == norm_struct("<LLLLLLL") == "<IIIIIII"
    assert struct_layout("<4sHHL")[-1] == (8, 4, "I")
    print("consteval self-test ok")
