"""C19: Generated/BdGrammar.lean from spsdk/sbfile/sb2/sly_bd_parser.py + sly_bd_lexer.py (pure `ast` reading).

What is generated (everything the C19 theorems quantify over):
  * `precedence`                 - the `precedence` tuple of BDParser (assoc, token names), lowest level first
  * `tokenText`                  - lexer token name -> literal text for the operator tokens (regex un-escaped)
  * `productions`                - rule name -> list of productions (the decorator strings) for expr/bool_expr/unary_expr
  * `exprRule`                   - body of the big `expr` rule (binary operators + int-size suffix) as a Lean function
  * `boolRule`                   - body of the big `bool_expr` rule (comparisons, &&, ||)
  * `unaryRule`, `lnotRule`      - bodies of `unary_expr` and `LNOT bool_expr`
  * `definedRule`                - body of `DEFINED ( IDENT )`
  * `rangeLength`                - the `length = ...` expression of `int_const_expr RANGE int_const_expr`
  * `eraseAllFlags`, `eraseUnsecureAllFlags`, `eraseAllAddress` - dict literals of the erase rules
  * `stringLiteralNonGreedy`, `charLiteralNonGreedy` - do the two quoted-literal regexes stop at the first closing quote (probed)

Reading is by MEANING, not by spelling:
  * constants (precedence table, reserved words, token regexes, erase operands) are evaluated with `consteval` - a literal, a named
    module/class constant, `0x01` or `1`, `(1 << 32) - 1` or `0xFFFFFFFF` give the same generated value; tables that are only looked up
    are emitted sorted;
  * rule actions are run by a partial evaluator (`PE`) once per concrete operator with symbolic operands: if-chains, early returns, `match`,
    dispatch through a dict of `operator.*` functions or lambdas, renamed locals all give the same residual expression, which `RuleTr`
    turns into a Lean term; the emitted function is a canonical if-chain in a fixed order.
Values are Python ints (Lean `Int`, booleans as 0/1 - Python's `True == 1`).  A case that cannot be read becomes `.error .other`
(never a default), so that the theorems about it FAIL instead of silently passing; the reason is recorded in the meta file.
"""
from __future__ import annotations

import ast
import re

from extract import emit, parse

try:
    from consteval import ModuleEnv, NotConst
except ImportError:  # pragma: no cover
    ModuleEnv, NotConst = None, Exception

PARSER = "spsdk/sbfile/sb2/sly_bd_parser.py"
LEXER = "spsdk/sbfile/sb2/sly_bd_lexer.py"


class Untr(Exception):
    pass


def lstr(s: str) -> str:
    out = []
    for ch in s:
        if ch == "\\":
            out.append("\\\\")
        elif ch == '"':
            out.append('\\"')
        elif ch == "\n":
            out.append("\\n")
        elif ch == "\t":
            out.append("\\t")
        elif 32 <= ord(ch) < 127:
            out.append(ch)
        else:
            out.append("\\u%04x" % ord(ch) if ord(ch) < 0x10000 else ch)
    return '"' + "".join(out) + '"'


def class_def(tree, name):
    for n in tree.body:
        if isinstance(n, ast.ClassDef) and n.name == name:
            return n
    raise Untr(f"class {name} not found")


def rule_methods(cls):
    """[(name, [production strings], FunctionDef)] in source order (sly rules: `@_("...", ...)` decorated)."""
    out = []
    for n in cls.body:
        if isinstance(n, ast.FunctionDef):
            prods = []
            for d in n.decorator_list:
                if isinstance(d, ast.Call) and isinstance(d.func, ast.Name) and d.func.id == "_":
                    for a in d.args:
                        if isinstance(a, ast.Constant) and isinstance(a.value, str):
                            prods.append(a.value)
            if prods:
                out.append((n.name, prods, n))
    return out


def find_rule(rules, name, having):
    for nm, prods, fn in rules:
        if nm == name and having in prods:
            return prods, fn
    raise Untr(f"rule {name} with production '{having}' not found")


def body_wo_doc(fn):
    b = list(fn.body)
    if b and isinstance(b[0], ast.Expr) and isinstance(b[0].value, ast.Constant) and isinstance(b[0].value.value, str):
        b = b[1:]
    return b


# ------------------------------------------------------------------------------------------------ rule translator
class RuleTr:
    """Translate a rule body to a Lean term of type `PyRes Int`.

    `names`: python source expression (as unparsed text, e.g. 'token.expr0', 'token[1]') -> (lean term, type)
             with type 'Int' or 'Str'.  Local assignments extend it.
    Supported statements: `x = <expr>`, `if <test>: ... [elif/else]`, `return <expr>`.
    Supported expressions: names from `names`, int constants, string constants, + - * // % << >> & | ^ on ints,
    unary -, +, `not`, comparisons (< <= > >= == !=) on ints or strings, `and`/`or` on ints.
    A `return` of a string-typed value (e.g. `return token[1]` = the operator text) is `.error .other`: the rule does not
    deliver an integer there.
    """

    def __init__(self, names):
        self.names = dict(names)
        self.tmp = 0

    # expressions: return (term, type, partial) ; partial terms have type PyRes Int, others Int/String/Bool
    def expr(self, e):
        key = ast.unparse(e)
        if key in self.names:
            t, ty = self.names[key]
            return t, ty, False
        # a sub-expression built from integer literals only is folded (`(1 << 32) - 1` and `0xFFFFFFFF` are the same constant)
        folded = _fold_const(e)
        if folded is not None and not isinstance(e, ast.Constant):
            return f"({folded} : Int)", "Int", False
        if isinstance(e, ast.Constant):
            if isinstance(e.value, bool):
                return ("1" if e.value else "0"), "Int", False
            if isinstance(e.value, int):
                return f"({e.value} : Int)", "Int", False
            if isinstance(e.value, str):
                return lstr(e.value), "Str", False
            raise Untr(f"constant {e.value!r}")
        if isinstance(e, ast.BinOp):
            a = self.total_int(e.left)
            b = self.total_int(e.right)
            op = type(e.op)
            tot = {ast.Add: "({a} + {b})", ast.Sub: "({a} - {b})", ast.Mult: "({a} * {b})",
                   ast.BitAnd: "(intAnd {a} {b})", ast.BitOr: "(intOr {a} {b})", ast.BitXor: "(intXor {a} {b})"}
            par = {ast.FloorDiv: "(pyDivE {a} {b})", ast.Mod: "(pyModE {a} {b})",
                   ast.LShift: "(pyShlE {a} {b})", ast.RShift: "(pyShrE {a} {b})"}
            if op in tot:
                return tot[op].format(a=a, b=b), "Int", False
            if op in par:
                return par[op].format(a=a, b=b), "Int", True
            raise Untr(f"binary operator {op.__name__}")
        if isinstance(e, ast.UnaryOp):
            if isinstance(e.op, ast.USub):
                return f"(- {self.total_int(e.operand)})", "Int", False
            if isinstance(e.op, ast.UAdd):
                return self.total_int(e.operand), "Int", False
            if isinstance(e.op, ast.Not):
                return f"(pyNotI {self.total_int(e.operand)})", "Int", False
            raise Untr("unary operator")
        if isinstance(e, ast.Compare):
            if len(e.ops) != 1:
                raise Untr("chained comparison")
            a, ta, pa = self.expr(e.left)
            b, tb, pb = self.expr(e.comparators[0])
            if pa or pb or ta != tb:
                raise Untr("comparison operands")
            op = type(e.ops[0])
            if ta == "Str":
                sym = {ast.Eq: "==", ast.NotEq: "!="}.get(op)
                if sym is None:
                    raise Untr("string ordering")
                return f"(pyBoolInt ({a} {sym} {b}))", "Int", False
            sym = {ast.Lt: "<", ast.LtE: "≤", ast.Gt: ">", ast.GtE: "≥", ast.Eq: "=", ast.NotEq: "≠"}.get(op)
            if sym is None:
                raise Untr("comparison operator")
            return f"(pyBoolInt (decide ({a} {sym} {b})))", "Int", False
        if isinstance(e, ast.BoolOp):
            if len(e.values) != 2:
                raise Untr("n-ary and/or")
            a = self.total_int(e.values[0])
            b = self.total_int(e.values[1])
            fn = "pyAndI" if isinstance(e.op, ast.And) else "pyOrI"
            return f"({fn} {a} {b})", "Int", False
        raise Untr(f"expression {type(e).__name__}: {key}")

    def total_int(self, e):
        t, ty, partial = self.expr(e)
        if partial or ty != "Int":
            raise Untr(f"nested partial/non-int operand: {ast.unparse(e)}")
        return t

    def test(self, e):
        """Condition of an `if` -> Lean Bool term."""
        if isinstance(e, ast.Compare) and len(e.ops) == 1:
            a, ta, pa = self.expr(e.left)
            b, tb, pb = self.expr(e.comparators[0])
            if not pa and not pb and ta == tb == "Str" and isinstance(e.ops[0], (ast.Eq, ast.NotEq)):
                return f"({a} {'==' if isinstance(e.ops[0], ast.Eq) else '!='} {b})"
        t = self.total_int(e)
        return f"(pyTruthy {t})"

    def block(self, stmts, indent="  "):
        if not stmts:
            # falling off the end returns None: not an integer
            return ".error .other"
        s, rest = stmts[0], stmts[1:]
        if isinstance(s, ast.Return):
            if s.value is None:
                return ".error .other"
            t, ty, partial = self.expr(s.value)
            if ty != "Int":
                return ".error .other"
            return t if partial else f".ok {t}"
        if isinstance(s, ast.Assign) and len(s.targets) == 1 and isinstance(s.targets[0], ast.Name):
            t, ty, partial = self.expr(s.value)
            if partial:
                raise Untr("assignment of a partial expression")
            name = s.targets[0].id
            saved = self.names.get(name)
            # a plain re-binding: later uses see the new term (terms are small)
            self.names[name] = (t, ty)
            out = self.block(rest, indent)
            if saved is None:
                del self.names[name]
            else:
                self.names[name] = saved
            return out
        if isinstance(s, ast.If):
            c = self.test(s.test)
            saved = dict(self.names)
            th = self.block(list(s.body) + ([] if _terminates(s.body) else rest), indent + "  ")
            self.names = dict(saved)
            el_body = list(s.orelse)
            el = self.block(el_body + ([] if (el_body and _terminates(el_body)) else rest), indent)
            self.names = saved
            return f"if {c} then {th}\n{indent}else {el}"
        if isinstance(s, ast.Expr) and isinstance(s.value, ast.Constant):
            return self.block(rest, indent)
        if isinstance(s, ast.Pass):
            return self.block(rest, indent)
        raise Untr(f"statement {type(s).__name__}: {ast.unparse(s)[:60]}")


def _fold_const(e):
    """value of an expression made of int literals and + - * // % << >> & | ^ unary - + only, else None"""
    if isinstance(e, ast.Constant):
        return e.value if isinstance(e.value, int) and not isinstance(e.value, bool) else None
    if isinstance(e, ast.UnaryOp) and isinstance(e.op, (ast.USub, ast.UAdd)):
        v = _fold_const(e.operand)
        return None if v is None else (-v if isinstance(e.op, ast.USub) else v)
    if isinstance(e, ast.BinOp):
        a, b = _fold_const(e.left), _fold_const(e.right)
        if a is None or b is None:
            return None
        try:
            if isinstance(e.op, ast.Add):
                return a + b
            if isinstance(e.op, ast.Sub):
                return a - b
            if isinstance(e.op, ast.Mult):
                return a * b
            if isinstance(e.op, ast.FloorDiv):
                return a // b if b else None
            if isinstance(e.op, ast.Mod):
                return a % b if b else None
            if isinstance(e.op, ast.LShift):
                return a << b if 0 <= b <= 4096 else None
            if isinstance(e.op, ast.RShift):
                return a >> b if 0 <= b <= 4096 else None
            if isinstance(e.op, ast.BitAnd):
                return a & b
            if isinstance(e.op, ast.BitOr):
                return a | b
            if isinstance(e.op, ast.BitXor):
                return a ^ b
        except (OverflowError, ValueError):
            return None
    return None


def _terminates(stmts):
    if not stmts:
        return False
    last = stmts[-1]
    if isinstance(last, ast.Return):
        return True
    if isinstance(last, ast.If):
        return _terminates(last.body) and bool(last.orelse) and _terminates(last.orelse)
    return False



# ------------------------------------------------------------------------------------------------ partial evaluator
# A rule action is read SEMANTICALLY: its body is executed by a small partial evaluator in which everything that selects the
# behaviour (the operator text, the size letter, module-level tables, imported `operator.*` functions, locals derived from them) is
# concrete and only the operand values are symbolic.  The result for one concrete operator is a residual expression over the
# operands (`token.expr0 + token.expr1`, `token[0] & 4294967295`).  An if-chain, an elif-chain, early returns, a `match` statement or a
# dispatch through a dict of functions therefore all give the same generated action table.

_OPFN = {"add": ast.Add, "sub": ast.Sub, "mul": ast.Mult, "floordiv": ast.FloorDiv, "mod": ast.Mod, "lshift": ast.LShift,
         "rshift": ast.RShift, "and_": ast.BitAnd, "or_": ast.BitOr, "xor": ast.BitXor,
         "lt": ast.Lt, "le": ast.LtE, "gt": ast.Gt, "ge": ast.GtE, "eq": ast.Eq, "ne": ast.NotEq,
         "neg": ast.USub, "pos": ast.UAdd, "not_": ast.Not}


class OpFn:
    """a function of the `operator` module (or a builtin) known by meaning"""
    def __init__(self, name):
        self.name, self.op = name, _OPFN[name]


class Lam:
    def __init__(self, node, pe_env):
        self.node, self.env = node, pe_env


class Res:
    """residual (symbolic) integer expression"""
    def __init__(self, node):
        self.node = node


class Unk:
    """a value the evaluator knows nothing about (only allowed where it is stored, never where it is used)"""
    def __init__(self, why):
        self.why = why


class _Return(Exception):
    def __init__(self, value):
        self.value = value


class PE:
    def __init__(self, module_tree, cls_node, bindings):
        """bindings: unparsed source expression -> concrete python value or Res"""
        self.tree, self.cls_node = module_tree, cls_node
        try:
            self.menv = ModuleEnv(module_tree) if ModuleEnv is not None else None
        except Exception:  # noqa: BLE001
            self.menv = None
        self.bind = dict(bindings)
        self.locals = {}
        self.mod_nodes, self.imports, self.opmods = {}, {}, set()
        for st in module_tree.body:
            if isinstance(st, ast.ImportFrom) and st.module == "operator":
                for a in st.names:
                    if a.name in _OPFN:
                        self.imports[a.asname or a.name] = OpFn(a.name)
            elif isinstance(st, ast.Import):
                for a in st.names:
                    if a.name == "operator":
                        self.opmods.add(a.asname or a.name)
            elif isinstance(st, ast.Assign) and len(st.targets) == 1 and isinstance(st.targets[0], ast.Name):
                self.mod_nodes[st.targets[0].id] = st.value
            elif isinstance(st, ast.AnnAssign) and isinstance(st.target, ast.Name) and st.value is not None:
                self.mod_nodes[st.target.id] = st.value
        self.cls_nodes = {}
        for st in (cls_node.body if cls_node is not None else []):
            if isinstance(st, ast.Assign) and len(st.targets) == 1 and isinstance(st.targets[0], ast.Name):
                self.cls_nodes[st.targets[0].id] = st.value
            elif isinstance(st, ast.AnnAssign) and isinstance(st.target, ast.Name) and st.value is not None:
                self.cls_nodes[st.target.id] = st.value
        self._mod_cache = {}

    # ---------------- helpers
    @staticmethod
    def to_ast(v):
        if isinstance(v, Res):
            return v.node
        if isinstance(v, bool):
            return ast.Constant(value=v)
        if isinstance(v, int):
            return ast.Constant(value=v)
        raise Untr(f"value {v!r} inside an integer expression")

    def module_value(self, name):
        if name in self._mod_cache:
            return self._mod_cache[name]
        node = self.mod_nodes.get(name)
        if node is None:
            raise Untr(f"unknown name {name}")
        saved = self.locals
        self.locals = {}
        try:
            v = self.eval(node)
        finally:
            self.locals = saved
        self._mod_cache[name] = v
        return v

    def apply(self, fn, args):
        if isinstance(fn, OpFn):
            op = fn.op
            if issubclass(op, ast.operator) and len(args) == 2:
                return self.binop(op(), args[0], args[1])
            if issubclass(op, ast.cmpop) and len(args) == 2:
                return self.compare(args[0], [op()], [args[1]])
            if issubclass(op, ast.unaryop) and len(args) == 1:
                return self.unary(op(), args[0])
            raise Untr(f"arity of operator.{fn.name}")
        if isinstance(fn, Lam):
            a = fn.node.args
            if a.vararg or a.kwarg or a.kwonlyargs or a.defaults or len(a.args) != len(args):
                raise Untr("lambda signature")
            saved = self.locals
            self.locals = dict(zip([x.arg for x in a.args], args))
            try:
                return self.eval(fn.node.body)
            finally:
                self.locals = saved
        raise Untr(f"call of {fn!r}")

    def binop(self, op, a, b):
        if isinstance(a, Unk) or isinstance(b, Unk):
            raise Untr("operation on an unreadable value")
        if not isinstance(a, Res) and not isinstance(b, Res):
            if isinstance(a, (int, str)) and isinstance(b, (int, str)):
                try:
                    import operator as _o
                    f = {ast.Add: _o.add, ast.Sub: _o.sub, ast.Mult: _o.mul, ast.FloorDiv: _o.floordiv, ast.Mod: _o.mod, ast.LShift: _o.lshift,
                         ast.RShift: _o.rshift, ast.BitAnd: _o.and_, ast.BitOr: _o.or_, ast.BitXor: _o.xor}.get(type(op))
                    if f is None or (isinstance(op, (ast.LShift, ast.Pow)) and isinstance(b, int) and b > 4096):
                        raise Untr("operator")
                    return f(a, b)
                except Untr:
                    raise
                except Exception as exc:  # noqa: BLE001
                    raise Untr(f"constant operation fails: {exc}") from exc
            raise Untr("operation on non-integers")
        return Res(ast.BinOp(left=self.to_ast(a), op=op, right=self.to_ast(b)))

    def unary(self, op, a):
        if isinstance(a, Unk):
            raise Untr("operation on an unreadable value")
        if not isinstance(a, Res):
            if isinstance(op, ast.Not):
                return not a
            if isinstance(op, ast.USub) and isinstance(a, int):
                return -a
            if isinstance(op, ast.UAdd) and isinstance(a, int):
                return a
            raise Untr("unary operator on a constant")
        return Res(ast.UnaryOp(op=op, operand=a.node))

    def compare(self, left, ops, rights):
        vals = [left] + list(rights)
        if any(isinstance(v, Unk) for v in vals):
            raise Untr("comparison of an unreadable value")
        if not any(isinstance(v, Res) for v in vals):
            cur = left
            for o, r in zip(ops, rights):
                ok = {ast.Eq: lambda x, y: x == y, ast.NotEq: lambda x, y: x != y, ast.Lt: lambda x, y: x < y, ast.LtE: lambda x, y: x <= y,
                      ast.Gt: lambda x, y: x > y, ast.GtE: lambda x, y: x >= y, ast.Is: lambda x, y: x is y, ast.IsNot: lambda x, y: x is not y,
                      ast.In: lambda x, y: x in y, ast.NotIn: lambda x, y: x not in y}.get(type(o))
                if ok is None:
                    raise Untr("comparison operator")
                try:
                    if not ok(cur, r):
                        return False
                except TypeError as exc:
                    raise Untr(str(exc)) from exc
                cur = r
            return True
        # identity / membership tests against a symbolic integer: an int is never None and never a str
        if len(ops) == 1 and isinstance(ops[0], (ast.Is, ast.IsNot)) and (left is None or rights[0] is None):
            return isinstance(ops[0], ast.IsNot)
        if len(ops) == 1 and isinstance(ops[0], (ast.Eq, ast.NotEq)) and (isinstance(left, str) or isinstance(rights[0], str)):
            return isinstance(ops[0], ast.NotEq)
        if len(ops) != 1:
            raise Untr("chained symbolic comparison")
        return Res(ast.Compare(left=self.to_ast(left), ops=[ops[0]], comparators=[self.to_ast(rights[0])]))

    # ---------------- expressions
    def eval(self, e):
        key = ast.unparse(e)
        if key in self.bind:
            return self.bind[key]
        if isinstance(e, ast.Constant):
            return e.value
        if isinstance(e, ast.Name):
            if e.id in self.locals:
                return self.locals[e.id]
            if e.id in self.imports:
                return self.imports[e.id]
            if e.id in ("True", "False", "None"):
                return {"True": True, "False": False, "None": None}[e.id]
            return self.module_value(e.id)
        if isinstance(e, ast.Attribute):
            if isinstance(e.value, ast.Name) and e.value.id in self.opmods and e.attr in _OPFN:
                return OpFn(e.attr)
            if isinstance(e.value, ast.Name) and e.value.id in ("self", "cls") and e.attr in self.cls_nodes:
                saved = self.locals
                self.locals = {}
                try:
                    return self.eval(self.cls_nodes[e.attr])
                finally:
                    self.locals = saved
            raise Untr(f"attribute {key}")
        if isinstance(e, ast.Dict):
            d = {}
            for k, v in zip(e.keys, e.values):
                if k is None:
                    raise Untr("dict unpacking")
                kk = self.eval(k)
                if isinstance(kk, (Res, Unk, dict, list)):
                    raise Untr("dict key")
                try:
                    d[kk] = self.eval(v)
                except Untr as exc:
                    d[kk] = Unk(str(exc))
            return d
        if isinstance(e, (ast.Tuple, ast.List)):
            vals = [self.eval(x) for x in e.elts]
            return tuple(vals) if isinstance(e, ast.Tuple) else vals
        if isinstance(e, ast.Set):
            return frozenset(self.eval(x) for x in e.elts)
        if isinstance(e, ast.Lambda):
            return Lam(e, None)
        if isinstance(e, ast.BinOp):
            return self.binop(e.op, self.eval(e.left), self.eval(e.right))
        if isinstance(e, ast.UnaryOp):
            return self.unary(e.op, self.eval(e.operand))
        if isinstance(e, ast.Compare):
            return self.compare(self.eval(e.left), e.ops, [self.eval(c) for c in e.comparators])
        if isinstance(e, ast.BoolOp):
            vals = [self.eval(v) for v in e.values]
            if not any(isinstance(v, Res) for v in vals):
                r = vals[0]
                for v in vals[1:]:
                    r = (r and v) if isinstance(e.op, ast.And) else (r or v)
                return r
            return Res(ast.BoolOp(op=e.op, values=[self.to_ast(v) for v in vals]))
        if isinstance(e, ast.IfExp):
            t = self.eval(e.test)
            if isinstance(t, (Res, Unk)):
                raise Untr("symbolic condition")
            return self.eval(e.body) if t else self.eval(e.orelse)
        if isinstance(e, ast.Subscript):
            base = self.eval(e.value)
            idx = self.eval(e.slice)
            if isinstance(base, Res) or isinstance(idx, Res):
                raise Untr(f"subscript {key}")
            try:
                return base[idx]
            except Exception as exc:  # noqa: BLE001
                raise Untr(f"{key}: {type(exc).__name__}") from exc
        if isinstance(e, ast.Call):
            if e.keywords and not (isinstance(e.func, ast.Name) and e.func.id == "dict" and not e.args):
                return self._const_fallback(e)
            args = [self.eval(a) for a in e.args]
            if isinstance(e.func, ast.Attribute) and e.func.attr == "get":
                base = self.eval(e.func.value)
                if isinstance(base, dict) and 1 <= len(args) <= 2 and not isinstance(args[0], Res):
                    try:
                        return base.get(args[0], args[1] if len(args) == 2 else None)
                    except TypeError as exc:
                        raise Untr(str(exc)) from exc
                raise Untr(f"call {key}")
            if isinstance(e.func, ast.Name) and e.func.id == "dict" and "dict" not in self.locals and not e.args:
                d = {}
                for k in e.keywords:
                    if k.arg is None:
                        raise Untr("dict(**…)")
                    try:
                        d[k.arg] = self.eval(k.value)
                    except Untr as exc:
                        d[k.arg] = Unk(str(exc))
                return d
            if isinstance(e.func, ast.Name) and e.func.id in ("int", "bool") and e.func.id not in self.locals and len(args) == 1:
                if not isinstance(args[0], Res):
                    return int(args[0]) if e.func.id == "int" else bool(args[0])
                if e.func.id == "int":
                    return args[0]
                raise Untr("bool() of a symbolic value")
            try:
                fn = self.eval(e.func)
            except Untr:
                return self._const_fallback(e)
            return self.apply(fn, args)
        return self._const_fallback(e)

    def _const_fallback(self, e):
        """anything else: a constant expression in the sense of consteval (concrete locals visible), or unreadable"""
        if self.menv is None:
            raise Untr(f"expression {type(e).__name__}: {ast.unparse(e)}")
        loc = {k: v for k, v in self.locals.items() if isinstance(v, (int, str, bytes, tuple, bool)) or v is None}
        try:
            return self.menv.eval(e, cls=self.cls_node.name if self.cls_node is not None else None, local=loc)
        except NotConst as exc:
            raise Untr(f"expression {type(e).__name__}: {ast.unparse(e)[:60]} ({exc})") from exc
        except Exception as exc:  # noqa: BLE001
            raise Untr(f"expression {ast.unparse(e)[:60]}: {type(exc).__name__}") from exc

    # ---------------- statements
    def run(self, stmts):
        """-> value returned by the body (python None when it falls off the end)"""
        try:
            self.block(stmts)
        except _Return as r:
            return r.value
        return None

    def block(self, stmts):
        for s in stmts:
            if isinstance(s, ast.Return):
                raise _Return(None if s.value is None else self.eval(s.value))
            if isinstance(s, ast.Expr):
                if isinstance(s.value, ast.Constant):
                    continue
                c = s.value
                if isinstance(c, ast.Call) and isinstance(c.func, ast.Attribute) and c.func.attr == "update" and len(c.args) == 1 and not c.keywords:
                    base = self.eval(c.func.value)
                    if isinstance(base, dict):
                        try:
                            arg = self.eval(c.args[0])
                        except Untr as exc:
                            arg = Unk(str(exc))
                        if isinstance(arg, dict):
                            base.update(arg)
                        elif isinstance(arg, Unk):
                            base.setdefault("\u0000open", []).append(arg)   # unknown further entries
                        else:
                            raise Untr("update() argument")
                        continue
                raise Untr(f"statement {ast.unparse(s)[:50]}")
            if isinstance(s, ast.Pass):
                continue
            if isinstance(s, (ast.Assign, ast.AnnAssign)):
                tgt = s.targets[0] if isinstance(s, ast.Assign) and len(s.targets) == 1 else getattr(s, "target", None)
                if s.value is None:
                    continue
                if isinstance(tgt, ast.Subscript):
                    base, idx = self.eval(tgt.value), self.eval(tgt.slice)
                    if not isinstance(base, dict) or isinstance(idx, (Res, Unk, dict, list)):
                        raise Untr("subscript assignment")
                    try:
                        base[idx] = self.eval(s.value)
                    except Untr as exc:
                        base[idx] = Unk(str(exc))
                    continue
                if isinstance(tgt, (ast.Tuple, ast.List)) and all(isinstance(x, ast.Name) for x in tgt.elts):
                    vals = self.eval(s.value)
                    if not isinstance(vals, (tuple, list)) or len(vals) != len(tgt.elts):
                        raise Untr("unpacking assignment")
                    for x, v in zip(tgt.elts, vals):
                        self.locals[x.id] = v
                    continue
                if not isinstance(tgt, ast.Name):
                    raise Untr("assignment target")
                self.locals[tgt.id] = self.eval(s.value)
                continue
            if isinstance(s, ast.AugAssign) and isinstance(s.target, ast.Name):
                self.locals[s.target.id] = self.binop(s.op, self.eval(s.target), self.eval(s.value))
                continue
            if isinstance(s, ast.If):
                t = self.eval(s.test)
                if isinstance(t, (Res, Unk)):
                    raise Untr("symbolic condition")
                self.block(s.body if t else s.orelse)
                continue
            if hasattr(ast, "Match") and isinstance(s, ast.Match):
                subj = self.eval(s.subject)
                if isinstance(subj, Res):
                    raise Untr("symbolic match subject")
                for case in s.cases:
                    if case.guard is not None:
                        raise Untr("match guard")
                    if self._pattern(case.pattern, subj):
                        self.block(case.body)
                        break
                continue
            if isinstance(s, ast.Raise):
                raise Untr("raise")
            raise Untr(f"statement {type(s).__name__}")

    def _pattern(self, pat, subj):
        if isinstance(pat, ast.MatchValue):
            return self.eval(pat.value) == subj
        if isinstance(pat, ast.MatchSingleton):
            return pat.value is subj
        if isinstance(pat, ast.MatchOr):
            return any(self._pattern(x, subj) for x in pat.patterns)
        if isinstance(pat, ast.MatchAs) and pat.pattern is None:
            if pat.name:
                self.locals[pat.name] = subj
            return True
        raise Untr("match pattern")


def residual_to_lean(value, names):
    """value returned by PE.run -> Lean term of type `PyRes Int` (a non-integer result is `.error .other`)"""
    if isinstance(value, Res):
        t, ty, partial = RuleTr(names).expr(value.node)
        if ty != "Int":
            return ".error .other"
        return t if partial else f".ok {t}"
    if isinstance(value, bool):
        return f".ok ({int(value)} : Int)"
    if isinstance(value, int):
        return f".ok ({value} : Int)"
    return ".error .other"


def _param(fn):
    """name of the production argument of a rule method (`token` in the source today)"""
    args = [x.arg for x in fn.args.args]
    if len(args) < 2:
        raise Untr("rule method without a production argument")
    return args[1]


def _bind(fn, pairs):
    """{'[1]': v, '.expr0': w} -> bindings keyed by the unparsed source expression over the method's own argument name"""
    tok = _param(fn)
    return {f"{tok}{k}": v for k, v in pairs.items()}


def _sym(name):
    return Res(ast.Name(id=name, ctx=ast.Load()))


def _cases(rules, rule_name, pattern):
    """productions of `rule_name` of the form given by `pattern` (a list with one 'TOK' placeholder), whichever method carries them:
       -> [(token name, production, FunctionDef)]"""
    out = []
    for nm, prods, fn in rules:
        if nm != rule_name:
            continue
        for prod in prods:
            parts = prod.split()
            if len(parts) == len(pattern) and all(q == "TOK" or q == w for q, w in zip(pattern, parts)):
                tokname = parts[pattern.index("TOK")]
                if tokname.isupper() and tokname not in ("LPAREN", "RPAREN"):
                    out.append((tokname, prod, fn))
    return out


def _ordered(cases, canon):
    seen = {}
    for c in cases:
        seen.setdefault(c[0], c)
    names = [n for n in canon if n in seen] + sorted(n for n in seen if n not in canon)
    return [seen[n] for n in names]


def _run_case(ptree, pcls, fn, pairs, names):
    """one concrete case of a rule action -> (lean term : PyRes Int, residual source or reason, ok)"""
    try:
        pe = PE(ptree, pcls, _bind(fn, pairs))
        val = pe.run(body_wo_doc(fn))
        term = residual_to_lean(val, names)
        src = ast.unparse(val.node) if isinstance(val, Res) else repr(val)
        return term, src, True
    except Untr as exc:
        return ".error .other", f"unreadable: {exc}", False
    except RecursionError:
        return ".error .other", "unreadable: recursion", False


def _chain(var, branches, indent="  "):
    """canonical if-chain over distinct texts"""
    lines = []
    for i, (text, term) in enumerate(branches):
        kw = "if" if i == 0 else "else if"
        lines.append(f"{indent}{kw} ({var} == {lstr(text)}) then {term}")
    lines.append(f"{indent}else .error .other" if branches else f"{indent}.error .other")
    return "\n".join(lines)


_BIN_CANON = ["PLUS", "MINUS", "TIMES", "DIVIDE", "MOD", "LSHIFT", "RSHIFT", "AND", "OR", "XOR"]
_CMP_CANON = ["LT", "LE", "GT", "GE", "EQ", "NE", "LAND", "LOR"]
_SIZE_LETTERS = ["w", "h", "b"]


def gen_actions(out, meta, ptree, pcls, rules, text_of):
    """The rule actions, one concrete operator at a time (see the partial evaluator above).  The emitted Lean function is a
    canonical if-chain in a fixed order, whatever the control structure of the Python method is; a case the evaluator cannot read
    is `.error .other` (the theorems about that operator then fail) and the reason is recorded in the meta file."""
    # ---- expr: binary operators + int-size suffix
    names = {"expr0": ("expr0", "Int"), "expr1": ("expr1", "Int"), "tok0": ("tok0", "Int")}
    info, branches = {}, []
    for tokname, prod, fn in _ordered(_cases(rules, "expr", ["expr", "TOK", "expr"]), _BIN_CANON):
        text = text_of.get(tokname)
        if text is None:
            info[prod] = f"unreadable: token {tokname} has no fixed text"
            continue
        term, src, _ok = _run_case(ptree, pcls, fn, {"[1]": text, f".{tokname}": text, "[0]": _sym("expr0"), "[2]": _sym("expr1"),
                                                     ".expr0": _sym("expr0"), ".expr1": _sym("expr1")}, names)
        branches.append((text, term))
        info[prod] = src
    size_cases = _cases(rules, "expr", ["expr", "TOK", "INT_SIZE"])
    if size_cases:
        tokname, prod, fn = size_cases[0]
        text = text_of.get(tokname)
        if text is None:
            info[prod] = f"unreadable: token {tokname} has no fixed text"
        else:
            sub = []
            for letter in _SIZE_LETTERS:
                term, src, _ok = _run_case(ptree, pcls, fn, {"[1]": text, f".{tokname}": text, "[0]": _sym("tok0"), ".expr": _sym("tok0"),
                                                             "[2]": letter, ".INT_SIZE": letter}, names)
                sub.append((letter, term))
                info[f"{prod} [{letter}]"] = src
            branches.append((text, "\n" + _chain("intSize", sub, "    ")))
    out.append("/-- `expr` rule: binary operators (`operator` = text of the operator token) and the int-size suffix; each case is the action of the\n"
               f"    rule method of `{PARSER}` evaluated for that operator -/")
    out.append("def exprRule (operator : String) (expr0 : Int) (expr1 : Int) (tok0 : Int) (intSize : String) : PyRes Int :=\n" + _chain("operator", branches) + "\n")
    meta["rules"]["exprRule"] = {"mode": "evaluated", "cases": info}

    # ---- bool_expr: comparisons, && ||
    names = {"bool_expr0": ("bool_expr0", "Int"), "bool_expr1": ("bool_expr1", "Int")}
    info, branches = {}, []
    for tokname, prod, fn in _ordered(_cases(rules, "bool_expr", ["bool_expr", "TOK", "bool_expr"]), _CMP_CANON):
        text = text_of.get(tokname)
        if text is None:
            info[prod] = f"unreadable: token {tokname} has no fixed text"
            continue
        term, src, _ok = _run_case(ptree, pcls, fn, {"[1]": text, f".{tokname}": text, "[0]": _sym("bool_expr0"), "[2]": _sym("bool_expr1"),
                                                     ".bool_expr0": _sym("bool_expr0"), ".bool_expr1": _sym("bool_expr1")}, names)
        branches.append((text, term))
        info[prod] = src
    out.append("/-- `bool_expr` rule: comparisons and logical operators (Python bools as 0/1) -/")
    out.append("def boolRule (operator : String) (bool_expr0 : Int) (bool_expr1 : Int) : PyRes Int :=\n" + _chain("operator", branches) + "\n")
    meta["rules"]["boolRule"] = {"mode": "evaluated", "cases": info}

    # ---- unary_expr
    names = {"expr": ("expr", "Int")}
    info, branches = {}, []
    for tokname, prod, fn in _ordered(_cases(rules, "unary_expr", ["TOK", "expr"]), ["MINUS", "PLUS"]):
        text = text_of.get(tokname)
        if text is None:
            info[prod] = f"unreadable: token {tokname} has no fixed text"
            continue
        term, src, _ok = _run_case(ptree, pcls, fn, {"[0]": text, f".{tokname}": text, "[1]": _sym("expr"), ".expr": _sym("expr")}, names)
        branches.append((text, term))
        info[prod] = src
    out.append("/-- `unary_expr` rule (`sign` = text of the sign token) -/")
    out.append("def unaryRule (sign : String) (expr : Int) : PyRes Int :=\n" + _chain("sign", branches) + "\n")
    meta["rules"]["unaryRule"] = {"mode": "evaluated", "cases": info}

    # ---- LNOT bool_expr
    names = {"bool_expr": ("bool_expr", "Int")}
    cases = [c for c in _cases(rules, "bool_expr", ["TOK", "bool_expr"]) if c[0] == "LNOT"]
    if cases:
        tokname, prod, fn = cases[0]
        text = text_of.get(tokname, "!")
        term, src, _ok = _run_case(ptree, pcls, fn, {"[0]": text, f".{tokname}": text, "[1]": _sym("bool_expr"), ".bool_expr": _sym("bool_expr")}, names)
        par = "bool_expr" if "bool_expr" in term else "_bool_expr"
    else:
        term, src, par = ".error .other", "unreadable: no production `LNOT bool_expr`", "_bool_expr"
    out.append("/-- `LNOT bool_expr` rule -/")
    out.append(f"def lnotRule ({par} : Int) : PyRes Int :=\n  {term}\n")
    meta["rules"]["lnotRule"] = {"mode": "evaluated", "cases": {"LNOT bool_expr": src}}

    # ---- int_const_expr RANGE int_const_expr : {"address": first operand, "length": ...}
    names = {"int_const_expr0": ("int_const_expr0", "Int"), "int_const_expr1": ("int_const_expr1", "Int")}
    term, src = ".error .other", "unreadable: no production `int_const_expr RANGE int_const_expr`"
    for tokname, prod, fn in _cases(rules, "address_or_range", ["int_const_expr", "TOK", "int_const_expr"]):
        text = text_of.get(tokname, "..")
        try:
            pe = PE(ptree, pcls, _bind(fn, {"[1]": text, f".{tokname}": text, "[0]": _sym("int_const_expr0"), "[2]": _sym("int_const_expr1"),
                                            ".int_const_expr0": _sym("int_const_expr0"), ".int_const_expr1": _sym("int_const_expr1")}))
            val = pe.run(body_wo_doc(fn))
            if not isinstance(val, dict) or sorted(map(str, val)) != ["address", "length"]:
                raise Untr(f"a range does not deliver exactly \"address\" and \"length\": {sorted(map(str, val)) if isinstance(val, dict) else val!r}")
            addr = val["address"]
            if not (isinstance(addr, Res) and isinstance(addr.node, ast.Name) and addr.node.id == "int_const_expr0"):
                raise Untr("\"address\" of a range is not the first operand")
            term = residual_to_lean(val["length"], names)
            src = ast.unparse(val["length"].node) if isinstance(val["length"], Res) else repr(val["length"])
        except Untr as exc:
            term, src = ".error .other", f"unreadable: {exc}"
        break
    a0 = "int_const_expr0" if "int_const_expr0" in term else "_int_const_expr0"
    a1 = "int_const_expr1" if "int_const_expr1" in term else "_int_const_expr1"
    out.append("/-- `int_const_expr RANGE int_const_expr`: the value stored under \"length\" (\"address\" is the first operand) -/")
    out.append(f"def rangeLength ({a0} : Int) ({a1} : Int) : PyRes Int :=\n  {term}\n")
    meta["rules"]["rangeLength"] = {"mode": "evaluated", "cases": {"length": src}}


def unescape_simple_regex(rx: str):
    """Literal text of a regex that matches exactly one string (escaped punctuation only), else None."""
    out, i = [], 0
    while i < len(rx):
        c = rx[i]
        if c == "\\" and i + 1 < len(rx) and not rx[i + 1].isalnum():
            out.append(rx[i + 1])
            i += 2
        elif c in ".^$*+?{}[]|()\\":
            return None
        else:
            out.append(c)
            i += 1
    return "".join(out)


def gen_BdGrammar() -> None:
    meta = {"rules": {}, "source": [PARSER, LEXER]}
    out = ["import SpsdkVerif.Base.PyInt", "", "namespace SpsdkVerif.Generated.BdGrammar", "open SpsdkVerif", ""]
    try:
        ptree = parse(PARSER)
        pcls = class_def(ptree, "BDParser")
        rules = rule_methods(pcls)
    except (OSError, SyntaxError, Untr) as exc:
        meta["error"] = str(exc)
        rules, pcls, ptree = [], None, None
    try:
        ltree = parse(LEXER)
        lcls = class_def(ltree, "BDLexer")
    except (OSError, SyntaxError, Untr) as exc:
        meta["lexer_error"] = str(exc)
        lcls, ltree = None, None

    penv = lenv = None
    try:
        penv = ModuleEnv(ptree) if pcls is not None else None
        lenv = ModuleEnv(ltree) if lcls is not None else None
    except Exception as exc:  # noqa: BLE001
        meta["consteval_error"] = str(exc)

    # ---- precedence tuple (by value: names of constants, concatenated tuples … all give the same table)
    prec = []
    if penv is not None:
        try:
            val = penv.cls("BDParser").value("precedence")
            prec = [(str(row[0]), [str(t) for t in row[1:]]) for row in val]
        except (NotConst, ValueError, IndexError, TypeError) as exc:
            meta["precedence_error"] = str(exc)
            prec = []
    out.append("/-- `BDParser.precedence`: (associativity, tokens), lowest precedence first. -/")
    out.append("def precedence : List (String × List String) :=\n  [" + ",\n   ".join(
        f"({lstr(a)}, [{', '.join(lstr(t) for t in ts)}])" for a, ts in prec) + "]\n")
    meta["precedence"] = prec

    # ---- lexer: literal text of simple tokens (definition order = matching priority), the two quoted-literal regexes
    toktext = []
    string_rx, int_rx = None, None
    if lcls is not None and lenv is not None:
        for n in lcls.body:
            tgt = None
            if isinstance(n, ast.Assign) and len(n.targets) == 1 and isinstance(n.targets[0], ast.Name):
                tgt, vnode = n.targets[0].id, n.value
            elif isinstance(n, ast.AnnAssign) and isinstance(n.target, ast.Name) and n.value is not None:
                tgt, vnode = n.target.id, n.value
            if tgt is not None and tgt.isupper():
                try:
                    rx = lenv.eval(vnode, cls="BDLexer")
                except NotConst:
                    rx = None
                if isinstance(rx, str):
                    if tgt == "STRING_LITERAL":
                        string_rx = rx
                    lit = unescape_simple_regex(rx)
                    if lit is not None:
                        toktext.append((tgt, lit))
            if isinstance(n, ast.FunctionDef) and n.name == "INT_LITERAL":
                for d in n.decorator_list:
                    if isinstance(d, ast.Call) and d.args:
                        try:
                            v = lenv.eval(d.args[0], cls="BDLexer")
                            int_rx = v if isinstance(v, str) else None
                        except NotConst:
                            int_rx = None
            if isinstance(n, ast.FunctionDef) and n.name == "STRING_LITERAL":
                for d in n.decorator_list:
                    if isinstance(d, ast.Call) and d.args:
                        try:
                            v = lenv.eval(d.args[0], cls="BDLexer")
                            string_rx = v if isinstance(v, str) else None
                        except NotConst:
                            string_rx = None
    reserved = []
    if lenv is not None:
        try:
            reserved = sorted((str(k), str(v)) for k, v in lenv.cls("BDLexer").value("reserved").items())
        except (NotConst, ValueError, AttributeError, TypeError) as exc:
            meta["reserved_error"] = str(exc)
            reserved = []
    out.append("/-- `BDLexer.reserved`: keyword text -> token name (a dict that is only looked up: sorted by keyword) -/")
    out.append("def reserved : List (String × String) :=\n  [" + ", ".join(f"({lstr(a)}, {lstr(b)})" for a, b in reserved) + "]\n")
    meta["reserved"] = reserved
    out.append("/-- lexer tokens defined by a regex matching exactly one text, in definition order (= matching priority) -/")
    out.append("def tokenText : List (String × String) :=\n  [" + ", ".join(f"({lstr(a)}, {lstr(b)})" for a, b in toktext) + "]\n")
    # greedy or not is decided by what the regex matches, not by how it is spelt
    s_ng = _first_quote_only(string_rx, '"')
    c_ng = _first_quote_only(int_rx, "'")
    out.append("/-- the STRING_LITERAL regex stops at the FIRST closing quote (probed: `\"a\" \"b\"` matches `\"a\"`) -/")
    out.append(f"def stringLiteralNonGreedy : Bool := {'true' if s_ng else 'false'}")
    out.append("/-- the quoted alternative of the INT_LITERAL regex stops at the first closing quote -/")
    out.append(f"def charLiteralNonGreedy : Bool := {'true' if c_ng else 'false'}\n")
    # ---- single-character literals, ignored characters, and the regex rules probed by VALUE (what each rule's regex matches at
    #      the start of a probe text, and what its action makes of the matched text) - a re-spelt regex gives the same table
    out.append(_gen_lexer_probes(lcls, lenv, meta))
    meta["tokenText"] = toktext
    meta["stringLiteralRegex"] = string_rx
    meta["intLiteralRegex"] = int_rx
    text_of = dict(toktext)

    # ---- productions of the expression rules
    prods = {}
    for nm, ps, _fn in rules:
        if nm in ("expr", "bool_expr", "unary_expr", "const_expr", "int_const_expr"):
            prods.setdefault(nm, []).extend(ps)
    out.append("/-- productions (decorator strings) of the expression rules, in source order -/")
    out.append("def productions : List (String × List String) :=\n  [" + ",\n   ".join(
        f"({lstr(k)}, [{', '.join(lstr(p) for p in v)}])" for k, v in prods.items()) + "]\n")
    meta["productions"] = prods

    # ---- rule actions
    gen_actions(out, meta, ptree if pcls is not None else None, pcls, rules, text_of)

    # ---- defined(IDENT)
    out.append(_gen_defined(rules, lcls, meta))
    # ---- identifier lookup
    out.append(_gen_lookup(rules, meta))
    # ---- erase constants
    out.append(_gen_erase(rules, meta, ptree if pcls is not None else None, pcls, dict((v, k) for k, v in reserved)))

    out.append("end SpsdkVerif.Generated.BdGrammar")
    emit("BdGrammar", "\n".join(out) + "\n", meta)


RULE_PROBES = {
    "IDENT": ["abc", "_a1 b", "a-b", "9a", "Z", "a.b", "x9_y;", "-a", "a$", " a"],
    "SECTION_NAME": ["$a", "$sec_[ab] x", "$math*;", "$", "$ a", "$.text", "$a-b^c?,", "$$", "a$b", "$a/b"],
    "COMMENT": ["// x\ny", "# c", "#", "/* a */ b", "/* a \n b */c", "/* a", "/", "/*/ */", "/**/x", "//", "a//", "/ /", "#\n#"],
    "newline": ["\n", "\n\n", " \n", "a"],
}
INT_PROBES = ["0", "7 ", "10;", "1K", "64K ", "1KB", "0x10", "0XfF,", "0x", "0xg", "08", "007", "000", "12ab", "1.5", "1_0", "0x1K",
              "1k", "4096", "0xDEADbeef)", "'a'", "'dude' x", "''", "'a", "'a'b'", "9K9", "x1", "0b11", "1M", "1G"]
BLOB_PROBES = ["{{aa bb}}", "{{ }}", "{{}}", "{{a}}", "{{aabb 1F3c}} x", "{{aa}", "{{a b}}", "{{aa  bb }}", "{{gg}}", "{a}", "{{AA}}}",
               "{{ 0 1 }}"]
SIZE_PROBES = ["1.b", "f.h", "F.w", "g.b", "1.x", "1 b", "..b", "9.w", "a.B", "_.b", "1,b", "A.h"]
_SAFE_BUILTINS = {"int": int, "bytearray": bytearray, "bytes": bytes, "len": len, "str": str, "ord": ord, "list": list,
                  "isinstance": isinstance, "range": range, "ValueError": ValueError}


def _rule_regexes(lcls, lenv):
    """regex of every rule written as a decorated method, by value"""
    out = {}
    for n in lcls.body:
        if isinstance(n, ast.FunctionDef):
            for d in n.decorator_list:
                if isinstance(d, ast.Call) and d.args:
                    try:
                        v = lenv.eval(d.args[0], cls="BDLexer")
                    except NotConst:
                        v = None
                    if isinstance(v, str):
                        out[n.name] = (v, n)
    return out


_ACTION_GLOBALS = {}     # module-level constants of the lexer module, by value (a named constant such as KILO_MULTIPLIER = 1 << 10 is a spelling)


def _module_constants(tree, env):
    out = {}
    if tree is None or env is None:
        return out
    for n in tree.body:
        tgt = None
        if isinstance(n, ast.Assign) and len(n.targets) == 1 and isinstance(n.targets[0], ast.Name):
            tgt, val = n.targets[0].id, n.value
        elif isinstance(n, ast.AnnAssign) and isinstance(n.target, ast.Name) and n.value is not None:
            tgt, val = n.target.id, n.value
        if tgt:
            try:
                v = env.eval(val)
            except Exception:  # noqa: BLE001
                continue
            if isinstance(v, (int, str, bytes, bool, float, tuple)):
                out[tgt] = v
    return out


def _run_action(fn_node, text):
    """value a rule's action gives to the matched text (the method body run on a stand-in token); None where it raises"""
    import copy
    import types
    fn = copy.deepcopy(fn_node)
    fn.decorator_list = []
    fn.returns = None
    for a in fn.args.args + fn.args.kwonlyargs:
        a.annotation = None
    mod = ast.Module(body=[fn], type_ignores=[])
    ast.fix_missing_locations(mod)
    ns = {}
    try:
        exec(compile(mod, "<rule>", "exec"), {"__builtins__": dict(_SAFE_BUILTINS), **_ACTION_GLOBALS}, ns)  # noqa: S102
        tok = types.SimpleNamespace(value=text, type=fn.name)
        r = ns[fn.name](types.SimpleNamespace(lineno=1, index=0), tok)
        return None if r is None else r.value
    except Exception:  # noqa: BLE001
        return None


def _match_len(rx, text, pos=0):
    try:
        m = re.compile(rx).match(text, pos)
    except re.error:
        return None
    return None if m is None else m.end() - pos


def _gen_lexer_probes(lcls, lenv, meta):
    out = []
    lits, ignore = [], ""
    rules = {}
    if lcls is not None and lenv is not None:
        try:
            lits = sorted(str(x) for x in lenv.cls("BDLexer").value("literals"))
        except Exception as exc:  # noqa: BLE001
            meta["literals_error"] = str(exc)
        try:
            ignore = str(lenv.cls("BDLexer").value("ignore"))
        except Exception as exc:  # noqa: BLE001
            meta["ignore_error"] = str(exc)
        rules = _rule_regexes(lcls, lenv)
        _ACTION_GLOBALS.clear()
        _ACTION_GLOBALS.update(_module_constants(getattr(lenv, "tree", None), lenv))
    out.append("/-- `BDLexer.literals`: single characters that are their own token type (sorted) -/")
    out.append("def literals : List String := [" + ", ".join(lstr(x) for x in lits) + "]")
    out.append("/-- `BDLexer.ignore`: characters skipped between tokens (sorted) -/")
    out.append("def ignoreChars : List String := [" + ", ".join(lstr(x) for x in sorted(set(ignore))) + "]\n")

    def opt(v, f):
        return "none" if v is None else f"some {f(v)}"
    # rules without a value: (rule, probe text, length the regex matches at the start of the text)
    rows = []
    for rule in sorted(RULE_PROBES):
        rx = rules.get(rule, (None, None))[0]
        for t in RULE_PROBES[rule]:
            ln = _match_len(rx, t) if rx is not None else None
            rows.append(f"({lstr(rule)}, {lstr(t)}, {opt(ln, str)})")
    out.append("/-- what the regex of a lexer rule matches at the start of a probe text (length; `none` = no match), computed by Python's "
               "`re` from the CURRENT regex -/")
    out.append("def ruleProbes : List (String × String × Option Nat) :=\n  [" + ",\n   ".join(rows) + "]\n")
    # INT_LITERAL: matched length and the value the action computes (none = the action raises)
    rx, fn = rules.get("INT_LITERAL", (None, None))
    rows = []
    for t in INT_PROBES:
        ln = _match_len(rx, t) if rx is not None else None
        if ln is None:
            rows.append(f"({lstr(t)}, none)")
        else:
            v = _run_action(fn, t[:ln])
            v = v if isinstance(v, int) and not isinstance(v, bool) and v >= 0 else None
            rows.append(f"({lstr(t)}, some ({ln}, {opt(v, str)}))")
    out.append("/-- INT_LITERAL: length matched at the start of the probe and the number the rule's action makes of it "
               "(inner `none` = the action raises) -/")
    out.append("def intLiteralProbes : List (String × Option (Nat × Option Nat)) :=\n  [" + ",\n   ".join(rows) + "]\n")
    rx, fn = rules.get("BINARY_BLOB", (None, None))
    rows = []
    for t in BLOB_PROBES:
        ln = _match_len(rx, t) if rx is not None else None
        if ln is None:
            rows.append(f"({lstr(t)}, none)")
        else:
            v = _run_action(fn, t[:ln])
            rows.append(f"({lstr(t)}, some ({ln}, {lstr(v if isinstance(v, str) else '?')}))")
    out.append("/-- BINARY_BLOB: length matched and the token value (hexadecimal digits) -/")
    out.append("def blobProbes : List (String × Option (Nat × String)) :=\n  [" + ",\n   ".join(rows) + "]\n")
    # INT_SIZE: three characters `p2 p1 c`; does the rule match at c (look-behind on p2 p1)?
    rx = rules.get("INT_SIZE", (None, None))[0]
    rows = []
    for t in SIZE_PROBES:
        ln = _match_len(rx, t, 2) if rx is not None else None
        rows.append(f"({lstr(t)}, {'true' if ln == 1 else 'false'})")
    out.append("/-- INT_SIZE: the rule tried at the third character of the probe (the first two are the look-behind context) -/")
    out.append("def intSizeProbes : List (String × Bool) :=\n  [" + ", ".join(rows) + "]\n")
    meta["lexerRules"] = {k: v[0] for k, v in sorted(rules.items())}
    return "\n".join(out)


def _first_quote_only(rx, q):
    """does the regex, applied where a quoted literal starts, stop at the first closing quote?  (probes, not spelling)"""
    if not isinstance(rx, str):
        return False
    try:
        cre = re.compile(rx)
    except re.error:
        return False
    probes = [(f"{q}a{q} {q}b{q}", f"{q}a{q}"), (f"{q}{q} + {q}xy{q};", f"{q}{q}"), (f"{q}a b{q}, {q}c{q}, {q}d{q}", f"{q}a b{q}")]
    for text, want in probes:
        m = cre.match(text)
        if m is None or m.group(0) != want:
            return False
    return True


def _has_eq(lcls, name="Variable"):
    return False


def _gen_defined(rules, lcls, meta):
    """`defined(IDENT)`: membership of the identifier among the names of the defined variables.

    Recognised shapes of the returned expression:
      any(<v>.name == token.IDENT for <v> in self._variables)       -> names.contains ident
      token.IDENT in [<v>.name for <v> in self._variables]          -> names.contains ident
      token.IDENT in self._variables   (str compared with Variable objects; class Variable defines no __eq__)
                                                                     -> false
    """
    hdr = "/-- `DEFINED ( IDENT )`: `names` = names of the variables (options and constants) defined so far -/\n"
    try:
        prods, fn = find_rule(rules, "bool_expr", "DEFINED LPAREN IDENT RPAREN")
        body = body_wo_doc(fn)
        if len(body) != 1 or not isinstance(body[0], ast.Return):
            raise Untr("body is not a single return")
        e = body[0].value
        src = ast.unparse(e)

        def is_vars(x):
            return ast.unparse(x) == "self._variables"

        def name_cmp(x, var):
            return isinstance(x, ast.Compare) and len(x.ops) == 1 and isinstance(x.ops[0], ast.Eq) and \
                {ast.unparse(x.left), ast.unparse(x.comparators[0])} == {f"{var}.name", "token.IDENT"}

        term = None
        if isinstance(e, ast.Call) and ast.unparse(e.func) == "any" and len(e.args) == 1 and isinstance(e.args[0], ast.GeneratorExp):
            g = e.args[0]
            if len(g.generators) == 1 and not g.generators[0].ifs and is_vars(g.generators[0].iter) and \
                    isinstance(g.generators[0].target, ast.Name) and name_cmp(g.elt, g.generators[0].target.id):
                term = "names.contains ident"
        if term is None and isinstance(e, ast.Compare) and len(e.ops) == 1 and isinstance(e.ops[0], ast.In) and ast.unparse(e.left) == "token.IDENT":
            c = e.comparators[0]
            if is_vars(c):
                # a str is never equal to a Variable instance unless Variable defines __eq__
                lex = parse(LEXER)
                var_cls = class_def(lex, "Variable")
                if any(isinstance(n, ast.FunctionDef) and n.name == "__eq__" for n in var_cls.body):
                    raise Untr("Variable.__eq__ is defined")
                term = "false  -- a `str` is never `==` to a `Variable` object (class Variable defines no __eq__)"
            elif isinstance(c, ast.ListComp) and len(c.generators) == 1 and is_vars(c.generators[0].iter) and \
                    isinstance(c.generators[0].target, ast.Name) and ast.unparse(c.elt) == f"{c.generators[0].target.id}.name":
                term = "names.contains ident"
        if term is None:
            raise Untr(f"unrecognised shape: {src}")
        meta["rules"]["definedRule"] = {"mode": "translated", "line": fn.lineno, "source": src}
        return hdr + f"def definedRule (names : List String) (ident : String) : Bool :=\n  {term}\n"
    except (Untr, OSError, SyntaxError) as exc:
        meta["rules"]["definedRule"] = {"mode": "untranslatable", "reason": str(exc)}
        return hdr + f"-- untranslatable: {exc}\ndef definedRule (_names : List String) (ident : String) : Bool :=\n  ident == \"\\u0000opaque\"\n"


def _gen_lookup(rules, meta):
    """`expr : IDENT`: which of several definitions of one name is used (first / last), else the identifier itself (a str)."""
    hdr = "/-- `expr : IDENT`: which of several definitions of one name is used (`true` = the first, `false` = the last) -/\n"
    try:
        prods, fn = find_rule(rules, "expr", "IDENT")
        body = body_wo_doc(fn)
        shape = (len(body) == 2 and isinstance(body[0], ast.For)
                 and isinstance(body[0].target, ast.Name) and len(body[0].body) == 1 and isinstance(body[0].body[0], ast.If)
                 and not body[0].orelse and not body[0].body[0].orelse
                 and ast.unparse(body[0].body[0].test) in (f"{body[0].target.id}.name == token.IDENT", f"token.IDENT == {body[0].target.id}.name")
                 and len(body[0].body[0].body) == 1 and isinstance(body[0].body[0].body[0], ast.Return)
                 and ast.unparse(body[0].body[0].body[0].value) == f"{body[0].target.id}.value"
                 and isinstance(body[1], ast.Return) and ast.unparse(body[1].value) == "token.IDENT")
        it = ast.unparse(body[0].iter) if shape else ""
        if it == "self._variables":
            first = True
        elif it in ("reversed(self._variables)", "self._variables[::-1]"):
            first = False
        else:
            raise Untr("unrecognised shape of the IDENT rule")
        meta["rules"]["lookup"] = {"mode": "translated", "line": fn.lineno, "first_wins": first}
        return hdr + f"def lookupFirstWins : Bool := {'true' if first else 'false'}\n/-- the IDENT rule is a plain search of `_variables` by name (undefined: the identifier itself, a str) -/\ndef lookupRecognised : Bool := true\n"
    except Untr as exc:
        meta["rules"]["lookup"] = {"mode": "untranslatable", "reason": str(exc)}
        return hdr + f"-- untranslatable: {exc}\ndef lookupFirstWins : Bool := true\ndef lookupRecognised : Bool := false\n"


def _find_erase_dict(v, depth=0):
    if isinstance(v, dict) and depth < 4:
        if "address" in v and "flags" in v:
            return v
        for x in v.values():
            r = _find_erase_dict(x, depth + 1)
            if r is not None:
                return r
    return None


def _gen_erase(rules, meta, ptree, pcls, kw_text):
    """operands of `erase … all` / `erase unsecure all`, read BY VALUE: the rule method is evaluated, so named constants, `0x01` or `1`
    and a dict built in several steps all give the same numbers"""
    vals = {"eraseAllAddress": None, "eraseAllFlags": None, "eraseUnsecureAllAddress": None, "eraseUnsecureAllFlags": None}
    why = {}
    for nm, prods, fn in rules:
        if nm != "erase_stmt":
            continue
        which = "eraseAll" if "ERASE mem_opt ALL" in prods else "eraseUnsecureAll" if "ERASE UNSECURE ALL" in prods else None
        if which is None:
            continue
        try:
            pairs = {f".{name}": kw_text[name] for name in ("ERASE", "ALL", "UNSECURE") if name in kw_text}
            if "ERASE" in kw_text:
                pairs["[0]"] = kw_text["ERASE"]
            pe = PE(ptree, pcls, _bind(fn, pairs))
            d = _find_erase_dict(pe.run(body_wo_doc(fn)))
            if d is None:
                raise Untr("the rule does not deliver a dict with \"address\" and \"flags\"")
            for key, suffix in (("address", "Address"), ("flags", "Flags")):
                v = d[key]
                if isinstance(v, bool) or not isinstance(v, int):
                    raise Untr(f"\"{key}\" is not a constant integer")
                vals[which + suffix] = int(v)
        except Untr as exc:
            why[which] = str(exc)
    meta["erase"] = dict(vals, **({"unreadable": why} if why else {}))
    lines = ["/-- operands of `erase … all` / `erase unsecure all` (-1 = not readable from the source) -/"]
    for k, v in vals.items():
        lines.append(f"def {k} : Int := {v if v is not None else -1}")
    return "\n".join(lines) + "\n"


GENERATORS = {"BdGrammar": gen_BdGrammar}
