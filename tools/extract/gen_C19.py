"""C19: Generated/BdGrammar.lean from spsdk/sbfile/sb2/sly_bd_parser.py + sly_bd_lexer.py (pure `ast` reading).

What is generated (everything the C19 theorems quantify over):
  * `precedence`                 - the `precedence` tuple of BDParser (assoc, token names), lowest level first
  * `tokenText`                  - lexer token name -> literal text for the operator tokens (regex un-escaped)
  * `productions`                - rule name -> list of productions (the decorator strings) for expr/bool_expr/unary_expr
  * `exprRule`                   - body of the big `expr` rule (binary operators + int-size suffix) as a Lean function
  * `boolRule`                   - body of the big `bool_expr` rule (comparisons, &&, ||)
  * `unaryRule`, `lnotRule`      - bodies of `unary_expr` and `LNOT bool_expr`
  * `definedRule`                - body of `DEFINED ( IDENT )`
  * `rangeLength`                - the `length = ...` expression of `int_const_expr RANGE int_const_expr`
  * `eraseAllFlags`, `eraseUnsecureAllFlags`, `eraseAllAddress` - dict literals of the erase rules
  * `stringLiteralRegex`, `charLiteralRegex` - the two quoted-literal regexes of the lexer (greedy or not)

The rule bodies are translated by a small dedicated translator (`RuleTr`); values are Python ints (Lean `Int`,
booleans as 0/1 - Python's `True == 1`), operator/letter tokens are strings.  Whatever it cannot translate becomes an
opaque stand-in returning `.error .other` for every input, so that the theorems about that rule FAIL instead of
silently passing, and the reason is recorded in the meta file.
"""
from __future__ import annotations

import ast
import re

from extract import emit, parse

try:
    from consteval import ModuleEnv, NotConst
except ImportError:  # pragma: no cover
    ModuleEnv, NotConst = None, Exception

PARSER = "spsdk/sbfile/sb2/sly_bd_parser.py"
LEXER = "spsdk/sbfile/sb2/sly_bd_lexer.py"


class Untr(Exception):
    pass


def lstr(s: str) -> str:
    out = []
    for ch in s:
        if ch == "\\":
            out.append("\\\\")
        elif ch == '"':
            out.append('\\"')
        elif ch == "\n":
            out.append("\\n")
        elif 32 <= ord(ch) < 127:
            out.append(ch)
        else:
            out.append("\\u{%x}" % ord(ch))
    return '"' + "".join(out) + '"'


def class_def(tree, name):
    for n in tree.body:
        if isinstance(n, ast.ClassDef) and n.name == name:
            return n
    raise Untr(f"class {name} not found")


def rule_methods(cls):
    """[(name, [production strings], FunctionDef)] in source order (sly rules: `@_("...", ...)` decorated)."""
    out = []
    for n in cls.body:
        if isinstance(n, ast.FunctionDef):
            prods = []
            for d in n.decorator_list:
                if isinstance(d, ast.Call) and isinstance(d.func, ast.Name) and d.func.id == "_":
                    for a in d.args:
                        if isinstance(a, ast.Constant) and isinstance(a.value, str):
                            prods.append(a.value)
            if prods:
                out.append((n.name, prods, n))
    return out


def find_rule(rules, name, having):
    for nm, prods, fn in rules:
        if nm == name and having in prods:
            return prods, fn
    raise Untr(f"rule {name} with production '{having}' not found")


def body_wo_doc(fn):
    b = list(fn.body)
    if b and isinstance(b[0], ast.Expr) and isinstance(b[0].value, ast.Constant) and isinstance(b[0].value.value, str):
        b = b[1:]
    return b


# ------------------------------------------------------------------------------------------------ rule translator
class RuleTr:
    """Translate a rule body to a Lean term of type `PyRes Int`.

    `names`: python source expression (as unparsed text, e.g. 'token.expr0', 'token[1]') -> (lean term, type)
             with type 'Int' or 'Str'.  Local assignments extend it.
    Supported statements: `x = <expr>`, `if <test>: ... [elif/else]`, `return <expr>`.
    Supported expressions: names from `names`, int constants, string constants, + - * // % << >> & | ^ on ints,
    unary -, +, `not`, comparisons (< <= > >= == !=) on ints or strings, `and`/`or` on ints.
    A `return` of a string-typed value (e.g. `return token[1]` = the operator text) is `.error .other`: the rule does not
    deliver an integer there.
    """

    def __init__(self, names):
        self.names = dict(names)
        self.tmp = 0

    # expressions: return (term, type, partial) ; partial terms have type PyRes Int, others Int/String/Bool
    def expr(self, e):
        key = ast.unparse(e)
        if key in self.names:
            t, ty = self.names[key]
            return t, ty, False
        # a sub-expression built from integer literals only is folded (`(1 << 32) - 1` and `0xFFFFFFFF` are the same constant)
        folded = _fold_const(e)
        if folded is not None and not isinstance(e, ast.Constant):
            return f"({folded} : Int)", "Int", False
        if isinstance(e, ast.Constant):
            if isinstance(e.value, bool):
                return ("1" if e.value else "0"), "Int", False
            if isinstance(e.value, int):
                return f"({e.value} : Int)", "Int", False
            if isinstance(e.value, str):
                return lstr(e.value), "Str", False
            raise Untr(f"constant {e.value!r}")
        if isinstance(e, ast.BinOp):
            a = self.total_int(e.left)
            b = self.total_int(e.right)
            op = type(e.op)
            tot = {ast.Add: "({a} + {b})", ast.Sub: "({a} - {b})", ast.Mult: "({a} * {b})",
                   ast.BitAnd: "(intAnd {a} {b})", ast.BitOr: "(intOr {a} {b})", ast.BitXor: "(intXor {a} {b})"}
            par = {ast.FloorDiv: "(pyDivE {a} {b})", ast.Mod: "(pyModE {a} {b})",
                   ast.LShift: "(pyShlE {a} {b})", ast.RShift: "(pyShrE {a} {b})"}
            if op in tot:
                return tot[op].format(a=a, b=b), "Int", False
            if op in par:
                return par[op].format(a=a, b=b), "Int", True
            raise Untr(f"binary operator {op.__name__}")
        if isinstance(e, ast.UnaryOp):
            if isinstance(e.op, ast.USub):
                return f"(- {self.total_int(e.operand)})", "Int", False
            if isinstance(e.op, ast.UAdd):
                return self.total_int(e.operand), "Int", False
            if isinstance(e.op, ast.Not):
                return f"(pyNotI {self.total_int(e.operand)})", "Int", False
            raise Untr("unary operator")
        if isinstance(e, ast.Compare):
            if len(e.ops) != 1:
                raise Untr("chained comparison")
            a, ta, pa = self.expr(e.left)
            b, tb, pb = self.expr(e.comparators[0])
            if pa or pb or ta != tb:
                raise Untr("comparison operands")
            op = type(e.ops[0])
            if ta == "Str":
                sym = {ast.Eq: "==", ast.NotEq: "!="}.get(op)
                if sym is None:
                    raise Untr("string ordering")
                return f"(pyBoolInt ({a} {sym} {b}))", "Int", False
            sym = {ast.Lt: "<", ast.LtE: "≤", ast.Gt: ">", ast.GtE: "≥", ast.Eq: "=", ast.NotEq: "≠"}.get(op)
            if sym is None:
                raise Untr("comparison operator")
            return f"(pyBoolInt (decide ({a} {sym} {b})))", "Int", False
        if isinstance(e, ast.BoolOp):
            if len(e.values) != 2:
                raise Untr("n-ary and/or")
            a = self.total_int(e.values[0])
            b = self.total_int(e.values[1])
            fn = "pyAndI" if isinstance(e.op, ast.And) else "pyOrI"
            return f"({fn} {a} {b})", "Int", False
        raise Untr(f"expression {type(e).__name__}: {key}")

    def total_int(self, e):
        t, ty, partial = self.expr(e)
        if partial or ty != "Int":
            raise Untr(f"nested partial/non-int operand: {ast.unparse(e)}")
        return t

    def test(self, e):
        """Condition of an `if` -> Lean Bool term."""
        if isinstance(e, ast.Compare) and len(e.ops) == 1:
            a, ta, pa = self.expr(e.left)
            b, tb, pb = self.expr(e.comparators[0])
            if not pa and not pb and ta == tb == "Str" and isinstance(e.ops[0], (ast.Eq, ast.NotEq)):
                return f"({a} {'==' if isinstance(e.ops[0], ast.Eq) else '!='} {b})"
        t = self.total_int(e)
        return f"(pyTruthy {t})"

    def block(self, stmts, indent="  "):
        if not stmts:
            # falling off the end returns None: not an integer
            return ".error .other"
        s, rest = stmts[0], stmts[1:]
        if isinstance(s, ast.Return):
            if s.value is None:
                return ".error .other"
            t, ty, partial = self.expr(s.value)
            if ty != "Int":
                return ".error .other"
            return t if partial else f".ok {t}"
        if isinstance(s, ast.Assign) and len(s.targets) == 1 and isinstance(s.targets[0], ast.Name):
            t, ty, partial = self.expr(s.value)
            if partial:
                raise Untr("assignment of a partial expression")
            name = s.targets[0].id
            saved = self.names.get(name)
            # a plain re-binding: later uses see the new term (terms are small)
            self.names[name] = (t, ty)
            out = self.block(rest, indent)
            if saved is None:
                del self.names[name]
            else:
                self.names[name] = saved
            return out
        if isinstance(s, ast.If):
            c = self.test(s.test)
            saved = dict(self.names)
            th = self.block(list(s.body) + ([] if _terminates(s.body) else rest), indent + "  ")
            self.names = dict(saved)
            el_body = list(s.orelse)
            el = self.block(el_body + ([] if (el_body and _terminates(el_body)) else rest), indent)
            self.names = saved
            return f"if {c} then {th}\n{indent}else {el}"
        if isinstance(s, ast.Expr) and isinstance(s.value, ast.Constant):
            return self.block(rest, indent)
        if isinstance(s, ast.Pass):
            return self.block(rest, indent)
        raise Untr(f"statement {type(s).__name__}: {ast.unparse(s)[:60]}")


def _fold_const(e):
    """value of an expression made of int literals and + - * // % << >> & | ^ unary - + only, else None"""
    if isinstance(e, ast.Constant):
        return e.value if isinstance(e.value, int) and not isinstance(e.value, bool) else None
    if isinstance(e, ast.UnaryOp) and isinstance(e.op, (ast.USub, ast.UAdd)):
        v = _fold_const(e.operand)
        return None if v is None else (-v if isinstance(e.op, ast.USub) else v)
    if isinstance(e, ast.BinOp):
        a, b = _fold_const(e.left), _fold_const(e.right)
        if a is None or b is None:
            return None
        try:
            if isinstance(e.op, ast.Add):
                return a + b
            if isinstance(e.op, ast.Sub):
                return a - b
            if isinstance(e.op, ast.Mult):
                return a * b
            if isinstance(e.op, ast.FloorDiv):
                return a // b if b else None
            if isinstance(e.op, ast.Mod):
                return a % b if b else None
            if isinstance(e.op, ast.LShift):
                return a << b if 0 <= b <= 4096 else None
            if isinstance(e.op, ast.RShift):
                return a >> b if 0 <= b <= 4096 else None
            if isinstance(e.op, ast.BitAnd):
                return a & b
            if isinstance(e.op, ast.BitOr):
                return a | b
            if isinstance(e.op, ast.BitXor):
                return a ^ b
        except (OverflowError, ValueError):
            return None
    return None


def _terminates(stmts):
    if not stmts:
        return False
    last = stmts[-1]
    if isinstance(last, ast.Return):
        return True
    if isinstance(last, ast.If):
        return _terminates(last.body) and bool(last.orelse) and _terminates(last.orelse)
    return False



# ------------------------------------------------------------------------------------------------ partial evaluator
# A rule action is read SEMANTICALLY: its body is executed by a small partial evaluator in which everything that selects the
# behaviour (the operator text, the size letter, module-level tables, imported `operator.*` functions, locals derived from them) is
# concrete and only the operand values are symbolic.  The result for one concrete operator is a residual expression over the
# operands (`token.expr0 + token.expr1`, `token[0] & 4294967295`).  An if-chain, an elif-chain, early returns, a `match` statement or a
# dispatch through a dict of functions therefore all give the same generated action table.

_OPFN = {"add": ast.Add, "sub": ast.Sub, "mul": ast.Mult, "floordiv": ast.FloorDiv, "mod": ast.Mod, "lshift": ast.LShift,
         "rshift": ast.RShift, "and_": ast.BitAnd, "or_": ast.BitOr, "xor": ast.BitXor,
         "lt": ast.Lt, "le": ast.LtE, "gt": ast.Gt, "ge": ast.GtE, "eq": ast.Eq, "ne": ast.NotEq,
         "neg": ast.USub, "pos": ast.UAdd, "not_": ast.Not}


class OpFn:
    """a function of the `operator` module (or a builtin) known by meaning"""
    def __init__(self, name):
        self.name, self.op = name, _OPFN[name]


class Lam:
    def __init__(self, node, pe_env):
        self.node, self.env = node, pe_env


class Res:
    """residual (symbolic) integer expression"""
    def __init__(self, node):
        self.node = node


class Unk:
    """a value the evaluator knows nothing about (only allowed where it is stored, never where it is used)"""
    def __init__(self, why):
        self.why = why


class _Return(Exception):
    def __init__(self, value):
        self.value = value


class PE:
    def __init__(self, module_tree, cls_node, bindings):
        """bindings: unparsed source expression -> concrete python value or Res"""
        self.tree, self.cls_node = module_tree, cls_node
        try:
            self.menv = ModuleEnv(module_tree) if ModuleEnv is not None else None
        except Exception:  # noqa: BLE001
            self.menv = None
        self.bind = dict(bindings)
        self.locals = {}
        self.mod_nodes, self.imports, self.opmods = {}, {}, set()
        for st in module_tree.body:
            if isinstance(st, ast.ImportFrom) and st.module == "operator":
                for a in st.names:
                    if a.name in _OPFN:
                        self.imports[a.asname or a.name] = OpFn(a.name)
            elif isinstance(st, ast.Import):
                for a in st.names:
                    if a.name == "operator":
                        self.opmods.add(a.asname or a.name)
            elif isinstance(st, ast.Assign) and len(st.targets) == 1 and isinstance(st.targets[0], ast.Name):
                self.mod_nodes[st.targets[0].id] = st.value
            elif isinstance(st, ast.AnnAssign) and isinstance(st.target, ast.Name) and st.value is not None:
                self.mod_nodes[st.target.id] = st.value
        self.cls_nodes = {}
        for st in (cls_node.body if cls_node is not None else []):
            if isinstance(st, ast.Assign) and len(st.targets) == 1 and isinstance(st.targets[0], ast.Name):
                self.cls_nodes[st.targets[0].id] = st.value
            elif isinstance(st, ast.AnnAssign) and isinstance(st.target, ast.Name) and st.value is not None:
                self.cls_nodes[st.target.id] = st.value
        self._mod_cache = {}

    # ---------------- helpers
    @staticmethod
    def to_ast(v):
        if isinstance(v, Res):
            return v.node
        if isinstance(v, bool):
            return ast.Constant(value=v)
        if isinstance(v, int):
            return ast.Constant(value=v)
        raise Untr(f"value {v!r} inside an integer expression")

    def module_value(self, name):
        if name in self._mod_cache:
            return self._mod_cache[name]
        node = self.mod_nodes.get(name)
        if node is None:
            raise Untr(f"unknown name {name}")
        saved = self.locals
        self.locals = {}
        try:
            v = self.eval(node)
        finally:
            self.locals = saved
        self._mod_cache[name] = v
        return v

    def apply(self, fn, args):
        if isinstance(fn, OpFn):
            op = fn.op
            if issubclass(op, ast.operator) and len(args) == 2:
                return self.binop(op(), args[0], args[1])
            if issubclass(op, ast.cmpop) and len(args) == 2:
                return self.compare(args[0], [op()], [args[1]])
            if issubclass(op, ast.unaryop) and len(args) == 1:
                return self.unary(op(), args[0])
            raise Untr(f"arity of operator.{fn.name}")
        if isinstance(fn, Lam):
            a = fn.node.args
            if a.vararg or a.kwarg or a.kwonlyargs or a.defaults or len(a.args) != len(args):
                raise Untr("lambda signature")
            saved = self.locals
            self.locals = dict(zip([x.arg for x in a.args], args))
            try:
                return self.eval(fn.node.body)
            finally:
                self.locals = saved
        raise Untr(f"call of {fn!r}")

    def binop(self, op, a, b):
        if isinstance(a, Unk) or isinstance(b, Unk):
            raise Untr("operation on an unreadable value")
        if not isinstance(a, Res) and not isinstance(b, Res):
            if isinstance(a, (int, str)) and isinstance(b, (int, str)):
                try:
                    import operator as _o
                    f = {ast.Add: _o.add, ast.Sub: _o.sub, ast.Mult: _o.mul, ast.FloorDiv: _o.floordiv, ast.Mod: _o.mod, ast.LShift: _o.lshift,
                         ast.RShift: _o.rshift, ast.BitAnd: _o.and_, ast.BitOr: _o.or_, ast.BitXor: _o.xor}.get(type(op))
                    if f is None or (isinstance(op, (ast.LShift, ast.Pow)) and isinstance(b, int) and b > 4096):
                        raise Untr("operator")
                    return f(a, b)
                except Untr:
                    raise
                except Exception as exc:  # noqa: BLE001
                    raise Untr(f"constant operation fails: {exc}") from exc
            raise Untr("operation on non-integers")
        return Res(ast.BinOp(left=self.to_ast(a), op=op, right=self.to_ast(b)))

    def unary(self, op, a):
        if isinstance(a, Unk):
            raise Untr("operation on an unreadable value")
        if not isinstance(a, Res):
            if isinstance(op, ast.Not):
                return not a
            if isinstance(op, ast.USub) and isinstance(a, int):
                return -a
            if isinstance(op, ast.UAdd) and isinstance(a, int):
                return a
            raise Untr("unary operator on a constant")
        return Res(ast.UnaryOp(op=op, operand=a.node))

    def compare(self, left, ops, rights):
        vals = [left] + list(rights)
        if any(isinstance(v, Unk) for v in vals):
            raise Untr("comparison of an unreadable value")
        if not any(isinstance(v, Res) for v in vals):
            cur = left
            for o, r in zip(ops, rights):
                ok = {ast.Eq: lambda x, y: x == y, ast.NotEq: lambda x, y: x != y, ast.Lt: lambda x, y: x < y, ast.LtE: lambda x, y: x <= y,
                      ast.Gt: lambda x, y: x > y, ast.GtE: lambda x, y: x >= y, ast.Is: lambda x, y: x is y, ast.IsNot: lambda x, y: x is not y,
                      ast.In: lambda x, y: x in y, ast.NotIn: lambda x, y: x not in y}.get(type(o))
                if ok is None:
                    raise Untr("comparison operator")
                try:
                    if not ok(cur, r):
                        return False
                except TypeError as exc:
                    raise Untr(str(exc)) from exc
                cur = r
            return True
        # identity / membership tests against a symbolic integer: an int is never None and never a str
        if len(ops) == 1 and isinstance(ops[0], (ast.Is, ast.IsNot)) and (left is None or rights[0] is None):
            return isinstance(ops[0], ast.IsNot)
        if len(ops) == 1 and isinstance(ops[0], (ast.Eq, ast.NotEq)) and (isinstance(left, str) or isinstance(rights[0], str)):
            return isinstance(ops[0], ast.NotEq)
        if len(ops) != 1:
            raise Untr("chained symbolic comparison")
        return Res(ast.Compare(left=self.to_ast(left), ops=[ops[0]], comparators=[self.to_ast(rights[0])]))

    # ---------------- expressions
    def eval(self, e):
        key = ast.unparse(e)
        if key in self.bind:
            return self.bind[key]
        if isinstance(e, ast.Constant):
            return e.value
        if isinstance(e, ast.Name):
            if e.id in self.locals:
                return self.locals[e.id]
            if e.id in self.imports:
                return self.imports[e.id]
            if e.id in ("True", "False", "None"):
                return {"True": True, "False": False, "None": None}[e.id]
            return self.module_value(e.id)
        if isinstance(e, ast.Attribute):
            if isinstance(e.value, ast.Name) and e.value.id in self.opmods and e.attr in _OPFN:
                return OpFn(e.attr)
            if isinstance(e.value, ast.Name) and e.value.id in ("self", "cls") and e.attr in self.cls_nodes:
                saved = self.locals
                self.locals = {}
                try:
                    return self.eval(self.cls_nodes[e.attr])
                finally:
                    self.locals = saved
            raise Untr(f"attribute {key}")
        if isinstance(e, ast.Dict):
            d = {}
            for k, v in zip(e.keys, e.values):
                if k is None:
                    raise Untr("dict unpacking")
                kk = self.eval(k)
                if isinstance(kk, (Res, Unk, dict, list)):
                    raise Untr("dict key")
                try:
                    d[kk] = self.eval(v)
                except Untr as exc:
                    d[kk] = Unk(str(exc))
            return d
        if isinstance(e, (ast.Tuple, ast.List)):
            vals = [self.eval(x) for x in e.elts]
            return tuple(vals) if isinstance(e, ast.Tuple) else vals
        if isinstance(e, ast.Set):
            return frozenset(self.eval(x) for x in e.elts)
        if isinstance(e, ast.Lambda):
            return Lam(e, None)
        if isinstance(e, ast.BinOp):
            return self.binop(e.op, self.eval(e.left), self.eval(e.right))
        if isinstance(e, ast.UnaryOp):
            return self.unary(e.op, self.eval(e.operand))
        if isinstance(e, ast.Compare):
            return self.compare(self.eval(e.left), e.ops, [self.eval(c) for c in e.comparators])
        if isinstance(e, ast.BoolOp):
            vals = [self.eval(v) for v in e.values]
            if not any(isinstance(v, Res) for v in vals):
                r = vals[0]
                for v in vals[1:]:
                    r = (r and v) if isinstance(e.op, ast.And) else (r or v)
                return r
            return Res(ast.BoolOp(op=e.op, values=[self.to_ast(v) for v in vals]))
        if isinstance(e, ast.IfExp):
            t = self.eval(e.test)
            if isinstance(t, (Res, Unk)):
                raise Untr("symbolic condition")
            return self.eval(e.body) if t else self.eval(e.orelse)
        if isinstance(e, ast.Subscript):
            base = self.eval(e.value)
            idx = self.eval(e.slice)
            if isinstance(base, Res) or isinstance(idx, Res):
                raise Untr(f"subscript {key}")
            try:
                return base[idx]
            except Exception as exc:  # noqa: BLE001
                raise Untr(f"{key}: {type(exc).__name__}") from exc
        if isinstance(e, ast.Call):
            if e.keywords and not (isinstance(e.func, ast.Name) and e.func.id == "dict" and not e.args):
                return self._const_fallback(e)
            args = [self.eval(a) for a in e.args]
            if isinstance(e.func, ast.Attribute) and e.func.attr == "get":
                base = self.eval(e.func.value)
                if isinstance(base, dict) and 1 <= len(args) <= 2 and not isinstance(args[0], Res):
                    try:
                        return base.get(args[0], args[1] if len(args) == 2 else None)
                    except TypeError as exc:
                        raise Untr(str(exc)) from exc
                raise Untr(f"call {key}")
            if isinstance(e.func, ast.Name) and e.func.id == "dict" and "dict" not in self.locals and not e.args:
                d = {}
                for k in e.keywords:
                    if k.arg is None:
                        raise Untr("dict(**…)")
                    try:
                        d[k.arg] = self.eval(k.value)
                    except Untr as exc:
                        d[k.arg] = Unk(str(exc))
                return d
            if isinstance(e.func, ast.Name) and e.func.id in ("int", "bool") and e.func.id not in self.locals and len(args) == 1:
                if not isinstance(args[0], Res):
                    return int(args[0]) if e.func.id == "int" else bool(args[0])
                if e.func.id == "int":
                    return args[0]
                raise Untr("bool() of a symbolic value")
            try:
                fn = self.eval(e.func)
            except Untr:
                return self._const_fallback(e)
            return self.apply(fn, args)
        return self._const_fallback(e)

    def _const_fallback(self, e):
        """anything else: a constant expression in the sense of consteval (concrete locals visible), or unreadable"""
        if self.menv is None:
            raise Untr(f"expression {type(e).__name__}: {ast.unparse(e)}")
        loc = {k: v for k, v in self.locals.items() if isinstance(v, (int, str, bytes, tuple, bool)) or v is None}
        try:
            return self.menv.eval(e, cls=self.cls_node.name if self.cls_node is not None else None, local=loc)
        except NotConst as exc:
            raise Untr(f"expression {type(e).__name__}: {ast.unparse(e)[:60]} ({exc})") from exc
        except Exception as exc:  # noqa: BLE001
            raise Untr(f"expression {ast.unparse(e)[:60]}: {type(exc).__name__}") from exc

    # ---------------- statements
    def run(self, stmts):
        """-> value returned by the body (python None when it falls off the end)"""
        try:
            self.block(stmts)
        except _Return as r:
            return r.value
        return None

    def block(self, stmts):
        for s in stmts:
            if isinstance(s, ast.Return):
                raise _Return(None if s.value is None else self.eval(s.value))
            if isinstance(s, ast.Expr):
                if isinstance(s.value, ast.Constant):
                    continue
                c = s.value
                if isinstance(c, ast.Call) and isinstance(c.func, ast.Attribute) and c.func.attr == "update" and len(c.args) == 1 and not c.keywords:
                    base = self.eval(c.func.value)
                    if isinstance(base, dict):
                        try:
                            arg = self.eval(c.args[0])
                        except Untr as exc:
                            arg = Unk(str(exc))
                        if isinstance(arg, dict):
                            base.update(arg)
                        elif isinstance(arg, Unk):
                            base.setdefault("\u0000open", []).append(arg)   # unknown further entries
                        else:
                            raise Untr("update() argument")
                        continue
                raise Untr(f"statement {ast.unparse(s)[:50]}")
            if isinstance(s, ast.Pass):
                continue
            if isinstance(s, (ast.Assign, ast.AnnAssign)):
                tgt = s.targets[0] if isinstance(s, ast.Assign) and len(s.targets) == 1 else getattr(s, "target", None)
                if s.value is None:
                    continue
                if isinstance(tgt, ast.Subscript):
                    base, idx = self.eval(tgt.value), self.eval(tgt.slice)
                    if not isinstance(base, dict) or isinstance(idx, (Res, Unk, dict, list)):
                        raise Untr("subscript assignment")
                    try:
                        base[idx] = self.eval(s.value)
                    except Untr as exc:
                        base[idx] = Unk(str(exc))
                    continue
                if not isinstance(tgt, ast.Name):
                    raise Untr("assignment target")
                self.locals[tgt.id] = self.eval(s.value)
                continue
            if isinstance(s, ast.AugAssign) and isinstance(s.target, ast.Name):
                self.locals[s.target.id] = self.binop(s.op, self.eval(s.target), self.eval(s.value))
                continue
            if isinstance(s, ast.If):
                t = self.eval(s.test)
                if isinstance(t, (Res, Unk)):
                    raise Untr("symbolic condition")
                self.block(s.body if t else s.orelse)
                continue
            if hasattr(ast, "Match") and isinstance(s, ast.Match):
                subj = self.eval(s.subject)
                if isinstance(subj, Res):
                    raise Untr("symbolic match subject")
                for case in s.cases:
                    if case.guard is not None:
                        raise Untr("match guard")
                    if self._pattern(case.pattern, subj):
                        self.block(case.body)
                        break
                continue
            if isinstance(s, ast.Raise):
                raise Untr("raise")
            raise Untr(f"statement {type(s).__name__}")

    def _pattern(self, pat, subj):
        if isinstance(pat, ast.MatchValue):
            return self.eval(pat.value) == subj
        if isinstance(pat, ast.MatchSingleton):
            return pat.value is subj
        if isinstance(pat, ast.MatchOr):
            return any(self._pattern(x, subj) for x in pat.patterns)
        if isinstance(pat, ast.MatchAs) and pat.pattern is None:
            if pat.name:
                self.locals[pat.name] = subj
            return True
        raise Untr("match pattern")


def residual_to_lean(value, names):
    """value returned by PE.run -> Lean term of type `PyRes Int` (a non-integer result is `.error .other`)"""
    if isinstance(value, Res):
        t, ty, partial = RuleTr(names).expr(value.node)
        if ty != "Int":
            return ".error .other"
        return t if partial else f".ok {t}"
    if isinstance(value, bool):
        return f".ok ({int(value)} : Int)"
    if isinstance(value, int):
        return f".ok ({value} : Int)"
    return ".error .other"


def gen_rule(out, meta, lean_name, params, names, getfn, comment):
    """Emit `def lean_name params : PyRes Int := <translation>` or an opaque stand-in."""
    sig = " ".join(f"({n} : {t})" for n, t in params)
    try:
        prods, fn = getfn()
        body = RuleTr(names).block(body_wo_doc(fn))
        out.append(f"/-- {comment}; translated from `{PARSER}` line {fn.lineno}, productions {prods} -/")
        out.append(f"def {lean_name} {sig} : PyRes Int :=\n  {body}\n")
        meta["rules"][lean_name] = {"mode": "translated", "line": fn.lineno, "productions": prods}
    except Untr as exc:
        out.append(f"-- untranslatable {lean_name}: {exc}")
        out.append(f"/-- opaque stand-in (every theorem about this rule fails) -/")
        us = " ".join(f"(_{n} : {t})" for n, t in params)
        out.append(f"def {lean_name} {us} : PyRes Int := .error .other\n")
        meta["rules"][lean_name] = {"mode": "untranslatable", "reason": str(exc)}


def unescape_simple_regex(rx: str):
    """Literal text of a regex that matches exactly one string (escaped punctuation only), else None."""
    out, i = [], 0
    while i < len(rx):
        c = rx[i]
        if c == "\\" and i + 1 < len(rx) and not rx[i + 1].isalnum():
            out.append(rx[i + 1])
            i += 2
        elif c in ".^$*+?{}[]|()\\":
            return None
        else:
            out.append(c)
            i += 1
    return "".join(out)


def gen_BdGrammar() -> None:
    meta = {"rules": {}, "source": [PARSER, LEXER]}
    out = ["import SpsdkVerif.Base.PyInt", "", "namespace SpsdkVerif.Generated.BdGrammar", "open SpsdkVerif", ""]
    try:
        ptree = parse(PARSER)
        pcls = class_def(ptree, "BDParser")
        rules = rule_methods(pcls)
    except (OSError, SyntaxError, Untr) as exc:
        meta["error"] = str(exc)
        rules, pcls = [], None
    try:
        ltree = parse(LEXER)
        lcls = class_def(ltree, "BDLexer")
    except (OSError, SyntaxError, Untr) as exc:
        meta["lexer_error"] = str(exc)
        lcls = None

    # ---- precedence tuple
    prec = []
    if pcls is not None:
        for n in pcls.body:
            if isinstance(n, ast.Assign) and len(n.targets) == 1 and isinstance(n.targets[0], ast.Name) and n.targets[0].id == "precedence":
                try:
                    val = ast.literal_eval(n.value)
                    prec = [(str(row[0]), [str(t) for t in row[1:]]) for row in val]
                except (ValueError, IndexError, TypeError):
                    prec = []
    out.append("/-- `BDParser.precedence`: (associativity, tokens), lowest precedence first. -/")
    out.append("def precedence : List (String × List String) :=\n  [" + ",\n   ".join(
        f"({lstr(a)}, [{', '.join(lstr(t) for t in ts)}])" for a, ts in prec) + "]\n")
    meta["precedence"] = prec

    # ---- lexer: literal text of simple tokens, the two quoted-literal regexes
    toktext = []
    string_rx, char_rx = "", ""
    if lcls is not None:
        for n in lcls.body:
            if isinstance(n, ast.Assign) and len(n.targets) == 1 and isinstance(n.targets[0], ast.Name) \
                    and isinstance(n.value, ast.Constant) and isinstance(n.value.value, str) and n.targets[0].id.isupper():
                name, rx = n.targets[0].id, n.value.value
                if name == "STRING_LITERAL":
                    string_rx = rx
                lit = unescape_simple_regex(rx)
                if lit is not None:
                    toktext.append((name, lit))
            if isinstance(n, ast.FunctionDef) and n.name == "INT_LITERAL":
                for d in n.decorator_list:
                    if isinstance(d, ast.Call) and d.args and isinstance(d.args[0], ast.Constant):
                        m = re.search(r"\|('.*)$", str(d.args[0].value))
                        char_rx = m.group(1) if m else ""
    reserved = []
    if lcls is not None:
        for n in lcls.body:
            if isinstance(n, ast.Assign) and len(n.targets) == 1 and isinstance(n.targets[0], ast.Name) and n.targets[0].id == "reserved":
                try:
                    reserved = [(str(k), str(v)) for k, v in ast.literal_eval(n.value).items()]
                except (ValueError, AttributeError):
                    reserved = []
    out.append("/-- `BDLexer.reserved`: keyword text -> token name -/")
    out.append("def reserved : List (String × String) :=\n  [" + ", ".join(f"({lstr(a)}, {lstr(b)})" for a, b in reserved) + "]\n")
    meta["reserved"] = reserved
    out.append("/-- lexer tokens defined by a regex matching exactly one text, in definition order (= matching priority) -/")
    out.append("def tokenText : List (String × String) :=\n  [" + ", ".join(f"({lstr(a)}, {lstr(b)})" for a, b in toktext) + "]\n")
    out.append(f"/-- regex of STRING_LITERAL -/\ndef stringLiteralRegex : String := {lstr(string_rx)}")
    out.append(f"/-- the quoted alternative of the INT_LITERAL regex -/\ndef charLiteralRegex : String := {lstr(char_rx)}\n")
    meta["tokenText"] = toktext
    meta["stringLiteralRegex"] = string_rx
    meta["charLiteralRegex"] = char_rx

    # ---- productions of the expression rules
    prods = {}
    for nm, ps, _fn in rules:
        if nm in ("expr", "bool_expr", "unary_expr", "const_expr", "int_const_expr"):
            prods.setdefault(nm, []).extend(ps)
    out.append("/-- productions (decorator strings) of the expression rules, in source order -/")
    out.append("def productions : List (String × List String) :=\n  [" + ",\n   ".join(
        f"({lstr(k)}, [{', '.join(lstr(p) for p in v)}])" for k, v in prods.items()) + "]\n")
    meta["productions"] = prods

    # ---- rule bodies
    gen_rule(out, meta, "exprRule",
             [("operator", "String"), ("expr0", "Int"), ("expr1", "Int"), ("tok0", "Int"), ("intSize", "String")],
             {"token[1]": ("operator", "Str"), "token.expr0": ("expr0", "Int"), "token.expr1": ("expr1", "Int"),
              "token[0]": ("tok0", "Int"), "token.INT_SIZE": ("intSize", "Str")},
             lambda: find_rule(rules, "expr", "expr PLUS expr"),
             "`expr` rule: binary operators (`operator` = text of token[1]) and the int-size suffix")
    gen_rule(out, meta, "boolRule",
             [("operator", "String"), ("bool_expr0", "Int"), ("bool_expr1", "Int")],
             {"token[1]": ("operator", "Str"), "token.bool_expr0": ("bool_expr0", "Int"), "token.bool_expr1": ("bool_expr1", "Int")},
             lambda: find_rule(rules, "bool_expr", "bool_expr LT bool_expr"),
             "`bool_expr` rule: comparisons and logical operators (Python bools as 0/1)")
    gen_rule(out, meta, "unaryRule", [("sign", "String"), ("expr", "Int")],
             {"token[0]": ("sign", "Str"), "token.expr": ("expr", "Int")},
             lambda: find_rule(rules, "unary_expr", "MINUS expr"),
             "`unary_expr` rule (`sign` = text of token[0])")
    gen_rule(out, meta, "lnotRule", [("bool_expr", "Int")],
             {"token.bool_expr": ("bool_expr", "Int")},
             lambda: find_rule(rules, "bool_expr", "LNOT bool_expr"),
             "`LNOT bool_expr` rule")
    gen_rule(out, meta, "rangeLength", [("int_const_expr0", "Int"), ("int_const_expr1", "Int")],
             {"token.int_const_expr0": ("int_const_expr0", "Int"), "token.int_const_expr1": ("int_const_expr1", "Int")},
             lambda: _range_len_fn(rules),
             "`int_const_expr RANGE int_const_expr`: the value stored under \"length\"")

    # ---- defined(IDENT)
    out.append(_gen_defined(rules, lcls, meta))
    # ---- identifier lookup
    out.append(_gen_lookup(rules, meta))
    # ---- erase constants
    out.append(_gen_erase(rules, meta))

    out.append("end SpsdkVerif.Generated.BdGrammar")
    emit("BdGrammar", "\n".join(out) + "\n", meta)


def _range_len_fn(rules):
    """Synthesize `return <length expr>` from the address_or_range RANGE rule (dict value under "length")."""
    prods, fn = find_rule(rules, "address_or_range", "int_const_expr RANGE int_const_expr")
    body = body_wo_doc(fn)
    ret = body[-1] if body else None
    if not (isinstance(ret, ast.Return) and isinstance(ret.value, ast.Dict)):
        raise Untr("address_or_range does not end in `return {…}`")
    keys = [k.value if isinstance(k, ast.Constant) else None for k in ret.value.keys]
    if sorted(k or "" for k in keys) != ["address", "length"]:
        raise Untr(f"address_or_range returns keys {keys}")
    # the "address" entry must be the first operand; encode that in the function as well:  we return length only, and
    # check the address entry syntactically here
    new_body = list(body[:-1])
    addr_v = ret.value.values[keys.index("address")]
    tr = RuleTr({"token.int_const_expr0": ("A", "Int"), "token.int_const_expr1": ("B", "Int")})
    # resolve local aliases (address_start = token.int_const_expr0)
    for s in new_body:
        if isinstance(s, ast.Assign) and len(s.targets) == 1 and isinstance(s.targets[0], ast.Name):
            t, ty, partial = tr.expr(s.value)
            tr.names[s.targets[0].id] = (t, ty)
    t, _ty, _p = tr.expr(addr_v)
    if t != "A":
        raise Untr(f"\"address\" of a range is not the first operand: {ast.unparse(addr_v)}")
    new_body.append(ast.Return(value=ret.value.values[keys.index("length")]))
    f2 = ast.FunctionDef(name=fn.name, args=fn.args, body=new_body, decorator_list=[], lineno=fn.lineno)
    return prods, f2


def _has_eq(lcls, name="Variable"):
    return False


def _gen_defined(rules, lcls, meta):
    """`defined(IDENT)`: membership of the identifier among the names of the defined variables.

    Recognised shapes of the returned expression:
      any(<v>.name == token.IDENT for <v> in self._variables)       -> names.contains ident
      token.IDENT in [<v>.name for <v> in self._variables]          -> names.contains ident
      token.IDENT in self._variables   (str compared with Variable objects; class Variable defines no __eq__)
                                                                     -> false
    """
    hdr = "/-- `DEFINED ( IDENT )`: `names` = names of the variables (options and constants) defined so far -/\n"
    try:
        prods, fn = find_rule(rules, "bool_expr", "DEFINED LPAREN IDENT RPAREN")
        body = body_wo_doc(fn)
        if len(body) != 1 or not isinstance(body[0], ast.Return):
            raise Untr("body is not a single return")
        e = body[0].value
        src = ast.unparse(e)

        def is_vars(x):
            return ast.unparse(x) == "self._variables"

        def name_cmp(x, var):
            return isinstance(x, ast.Compare) and len(x.ops) == 1 and isinstance(x.ops[0], ast.Eq) and \
                {ast.unparse(x.left), ast.unparse(x.comparators[0])} == {f"{var}.name", "token.IDENT"}

        term = None
        if isinstance(e, ast.Call) and ast.unparse(e.func) == "any" and len(e.args) == 1 and isinstance(e.args[0], ast.GeneratorExp):
            g = e.args[0]
            if len(g.generators) == 1 and not g.generators[0].ifs and is_vars(g.generators[0].iter) and \
                    isinstance(g.generators[0].target, ast.Name) and name_cmp(g.elt, g.generators[0].target.id):
                term = "names.contains ident"
        if term is None and isinstance(e, ast.Compare) and len(e.ops) == 1 and isinstance(e.ops[0], ast.In) and ast.unparse(e.left) == "token.IDENT":
            c = e.comparators[0]
            if is_vars(c):
                # a str is never equal to a Variable instance unless Variable defines __eq__
                lex = parse(LEXER)
                var_cls = class_def(lex, "Variable")
                if any(isinstance(n, ast.FunctionDef) and n.name == "__eq__" for n in var_cls.body):
                    raise Untr("Variable.__eq__ is defined")
                term = "false  -- a `str` is never `==` to a `Variable` object (class Variable defines no __eq__)"
            elif isinstance(c, ast.ListComp) and len(c.generators) == 1 and is_vars(c.generators[0].iter) and \
                    isinstance(c.generators[0].target, ast.Name) and ast.unparse(c.elt) == f"{c.generators[0].target.id}.name":
                term = "names.contains ident"
        if term is None:
            raise Untr(f"unrecognised shape: {src}")
        meta["rules"]["definedRule"] = {"mode": "translated", "line": fn.lineno, "source": src}
        return hdr + f"def definedRule (names : List String) (ident : String) : Bool :=\n  {term}\n"
    except (Untr, OSError, SyntaxError) as exc:
        meta["rules"]["definedRule"] = {"mode": "untranslatable", "reason": str(exc)}
        return hdr + f"-- untranslatable: {exc}\ndef definedRule (_names : List String) (ident : String) : Bool :=\n  ident == \"\\u0000opaque\"\n"


def _gen_lookup(rules, meta):
    """`expr : IDENT`: which of several definitions of one name is used (first / last), else the identifier itself (a str)."""
    hdr = "/-- `expr : IDENT`: which of several definitions of one name is used (`true` = the first, `false` = the last) -/\n"
    try:
        prods, fn = find_rule(rules, "expr", "IDENT")
        body = body_wo_doc(fn)
        shape = (len(body) == 2 and isinstance(body[0], ast.For)
                 and isinstance(body[0].target, ast.Name) and len(body[0].body) == 1 and isinstance(body[0].body[0], ast.If)
                 and not body[0].orelse and not body[0].body[0].orelse
                 and ast.unparse(body[0].body[0].test) in (f"{body[0].target.id}.name == token.IDENT", f"token.IDENT == {body[0].target.id}.name")
                 and len(body[0].body[0].body) == 1 and isinstance(body[0].body[0].body[0], ast.Return)
                 and ast.unparse(body[0].body[0].body[0].value) == f"{body[0].target.id}.value"
                 and isinstance(body[1], ast.Return) and ast.unparse(body[1].value) == "token.IDENT")
        it = ast.unparse(body[0].iter) if shape else ""
        if it == "self._variables":
            first = True
        elif it in ("reversed(self._variables)", "self._variables[::-1]"):
            first = False
        else:
            raise Untr("unrecognised shape of the IDENT rule")
        meta["rules"]["lookup"] = {"mode": "translated", "line": fn.lineno, "first_wins": first}
        return hdr + f"def lookupFirstWins : Bool := {'true' if first else 'false'}\n/-- the IDENT rule is a plain search of `_variables` by name (undefined: the identifier itself, a str) -/\ndef lookupRecognised : Bool := true\n"
    except Untr as exc:
        meta["rules"]["lookup"] = {"mode": "untranslatable", "reason": str(exc)}
        return hdr + f"-- untranslatable: {exc}\ndef lookupFirstWins : Bool := true\ndef lookupRecognised : Bool := false\n"


def _gen_erase(rules, meta):
    vals = {"eraseAllAddress": None, "eraseAllFlags": None, "eraseUnsecureAllAddress": None, "eraseUnsecureAllFlags": None}
    for nm, prods, fn in rules:
        if nm != "erase_stmt":
            continue
        which = "eraseAll" if "ERASE mem_opt ALL" in prods else "eraseUnsecureAll" if "ERASE UNSECURE ALL" in prods else None
        if which is None:
            continue
        for node in ast.walk(fn):
            if isinstance(node, ast.Dict):
                keys = [k.value if isinstance(k, ast.Constant) else None for k in node.keys]
                if "address" in keys and "flags" in keys:
                    try:
                        vals[which + "Address"] = int(ast.literal_eval(node.values[keys.index("address")]))
                        vals[which + "Flags"] = int(ast.literal_eval(node.values[keys.index("flags")]))
                    except (ValueError, TypeError):
                        pass
    meta["erase"] = vals
    lines = ["/-- dict literals of `erase … all` / `erase unsecure all` (-1 = not found in the source) -/"]
    for k, v in vals.items():
        lines.append(f"def {k} : Int := {v if v is not None else -1}")
    return "\n".join(lines) + "\n"


GENERATORS = {"BdGrammar": gen_BdGrammar}
