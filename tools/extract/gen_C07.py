"""C07 generator: Generated/HabConsts.lean and Generated/HabFuns.lean from the CURRENT HAB sources and device database.

Pure static reading (`ast`, `struct.calcsize` on format *literals*, `yaml.safe_load`); never imports spsdk.

HabConsts (namespace SpsdkVerif.Generated.HabConsts)
  * tag tables of SegTag / CmdTag / EnumCertFormat / EnumInsKey / EnumAuthDat / EnumEngine / EnumAlgorithm / EnumSRK / SecCommand,
  * struct formats and the *field order* of every pack()/unpack_from() of IVT2, BDT, Header, XMCD header, Install Key,
    Authenticate Data, Set, Unlock, MAC, SRK RSA / ECC records (as written in the export()/parse() bodies),
  * class constants (IVT_VERSION, segment offsets, CSF_SIZE, KEYBLOB_SIZE, BDT_SIZE, known application offsets,
    need_uid mask, flags returned by _get_flags, the order of SEGMENTS_MAPPING, the segment groups of _get_signed_blocks),
  * `devices`: every (family, boot device) of the `hab` database feature with the IVT offset
    (`bootable_image.mem_types.<dev>.segments.hab_container`) and the initial load size, resolved like Device.load does.
HabFuns (namespace SpsdkVerif.Generated.HabFuns)
  * AST->Lean translations (py2lean) of the integer arithmetic of the builder: CSF offset alignment, AEAD nonce length,
    flag predicates, MAC length check, Install-Secret-Key location, IVT pointers, BDT length, application offset,
    signed-block address/start, length of the signed image prefix.  Methods that read `self.x` / `config.options.y` are
    first rewritten (fixed substitution table below) into functions of plain integer parameters.
"""
from __future__ import annotations

import ast
import copy
import struct

import yaml

from extract import REPO, emit, parse
from py2lean import Env, FunSig, Untranslatable, find_function, module_int_consts, translate_function

HDR = "spsdk/image/header.py"
SEG = "spsdk/image/segments.py"
CMD = "spsdk/image/commands.py"
SEC = "spsdk/image/secret.py"
IMG = "spsdk/image/images.py"
HSEG = "spsdk/image/hab/segments.py"
HCON = "spsdk/image/hab/hab_container.py"
HCMD = "spsdk/image/hab/commands/commands.py"
HENUM = "spsdk/image/hab/commands/commands_enum.py"


# ------------------------------------------------------------------------------------------------ small AST helpers
def _cls(tree, name):
    for n in ast.walk(tree):
        if isinstance(n, ast.ClassDef) and n.name == name:
            return n
    return None


def _fun(node, name):
    if node is None:
        return None
    for n in ast.walk(node):
        if isinstance(n, ast.FunctionDef) and n.name == name:
            return n
    return None


def _setter(cls_node, name):
    for n in cls_node.body if cls_node else []:
        if isinstance(n, ast.FunctionDef) and n.name == name and any(
                isinstance(d, ast.Attribute) and d.attr == "setter" for d in n.decorator_list):
            return n
    return None


def _getter(cls_node, name):
    for n in cls_node.body if cls_node else []:
        if isinstance(n, ast.FunctionDef) and n.name == name and not any(
                isinstance(d, ast.Attribute) and d.attr == "setter" for d in n.decorator_list):
            return n
    return None


def enum_members(tree, clsname):
    c = _cls(tree, clsname)
    out = []
    for st in c.body if c else []:
        if isinstance(st, ast.Assign) and len(st.targets) == 1 and isinstance(st.targets[0], ast.Name) \
                and isinstance(st.value, ast.Tuple) and st.value.elts:
            try:
                v = ast.literal_eval(st.value.elts[0])
            except (ValueError, SyntaxError):
                continue
            if isinstance(v, int):
                out.append((st.targets[0].id, v))
    return out


def _dotted(node):
    if isinstance(node, ast.Name):
        return node.id
    if isinstance(node, ast.Attribute):
        b = _dotted(node.value)
        return None if b is None else b + "." + node.attr
    return None


def _argname(a):
    """readable name of a pack() argument / unpack target"""
    if isinstance(a, ast.Constant):
        return f"const:{a.value}"
    d = _dotted(a)
    if d:
        return d[5:] if d.startswith("self.") else d[4:] if d.startswith("obj.") else d
    try:
        return "expr:" + ast.unparse(a).replace("self.", "")
    except Exception:  # noqa: BLE001
        return "expr:?"


def pack_calls(fn):
    """[(format literal or NAME, [argument names])] for every pack(...) in fn, in source order"""
    out = []
    calls = [n for n in ast.walk(fn) if isinstance(n, ast.Call)] if fn else []
    calls.sort(key=lambda n: (n.lineno, n.col_offset))
    for n in calls:
        f = n.func
        name = f.attr if isinstance(f, ast.Attribute) else f.id if isinstance(f, ast.Name) else None
        if name == "pack" and n.args:
            a0 = n.args[0]
            fmt = a0.value if isinstance(a0, ast.Constant) else _dotted(a0)
            out.append((fmt, [_argname(a) for a in n.args[1:]]))
    return out


def unpack_calls(fn):
    """[(format, [target names], offset expr)] for `targets = unpack_from(fmt, data, off)` in fn"""
    out = []
    for st in ast.walk(fn) if fn else []:
        if isinstance(st, ast.Assign) and isinstance(st.value, (ast.Call, ast.Subscript)):
            call = st.value.value if isinstance(st.value, ast.Subscript) else st.value
            if not isinstance(call, ast.Call):
                continue
            f = call.func
            name = f.attr if isinstance(f, ast.Attribute) else f.id if isinstance(f, ast.Name) else None
            if name in ("unpack_from", "unpack") and call.args:
                a0 = call.args[0]
                fmt = a0.value if isinstance(a0, ast.Constant) else _dotted(a0)
                t = st.targets[0]
                names = [_argname(e) for e in t.elts] if isinstance(t, (ast.Tuple, ast.List)) else [_argname(t)]
                off = ast.unparse(call.args[2]) if len(call.args) > 2 else "0"
                out.append((fmt, names, off, st.lineno))
    out.sort(key=lambda r: r[3])
    return [r[:3] for r in out]


def class_attr(tree, clsname, attr):
    c = _cls(tree, clsname)
    for st in c.body if c else []:
        if isinstance(st, ast.Assign) and len(st.targets) == 1 and isinstance(st.targets[0], ast.Name) and st.targets[0].id == attr:
            return st.value
        if isinstance(st, ast.AnnAssign) and isinstance(st.target, ast.Name) and st.target.id == attr:
            return st.value
    return None


def lit(node, default=None):
    try:
        return ast.literal_eval(node)
    except (ValueError, SyntaxError, TypeError):
        return default


# ------------------------------------------------------------------------------------------------ Lean rendering
def lstr(s):
    return '"' + str(s).replace("\\", "\\\\").replace('"', '\\"') + '"'


def lstrs(xs):
    return "[" + ", ".join(lstr(x) for x in xs) + "]"


def lnats(xs):
    return "[" + ", ".join(str(int(x)) for x in xs) + "]"


def ltable(rows):
    return "[" + ", ".join(f"({lstr(n)}, {v})" for n, v in rows) + "]"


def camel(name):
    parts = name.lower().split("_")
    return parts[0] + "".join(p.capitalize() for p in parts[1:])


# ------------------------------------------------------------------------------------------------ database
def deep_update(d, u):
    for k, v in u.items():
        if isinstance(v, dict):
            d[k] = deep_update(d.get(k, {}), v)
        else:
            d[k] = v
    return d


class Db:
    """Replica of spsdk/utils/database.py::Device.load (alias / revisions / defaults), features `hab`, `bootable_image` only;
    the latest revision is what `get_db(family)` hands to OptionsConfig.get_ivt_offset/get_initial_load_size."""

    KEEP = ("hab", "bootable_image")

    def __init__(self):
        self.root = REPO / "spsdk" / "data"
        self.defaults = yaml.safe_load((self.root / "common" / "database_defaults.yaml").read_text(encoding="utf-8"))
        self.cache = {}

    def names(self):
        return sorted(p.name for p in (self.root / "devices").iterdir() if (p / "database.yaml").exists())

    def _restrict(self, feats):
        return {k: v for k, v in (feats or {}).items() if k in self.KEEP}

    def load(self, name):
        if name in self.cache:
            return self.cache[name]
        cfg = yaml.safe_load((self.root / "devices" / name / "database.yaml").read_text(encoding="utf-8"))
        if cfg.get("alias"):
            base = self.load(cfg["alias"])
            dev = {"latest": cfg.get("latest", base["latest"]),
                   "revs": [{"name": r["name"], "is_latest": r["is_latest"], "features": copy.deepcopy(r["features"])}
                            for r in base["revs"]]}
            feats = self._restrict(cfg.get("features", {}))
            if feats:
                for r in dev["revs"]:
                    deep_update(r["features"], copy.deepcopy(feats))
            for rev_name, upd in (cfg.get("revisions") or {}).items():
                upd = upd or {}
                rev = next((r for r in dev["revs"] if r["name"] == rev_name), None)
                if rev is None:
                    alias_rev = upd.get("alias")
                    if not alias_rev:
                        continue
                    src = next((r for r in dev["revs"] if (r["is_latest"] if alias_rev == "latest" else r["name"] == alias_rev)), None)
                    if src is None:
                        continue
                    rev = {"name": rev_name, "is_latest": dev["latest"] == rev_name, "features": copy.deepcopy(src["features"])}
                    dev["revs"].append(rev)
                rf = self._restrict(upd.get("features"))
                if rf:
                    deep_update(rev["features"], copy.deepcopy(rf))
        else:
            dev_features = self._restrict(cfg["features"])
            defaults = copy.deepcopy(self._restrict(self.defaults["features"]))
            for fname in dev_features:
                deep_update(defaults.setdefault(fname, {}), dev_features[fname] or {})
                dev_features[fname] = defaults[fname]
            latest = cfg["latest"]
            dev = {"latest": latest, "revs": []}
            for rev_name, upd in cfg["revisions"].items():
                feats = copy.deepcopy(dev_features)
                rf = self._restrict((upd or {}).get("features"))
                if rf:
                    deep_update(feats, copy.deepcopy(rf))
                dev["revs"].append({"name": rev_name, "is_latest": rev_name == latest, "features": feats})
        self.cache[name] = dev
        return dev

    def latest(self, name):
        dev = self.load(name)
        return next((r for r in dev["revs"] if r["is_latest"]), None)


def _int(v):
    if isinstance(v, int):
        return v
    return int(str(v).replace("_", ""), 0)


def device_rows():
    db = Db()
    rows, errors = [], []
    for name in db.names():
        try:
            rev = db.latest(name)
        except Exception as exc:  # noqa: BLE001
            errors.append(f"{name}: {exc}")
            continue
        if rev is None or "hab" not in rev["features"]:
            continue
        mts = (rev["features"]["hab"] or {}).get("mem_types") or {}
        for dev, v in mts.items():
            try:
                ils = _int(v["initial_load_size"])
                ivt = _int(rev["features"]["bootable_image"]["mem_types"][dev]["segments"]["hab_container"])
                rows.append((name, dev, ivt, ils))
            except Exception as exc:  # noqa: BLE001
                errors.append(f"{name}/{dev}: {type(exc).__name__} {exc}")
    return rows, errors


# ------------------------------------------------------------------------------------------------ HabConsts
def gen_HabConsts():
    meta = {"sources": [HDR, SEG, CMD, SEC, IMG, HSEG, HCON, HCMD, HENUM], "errors": []}
    t = {}
    for rel in meta["sources"]:
        try:
            t[rel] = parse(rel)
        except (OSError, SyntaxError) as exc:
            t[rel] = ast.parse("")
            meta["errors"].append(f"{rel}: {exc}")
    out = ["namespace SpsdkVerif.Generated.HabConsts", ""]

    def table(name, rows, src):
        out.append(f"/-- `{src}` -/")
        out.append(f"def {name} : List (String × Nat) := {ltable(rows)}")
        meta[name] = dict(rows)

    table("segTags", enum_members(t[HDR], "SegTag"), HDR + "::SegTag")
    table("cmdTags", enum_members(t[HDR], "CmdTag"), HDR + "::CmdTag")
    table("certFormats", enum_members(t[CMD], "EnumCertFormat"), CMD + "::EnumCertFormat")
    table("insKeyFlags", enum_members(t[CMD], "EnumInsKey"), CMD + "::EnumInsKey")
    table("authDatFlags", enum_members(t[CMD], "EnumAuthDat"), CMD + "::EnumAuthDat")
    table("engines", enum_members(t[CMD], "EnumEngine"), CMD + "::EnumEngine")
    table("itms", enum_members(t[CMD], "EnumItm"), CMD + "::EnumItm")
    table("algorithms", enum_members(t[SEC], "EnumAlgorithm"), SEC + "::EnumAlgorithm")
    table("srkTags", enum_members(t[SEC], "EnumSRK"), SEC + "::EnumSRK")
    table("secCommands", enum_members(t[HENUM], "SecCommand"), HENUM + "::SecCommand")
    table("habSegments", enum_members(t[HSEG], "HabSegment"), HSEG + "::HabSegment")
    out.append("")

    # ---- struct formats and field orders
    def fmt_of(tree, cls, attr="FORMAT"):
        v = lit(class_attr(tree, cls, attr))
        return v if isinstance(v, str) else "?"

    fmts = {
        "headerFormat": fmt_of(t[HDR], "Header"),
        "ivt2Format": fmt_of(t[SEG], "SegIVT2"),
        "bdtFormat": fmt_of(t[SEG], "SegBDT"),
        "xmcdHeaderFormat": fmt_of(t[SEG], "XMCDHeader"),
    }
    for k, v in fmts.items():
        out.append(f"def {k} : String := {lstr(v)}")
    meta["formats"] = dict(fmts)

    def resolve(fmt, cls_tree, cls):
        if isinstance(fmt, str) and (fmt.endswith(".FORMAT") or fmt == "FORMAT"):
            return fmt_of(cls_tree, cls)
        return fmt if isinstance(fmt, str) else "?"

    def packs(name, tree, cls, fn="export"):
        c = _cls(tree, cls)
        rows = [(resolve(f, tree, cls), a) for f, a in pack_calls(_fun(c, fn))]
        out.append(f"/-- pack() calls of `{cls}.{fn}`: (format, arguments) in source order -/")
        out.append(f"def {name} : List (String × List String) := [" + ", ".join(f"({lstr(f)}, {lstrs(a)})" for f, a in rows) + "]")
        meta[name] = rows

    def unpacks(name, tree, cls, fn="parse"):
        c = _cls(tree, cls)
        rows = [(resolve(f, tree, cls), a, o) for f, a, o in unpack_calls(_fun(c, fn))]
        out.append(f"/-- unpack_from() calls of `{cls}.{fn}`: (format, targets, offset expression) -/")
        out.append(f"def {name} : List (String × List String × String) := [" +
                   ", ".join(f"({lstr(f)}, {lstrs(a)}, {lstr(o)})" for f, a, o in rows) + "]")
        meta[name] = rows

    packs("headerPack", t[HDR], "Header")
    unpacks("headerUnpack", t[HDR], "Header")
    packs("ivt2Pack", t[SEG], "SegIVT2")
    unpacks("ivt2Unpack", t[SEG], "SegIVT2")
    packs("bdtPack", t[SEG], "SegBDT")
    packs("xmcdHeaderPack", t[SEG], "XMCDHeader")
    unpacks("xmcdHeaderUnpack", t[SEG], "XMCDHeader")
    packs("insKeyPack", t[CMD], "CmdInstallKey")
    unpacks("insKeyUnpack", t[CMD], "CmdInstallKey")
    packs("autDatPack", t[CMD], "CmdAuthData")
    unpacks("autDatUnpack", t[CMD], "CmdAuthData")
    packs("setPack", t[CMD], "CmdSet")
    unpacks("setUnpack", t[CMD], "CmdSet")
    packs("unlockPack", t[CMD], "CmdUnlockAbstract")
    unpacks("unlockUnpack", t[CMD], "CmdUnlockAbstract")
    packs("macPack", t[SEC], "MAC")
    unpacks("macUnpack", t[SEC], "MAC")
    packs("srkRsaPack", t[SEC], "SrkItemRSA")
    unpacks("srkRsaUnpack", t[SEC], "SrkItemRSA")
    packs("srkEccPack", t[SEC], "SrkItemEcc")
    unpacks("srkEccUnpack", t[SEC], "SrkItemEcc")
    out.append("")

    # BDT parse: cls(*unpack_from(cls.FORMAT, data)) - argument order of SegBDT.__init__
    bdt_init = _fun(_cls(t[SEG], "SegBDT"), "__init__")
    bdt_args = [a.arg for a in bdt_init.args.args if a.arg != "self"] if bdt_init else []
    out.append(f"def bdtInitArgs : List String := {lstrs(bdt_args)}")
    meta["bdtInitArgs"] = bdt_args
    # XMCD header export expressions (operator precedence matters there) and SegXMCD size
    xh = _fun(_cls(t[SEG], "XMCDHeader"), "export")
    xexprs = []
    for f, _ in pack_calls(xh):
        pass
    for n in ast.walk(xh) if xh else []:
        if isinstance(n, ast.Call) and getattr(n.func, "id", getattr(n.func, "attr", None)) == "pack":
            xexprs = [ast.unparse(a).replace("self.", "") for a in n.args[1:]]
    meta["xmcdHeaderExportExprs"] = xexprs  # informational only; the bytes are translated in HabFuns
    xsize = _getter(_cls(t[SEG], "SegXMCD"), "size")
    xsize_src = ""
    if xsize is not None:
        rets = [n for n in ast.walk(xsize) if isinstance(n, ast.Return) and n.value is not None]
        xsize_src = ast.unparse(rets[-1].value).replace("self.", "") if rets else ""
    meta["segXmcdSizeExpr"] = xsize_src  # informational only ('' = inherits BaseSegment.size = 0)

    # ---- integer constants
    consts = {}
    consts.update({k: v for k, v in module_int_consts(t[HSEG]).items() if "." in k})
    consts.update({k: v for k, v in module_int_consts(t[IMG]).items() if k.startswith("BootImgRT.")})
    consts.update({k: v for k, v in module_int_consts(t[SEC]).items() if k.startswith("MAC.")})
    consts.update({k: v for k, v in module_int_consts(t[HCMD]).items() if "." in k})
    try:
        header_size = struct.calcsize(fmts["headerFormat"])
        ivt_size = header_size + struct.calcsize(fmts["ivt2Format"])
        bdt_struct = struct.calcsize(fmts["bdtFormat"])
        xmcd_hdr = struct.calcsize(fmts["xmcdHeaderFormat"])
    except struct.error as exc:
        header_size = ivt_size = bdt_struct = xmcd_hdr = 0
        meta["errors"].append(f"calcsize: {exc}")
    wanted = [
        ("ivtVersion", consts.get("IvtHabSegment.IVT_VERSION")),
        ("ivtSegOffset", consts.get("IvtHabSegment.OFFSET")),
        ("xmcdSegOffset", consts.get("XmcdHabSegment.OFFSET")),
        ("csfSize", consts.get("CsfHabSegment.CSF_SIZE")),
        ("keyblobSize", consts.get("CsfHabSegment.KEYBLOB_SIZE")),
        ("bdtSize", consts.get("BootImgRT.BDT_SIZE")),
        ("aesBlkLen", consts.get("MAC.AES128_BLK_LEN")),
        ("headerSize", header_size),
        ("ivt2Size", ivt_size),
        ("bdtStructSize", bdt_struct),
        ("xmcdHeaderSize", xmcd_hdr),
        ("xmcdHeaderTag", lit(class_attr(t[SEG], "XMCDHeader", "TAG"))),
    ]
    for k, v in wanted:
        if not isinstance(v, int):
            meta["errors"].append(f"constant {k} not found")
            v = 0
        out.append(f"def {k} : Nat := {v}")
        meta[k] = v
    # known application offsets probed by AppHabSegment.parse
    known = []
    app_parse = _fun(_cls(t[HSEG], "AppHabSegment"), "parse")
    for n in ast.walk(app_parse) if app_parse else []:
        if isinstance(n, ast.Assign) and isinstance(n.targets[0], ast.Name) and n.targets[0].id == "known_offsets":
            known = lit(n.value, [])
    out.append(f"def knownAppOffsets : List Nat := {lnats(known)}")
    meta["knownAppOffsets"] = known
    # reset-vector window of get_app_offset: `app_address - X`
    win = 0
    for n in ast.walk(app_parse) if app_parse else []:
        if isinstance(n, ast.Assign) and isinstance(n.targets[0], ast.Name) and n.targets[0].id == "range_start" \
                and isinstance(n.value, ast.BinOp) and isinstance(n.value.op, ast.Sub):
            win = lit(n.value.right, 0)
    out.append(f"def resetVectorWindow : Nat := {win}")
    meta["resetVectorWindow"] = win
    # need_uid: engine == EnumEngine.OCOTP and bool(features & MASK)
    mask, eng = 0, ""
    nu = _fun(_cls(t[CMD], "CmdUnlockAbstract"), "need_uid")
    for n in ast.walk(nu) if nu else []:
        if isinstance(n, ast.BinOp) and isinstance(n.op, ast.BitAnd) and isinstance(n.right, ast.Constant):
            mask = n.right.value
        if isinstance(n, ast.Compare) and _dotted(n.comparators[0]) and _dotted(n.comparators[0]).startswith("EnumEngine."):
            eng = _dotted(n.comparators[0]).split(".", 1)[1]
    out.append(f"def needUidMask : Nat := {mask}")
    out.append(f"def needUidEngine : String := {lstr(eng)}")
    meta["needUid"] = [eng, mask]
    # _get_flags constants
    gf = _fun(_cls(t[HCON], "HabContainer"), "_get_flags")
    gfc = [n.value.value if isinstance(n.value, ast.Constant) else [lit(n.value.body), lit(n.value.orelse)]
           for n in ast.walk(gf) if isinstance(n, ast.Return)] if gf else []
    flat = []
    for v in gfc:
        flat += v if isinstance(v, list) else [v]
    flat = [v for v in flat if isinstance(v, int)]
    flat = sorted(set(flat))
    out.append(f"def parseFlags : List Nat := {lnats(flat)}   -- values _get_flags can return")
    meta["parseFlags"] = flat
    # SEGMENTS_MAPPING order and _get_signed_blocks groups
    order = []
    for n in ast.walk(t[HSEG]):
        if isinstance(n, (ast.Assign, ast.AnnAssign)):
            tgt = n.targets[0] if isinstance(n, ast.Assign) else n.target
            if isinstance(tgt, ast.Name) and tgt.id == "SEGMENTS_MAPPING" and isinstance(n.value, ast.Dict):
                order = [(_dotted(k) or "?").split(".")[-1] for k in n.value.keys]
    out.append(f"def segmentsMappingOrder : List String := {lstrs(order)}")
    meta["segmentsMappingOrder"] = order
    groups = []
    sb = _fun(_cls(t[HCON], "HabContainer"), "_get_signed_blocks")
    for n in ast.walk(sb) if sb else []:
        if isinstance(n, ast.Assign) and isinstance(n.targets[0], ast.Name) and n.targets[0].id == "segment_blocks" \
                and isinstance(n.value, ast.List):
            groups = [[(_dotted(e) or "?").split(".")[-1] for e in g.elts] for g in n.value.elts if isinstance(g, ast.List)]
    out.append("def signedBlockGroups : List (List String) := [" + ", ".join(lstrs(g) for g in groups) + "]")
    meta["signedBlockGroups"] = groups
    # which CmdAuthData (by position) is CSF / data / decrypt
    idx = []
    for nm in ("get_authenticate_csf_cmd", "get_authenticate_data_cmd", "get_decrypt_data_cmd"):
        f = _fun(_cls(t[HSEG], "CsfHabSegment"), nm)
        v = None
        for n in ast.walk(f) if f else []:
            if isinstance(n, ast.Subscript) and isinstance(n.value, ast.Name) and n.value.id == "commands":
                v = lit(n.slice)
        idx.append(v if isinstance(v, int) else 99)
    out.append(f"def authCmdIndex : List Nat := {lnats(idx)}   -- [authenticate CSF, authenticate data, decrypt data]")
    meta["authCmdIndex"] = idx
    # ECC SRK curve ids
    ecc = class_attr(t[SEC], "SrkItemEcc", "ECC_KEY_TYPE")
    ecc_rows = []
    if isinstance(ecc, ast.Dict):
        for k, v in zip(ecc.keys, ecc.values):
            ecc_rows.append(((_dotted(k) or "?").split(".")[-1], lit(v, 0)))
    table("eccKeyTypes", ecc_rows, SEC + "::SrkItemEcc.ECC_KEY_TYPE")
    out.append("")

    # ---- database
    rows, errs = device_rows()
    meta["errors"] += errs
    out.append("/-- (family, boot device, IVT offset = bootable_image…hab_container, initial load size) for the `hab` feature -/")
    out.append("def devices : List (String × String × Nat × Nat) := [")
    out.append(",\n".join(f"  ({lstr(f)}, {lstr(d)}, {i}, {s})" for f, d, i, s in rows))
    out.append("]")
    meta["devices"] = [[f, d, i, s] for f, d, i, s in rows]
    out.append("")
    out.append("end SpsdkVerif.Generated.HabConsts")
    emit("HabConsts", "\n".join(out) + "\n", meta)


# ------------------------------------------------------------------------------------------------ HabFuns
class _Subst(ast.NodeTransformer):
    """rewrite fixed source expressions into plain parameter names"""

    def __init__(self, table):
        self.table = table

    def visit(self, node):
        if isinstance(node, ast.expr):
            try:
                src = ast.unparse(node)
            except Exception:  # noqa: BLE001
                src = None
            if src in self.table:
                return ast.copy_location(ast.Name(id=self.table[src], ctx=ast.Load()), node)
        return self.generic_visit(node)


SUBST = {
    "self.flags": "flags",
    "config.options.flags": "flags",
    "config.options.get_initial_load_size()": "initial_load_size",
    "config.options.get_ivt_offset()": "ivt_offset",
    "config.options.start_address": "start_address",
    "len(config.app_image)": "app_len",
    "segment.ivt_address": "ivt_address",
    "segment.size": "ivt_size",
    "end_seg.offset": "end_offset",
    "end_seg.size": "end_size",
    "self.start_address": "start_address",
    "self.ivt_offset": "ivt_offset",
    "self.csf_segment.offset": "csf_offset",
    "ivt.segment.ivt_address": "ivt_address",
    "ivt.segment.bdt_address": "bdt_address",
    "ivt.segment.dcd_address": "dcd_address",
    "ivt.segment.csf_address": "csf_address",
    "bdt.segment.app_start": "app_start",
}


def _synth(name, params, body):
    fn = ast.FunctionDef(name=name, args=ast.arguments(posonlyargs=[], args=[ast.arg(arg=p, annotation=ast.Name(id="int", ctx=ast.Load())) for p in params],
                                                       kwonlyargs=[], kw_defaults=[], defaults=[]),
                         body=body, decorator_list=[], returns=None, lineno=1, col_offset=0)
    return ast.fix_missing_locations(fn)


def _assign_to_return(stmts, target_src):
    """replace `target_src = e` by `return e` (recursively in if/else)"""
    out = []
    for s in stmts:
        if isinstance(s, ast.Assign) and len(s.targets) == 1 and ast.unparse(s.targets[0]) == target_src:
            out.append(ast.Return(value=s.value))
        elif isinstance(s, ast.AugAssign) and ast.unparse(s.target) == target_src:
            out.append(ast.Return(value=ast.BinOp(left=s.target, op=s.op, right=s.value)))
        elif isinstance(s, ast.If):
            s2 = copy.copy(s)
            s2.body = _assign_to_return(s.body, target_src)
            s2.orelse = _assign_to_return(s.orelse, target_src)
            out.append(s2)
        else:
            out.append(s)
    return out


def gen_HabFuns():
    meta = {"functions": {}, "errors": []}
    trees = {}
    env = Env()
    for rel in (HSEG, HCON, HCMD, IMG, SEG, HDR):
        try:
            trees[rel] = parse(rel)
        except (OSError, SyntaxError) as exc:
            trees[rel] = None
            meta["errors"].append(f"{rel}: {exc}")
    for rel in (HSEG, IMG, HCMD):
        if trees[rel] is not None:
            env.consts.update({k: v for k, v in module_int_consts(trees[rel]).items() if "." in k})
    # sizes that module_int_consts cannot fold (calcsize)
    try:
        hf = lit(class_attr(trees[HDR], "Header", "FORMAT"))
        iv = lit(class_attr(trees[SEG], "SegIVT2", "FORMAT"))
        env.consts["Header.SIZE"] = struct.calcsize(hf)
        env.consts["CmdHeader.SIZE"] = struct.calcsize(hf)
        env.consts["SegIVT2.SIZE"] = struct.calcsize(hf) + struct.calcsize(iv)
    except Exception as exc:  # noqa: BLE001
        meta["errors"].append(f"calcsize: {exc}")
    out = ["import SpsdkVerif.Base.Py", "", "namespace SpsdkVerif.Generated.HabFuns", "open SpsdkVerif", ""]

    def add(lean, source, params_fallback, ret, build):
        """build() -> ast.FunctionDef (already substituted)"""
        try:
            fn = build()
            if fn is None:
                raise Untranslatable("source construct not found")
            text, sig = translate_function(fn, lean, env, None, ret)
            env.funs[lean] = sig
            out.append(f"/-- translated from `{source}` -/")
            out.append(text)
            meta["functions"][lean] = {"mode": "translated", "source": source, "params": sig.params, "ret": sig.ret}
            return sig
        except (Untranslatable, AttributeError, IndexError, TypeError) as exc:
            out.append(f"-- untranslatable: {source}: {exc}")
            args = " ".join(f"({p} : Int)" for p in params_fallback)
            out.append(f"def {lean} {args} : PyRes {ret} := .error .other\n")
            meta["functions"][lean] = {"mode": "untranslatable", "reason": str(exc), "source": source}
            env.funs[lean] = FunSig(lean, [(p, "Int") for p in params_fallback], ret)
            return None

    def direct(rel, qual):
        def b():
            fn = copy.deepcopy(find_function(trees[rel], qual))
            fn.args.args = [a for a in fn.args.args if a.arg not in ("self", "cls")]
            return fn
        return b

    def from_stmts(name, params, get_stmts, target=None, subst=SUBST, extra_return=None):
        def b():
            stmts = get_stmts()
            if stmts is None:
                return None
            stmts = [copy.deepcopy(s) for s in stmts]
            stmts = [s for s in stmts if not (isinstance(s, ast.Expr) and isinstance(s.value, ast.Constant))]
            if target:
                stmts = _assign_to_return(stmts, target)
            stmts = [_Subst(subst).visit(s) for s in stmts]
            if extra_return:
                stmts.append(ast.Return(value=ast.Name(id=extra_return, ctx=ast.Load())))
            return _synth(name, params, stmts)
        return b

    def cls_fun(rel, cls, fn, prop=None):
        c = _cls(trees[rel], cls) if trees[rel] is not None else None
        if prop == "getter":
            return _getter(c, fn)
        if prop == "setter":
            return _setter(c, fn)
        return _fun(c, fn)

    # 1. CSF offset alignment
    sig = add("alignOffset", f"{HSEG}::CsfHabSegment.align_offset", ["image_len"], "Int", direct(HSEG, "CsfHabSegment.align_offset"))
    if sig:
        env.funs["cls.align_offset"] = env.funs["CsfHabSegment.align_offset"] = env.funs["align_offset"] = sig
    # 2. AEAD nonce length
    add("aeadNonceLen", f"{IMG}::BootImgRT.aead_nonce_len", ["app_data_len"], "Int", direct(IMG, "BootImgRT.aead_nonce_len"))
    # 3./4. flag predicates
    add("isEncrypted", f"{HCON}::HabContainer.is_encrypted", ["flags"], "Bool",
        from_stmts("is_encrypted", ["flags"], lambda: cls_fun(HCON, "HabContainer", "is_encrypted").body))
    add("isAuthenticated", f"{HCON}::HabContainer.is_authenticated", ["flags"], "Bool",
        from_stmts("is_authenticated", ["flags"], lambda: cls_fun(HCON, "HabContainer", "is_authenticated").body))
    # 5. MAC length check (setter): value or SPSDKValueError
    add("macLenSet", f"{HSEG}::CsfHabSegment.mac_len (setter)", ["value"], "Int",
        from_stmts("mac_len", ["value"], lambda: cls_fun(HSEG, "CsfHabSegment", "mac_len", "setter").body, target="self._mac_len"))
    # 6. Install Secret Key location
    add("secretKeyLocation", f"{HCMD}::SecInstallSecretKey.calculate_location", ["initial_load_size", "app_len", "start_address"], "Int",
        from_stmts("calculate_location", ["initial_load_size", "app_len", "start_address"],
                   lambda: cls_fun(HCMD, "SecInstallSecretKey", "calculate_location").body))

    # 7. IVT pointers (IvtHabSegment.load_from_config)
    def ivt_body():
        f = cls_fun(HSEG, "IvtHabSegment", "load_from_config")
        return f.body if f else None

    def ivt_csf():
        for s in ivt_body() or []:
            if isinstance(s, ast.If) and "flags" in ast.unparse(s.test):
                return [s]
        return None

    add("ivtCsfAddress", f"{HSEG}::IvtHabSegment.load_from_config (csf_address)",
        ["flags", "initial_load_size", "app_len", "ivt_offset", "ivt_address"], "Int",
        from_stmts("ivt_csf", ["flags", "initial_load_size", "app_len", "ivt_offset", "ivt_address"], ivt_csf, target="segment.csf_address"))

    def one_assign(body_fn, target):
        def g():
            for s in ast.walk(ast.Module(body=body_fn() or [], type_ignores=[])):
                if isinstance(s, ast.Assign) and len(s.targets) == 1 and ast.unparse(s.targets[0]) == target:
                    return [s]
            return None
        return g

    add("ivtSelfAddress", f"{HSEG}::IvtHabSegment.load_from_config (ivt_address)", ["start_address", "ivt_offset"], "Int",
        from_stmts("ivt_self", ["start_address", "ivt_offset"], one_assign(ivt_body, "segment.ivt_address"), target="segment.ivt_address"))
    add("ivtBdtAddress", f"{HSEG}::IvtHabSegment.load_from_config (bdt_address)", ["ivt_address", "ivt_size"], "Int",
        from_stmts("ivt_bdt", ["ivt_address", "ivt_size"], one_assign(ivt_body, "segment.bdt_address"), target="segment.bdt_address"))
    add("ivtDcdAddress", f"{HSEG}::IvtHabSegment.load_from_config (dcd_address)", ["ivt_address"], "Int",
        from_stmts("ivt_dcd", ["ivt_address"], one_assign(ivt_body, "segment.dcd_address"), target="segment.dcd_address"))

    # 8. CSF segment offset (relative to the IVT)
    def csf_off():
        f = cls_fun(HSEG, "CsfHabSegment", "load_from_config")
        if not f:
            return None
        st = [s for s in f.body if isinstance(s, ast.Assign) and isinstance(s.targets[0], ast.Name) and s.targets[0].id in ("image_len", "offset")]
        return st[:3] if len(st) >= 3 else None

    add("csfOffset", f"{HSEG}::CsfHabSegment.load_from_config (offset)", ["initial_load_size", "app_len", "ivt_offset"], "Int",
        from_stmts("csf_offset", ["initial_load_size", "app_len", "ivt_offset"], csf_off, extra_return="offset"))

    # 9. BDT length and the segment that ends the image
    def bdt_body():
        f = cls_fun(HSEG, "BdtHabSegment", "load_from_config")
        return f.body if f else None

    add("bdtAppLength", f"{HSEG}::BdtHabSegment.load_from_config (app_length)", ["ivt_offset", "end_offset", "end_size"], "Int",
        from_stmts("bdt_len", ["ivt_offset", "end_offset", "end_size"], one_assign(bdt_body, "segment.app_length"), target="segment.app_length"))

    def bdt_sel():
        for s in ast.walk(ast.Module(body=bdt_body() or [], type_ignores=[])):
            if isinstance(s, ast.Assign) and ast.unparse(s.targets[0]) == "end_seg_class" and isinstance(s.value, ast.Subscript):
                return [ast.Return(value=s.value.slice)]
        return None

    add("bdtEndSel", f"{HSEG}::BdtHabSegment.load_from_config (end segment selector: 0 = APP, 1 = CSF)", ["flags"], "Int",
        from_stmts("bdt_sel", ["flags"], bdt_sel))
    add("bdtSegOffset", f"{HSEG}::BdtHabSegment.load_from_config (offset)", [], "Int",
        from_stmts("bdt_off", [], one_assign(bdt_body, "offset"), target="offset"))

    # 10. application segment
    def app_body():
        f = cls_fun(HSEG, "AppHabSegment", "load_from_config")
        return f.body if f else None

    add("appOffset", f"{HSEG}::AppHabSegment.load_from_config (offset)", ["initial_load_size", "ivt_offset"], "Int",
        from_stmts("app_off", ["initial_load_size", "ivt_offset"], one_assign(app_body, "offset"), target="offset"))

    def app_al():
        for s in app_body() or []:
            if isinstance(s, ast.If) and "flags" in ast.unparse(s.test):
                return [ast.Return(value=s.test)]
        return None

    add("appAligned", f"{HSEG}::AppHabSegment.load_from_config (16-byte alignment condition)", ["flags"], "Bool",
        from_stmts("app_al", ["flags"], app_al))

    # 11. DCD segment offset
    def dcd_body():
        f = cls_fun(HSEG, "DcdHabSegment", "load_from_config")
        return f.body if f else None

    add("dcdSegOffset", f"{HSEG}::DcdHabSegment.load_from_config (offset)", [], "Int",
        from_stmts("dcd_off", [], one_assign(dcd_body, "offset"), target="offset"))

    # 12. signed-block address / start, signed image prefix
    def blk(kw):
        def g():
            f = cls_fun(HCON, "HabContainer", "_get_signed_blocks")
            for n in ast.walk(f) if f else []:
                if isinstance(n, ast.Call) and _dotted(n.func) == "ImageBlock":
                    for k in n.keywords:
                        if k.arg == kw:
                            return [ast.Return(value=k.value)]
            return None
        return g

    add("blockBase", f"{HCON}::HabContainer._get_signed_blocks.add_block (base_address)", ["start_address", "ivt_offset", "offset"], "Int",
        from_stmts("blk_base", ["start_address", "ivt_offset", "offset"], blk("base_address")))
    add("blockStart", f"{HCON}::HabContainer._get_signed_blocks.add_block (start)", ["ivt_offset", "offset"], "Int",
        from_stmts("blk_start", ["ivt_offset", "offset"], blk("start")))

    def prefix():
        f = cls_fun(HCON, "HabContainer", "update_csf")
        for n in ast.walk(f) if f else []:
            if isinstance(n, ast.Assign) and ast.unparse(n.targets[0]) == "image" and isinstance(n.value, ast.Subscript) \
                    and isinstance(n.value.slice, ast.Slice) and n.value.slice.lower is None and n.value.slice.upper is not None:
                return [ast.Return(value=n.value.slice.upper)]
        return None

    add("signedPrefixLen", f"{HCON}::HabContainer.update_csf (image[: …])", ["ivt_offset", "csf_offset"], "Int",
        from_stmts("prefix", ["ivt_offset", "csf_offset"], prefix))

    # 13. parse side: segment offsets from the IVT pointers
    def parse_assign(cls, target):
        def g():
            f = cls_fun(HSEG if cls != "HabContainer" else HCON, cls, "parse")
            for n in ast.walk(f) if f else []:
                if isinstance(n, ast.Assign) and ast.unparse(n.targets[0]) == target:
                    return [n]
            return None
        return g

    add("parseBdtOffset", f"{HSEG}::BdtHabSegment.parse (offset)", ["bdt_address", "ivt_address"], "Int",
        from_stmts("p_bdt", ["bdt_address", "ivt_address"], parse_assign("BdtHabSegment", "offset"), target="offset"))
    add("parseDcdOffset", f"{HSEG}::DcdHabSegment.parse (offset)", ["dcd_address", "ivt_address"], "Int",
        from_stmts("p_dcd", ["dcd_address", "ivt_address"], parse_assign("DcdHabSegment", "offset"), target="offset"))
    add("parseCsfOffset", f"{HSEG}::CsfHabSegment.parse (offset)", ["csf_address", "ivt_address"], "Int",
        from_stmts("p_csf", ["csf_address", "ivt_address"], parse_assign("CsfHabSegment", "offset"), target="offset"))
    add("parseIvtOffset", f"{HCON}::HabContainer.parse (ivt_offset)", ["ivt_address", "app_start"], "Int",
        from_stmts("p_ivtoff", ["ivt_address", "app_start"], parse_assign("HabContainer", "ivt_offset"), target="ivt_offset"))

    # 14. XMCD header bytes (XMCDHeader.export): operator precedence matters there
    def xmcd_arg(i):
        def g():
            f = cls_fun(SEG, "XMCDHeader", "export")
            for n in ast.walk(f) if f else []:
                if isinstance(n, ast.Call) and getattr(n.func, "id", getattr(n.func, "attr", None)) == "pack" and len(n.args) == 5:
                    return [ast.Return(value=n.args[1 + i])]
            return None
        return g

    xs = {"self.block_size": "block_size", "self.block_type": "block_type", "self.interface": "interface",
          "self.instance": "instance", "self.tag": "tag", "self.version": "version"}
    for i, ps in enumerate((["block_size"], ["block_type", "block_size"], ["interface", "instance"], ["tag", "version"])):
        add(f"xmcdHdrByte{i}", f"{SEG}::XMCDHeader.export (byte {i})", ps, "Int",
            from_stmts(f"xmcd_b{i}", ps, xmcd_arg(i), subst=xs))

    out.append("end SpsdkVerif.Generated.HabFuns")
    emit("HabFuns", "\n".join(out) + "\n", meta)


GENERATORS = {"HabConsts": gen_HabConsts, "HabFuns": gen_HabFuns}
