"""C07 generator: Generated/HabConsts.lean and Generated/HabFuns.lean from the CURRENT HAB sources and device database.

Pure static reading (`ast`, `yaml.safe_load`); never imports spsdk.  Everything is read BY VALUE (tools/extract/consteval.py): constants,
enum tags and struct formats are evaluated at their use site (`0x2000` = `8 * 1024` = `SOME_NAME` = `cls.SIZE`), struct formats are emitted
as their normalised field list (`"<7L"` = `"<LLLLLLL"` = `"<IIIIIII"`), tables the code only indexes are emitted sorted by key, and the
functions handed to py2lean are first desugared (`a, b = divmod(x, k)`, tuple assignment, constant names folded to their values), so a
behaviour-preserving respelling of the source leaves the generated text (or at least its meaning for the proofs) unchanged.

HabConsts (namespace SpsdkVerif.Generated.HabConsts)
  * tag tables of SegTag / CmdTag / EnumCertFormat / EnumInsKey / EnumAuthDat / EnumEngine / EnumAlgorithm / EnumSRK / SecCommand,
  * struct formats and the *field order* of every pack()/unpack_from() of IVT2, BDT, Header, XMCD header, Install Key,
    Authenticate Data, Set, Unlock, MAC, SRK RSA / ECC records (as written in the export()/parse() bodies),
  * class constants (IVT_VERSION, segment offsets, CSF_SIZE, KEYBLOB_SIZE, BDT_SIZE, known application offsets,
    need_uid mask, flags returned by _get_flags, the order of SEGMENTS_MAPPING, the segment groups of _get_signed_blocks),
  * `devices`: every (family, boot device) of the `hab` database feature with the IVT offset
    (`bootable_image.mem_types.<dev>.segments.hab_container`) and the initial load size, resolved like Device.load does.
HabFuns (namespace SpsdkVerif.Generated.HabFuns)
  * AST->Lean translations (py2lean) of the integer arithmetic of the builder: CSF offset alignment, AEAD nonce length,
    flag predicates, MAC length check, Install-Secret-Key location, IVT pointers, BDT length, application offset,
    signed-block address/start, length of the signed image prefix.  Methods that read `self.x` / `config.options.y` are
    first rewritten (fixed substitution table below) into functions of plain integer parameters.
"""
from __future__ import annotations

import ast
import copy
import struct

import yaml

from consteval import ModuleEnv, NotConst, norm_struct
from extract import REPO, emit, parse
from py2lean import Env, FunSig, Untranslatable, find_function, module_int_consts, translate_function

HDR = "spsdk/image/header.py"
SEG = "spsdk/image/segments.py"
CMD = "spsdk/image/commands.py"
SEC = "spsdk/image/secret.py"
IMG = "spsdk/image/images.py"
HSEG = "spsdk/image/hab/segments.py"
HCON = "spsdk/image/hab/hab_container.py"
HCMD = "spsdk/image/hab/commands/commands.py"
HENUM = "spsdk/image/hab/commands/commands_enum.py"


# ------------------------------------------------------------------------------------------------ small AST helpers
def _cls(tree, name):
    for n in ast.walk(tree):
        if isinstance(n, ast.ClassDef) and n.name == name:
            return n
    return None


def _fun(node, name):
    if node is None:
        return None
    for n in ast.walk(node):
        if isinstance(n, ast.FunctionDef) and n.name == name:
            return n
    return None


def _setter(cls_node, name):
    for n in cls_node.body if cls_node else []:
        if isinstance(n, ast.FunctionDef) and n.name == name and any(
                isinstance(d, ast.Attribute) and d.attr == "setter" for d in n.decorator_list):
            return n
    return None


def _getter(cls_node, name):
    for n in cls_node.body if cls_node else []:
        if isinstance(n, ast.FunctionDef) and n.name == name and not any(
                isinstance(d, ast.Attribute) and d.attr == "setter" for d in n.decorator_list):
            return n
    return None


def enum_members(tree, clsname, menv=None):
    """(member, tag) rows of a SpsdkEnum class, tags evaluated by value, sorted by member name (the code only looks members up)"""
    c = _cls(tree, clsname)
    out = []
    for st in c.body if c else []:
        if isinstance(st, ast.Assign) and len(st.targets) == 1 and isinstance(st.targets[0], ast.Name) \
                and isinstance(st.value, ast.Tuple) and st.value.elts:
            try:
                v = menv.eval(st.value.elts[0], cls=clsname) if menv is not None else ast.literal_eval(st.value.elts[0])
            except (NotConst, ValueError, SyntaxError):
                continue
            if isinstance(v, int) and not isinstance(v, bool):
                out.append((st.targets[0].id, v))
    return sorted(out)


def _dotted(node):
    if isinstance(node, ast.Name):
        return node.id
    if isinstance(node, ast.Attribute):
        b = _dotted(node.value)
        return None if b is None else b + "." + node.attr
    return None


def _argname(a):
    """readable name of a pack() argument / unpack target"""
    if isinstance(a, ast.Constant):
        return f"const:{a.value}"
    d = _dotted(a)
    if d:
        return d[5:] if d.startswith("self.") else d[4:] if d.startswith("obj.") else d
    try:
        return "expr:" + ast.unparse(a).replace("self.", "")
    except Exception:  # noqa: BLE001
        return "expr:?"


def pack_calls(fn):
    """[(format expression node, [argument names])] for every pack(...) in fn, in source order"""
    out = []
    calls = [n for n in ast.walk(fn) if isinstance(n, ast.Call)] if fn else []
    calls.sort(key=lambda n: (n.lineno, n.col_offset))
    for n in calls:
        f = n.func
        name = f.attr if isinstance(f, ast.Attribute) else f.id if isinstance(f, ast.Name) else None
        if name == "pack" and n.args:
            out.append((n.args[0], [_argname(a) for a in n.args[1:]]))
    return out


def unpack_calls(fn):
    """[(format expression node, [target names], offset expr)] for `targets = unpack_from(fmt, data, off)` in fn"""
    out = []
    for st in ast.walk(fn) if fn else []:
        if isinstance(st, ast.Assign) and isinstance(st.value, (ast.Call, ast.Subscript)):
            call = st.value.value if isinstance(st.value, ast.Subscript) else st.value
            if not isinstance(call, ast.Call):
                continue
            f = call.func
            name = f.attr if isinstance(f, ast.Attribute) else f.id if isinstance(f, ast.Name) else None
            if name in ("unpack_from", "unpack") and call.args:
                fmt = call.args[0]
                t = st.targets[0]
                names = [_argname(e) for e in t.elts] if isinstance(t, (ast.Tuple, ast.List)) else [_argname(t)]
                off = ast.unparse(call.args[2]) if len(call.args) > 2 else "0"
                out.append((fmt, names, off, st.lineno))
    out.sort(key=lambda r: r[3])
    return [r[:3] for r in out]


def class_attr(tree, clsname, attr):
    c = _cls(tree, clsname)
    for st in c.body if c else []:
        if isinstance(st, ast.Assign) and len(st.targets) == 1 and isinstance(st.targets[0], ast.Name) and st.targets[0].id == attr:
            return st.value
        if isinstance(st, ast.AnnAssign) and isinstance(st.target, ast.Name) and st.target.id == attr:
            return st.value
    return None


def lit(node, default=None):
    try:
        return ast.literal_eval(node)
    except (ValueError, SyntaxError, TypeError):
        return default


# ------------------------------------------------------------------------------------------------ Lean rendering
def lstr(s):
    return '"' + str(s).replace("\\", "\\\\").replace('"', '\\"') + '"'


def lstrs(xs):
    return "[" + ", ".join(lstr(x) for x in xs) + "]"


def lnats(xs):
    return "[" + ", ".join(str(int(x)) for x in xs) + "]"


def ltable(rows):
    return "[" + ", ".join(f"({lstr(n)}, {v})" for n, v in rows) + "]"


def camel(name):
    parts = name.lower().split("_")
    return parts[0] + "".join(p.capitalize() for p in parts[1:])


# ------------------------------------------------------------------------------------------------ database
def deep_update(d, u):
    for k, v in u.items():
        if isinstance(v, dict):
            d[k] = deep_update(d.get(k, {}), v)
        else:
            d[k] = v
    return d


class Db:
    """Replica of spsdk/utils/database.py::Device.load (alias / revisions / defaults), features `hab`, `bootable_image` only;
    the latest revision is what `get_db(family)` hands to OptionsConfig.get_ivt_offset/get_initial_load_size."""

    KEEP = ("hab", "bootable_image")

    def __init__(self):
        self.root = REPO / "spsdk" / "data"
        self.defaults = yaml.safe_load((self.root / "common" / "database_defaults.yaml").read_text(encoding="utf-8"))
        self.cache = {}

    def names(self):
        return sorted(p.name for p in (self.root / "devices").iterdir() if (p / "database.yaml").exists())

    def _restrict(self, feats):
        return {k: v for k, v in (feats or {}).items() if k in self.KEEP}

    def load(self, name):
        if name in self.cache:
            return self.cache[name]
        cfg = yaml.safe_load((self.root / "devices" / name / "database.yaml").read_text(encoding="utf-8"))
        if cfg.get("alias"):
            base = self.load(cfg["alias"])
            dev = {"latest": cfg.get("latest", base["latest"]),
                   "revs": [{"name": r["name"], "is_latest": r["is_latest"], "features": copy.deepcopy(r["features"])}
                            for r in base["revs"]]}
            feats = self._restrict(cfg.get("features", {}))
            if feats:
                for r in dev["revs"]:
                    deep_update(r["features"], copy.deepcopy(feats))
            for rev_name, upd in (cfg.get("revisions") or {}).items():
                upd = upd or {}
                rev = next((r for r in dev["revs"] if r["name"] == rev_name), None)
                if rev is None:
                    alias_rev = upd.get("alias")
                    if not alias_rev:
                        continue
                    src = next((r for r in dev["revs"] if (r["is_latest"] if alias_rev == "latest" else r["name"] == alias_rev)), None)
                    if src is None:
                        continue
                    rev = {"name": rev_name, "is_latest": dev["latest"] == rev_name, "features": copy.deepcopy(src["features"])}
                    dev["revs"].append(rev)
                rf = self._restrict(upd.get("features"))
                if rf:
                    deep_update(rev["features"], copy.deepcopy(rf))
        else:
            dev_features = self._restrict(cfg["features"])
            defaults = copy.deepcopy(self._restrict(self.defaults["features"]))
            for fname in dev_features:
                deep_update(defaults.setdefault(fname, {}), dev_features[fname] or {})
                dev_features[fname] = defaults[fname]
            latest = cfg["latest"]
            dev = {"latest": latest, "revs": []}
            for rev_name, upd in cfg["revisions"].items():
                feats = copy.deepcopy(dev_features)
                rf = self._restrict((upd or {}).get("features"))
                if rf:
                    deep_update(feats, copy.deepcopy(rf))
                dev["revs"].append({"name": rev_name, "is_latest": rev_name == latest, "features": feats})
        self.cache[name] = dev
        return dev

    def latest(self, name):
        dev = self.load(name)
        return next((r for r in dev["revs"] if r["is_latest"]), None)


def _int(v):
    if isinstance(v, int):
        return v
    return int(str(v).replace("_", ""), 0)


def device_rows():
    db = Db()
    rows, errors = [], []
    for name in db.names():
        try:
            rev = db.latest(name)
        except Exception as exc:  # noqa: BLE001
            errors.append(f"{name}: {exc}")
            continue
        if rev is None or "hab" not in rev["features"]:
            continue
        mts = (rev["features"]["hab"] or {}).get("mem_types") or {}
        for dev, v in mts.items():
            try:
                ils = _int(v["initial_load_size"])
                ivt = _int(rev["features"]["bootable_image"]["mem_types"][dev]["segments"]["hab_container"])
                rows.append((name, dev, ivt, ils))
            except Exception as exc:  # noqa: BLE001
                errors.append(f"{name}/{dev}: {type(exc).__name__} {exc}")
    return sorted(rows), errors   # looked up by (family, device) only


# ------------------------------------------------------------------------------------------------ HabConsts
def gen_HabConsts():
    meta = {"sources": [HDR, SEG, CMD, SEC, IMG, HSEG, HCON, HCMD, HENUM], "errors": []}
    t = {}
    for rel in meta["sources"]:
        try:
            t[rel] = parse(rel)
        except (OSError, SyntaxError) as exc:
            t[rel] = ast.parse("")
            meta["errors"].append(f"{rel}: {exc}")
    out = ["namespace SpsdkVerif.Generated.HabConsts", ""]
    E = {rel: ModuleEnv(tree) for rel, tree in t.items()}     # by-value readers, one per module
    rel_of = {id(tree): rel for rel, tree in t.items()}

    def table(name, rows, src):
        out.append(f"/-- `{src}` -/")
        out.append(f"def {name} : List (String × Nat) := {ltable(rows)}")
        meta[name] = dict(rows)

    table("segTags", enum_members(t[HDR], "SegTag", E[HDR]), HDR + "::SegTag")
    table("cmdTags", enum_members(t[HDR], "CmdTag", E[HDR]), HDR + "::CmdTag")
    table("certFormats", enum_members(t[CMD], "EnumCertFormat", E[CMD]), CMD + "::EnumCertFormat")
    table("insKeyFlags", enum_members(t[CMD], "EnumInsKey", E[CMD]), CMD + "::EnumInsKey")
    table("authDatFlags", enum_members(t[CMD], "EnumAuthDat", E[CMD]), CMD + "::EnumAuthDat")
    table("engines", enum_members(t[CMD], "EnumEngine", E[CMD]), CMD + "::EnumEngine")
    table("itms", enum_members(t[CMD], "EnumItm", E[CMD]), CMD + "::EnumItm")
    table("algorithms", enum_members(t[SEC], "EnumAlgorithm", E[SEC]), SEC + "::EnumAlgorithm")
    table("srkTags", enum_members(t[SEC], "EnumSRK", E[SEC]), SEC + "::EnumSRK")
    table("secCommands", enum_members(t[HENUM], "SecCommand", E[HENUM]), HENUM + "::SecCommand")
    table("habSegments", enum_members(t[HSEG], "HabSegment", E[HSEG]), HSEG + "::HabSegment")
    out.append("")

    # ---- struct formats (normalised field lists) and field orders
    # formats of classes defined in another module (`Header.FORMAT` used from commands.py …): looked up by class name
    foreign = {}
    for rel in meta["sources"]:
        for cname in E[rel].classes:
            foreign.setdefault(cname, rel)

    def const_of(rel, cls, attr):
        """class constant by value (inherited through bases of the module), None when it is not a constant"""
        try:
            return E[rel].cls(cls).value(attr)
        except NotConst:
            return None

    def norm(v):
        if not isinstance(v, str):
            return "?"
        try:
            return norm_struct(v)
        except Exception:  # noqa: BLE001
            return "?"

    def fmt_of(tree, cls, attr="FORMAT"):
        return norm(const_of(rel_of[id(tree)], cls, attr))

    fmts = {
        "headerFormat": fmt_of(t[HDR], "Header"),
        "ivt2Format": fmt_of(t[SEG], "SegIVT2"),
        "bdtFormat": fmt_of(t[SEG], "SegBDT"),
        "xmcdHeaderFormat": fmt_of(t[SEG], "XMCDHeader"),
    }
    for k, v in fmts.items():
        out.append(f"def {k} : String := {lstr(v)}")
    meta["formats"] = dict(fmts)

    def resolve(node, cls_tree, cls):
        """the format handed to pack()/unpack_from(), evaluated at the use site (literal, `FORMAT`, `cls.FORMAT`, `Other.FORMAT`, …)"""
        rel = rel_of[id(cls_tree)]
        try:
            return norm(E[rel].eval(node, cls=cls))
        except NotConst:
            d = _dotted(node)
            if d and "." in d:
                base, attr = d.rsplit(".", 1)
                if base in foreign:
                    return norm(const_of(foreign[base], base, attr))
            return "?"

    def packs(name, tree, cls, fn="export"):
        c = _cls(tree, cls)
        rows = [(resolve(f, tree, cls), a) for f, a in pack_calls(_fun(c, fn))]
        out.append(f"/-- pack() calls of `{cls}.{fn}`: (format, arguments) in source order -/")
        out.append(f"def {name} : List (String × List String) := [" + ", ".join(f"({lstr(f)}, {lstrs(a)})" for f, a in rows) + "]")
        meta[name] = rows

    def unpacks(name, tree, cls, fn="parse"):
        c = _cls(tree, cls)
        rows = [(resolve(f, tree, cls), a, o) for f, a, o in unpack_calls(_fun(c, fn))]
        out.append(f"/-- unpack_from() calls of `{cls}.{fn}`: (format, targets, offset expression) -/")
        out.append(f"def {name} : List (String × List String × String) := [" +
                   ", ".join(f"({lstr(f)}, {lstrs(a)}, {lstr(o)})" for f, a, o in rows) + "]")
        meta[name] = rows

    packs("headerPack", t[HDR], "Header")
    unpacks("headerUnpack", t[HDR], "Header")
    packs("ivt2Pack", t[SEG], "SegIVT2")
    unpacks("ivt2Unpack", t[SEG], "SegIVT2")
    packs("bdtPack", t[SEG], "SegBDT")
    packs("xmcdHeaderPack", t[SEG], "XMCDHeader")
    unpacks("xmcdHeaderUnpack", t[SEG], "XMCDHeader")
    packs("insKeyPack", t[CMD], "CmdInstallKey")
    unpacks("insKeyUnpack", t[CMD], "CmdInstallKey")
    packs("autDatPack", t[CMD], "CmdAuthData")
    unpacks("autDatUnpack", t[CMD], "CmdAuthData")
    packs("setPack", t[CMD], "CmdSet")
    unpacks("setUnpack", t[CMD], "CmdSet")
    packs("unlockPack", t[CMD], "CmdUnlockAbstract")
    unpacks("unlockUnpack", t[CMD], "CmdUnlockAbstract")
    packs("macPack", t[SEC], "MAC")
    unpacks("macUnpack", t[SEC], "MAC")
    packs("srkRsaPack", t[SEC], "SrkItemRSA")
    unpacks("srkRsaUnpack", t[SEC], "SrkItemRSA")
    packs("srkEccPack", t[SEC], "SrkItemEcc")
    unpacks("srkEccUnpack", t[SEC], "SrkItemEcc")
    out.append("")

    # ---- Write Data / Check Data / Initialize commands, DCD segment (Model/HabDcd.lean is written against these)
    table("writeOps", enum_members(t[CMD], "EnumWriteOps", E[CMD]), CMD + "::EnumWriteOps")
    table("checkOps", enum_members(t[CMD], "EnumCheckOps", E[CMD]), CMD + "::EnumCheckOps")
    packs("wrtDatPack", t[CMD], "CmdWriteData")
    unpacks("wrtDatUnpack", t[CMD], "CmdWriteData")
    packs("chkDatPack", t[CMD], "CmdCheckData")
    unpacks("chkDatUnpack", t[CMD], "CmdCheckData")
    packs("initPack", t[CMD], "CmdInitialize")
    unpacks("initUnpack", t[CMD], "CmdInitialize")
    cmd_tag_of = dict(enum_members(t[HDR], "CmdTag", E[HDR]))

    def int_consts(node, rel, cls):
        """integer constants of an expression, by value, in source order (maximal constant sub-expressions)"""
        if node is None:
            return []
        try:
            v = E[rel].eval(node, cls=cls)
            if isinstance(v, int) and not isinstance(v, bool):
                return [v]
        except NotConst:
            pass
        res = []
        for ch in ast.iter_child_nodes(node):
            if isinstance(ch, ast.expr):
                res += int_consts(ch, rel, cls)
        return res

    def width_sets(cls):
        """every `x not in (…)` / `x in (…)` membership test of `cls.__init__` whose right side is a tuple of integers"""
        res = []
        f = _fun(_cls(t[CMD], cls), "__init__")
        for n in sorted((x for x in ast.walk(f) if isinstance(x, ast.Compare)), key=lambda x: (x.lineno, x.col_offset)) if f else []:
            if len(n.ops) == 1 and isinstance(n.ops[0], (ast.In, ast.NotIn)):
                try:
                    v = E[CMD].eval(n.comparators[0], cls=cls)
                except NotConst:
                    continue
                if isinstance(v, (tuple, list)) and v and all(isinstance(x, int) and not isinstance(x, bool) for x in v):
                    res.append(sorted(v))
        return res

    def param_consts(cls):
        """constants of the parameter-byte expression handed to `super().__init__(CmdTag.X, <expr>)`"""
        f = _fun(_cls(t[CMD], cls), "__init__")
        for n in ast.walk(f) if f else []:
            if isinstance(n, ast.Call) and isinstance(n.func, ast.Attribute) and n.func.attr == "__init__" and len(n.args) >= 2:
                return int_consts(n.args[1], CMD, cls)
        return []

    for nm, cls in (("wrtDat", "CmdWriteData"), ("chkDat", "CmdCheckData")):
        ws = width_sets(cls)
        out.append(f"/-- byte widths `{cls}.__init__` accepts -/")
        out.append(f"def {nm}Widths : List Nat := {lnats(ws[0] if ws else [])}")
        meta[nm + "Widths"] = ws[0] if ws else []
        pc = param_consts(cls)
        out.append(f"/-- constants of the parameter byte `((ops.tag & a) << b) | (numbytes & c)` of `{cls}.__init__`, source order -/")
        out.append(f"def {nm}ParamConsts : List Nat := {lnats(pc)}")
        meta[nm + "ParamConsts"] = pc
    # CmdInitialize.append: `value < 0 or value >= LIMIT`
    lim = []
    ia = _fun(_cls(t[CMD], "CmdInitialize"), "append")
    for n in sorted((x for x in ast.walk(ia) if isinstance(x, ast.Compare)), key=lambda x: (x.lineno, x.col_offset)) if ia else []:
        if len(n.ops) == 1 and isinstance(n.ops[0], (ast.Gt, ast.GtE)):
            v = ev_c = None
            try:
                v = E[CMD].eval(n.comparators[0], cls="CmdInitialize")
            except NotConst:
                pass
            if isinstance(v, int) and not isinstance(v, bool):
                lim.append(v + 1 if isinstance(n.ops[0], ast.Gt) else v)
    out.append("/-- first value `CmdInitialize.append` refuses -/")
    out.append(f"def initLimit : Nat := {lim[0] if lim else 0}")
    meta["initLimit"] = lim[0] if lim else 0
    # SegDCD._COMMANDS (tags, in source order) and the default parameter byte of SegDCD.__init__
    dc = class_attr(t[SEG], "SegDCD", "_COMMANDS")
    dcd_tags = []
    if isinstance(dc, (ast.Tuple, ast.List)):
        for e in dc.elts:
            d = _dotted(e) or ""
            dcd_tags.append(cmd_tag_of.get(d.split(".")[-1], 0))
    out.append("/-- `SegDCD._COMMANDS` as tags -/")
    out.append(f"def dcdCommands : List Nat := {lnats(dcd_tags)}")
    meta["dcdCommands"] = dcd_tags
    # parse_command dispatch: tags of `_CMD_TO_CLASS`, sorted (the code only indexes it)
    disp = []
    for n in ast.walk(t[CMD]):
        if isinstance(n, (ast.Assign, ast.AnnAssign)):
            tgt = n.targets[0] if isinstance(n, ast.Assign) else n.target
            if isinstance(tgt, ast.Name) and tgt.id == "_CMD_TO_CLASS" and isinstance(n.value, ast.Dict):
                for k, v in zip(n.value.keys, n.value.values):
                    disp.append((cmd_tag_of.get((_dotted(k) or "").split(".")[-1], 0), _dotted(v) or "?"))
    disp.sort()
    out.append("/-- `_CMD_TO_CLASS`: (tag, class) rows `parse_command` dispatches on -/")
    out.append("def cmdDispatch : List (Nat × String) := [" + ", ".join(f"({k}, {lstr(v)})" for k, v in disp) + "]")
    meta["cmdDispatch"] = [[k, v] for k, v in disp]
    out.append("")

    # BDT parse: cls(*unpack_from(cls.FORMAT, data)) - argument order of SegBDT.__init__
    bdt_init = _fun(_cls(t[SEG], "SegBDT"), "__init__")
    bdt_args = [a.arg for a in bdt_init.args.args if a.arg != "self"] if bdt_init else []
    out.append(f"def bdtInitArgs : List String := {lstrs(bdt_args)}")
    meta["bdtInitArgs"] = bdt_args
    # XMCD header export expressions (operator precedence matters there) and SegXMCD size
    xh = _fun(_cls(t[SEG], "XMCDHeader"), "export")
    xexprs = []
    for f, _ in pack_calls(xh):
        pass
    for n in ast.walk(xh) if xh else []:
        if isinstance(n, ast.Call) and getattr(n.func, "id", getattr(n.func, "attr", None)) == "pack":
            xexprs = [ast.unparse(a).replace("self.", "") for a in n.args[1:]]
    meta["xmcdHeaderExportExprs"] = xexprs  # informational only; the bytes are translated in HabFuns
    xsize = _getter(_cls(t[SEG], "SegXMCD"), "size")
    xsize_src = ""
    if xsize is not None:
        rets = [n for n in ast.walk(xsize) if isinstance(n, ast.Return) and n.value is not None]
        xsize_src = ast.unparse(rets[-1].value).replace("self.", "") if rets else ""
    meta["segXmcdSizeExpr"] = xsize_src  # informational only ('' = inherits BaseSegment.size = 0)

    # ---- integer constants (by value)
    def size_of(fmt):
        try:
            return struct.calcsize(fmt)
        except struct.error as exc:
            meta["errors"].append(f"calcsize {fmt!r}: {exc}")
            return None

    header_size = size_of(fmts["headerFormat"])
    ivt_struct = size_of(fmts["ivt2Format"])
    wanted = [
        ("ivtVersion", const_of(HSEG, "IvtHabSegment", "IVT_VERSION")),
        ("ivtSegOffset", const_of(HSEG, "IvtHabSegment", "OFFSET")),
        ("xmcdSegOffset", const_of(HSEG, "XmcdHabSegment", "OFFSET")),
        ("csfSize", const_of(HSEG, "CsfHabSegment", "CSF_SIZE")),
        ("keyblobSize", const_of(HSEG, "CsfHabSegment", "KEYBLOB_SIZE")),
        ("bdtSize", const_of(IMG, "BootImgRT", "BDT_SIZE")),
        ("aesBlkLen", const_of(SEC, "MAC", "AES128_BLK_LEN")),
        ("headerSize", header_size),
        ("ivt2Size", None if header_size is None or ivt_struct is None else header_size + ivt_struct),
        ("bdtStructSize", size_of(fmts["bdtFormat"])),
        ("xmcdHeaderSize", size_of(fmts["xmcdHeaderFormat"])),
        ("xmcdHeaderTag", const_of(SEG, "XMCDHeader", "TAG")),
    ]
    for k, v in wanted:
        if not isinstance(v, int) or isinstance(v, bool):
            meta["errors"].append(f"constant {k} not found")
            v = 0
        out.append(f"def {k} : Nat := {v}")
        meta[k] = v

    def ev(rel, node, cls=None, default=None):
        try:
            return E[rel].eval(node, cls=cls)
        except NotConst:
            return default

    def int_list(v):
        return isinstance(v, (list, tuple)) and len(v) > 0 and all(isinstance(x, int) and not isinstance(x, bool) for x in v)

    # known application offsets probed by AppHabSegment.parse, in probing order: the table the `for offset in …` loop iterates
    # (an inline literal, a local, a class or a module constant)
    known = []
    app_parse = _fun(_cls(t[HSEG], "AppHabSegment"), "parse")
    app_locals = {}
    for n in ast.walk(app_parse) if app_parse else []:
        if isinstance(n, ast.Assign) and len(n.targets) == 1 and isinstance(n.targets[0], ast.Name):
            v = ev(HSEG, n.value, "AppHabSegment")
            if v is not None:
                app_locals.setdefault(n.targets[0].id, v)
    for n in sorted((x for x in ast.walk(app_parse) if isinstance(x, ast.For)), key=lambda x: x.lineno) if app_parse else []:
        try:
            v = E[HSEG].eval(n.iter, cls="AppHabSegment", local=app_locals)
        except NotConst:
            continue
        if int_list(v):
            known = list(v)
            break
    out.append(f"def knownAppOffsets : List Nat := {lnats(known)}")
    meta["knownAppOffsets"] = known
    # reset-vector window of get_app_offset: `range_start = app_address - X`
    win = 0
    for n in ast.walk(app_parse) if app_parse else []:
        if isinstance(n, ast.Assign) and isinstance(n.targets[0], ast.Name) and n.targets[0].id == "range_start" \
                and isinstance(n.value, ast.BinOp) and isinstance(n.value.op, ast.Sub):
            try:
                w = E[HSEG].eval(n.value.right, cls="AppHabSegment", local=app_locals)
            except NotConst:
                w = None
            win = w if isinstance(w, int) else 0
    out.append(f"def resetVectorWindow : Nat := {win}")
    meta["resetVectorWindow"] = win
    # need_uid: engine == EnumEngine.OCOTP and bool(features & MASK)
    mask, eng = 0, ""
    nu = _fun(_cls(t[CMD], "CmdUnlockAbstract"), "need_uid")
    for n in ast.walk(nu) if nu else []:
        if isinstance(n, ast.BinOp) and isinstance(n.op, ast.BitAnd):
            for side in (n.right, n.left):
                v = ev(CMD, side, "CmdUnlockAbstract")
                if isinstance(v, int) and not isinstance(v, bool):
                    mask = v
                    break
        if isinstance(n, ast.Compare):
            for side in [n.left] + list(n.comparators):
                d = _dotted(side)
                if d and d.startswith("EnumEngine."):
                    eng = d.split(".", 1)[1]
    out.append(f"def needUidMask : Nat := {mask}")
    out.append(f"def needUidEngine : String := {lstr(eng)}")
    meta["needUid"] = [eng, mask]
    # _get_flags constants: every integer a `return` can produce (conditional expressions give both arms)
    gf = _fun(_cls(t[HCON], "HabContainer"), "_get_flags")

    def ret_values(node):
        if isinstance(node, ast.IfExp):
            return ret_values(node.body) + ret_values(node.orelse)
        v = ev(HCON, node, "HabContainer")
        return [v] if isinstance(v, int) and not isinstance(v, bool) else []

    flat = []
    gf_locals = {}
    for n in ast.walk(gf) if gf else []:
        if isinstance(n, ast.Assign) and len(n.targets) == 1 and isinstance(n.targets[0], ast.Name):
            gf_locals.setdefault(n.targets[0].id, []).extend(ret_values(n.value))
    for n in ast.walk(gf) if gf else []:
        if isinstance(n, ast.Return) and n.value is not None:
            if isinstance(n.value, ast.Name) and n.value.id in gf_locals:
                flat += gf_locals[n.value.id]
            else:
                flat += ret_values(n.value)
    flat = sorted(set(flat))
    out.append(f"def parseFlags : List Nat := {lnats(flat)}   -- values _get_flags can return")
    meta["parseFlags"] = flat

    # SEGMENTS_MAPPING order (the container iterates it) and the groups _get_signed_blocks iterates
    def member(e):
        return (_dotted(e) or "?").split(".")[-1]

    def find_assign(scopes, name):
        """value node of `name = …` in the first scope (function node / module) that assigns it"""
        for scope in scopes:
            for n in ast.walk(scope) if scope is not None else []:
                if isinstance(n, (ast.Assign, ast.AnnAssign)):
                    tgt = n.targets[0] if isinstance(n, ast.Assign) else n.target
                    if isinstance(tgt, ast.Name) and tgt.id == name and n.value is not None:
                        return n.value
        return None

    order = []
    sm = find_assign([t[HSEG]], "SEGMENTS_MAPPING")
    if isinstance(sm, ast.Dict):
        order = [member(k) for k in sm.keys]
    out.append(f"def segmentsMappingOrder : List String := {lstrs(order)}")
    meta["segmentsMappingOrder"] = order
    groups = []
    sb = _fun(_cls(t[HCON], "HabContainer"), "_get_signed_blocks")

    def group_list(node, depth=0):
        """a list/tuple literal of lists/tuples of HabSegment members; a Name/Attribute is resolved to its assignment"""
        if isinstance(node, (ast.List, ast.Tuple)) and node.elts and all(isinstance(g, (ast.List, ast.Tuple)) for g in node.elts):
            return [[member(e) for e in g.elts] for g in node.elts]
        d = _dotted(node)
        if d and depth < 3:
            return group_list(find_assign([sb, _cls(t[HCON], "HabContainer"), t[HCON]], d.split(".")[-1]), depth + 1)
        return None

    for n in sorted((x for x in ast.walk(sb) if isinstance(x, ast.For)), key=lambda x: x.lineno) if sb else []:
        g = group_list(n.iter)
        if g:
            groups = g
            break
    out.append("def signedBlockGroups : List (List String) := [" + ", ".join(lstrs(g) for g in groups) + "]")
    meta["signedBlockGroups"] = groups
    # which CmdAuthData (by position) is CSF / data / decrypt
    idx = []
    for nm in ("get_authenticate_csf_cmd", "get_authenticate_data_cmd", "get_decrypt_data_cmd"):
        f = _fun(_cls(t[HSEG], "CsfHabSegment"), nm)
        v = None
        subs = sorted((n for n in ast.walk(f) if isinstance(n, ast.Subscript) and isinstance(n.ctx, ast.Load)),
                      key=lambda n: (n.lineno, n.col_offset)) if f else []
        for n in subs:   # the position taken from the list of CmdAuthData commands (`<list>[k]`, k read by value)
            k = ev(HSEG, n.slice, "CsfHabSegment") if not isinstance(n.slice, ast.Slice) else None
            if isinstance(k, int) and not isinstance(k, bool):
                v = k
                break
        idx.append(v if isinstance(v, int) else 99)
    out.append(f"def authCmdIndex : List Nat := {lnats(idx)}   -- [authenticate CSF, authenticate data, decrypt data]")
    meta["authCmdIndex"] = idx
    # ECC SRK curve ids
    ecc = class_attr(t[SEC], "SrkItemEcc", "ECC_KEY_TYPE")
    ecc_rows = []
    if isinstance(ecc, ast.Dict):
        for k, v in zip(ecc.keys, ecc.values):
            val = ev(SEC, v, "SrkItemEcc")
            ecc_rows.append((member(k), val if isinstance(val, int) else 0))
    ecc_rows.sort()   # the code only indexes this table
    table("eccKeyTypes", ecc_rows, SEC + "::SrkItemEcc.ECC_KEY_TYPE")
    out.append("")

    # ---- database
    rows, errs = device_rows()
    meta["errors"] += errs
    out.append("/-- (family, boot device, IVT offset = bootable_image…hab_container, initial load size) for the `hab` feature -/")
    out.append("def devices : List (String × String × Nat × Nat) := [")
    out.append(",\n".join(f"  ({lstr(f)}, {lstr(d)}, {i}, {s})" for f, d, i, s in rows))
    out.append("]")
    meta["devices"] = [[f, d, i, s] for f, d, i, s in rows]
    out.append("")
    out.append("end SpsdkVerif.Generated.HabConsts")
    emit("HabConsts", "\n".join(out) + "\n", meta)


# ------------------------------------------------------------------------------------------------ HabFuns
class _Subst(ast.NodeTransformer):
    """rewrite fixed source expressions into plain parameter names"""

    def __init__(self, table):
        self.table = table

    def visit(self, node):
        if isinstance(node, ast.expr):
            try:
                src = ast.unparse(node)
            except Exception:  # noqa: BLE001
                src = None
            if src in self.table:
                return ast.copy_location(ast.Name(id=self.table[src], ctx=ast.Load()), node)
        return self.generic_visit(node)


SUBST = {
    "self.flags": "flags",
    "config.options.flags": "flags",
    "config.options.get_initial_load_size()": "initial_load_size",
    "config.options.get_ivt_offset()": "ivt_offset",
    "config.options.start_address": "start_address",
    "len(config.app_image)": "app_len",
    "segment.ivt_address": "ivt_address",
    "segment.size": "ivt_size",
    "end_seg.offset": "end_offset",
    "end_seg.size": "end_size",
    "self.start_address": "start_address",
    "self.ivt_offset": "ivt_offset",
    "self.csf_segment.offset": "csf_offset",
    "ivt.segment.ivt_address": "ivt_address",
    "ivt.segment.bdt_address": "bdt_address",
    "ivt.segment.dcd_address": "dcd_address",
    "ivt.segment.csf_address": "csf_address",
    "bdt.segment.app_start": "app_start",
}


def _synth(name, params, body):
    fn = ast.FunctionDef(name=name, args=ast.arguments(posonlyargs=[], args=[ast.arg(arg=p, annotation=ast.Name(id="int", ctx=ast.Load())) for p in params],
                                                       kwonlyargs=[], kw_defaults=[], defaults=[]),
                         body=body, decorator_list=[], returns=None, lineno=1, col_offset=0)
    return ast.fix_missing_locations(fn)


def _assign_to_return(stmts, target_src):
    """replace `target_src = e` by `return e` (recursively in if/else)"""
    out = []
    for s in stmts:
        if isinstance(s, ast.Assign) and len(s.targets) == 1 and ast.unparse(s.targets[0]) == target_src:
            out.append(ast.Return(value=s.value))
        elif isinstance(s, ast.AugAssign) and ast.unparse(s.target) == target_src:
            out.append(ast.Return(value=ast.BinOp(left=s.target, op=s.op, right=s.value)))
        elif isinstance(s, ast.If):
            s2 = copy.copy(s)
            s2.body = _assign_to_return(s.body, target_src)
            s2.orelse = _assign_to_return(s.orelse, target_src)
            out.append(s2)
        else:
            out.append(s)
    return out


# ------------------------------------------------------------------------------------------------ backward slices
def _uses(node):
    """names an expression reads: maximal dotted chains (`segment.ivt_address`, not also `segment`) and bare names"""
    out = set()

    def walk(n):
        if isinstance(n, (ast.Name, ast.Attribute)):
            d = _dotted(n)
            if d is not None:
                if not isinstance(getattr(n, "ctx", None), ast.Store):
                    out.add(d)
                return
        for c in ast.iter_child_nodes(n):
            walk(c)

    walk(node)
    return out


def _stores(node):
    out = set()
    for n in ast.walk(node):
        if isinstance(n, (ast.Name, ast.Attribute)) and isinstance(getattr(n, "ctx", None), (ast.Store, ast.Del)):
            d = _dotted(n)
            if d:
                out.add(d)
        elif isinstance(n, (ast.Assign, ast.AugAssign, ast.AnnAssign)):
            for tg in (n.targets if isinstance(n, ast.Assign) else [n.target]):
                for e in ast.walk(tg):
                    d = _dotted(e)
                    if d:
                        out.add(d)
    return out


def _prefix_to(stmts, site):
    """the statements executed before `site` on the way to it (outer blocks first; conditions on the way are assumed to hold)"""
    for i, st in enumerate(stmts):
        if st is site:
            return list(stmts[:i])
        for field in ("body", "orelse", "finalbody", "handlers"):
            sub = getattr(st, field, None)
            if not isinstance(sub, list):
                continue
            for blk in ([h.body for h in sub] if field == "handlers" else [sub]):
                if blk and isinstance(blk[0], ast.stmt):
                    r = _prefix_to(blk, site)
                    if r is not None:
                        return list(stmts[:i]) + r
    return None


def _bslice(stmts, needed, params):
    """statements of `stmts` (a straight-line prefix, `if`s included) the values named in `needed` depend on; `needed` is updated to
    what must be known before `stmts`.  `params` are the SOURCE expressions that are inputs of the extracted function (the keys of the
    substitution table, e.g. `segment.ivt_address`): their definitions are not followed.  A genuine local is always followed, also when
    it happens to be called like a parameter (`app_len = align(len(config.app_image), 16)` must stay in the slice)."""
    kept = []
    for st in reversed(stmts):
        needed -= params
        if isinstance(st, (ast.Assign, ast.AnnAssign, ast.AugAssign)):
            tgt = st.targets[0] if isinstance(st, ast.Assign) and len(st.targets) == 1 else getattr(st, "target", None)
            key = _dotted(tgt) if tgt is not None else None
            if key is None:
                if _stores(st) & needed:
                    raise Untranslatable("slice: a needed value is assigned through an unsupported target")
                continue
            if key in needed and getattr(st, "value", None) is not None:
                kept.append(st)
                if isinstance(st, ast.AugAssign):
                    needed |= _uses(st.value) | {key}
                else:
                    needed.discard(key)
                    needed |= _uses(st.value)
            continue
        if isinstance(st, ast.If):
            nb, no = set(needed), set(needed)
            kb, ko = _bslice(st.body, nb, params), _bslice(st.orelse, no, params)
            if kb or ko:
                st2 = copy.copy(st)
                st2.body, st2.orelse = (kb or [ast.Pass()]), ko
                kept.append(st2)
                needed.clear()
                needed |= nb | no | _uses(st.test)
            continue
        if isinstance(st, (ast.Expr, ast.Return, ast.Raise, ast.Pass, ast.Assert, ast.Import, ast.ImportFrom, ast.FunctionDef)):
            continue
        if _stores(st) & (needed - params):
            raise Untranslatable(f"slice: a needed value is assigned inside a {type(st).__name__}")
    needed -= params
    kept.reverse()
    return kept


def slice_value(fn, site, value, inputs, subst=None):
    """`value` as computed at statement `site` of the (unsubstituted) `fn`: the backward slice of the preceding statements +
    `return value`; attribute-valued temporaries (`segment.csf_address = …`) become locals; `subst` is applied at the end"""
    prefix = _prefix_to(fn.body, site)
    if prefix is None:
        return None
    params = set(inputs)
    kept = _bslice(prefix, _uses(value) - params, params)
    ren = dict(subst or {})
    for st in ast.walk(ast.Module(body=kept, type_ignores=[])):
        if isinstance(st, (ast.Assign, ast.AnnAssign, ast.AugAssign)):
            tgt = st.targets[0] if isinstance(st, ast.Assign) else st.target
            d = _dotted(tgt)
            if d and "." in d and d not in ren:
                ren[d] = d.replace(".", "_")
    stmts = kept + [ast.Return(value=value)]
    if ren:
        stmts = [_Subst(ren).visit(copy.deepcopy(x)) for x in stmts]
    return stmts


def _rename(fn, table):
    for n in ast.walk(fn):
        if isinstance(n, ast.Name) and n.id in table:
            n.id = table[n.id]
        elif isinstance(n, ast.arg) and n.arg in table:
            n.arg = table[n.arg]
    return fn


def _bound_to_call(fn, suffix):
    """name of the first local bound to a call whose callee (dotted) ends with `suffix`"""
    found = []
    for n in ast.walk(fn):
        if isinstance(n, ast.Assign) and len(n.targets) == 1 and isinstance(n.targets[0], ast.Name) and isinstance(n.value, ast.Call):
            d = _dotted(n.value.func) or ""
            if d.endswith(suffix):
                found.append((n.lineno, n.targets[0].id))
    return min(found)[1] if found else None


def _ret_ctor(fn):
    """(return statement, constructor call) of the last `return cls(…)` of fn (nested functions excluded)"""
    best = None

    def walk(n):
        nonlocal best
        for c in ast.iter_child_nodes(n):
            if isinstance(c, (ast.FunctionDef, ast.AsyncFunctionDef, ast.Lambda)):
                continue
            if isinstance(c, ast.Return) and isinstance(c.value, ast.Call) and isinstance(c.value.func, ast.Name) and c.value.func.id == "cls":
                if best is None or c.lineno >= best[0].lineno:
                    best = (c, c.value)
            walk(c)

    walk(fn)
    return best


def _ctor_arg(call, pos, kw):
    for k in call.keywords:
        if k.arg == kw:
            return k.value
    return call.args[pos] if len(call.args) > pos and not isinstance(call.args[pos], ast.Starred) else None


def _names(node, ctx=None):
    return {n.id for n in ast.walk(node) if isinstance(n, ast.Name) and (ctx is None or isinstance(n.ctx, ctx))}


def _pure(node):
    return not any(isinstance(n, (ast.Call, ast.NamedExpr, ast.Await, ast.Yield, ast.YieldFrom)) for n in ast.walk(node))


class _Desugar(ast.NodeTransformer):
    """Normalise statement forms py2lean has no case for into the ones it has (same values, evaluation order kept):
         q, r = divmod(x, k)      ->  q = x // k; r = x % k        (through temporaries when x / k are impure or mention q / r)
         a, b = e1, e2            ->  _t0 = e1; _t1 = e2; a = _t0; b = _t1
         divmod(x, k)[0] / [1]    ->  x // k / x % k
         import … (inside the function) -> dropped
       Anything else is left alone (py2lean then decides)."""

    def __init__(self):
        self.n = 0

    def _tmp(self):
        self.n += 1
        return f"dsg_{self.n}"

    @staticmethod
    def _is_divmod(node):
        return isinstance(node, ast.Call) and isinstance(node.func, ast.Name) and node.func.id == "divmod" \
            and len(node.args) == 2 and not node.keywords

    def visit_Subscript(self, node):
        self.generic_visit(node)
        if self._is_divmod(node.value) and isinstance(node.slice, ast.Constant) and node.slice.value in (0, 1) \
                and not isinstance(node.slice.value, bool):
            x, k = node.value.args
            return ast.copy_location(ast.BinOp(left=x, op=ast.FloorDiv() if node.slice.value == 0 else ast.Mod(), right=k), node)
        return node

    def _assign(self, tgt, val, like):
        return ast.copy_location(ast.Assign(targets=[tgt], value=val), like)

    def _split(self, s):
        if not (isinstance(s, ast.Assign) and len(s.targets) == 1 and isinstance(s.targets[0], (ast.Tuple, ast.List))):
            return [s]
        tg = s.targets[0].elts
        if not all(isinstance(e, ast.Name) for e in tg):
            return [s]
        load = lambda name: ast.Name(id=name, ctx=ast.Load())  # noqa: E731
        if self._is_divmod(s.value) and len(tg) == 2:
            x, k = s.value.args
            pre = []
            if not (_pure(x) and _pure(k)) or ({e.id for e in tg} & (_names(x) | _names(k))):
                tx, tk = self._tmp(), self._tmp()
                pre = [self._assign(ast.Name(id=tx, ctx=ast.Store()), x, s), self._assign(ast.Name(id=tk, ctx=ast.Store()), k, s)]
                x, k = load(tx), load(tk)
            return pre + [self._assign(tg[0], ast.BinOp(left=copy.deepcopy(x), op=ast.FloorDiv(), right=copy.deepcopy(k)), s),
                          self._assign(tg[1], ast.BinOp(left=copy.deepcopy(x), op=ast.Mod(), right=copy.deepcopy(k)), s)]
        if isinstance(s.value, (ast.Tuple, ast.List)) and len(s.value.elts) == len(tg) \
                and not any(isinstance(e, ast.Starred) for e in s.value.elts):
            tmps = [self._tmp() for _ in tg]
            return [self._assign(ast.Name(id=tm, ctx=ast.Store()), v, s) for tm, v in zip(tmps, s.value.elts)] + \
                   [self._assign(e, load(tm), s) for e, tm in zip(tg, tmps)]
        return [s]

    def generic_visit(self, node):
        super().generic_visit(node)
        for field in ("body", "orelse", "finalbody"):
            stmts = getattr(node, field, None)
            if isinstance(stmts, list) and stmts and all(isinstance(x, ast.stmt) for x in stmts):
                flat = []
                for x in stmts:
                    if isinstance(x, (ast.Import, ast.ImportFrom)):
                        continue            # a function-level import has no effect on the value
                    flat += self._split(x)
                setattr(node, field, flat or [ast.Pass()])
        return node


class _FoldConsts(ast.NodeTransformer):
    """replace every sub-expression that is an integer CONSTANT of the source (literal arithmetic, module / class constants through
    `NAME`, `Cls.NAME`, `self.NAME`, `cls.NAME`, `calcsize(FORMAT)` …) by its value, so that the translation does not depend on how
    the constant is spelled.  Names bound inside the function (parameters, locals) are never constants."""

    def __init__(self, menv, cls, bound):
        self.menv, self.cls, self.bound = menv, cls, bound

    def visit(self, node):
        if isinstance(node, ast.expr) and not isinstance(node, ast.Constant) \
                and isinstance(getattr(node, "ctx", ast.Load()), ast.Load) and not (_names(node) & self.bound):
            try:
                v = self.menv.eval(node, cls=self.cls)
            except Exception:  # noqa: BLE001  (NotConst and anything a partial evaluation can raise)
                v = None
            if isinstance(v, int) and not isinstance(v, bool):
                return ast.copy_location(ast.Constant(value=v), node)
        return self.generic_visit(node)


def normalise_function(fn, menv=None, cls=None):
    """desugar + fold constants; returns a new FunctionDef"""
    fn = _Desugar().visit(copy.deepcopy(fn))
    if menv is not None:
        bound = ({a.arg for a in fn.args.args} | _names(fn, ast.Store)) - {"self", "cls"}
        body = [_FoldConsts(menv, cls, bound).visit(s) for s in fn.body]
        fn.body = body
    return ast.fix_missing_locations(fn)


def gen_HabFuns():
    meta = {"functions": {}, "errors": []}
    trees = {}
    env = Env()
    for rel in (HSEG, HCON, HCMD, IMG, SEG, HDR):
        try:
            trees[rel] = parse(rel)
        except (OSError, SyntaxError) as exc:
            trees[rel] = None
            meta["errors"].append(f"{rel}: {exc}")
    for rel in (HSEG, IMG, HCMD):
        if trees[rel] is not None:
            env.consts.update({k: v for k, v in module_int_consts(trees[rel]).items() if "." in k})
    menvs = {rel: ModuleEnv(tree) for rel, tree in trees.items() if tree is not None}
    # sizes that module_int_consts cannot fold (calcsize)
    try:
        hf = menvs[HDR].cls("Header").value("FORMAT")
        iv = menvs[SEG].cls("SegIVT2").value("FORMAT")
        env.consts["Header.SIZE"] = struct.calcsize(hf)
        env.consts["CmdHeader.SIZE"] = struct.calcsize(hf)
        env.consts["SegIVT2.SIZE"] = struct.calcsize(hf) + struct.calcsize(iv)
    except Exception as exc:  # noqa: BLE001
        meta["errors"].append(f"calcsize: {exc}")
    out = ["import SpsdkVerif.Base.Py", "", "namespace SpsdkVerif.Generated.HabFuns", "open SpsdkVerif", ""]

    def add(lean, source, params_fallback, ret, build):
        """build() -> ast.FunctionDef (already substituted)"""
        try:
            fn = build()
            if fn is None:
                raise Untranslatable("source construct not found")
            rel, _, qual = source.partition("::")
            fn = normalise_function(fn, menvs.get(rel), qual.split(".")[0].split(" ")[0] or None)
            text, sig = translate_function(fn, lean, env, None, ret)
            env.funs[lean] = sig
            out.append(f"/-- translated from `{source}` -/")
            out.append(text)
            meta["functions"][lean] = {"mode": "translated", "source": source, "params": sig.params, "ret": sig.ret}
            return sig
        except (Untranslatable, AttributeError, IndexError, TypeError, KeyError, ValueError, RecursionError) as exc:
            out.append(f"-- untranslatable: {source}: {exc}")
            args = " ".join(f"({p} : Int)" for p in params_fallback)
            out.append(f"def {lean} {args} : PyRes {ret} := .error .other\n")
            meta["functions"][lean] = {"mode": "untranslatable", "reason": str(exc), "source": source}
            env.funs[lean] = FunSig(lean, [(p, "Int") for p in params_fallback], ret)
            return None

    def direct(rel, qual):
        def b():
            fn = copy.deepcopy(find_function(trees[rel], qual))
            fn.args.args = [a for a in fn.args.args if a.arg not in ("self", "cls")]
            return fn
        return b

    def from_stmts(name, params, get_stmts, target=None, subst=SUBST, extra_return=None):
        def b():
            stmts = get_stmts()
            if stmts is None:
                return None
            stmts = [copy.deepcopy(s) for s in stmts]
            stmts = [s for s in stmts if not (isinstance(s, ast.Expr) and isinstance(s.value, ast.Constant))]
            if target:
                stmts = _assign_to_return(stmts, target)
            stmts = [_Subst(subst).visit(s) for s in stmts]
            if extra_return:
                stmts.append(ast.Return(value=ast.Name(id=extra_return, ctx=ast.Load())))
            return _synth(name, params, stmts)
        return b

    def cls_fun(rel, cls, fn, prop=None):
        c = _cls(trees[rel], cls) if trees[rel] is not None else None
        if prop == "getter":
            return _getter(c, fn)
        if prop == "setter":
            return _setter(c, fn)
        return _fun(c, fn)

    # 1. CSF offset alignment
    sig = add("alignOffset", f"{HSEG}::CsfHabSegment.align_offset", ["image_len"], "Int", direct(HSEG, "CsfHabSegment.align_offset"))
    if sig:
        env.funs["cls.align_offset"] = env.funs["CsfHabSegment.align_offset"] = env.funs["align_offset"] = sig
    # 2. AEAD nonce length
    add("aeadNonceLen", f"{IMG}::BootImgRT.aead_nonce_len", ["app_data_len"], "Int", direct(IMG, "BootImgRT.aead_nonce_len"))
    # 3./4. flag predicates
    add("isEncrypted", f"{HCON}::HabContainer.is_encrypted", ["flags"], "Bool",
        from_stmts("is_encrypted", ["flags"], lambda: cls_fun(HCON, "HabContainer", "is_encrypted").body))
    add("isAuthenticated", f"{HCON}::HabContainer.is_authenticated", ["flags"], "Bool",
        from_stmts("is_authenticated", ["flags"], lambda: cls_fun(HCON, "HabContainer", "is_authenticated").body))
    # 5. MAC length check (setter): value or SPSDKValueError
    add("macLenSet", f"{HSEG}::CsfHabSegment.mac_len (setter)", ["value"], "Int",
        from_stmts("mac_len", ["value"], lambda: cls_fun(HSEG, "CsfHabSegment", "mac_len", "setter").body, target="self._mac_len"))
    # 6. Install Secret Key location
    add("secretKeyLocation", f"{HCMD}::SecInstallSecretKey.calculate_location", ["initial_load_size", "app_len", "start_address"], "Int",
        from_stmts("calculate_location", ["initial_load_size", "app_len", "start_address"],
                   lambda: cls_fun(HCMD, "SecInstallSecretKey", "calculate_location").body))

    # ---- 7.-13.: values computed INSIDE larger methods.  Each is located by what it is used for (the `offset` / segment handed to the
    # returned `cls(…)`, the attribute of the segment object that is assigned, the keyword of ImageBlock(…), the bound of a slice …),
    # never by the name of a local or the position of a statement, and is extracted as the backward slice of the statements before
    # that site (temporaries, if/else around the assignment, renamed locals all end in the same value).
    def prepared(rel, cls, fn_name, subst=None, canon=None):
        """deep copy of the method: desugared, segment / helper locals renamed to the names the substitution table uses
        (and substituted when `subst` is given)"""
        f = cls_fun(rel, cls, fn_name)
        if f is None:
            return None
        f = _Desugar().visit(copy.deepcopy(f))
        ren = {}
        rc = _ret_ctor(f)
        if rc is not None:
            seg = _ctor_arg(rc[1], 1, "segment")
            if isinstance(seg, ast.Name) and seg.id != "segment":
                ren[seg.id] = "segment"
        for suffix, std in (canon or {}).items():
            nm = _bound_to_call(f, suffix)
            if nm and nm != std:
                ren[nm] = std
        if ren:
            _rename(f, ren)
        if subst:
            f.body = [_Subst(subst).visit(st) for st in f.body]
        return ast.fix_missing_locations(f)

    def sliced(name, params, rel, cls, fn_name, pick, canon=None, subst=SUBST):
        """pick(prepared method) -> (site statement, value expression) | None"""
        def b():
            f = prepared(rel, cls, fn_name, canon=canon)
            if f is None:
                return None
            got = pick(f)
            if not got or got[1] is None:
                return None
            stmts = slice_value(f, got[0], got[1], set(subst), subst)
            return None if stmts is None else _synth(name, params, stmts)
        return b

    def at_return(attr=None, arg=None):
        """value at the final `return cls(…)`: attribute `attr` of the segment object / constructor argument `arg` = (position, keyword)"""
        def pick(f):
            rc = _ret_ctor(f)
            if rc is None:
                return None
            if attr is not None:
                seg = _ctor_arg(rc[1], 1, "segment")
                return None if seg is None else (rc[0], ast.Attribute(value=copy.deepcopy(seg), attr=attr, ctx=ast.Load()))
            return rc[0], _ctor_arg(rc[1], *arg)
        return pick

    def at_assign(key):
        """value of the first assignment to `key` (dotted text after renaming / substitution)"""
        def pick(f):
            sites = [n for n in ast.walk(f) if isinstance(n, ast.Assign) and len(n.targets) == 1 and _dotted(n.targets[0]) == key]
            if not sites:
                return None
            st = min(sites, key=lambda n: n.lineno)
            return st, st.value
        return pick

    OFFSET_ARG = (0, "offset")
    IVT_PARSE = {"IvtHabSegment.parse": "ivt", "BdtHabSegment.parse": "bdt"}

    # 7. IVT pointers (IvtHabSegment.load_from_config)
    add("ivtCsfAddress", f"{HSEG}::IvtHabSegment.load_from_config (csf_address)",
        ["flags", "initial_load_size", "app_len", "ivt_offset", "ivt_address"], "Int",
        sliced("ivt_csf", ["flags", "initial_load_size", "app_len", "ivt_offset", "ivt_address"], HSEG, "IvtHabSegment", "load_from_config",
               at_return(attr="csf_address")))
    # `segment.ivt_address` is an input of the other pointers (substitution table), so its own definition is read at the assignment
    no_ivt = {k: v for k, v in SUBST.items() if k != "segment.ivt_address"}

    add("ivtSelfAddress", f"{HSEG}::IvtHabSegment.load_from_config (ivt_address)", ["start_address", "ivt_offset"], "Int",
        sliced("ivt_self", ["start_address", "ivt_offset"], HSEG, "IvtHabSegment", "load_from_config", at_assign("segment.ivt_address"),
               subst=no_ivt))
    add("ivtBdtAddress", f"{HSEG}::IvtHabSegment.load_from_config (bdt_address)", ["ivt_address", "ivt_size"], "Int",
        sliced("ivt_bdt", ["ivt_address", "ivt_size"], HSEG, "IvtHabSegment", "load_from_config", at_assign("segment.bdt_address")))
    add("ivtDcdAddress", f"{HSEG}::IvtHabSegment.load_from_config (dcd_address)", ["ivt_address"], "Int",
        sliced("ivt_dcd", ["ivt_address"], HSEG, "IvtHabSegment", "load_from_config", at_assign("segment.dcd_address")))

    # 8. CSF segment offset (relative to the IVT)
    add("csfOffset", f"{HSEG}::CsfHabSegment.load_from_config (offset)", ["initial_load_size", "app_len", "ivt_offset"], "Int",
        sliced("csf_offset", ["initial_load_size", "app_len", "ivt_offset"], HSEG, "CsfHabSegment", "load_from_config",
               at_return(arg=OFFSET_ARG)))

    # 9. BDT length and the segment that ends the image
    END_SEG = {".load_from_config": "end_seg"}
    add("bdtAppLength", f"{HSEG}::BdtHabSegment.load_from_config (app_length)", ["ivt_offset", "end_offset", "end_size"], "Int",
        sliced("bdt_len", ["ivt_offset", "end_offset", "end_size"], HSEG, "BdtHabSegment", "load_from_config",
               at_assign("segment.app_length"), canon=END_SEG))

    def bdt_sel():
        """which segment class ends the image: 1 when the expression selects CsfHabSegment, 0 for AppHabSegment
        (`{0: App, 1: Csf}[sel]`, a list `[App, Csf][sel]`, or `Csf if cond else App`)"""
        f = prepared(HSEG, "BdtHabSegment", "load_from_config", subst=SUBST, canon=END_SEG)
        if f is None:
            return None

        def table_of(node, depth=0):
            if isinstance(node, ast.Dict):
                try:
                    return {menvs[HSEG].eval(k, cls="BdtHabSegment"): _dotted(v) for k, v in zip(node.keys, node.values)}
                except NotConst:
                    return None
            if isinstance(node, (ast.List, ast.Tuple)):
                return {i: _dotted(v) for i, v in enumerate(node.elts)}
            if isinstance(node, ast.Name) and depth < 2:
                for n in ast.walk(f):
                    if isinstance(n, (ast.Assign, ast.AnnAssign)):
                        tg = n.targets[0] if isinstance(n, ast.Assign) else n.target
                        if isinstance(tg, ast.Name) and tg.id == node.id and n.value is not None:
                            return table_of(n.value, depth + 1)
            return None

        one, zero = ast.Constant(value=1), ast.Constant(value=0)
        for n in sorted((x for x in ast.walk(f) if isinstance(x, (ast.Subscript, ast.IfExp))), key=lambda x: (x.lineno, x.col_offset)):
            if isinstance(n, ast.Subscript) and "flags" in _uses(n.slice):
                tb = table_of(n.value)
                if tb and set(tb.values()) == {"AppHabSegment", "CsfHabSegment"} and len(tb) == 2:
                    k_csf = next(k for k, v in tb.items() if v == "CsfHabSegment")
                    k_app = next(k for k, v in tb.items() if v == "AppHabSegment")
                    if (k_app, k_csf) == (0, 1):
                        return _synth("bdt_sel", ["flags"], [ast.Return(value=n.slice)])
                    return _synth("bdt_sel", ["flags"], [ast.Return(value=ast.IfExp(
                        test=ast.Compare(left=n.slice, ops=[ast.Eq()], comparators=[ast.Constant(value=k_csf)]), body=one, orelse=zero))])
            if isinstance(n, ast.IfExp) and "flags" in _uses(n.test) and {_dotted(n.body), _dotted(n.orelse)} == {"AppHabSegment", "CsfHabSegment"}:
                csf_first = _dotted(n.body) == "CsfHabSegment"
                return _synth("bdt_sel", ["flags"], [ast.Return(value=ast.IfExp(test=n.test, body=one if csf_first else zero,
                                                                                orelse=zero if csf_first else one))])
        return None

    add("bdtEndSel", f"{HSEG}::BdtHabSegment.load_from_config (end segment selector: 0 = APP, 1 = CSF)", ["flags"], "Int", bdt_sel)
    add("bdtSegOffset", f"{HSEG}::BdtHabSegment.load_from_config (offset)", [], "Int",
        sliced("bdt_off", [], HSEG, "BdtHabSegment", "load_from_config", at_return(arg=OFFSET_ARG), canon=END_SEG))

    # 10. application segment
    add("appOffset", f"{HSEG}::AppHabSegment.load_from_config (offset)", ["initial_load_size", "ivt_offset"], "Int",
        sliced("app_off", ["initial_load_size", "ivt_offset"], HSEG, "AppHabSegment", "load_from_config", at_return(arg=OFFSET_ARG)))

    def app_al():
        """the condition under which the application is padded to 16 bytes: the test of the innermost `if` / conditional expression
        guarding the `align_block(…)` call, with the statements it depends on"""
        f = prepared(HSEG, "AppHabSegment", "load_from_config")
        if f is None:
            return None
        parent = {}
        for n in ast.walk(f):
            for c in ast.iter_child_nodes(n):
                parent[id(c)] = n
        calls = sorted((n for n in ast.walk(f) if isinstance(n, ast.Call) and (_dotted(n.func) or "").split(".")[-1] == "align_block"),
                       key=lambda n: (n.lineno, n.col_offset))
        for call in calls:
            node, test = call, None
            while id(node) in parent:
                up = parent[id(node)]
                if test is None and isinstance(up, (ast.If, ast.IfExp)) and node is not up.test:
                    in_else = (node is up.orelse) if isinstance(up, ast.IfExp) else any(node is x for x in up.orelse)
                    test = ast.UnaryOp(op=ast.Not(), operand=up.test) if in_else else up.test
                if test is not None and isinstance(up, ast.stmt):
                    stmts = slice_value(f, up, test, set(SUBST), SUBST)
                    return None if stmts is None else _synth("app_al", ["flags"], stmts)
                node = up
        return None

    add("appAligned", f"{HSEG}::AppHabSegment.load_from_config (16-byte alignment condition)", ["flags"], "Bool", app_al)

    # 11. DCD segment offset
    add("dcdSegOffset", f"{HSEG}::DcdHabSegment.load_from_config (offset)", [], "Int",
        sliced("dcd_off", [], HSEG, "DcdHabSegment", "load_from_config", at_return(arg=OFFSET_ARG)))

    # 12. signed-block address / start, signed image prefix
    def blk(kw):
        def g():
            f = cls_fun(HCON, "HabContainer", "_get_signed_blocks")
            for n in ast.walk(f) if f else []:
                if isinstance(n, ast.Call) and _dotted(n.func) == "ImageBlock":
                    for k in n.keywords:
                        if k.arg == kw:
                            return [ast.Return(value=k.value)]
            return None
        return g

    add("blockBase", f"{HCON}::HabContainer._get_signed_blocks.add_block (base_address)", ["start_address", "ivt_offset", "offset"], "Int",
        from_stmts("blk_base", ["start_address", "ivt_offset", "offset"], blk("base_address")))
    add("blockStart", f"{HCON}::HabContainer._get_signed_blocks.add_block (start)", ["ivt_offset", "offset"], "Int",
        from_stmts("blk_start", ["ivt_offset", "offset"], blk("start")))

    def prefix():
        """the bound of the `<image>[: bound]` slice that cuts the exported image in front of the CSF"""
        f = cls_fun(HCON, "HabContainer", "update_csf")
        subs = sorted((n for n in ast.walk(f) if isinstance(n, ast.Subscript) and isinstance(n.slice, ast.Slice)
                       and n.slice.lower is None and n.slice.upper is not None and n.slice.step is None),
                      key=lambda n: (n.lineno, n.col_offset)) if f else []
        return [ast.Return(value=subs[0].slice.upper)] if subs else None

    add("signedPrefixLen", f"{HCON}::HabContainer.update_csf (image[: …])", ["ivt_offset", "csf_offset"], "Int",
        from_stmts("prefix", ["ivt_offset", "csf_offset"], prefix))

    # 13. parse side: segment offsets from the IVT pointers
    add("parseBdtOffset", f"{HSEG}::BdtHabSegment.parse (offset)", ["bdt_address", "ivt_address"], "Int",
        sliced("p_bdt", ["bdt_address", "ivt_address"], HSEG, "BdtHabSegment", "parse", at_return(arg=OFFSET_ARG), canon=IVT_PARSE))
    add("parseDcdOffset", f"{HSEG}::DcdHabSegment.parse (offset)", ["dcd_address", "ivt_address"], "Int",
        sliced("p_dcd", ["dcd_address", "ivt_address"], HSEG, "DcdHabSegment", "parse", at_return(arg=OFFSET_ARG), canon=IVT_PARSE))
    add("parseCsfOffset", f"{HSEG}::CsfHabSegment.parse (offset)", ["csf_address", "ivt_address"], "Int",
        sliced("p_csf", ["csf_address", "ivt_address"], HSEG, "CsfHabSegment", "parse", at_return(arg=OFFSET_ARG), canon=IVT_PARSE))

    def ctor_kw(kw):
        """value handed as keyword `kw` to the `cls(…)` HabContainer.parse returns"""
        def pick(f):
            rc = _ret_ctor(f)
            if rc is None:
                return None
            return rc[0], next((k.value for k in rc[1].keywords if k.arg == kw), None)
        return pick

    add("parseIvtOffset", f"{HCON}::HabContainer.parse (ivt_offset)", ["ivt_address", "app_start"], "Int",
        sliced("p_ivtoff", ["ivt_address", "app_start"], HCON, "HabContainer", "parse", ctor_kw("ivt_offset"), canon=IVT_PARSE))

    # 14. XMCD header bytes (XMCDHeader.export): operator precedence matters there
    def xmcd_arg(i):
        def g():
            f = cls_fun(SEG, "XMCDHeader", "export")
            for n in ast.walk(f) if f else []:
                if isinstance(n, ast.Call) and getattr(n.func, "id", getattr(n.func, "attr", None)) == "pack" and len(n.args) == 5:
                    return [ast.Return(value=n.args[1 + i])]
            return None
        return g

    xs = {"self.block_size": "block_size", "self.block_type": "block_type", "self.interface": "interface",
          "self.instance": "instance", "self.tag": "tag", "self.version": "version"}
    for i, ps in enumerate((["block_size"], ["block_type", "block_size"], ["interface", "instance"], ["tag", "version"])):
        add(f"xmcdHdrByte{i}", f"{SEG}::XMCDHeader.export (byte {i})", ps, "Int",
            from_stmts(f"xmcd_b{i}", ps, xmcd_arg(i), subst=xs))

    out.append("end SpsdkVerif.Generated.HabFuns")
    emit("HabFuns", "\n".join(out) + "\n", meta)


GENERATORS = {"HabConsts": gen_HabConsts, "HabFuns": gen_HabFuns}
