#!/usr/bin/env python3
"""Regenerate the generated sections of DESIGN.md (between `<!-- BEGIN GENERATED name -->` / `<!-- END GENERATED name -->` markers):
   status  - per property: theorems, generated model parts, streams (from evidence/), fixes, open findings, seeded changes
   defects - every `fix:` commit and every open finding from known_findings.jsonl
   seeded  - every confirmed seeded change from seeded/*/meta.json and which part of the check caught it
"""
import json
import re
from pathlib import Path

V = Path(__file__).resolve().parent.parent
props = [json.loads(l) for l in (V / "properties.jsonl").read_text().splitlines() if l.strip()]
kf = [json.loads(l) for l in (V / "known_findings.jsonl").read_text().splitlines() if l.strip() and not l.startswith("#")]
seeded = {}
for m in sorted((V / "seeded").glob("*/meta.json")):
    d = json.loads(m.read_text())
    seeded[m.parent.name] = d


def esc(s):
    return str(s).replace("|", "\\|").replace("\n", " ")


def status():
    rows = ["| Id | Title | Theorems (discharged) | Generated model parts | Correspondence / oracle streams (quick evaluations) | `fix:` commits | Open findings | Seeded changes (caught / confirmed) |",
            "|---|---|---|---|---|---|---|---|"]
    tot_thm = 0
    for p in props:
        pid = p["id"]
        ev = V / "evidence" / f"{pid}.json"
        thm = gen = streams = "-"
        if ev.exists():
            e = json.loads(ev.read_text())
            c = e["coverage"]
            thm = f"{c.get('discharged')}/{c.get('obligations')}"
            tot_thm += c.get("discharged") or 0
            gen = ", ".join(sorted(c.get("generated_model_parts", {}).keys())) or "(hand model only)"
            streams = "; ".join(f"{k} ({v['evaluations']})" for k, v in c.get("streams", {}).items())
        nfix = sum(1 for k in kf if k["property"] == pid and k["status"] == "fixed")
        nopen = [k["id"] for k in kf if k["property"] == pid and k["status"] == "open"]
        sd = [(t, d) for t, d in seeded.items() if d["property"] == pid]
        caught = sum(1 for _, d in sd if d["caught"] != "no")
        rows.append(f"| {pid} | {esc(p['title'])} | {thm} | {esc(gen)} | {esc(streams)} | {nfix} | {esc(', '.join(nopen)) or '-'} | {caught} / {len(sd)} |")
    rows.append("")
    rows.append(f"Total: {tot_thm} property theorems discharged in the last committed quick runs; details per property in `design_notes/Cxx.md`.")
    return "\n".join(rows)


def defects():
    rows = ["| Prop | Status | Commit / finding id | What failed (failing input, call site or history) |", "|---|---|---|---|"]
    for k in sorted(kf, key=lambda k: (k["property"], k["status"] != "fixed")):
        ident = k.get("commit") if k["status"] == "fixed" else k.get("id")
        text = k.get("entry", k.get("what", ""))
        text = re.sub(r"^(fixed|open): property=\S+ (\S+ )?", "", text)
        rows.append(f"| {k['property']} | {k['status']} | `{ident}` | {esc(text)} |")
    nf = sum(1 for k in kf if k["status"] == "fixed")
    no = sum(1 for k in kf if k["status"] == "open")
    rows.append("")
    rows.append(f"{nf} genuine defects repaired by unguarded `fix:` commits in /repo (the repository's test-suite passes on the resulting HEAD), {no} recorded as open known findings.")
    return "\n".join(rows)


def seeded_tbl():
    rows = ["| Seed | Prop | The change and what it needs to manifest | Caught | By which part of the check |", "|---|---|---|---|---|"]
    for t, d in sorted(seeded.items()):
        rows.append(f"| {t} | {d['property']} | {esc(d['needs_to_manifest'])} | {esc(d['caught'])} | {esc(d['caught_by'])} |")
    n = len(seeded)
    first = sum(1 for d in seeded.values() if d["caught"].startswith("yes"))
    after = sum(1 for d in seeded.values() if d["caught"].startswith("after"))
    rows.append("")
    rows.append(f"{n} confirmed seeded changes: {first} caught by the check as it was, {after} first missed and caught after strengthening the check (what was added is in the last column), "
                f"{n - first - after} not caught.")
    return "\n".join(rows)


def harmless_tbl():
    f = V / "seeded" / "harmless" / "results.json"
    if not f.exists():
        return "(no results yet)"
    r = json.loads(f.read_text())
    rows = ["| Rewrite | Prop | Kind | Files touched (changed lines) | `./check` first run | `./check` now | What broke at first (theorem / stream) |", "|---|---|---|---|---|---|---|"]
    for b, e in sorted(r.items()):
        why = "; ".join(w[:120] for w in e.get("first_why", e.get("why", []))[:3])
        rows.append(f"| {b} | {e['property']} | {e['kind']} | {esc(', '.join(x.replace('spsdk/', '') for x in e['files']))} ({e['changed_lines']}) | {e.get('first_result', '-')} | {e.get('result', '-')} | {esc(why) if e.get('first_result') != 'exit 0' else ''} |")
    n = len(r)
    f0 = sum(1 for e in r.values() if e.get("first_result") == "exit 0")
    n0 = sum(1 for e in r.values() if e.get("result") == "exit 0")
    rest = sorted(b for b, e in r.items() if e.get("result") not in ("exit 0", None))
    rows.append("")
    rows.append(f"{n} behaviour-preserving rewrites: {f0} left the check green as it was, {n0} do now; "
                + ("still reported: " + ", ".join(f"{b} ({r[b]['result']})" for b in rest) + "." if rest else "none is reported any more."))
    return "\n".join(rows)


SECTIONS = {"status": status, "defects": defects, "seeded": seeded_tbl, "harmless": harmless_tbl}
p = V / "DESIGN.md"
s = p.read_text()
for name, fn in SECTIONS.items():
    b, e = f"<!-- BEGIN GENERATED {name} -->", f"<!-- END GENERATED {name} -->"
    if b not in s:
        raise SystemExit(f"marker {b} missing in DESIGN.md")
    s = s[:s.index(b) + len(b)] + "\n" + fn() + "\n" + s[s.index(e):]
p.write_text(s)
print("DESIGN.md tables regenerated")
