#!/usr/bin/env python3
"""usage: mk_harmless_brief.py TAG PROP "tests to run" -> /tmp/hl/briefs/TAG.txt (worktree /tmp/hl/wt-TAG must exist)"""
import json, os, sys
tag, pid, tests = sys.argv[1:4]
props = {json.loads(l)['id']: json.loads(l) for l in open('/verif/properties.jsonl')}
T = open(os.path.join(os.path.dirname(__file__), 'harmless_brief_template.txt')).read()
p = props[pid]
os.makedirs('/tmp/hl/briefs', exist_ok=True)
open(f'/tmp/hl/briefs/{tag}.txt', 'w').write(T.format(wt=f'/tmp/hl/wt-{tag}', title=p['title'], statement=p['statement'],
     quant=p['quantifier']['text'], files=', '.join(p['anchors']['files']), tests=tests, tag=tag))
print(f'/tmp/hl/briefs/{tag}.txt')
