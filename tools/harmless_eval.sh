#!/bin/bash
# harmless_eval.sh TAG PROP : run ./check PROP (quick) against each behaviour-preserving rewrite /tmp/hl/TAG_k.diff (k=1..3) in isolation; expected: exit 0 every time.
TAG=$1; PROP=$2
for k in 1 2 3; do
  P=/tmp/hl/${TAG}_$k.diff
  [ -s $P ] || { echo "HL $TAG $k: no patch"; continue; }
  out=$(/verif/tools/try_patch.sh $P $PROP 2>&1)
  ex=$(echo "$out" | grep -o "check exit=[0-9]*" | head -1)
  echo "HL $TAG $k: $ex  ($(grep -c '^[+-][^+-]' $P) changed lines, $(grep '^+++ ' $P | sed 's|+++ b/||' | tr '\n' ' '))"
  if [ "$ex" != "check exit=0" ]; then echo "$out" | grep -E "VIOLATION|BROKEN|^FAIL|^DISAGREE|DOES NOT" | cut -c1-600 | head -8; fi
done
