#!/bin/bash
# Run /repo's test suite (xdist, guard OFF) and compare with the pinned baseline's stable_pass list.
out=${1:-/tmp/suite.xml}
cd /repo && env -u SPSDK_VERIF /venv/bin/python -m pytest -q -p no:cacheprovider --timeout=900 --continue-on-collection-errors -n 12 --junitxml=$out > ${out%.xml}.log 2>&1
tail -1 ${out%.xml}.log
python3 /verif/tools/baseline_cmp.py $out
