#!/bin/bash
# seed_eval.sh TAG PROP : confirm a seeded change (from /tmp/seed/TAG/patch_TAG.diff + demo_TAG.py) and run ./check PROP against it,
# in full isolation: scratch worktree of /repo HEAD + scratch copy of /verif (so concurrent work in /verif and /repo is not disturbed).
set -u
TAG=$1; PROP=$2
SRC=/tmp/seed/$TAG
W=/tmp/sv/$TAG-repo; V=/tmp/sv/$TAG-verif
rm -rf $V; git -C /repo worktree remove --force $W 2>/dev/null; mkdir -p /tmp/sv
git -C /repo worktree add -q --detach $W HEAD || exit 9
cp $SRC/demo_$TAG.py $W/ ; cp /repo/spsdk/__version__.py $W/spsdk/__version__.py

echo "== demo on original"; (cd $W && PYTHONPATH=$W /venv/bin/python demo_$TAG.py >/tmp/sv/$TAG.demo0 2>&1); echo "exit=$?"
(cd $W && git apply $SRC/patch_$TAG.diff) || { echo "PATCH DOES NOT APPLY"; exit 8; }
echo "== demo with change"; (cd $W && PYTHONPATH=$W /venv/bin/python demo_$TAG.py >/tmp/sv/$TAG.demo1 2>&1); echo "exit=$?"; tail -3 /tmp/sv/$TAG.demo1
if [ "${SKIP_SUITE:-0}" != 1 ]; then
echo "== test suite with change"
(cd $W && env -u SPSDK_VERIF PYTHONPATH=$W /venv/bin/python -m pytest -q -p no:cacheprovider --timeout=900 --continue-on-collection-errors -n 12 --junitxml=/tmp/sv/$TAG.xml > /tmp/sv/$TAG.suite.log 2>&1); tail -1 /tmp/sv/$TAG.suite.log
python3 /verif/tools/baseline_cmp.py /tmp/sv/$TAG.xml | head -6
fi
echo "== ./check $PROP against the changed tree (isolated copy of /verif)"
rsync -a --exclude .git --exclude replays --exclude evidence ${VERIF_SNAP:-/verif}/ $V/
(cd $V && SPSDK_REPO=$W SPSDK_CACHE_FOLDER=/tmp/sv/$TAG-cache timeout 1800 ./check $PROP > /tmp/sv/$TAG.check 2>&1); echo "check exit=$?"; grep -E "VIOLATION|KNOWN|^\[" /tmp/sv/$TAG.check | cut -c1-300
for f in $V/replays/*.json; do [ -f "$f" ] && python3 -c "
import json,sys
d=json.load(open('$f')); print('REPLAY', d.get('kind'), '|', d.get('what') or d.get('no_longer_checks'))
for c in (d.get('cases') or d.get('disagreements') or [])[:2]: print('   ', json.dumps(c)[:400])
"; done
git -C /repo worktree remove --force $W; rm -rf $V /tmp/sv/$TAG-cache
