#!/bin/bash
# try_patch.sh PATCHFILE PROP [TIER] : run ./check PROP against /repo HEAD + PATCHFILE in an isolated worktree and an isolated copy of /verif.
set -u
P=$(readlink -f $1); PROP=$2; TIER=${3:-quick}; N=$(basename $P .diff)-$PROP
W=/tmp/sv/tp-$N-repo; V=/tmp/sv/tp-$N-verif
rm -rf $V; git -C /repo worktree remove --force $W 2>/dev/null; mkdir -p /tmp/sv
git -C /repo worktree add -q --detach $W HEAD || exit 9
cp /repo/spsdk/__version__.py $W/spsdk/__version__.py
(cd $W && git apply $P) || { echo "PATCH DOES NOT APPLY"; git -C /repo worktree remove --force $W; exit 8; }
rsync -a --exclude .git --exclude replays --exclude evidence ${VERIF_SNAP:-/verif}/ $V/
(cd $V && SPSDK_REPO=$W SPSDK_CACHE_FOLDER=/tmp/sv/tp-$N-cache VERIF_DEBUG=2 timeout 3000 ./check $PROP --tier $TIER > /tmp/sv/tp-$N.check 2>&1); echo "check exit=$?"
grep -E "VIOLATION|KNOWN|^\[|BROKEN|^FAIL|^DISAGREE" /tmp/sv/tp-$N.check | cut -c1-400 | head -12
git -C /repo worktree remove --force $W; rm -rf $V /tmp/sv/tp-$N-cache
