#!/bin/bash
# wave_eval.sh TAG... : run seed_eval.sh for each tag (property = first 3 chars) one after the other, log to /tmp/sv/TAG.eval, print a one-line summary per tag
for TAG in "$@"; do
  P=${TAG:0:3}
  VERIF_SNAP=${VERIF_SNAP:-/tmp/sv/verif-snap} /verif/tools/seed_eval.sh $TAG $P > /tmp/sv/$TAG.eval 2>&1
  echo "$TAG demo0=$(grep -A1 'demo on original' /tmp/sv/$TAG.eval | tail -1) demo1=$(grep -A1 'demo with change' /tmp/sv/$TAG.eval | tail -1) suite=[$(grep -A2 'test suite with change' /tmp/sv/$TAG.eval | tail -2 | tr '\n' ' ' | cut -c1-160)] $(grep 'check exit' /tmp/sv/$TAG.eval) viol=$(grep -c '^VIOLATION' /tmp/sv/$TAG.eval) nofail=$(grep -c 'no-failing-input-found' /tmp/sv/$TAG.eval)" >> /tmp/sv/wave6.summary
done
