#!/usr/bin/env python3
"""seed_archive.py TAG PROP CAUGHT(yes|no|after-strengthening) "needs" "caught_by" : copy a confirmed seeded change into /verif/seeded/TAG/"""
import json, shutil, sys, os, subprocess
tag, prop, caught, needs, caught_by = sys.argv[1:6]
src = f"/tmp/seed/{tag}"
dst = f"/verif/seeded/{tag}"
os.makedirs(dst, exist_ok=True)
shutil.copy(f"{src}/patch_{tag}.diff", f"{dst}/patch.diff")
shutil.copy(f"{src}/demo_{tag}.py", f"{dst}/demo.py")
head = subprocess.run(["git", "-C", "/repo", "rev-parse", "--short", "HEAD"], capture_output=True, text=True).stdout.strip()
json.dump({"property": prop, "breaks": needs.split("|")[0].strip(), "needs_to_manifest": needs, "repo_head_when_confirmed": head,
           "confirmed": {"demo_on_original": "exit 0", "demo_with_change": "exit 1", "test_suite_with_change": "all 2851 baseline tests pass (tools/seed_eval.sh)",
                          "check": f"./check {prop} run against the changed tree in an isolated copy of /verif -> exit 1 with VIOLATION + concrete replay" if caught != "no" else "missed"},
           "caught": caught, "caught_by": caught_by,
           "how_to_rerun": f"git -C /repo apply /verif/seeded/{tag}/patch.diff && (cd /verif && ./check {prop}); git -C /repo checkout -- ."},
          open(f"{dst}/meta.json", "w"), indent=1)
print("archived", dst)
