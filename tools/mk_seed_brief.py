#!/usr/bin/env python3
"""Write the brief for a mutation-seeding sub-agent: only the property text + its own scratch worktree.
usage: mk_seed_brief.py TAG PROP "tests to run" "hint sentence"   -> /tmp/seed/briefs/TAG.txt (worktree /tmp/seed/TAG must exist)"""
import json, os, sys
tag, pid, tests, hint = sys.argv[1:5]
props = {json.loads(l)['id']: json.loads(l) for l in open('/verif/properties.jsonl')}
T = open(os.path.join(os.path.dirname(__file__), 'seed_brief_template.txt')).read()
p = props[pid]
os.makedirs('/tmp/seed/briefs', exist_ok=True)
open(f'/tmp/seed/briefs/{tag}.txt', 'w').write(T.format(wt=f'/tmp/seed/{tag}', title=p['title'], statement=p['statement'],
     quant=p['quantifier']['text'], files=', '.join(p['anchors']['files']), tests=tests, hint=hint, tag=tag))
print(f'/tmp/seed/briefs/{tag}.txt')
