#!/usr/bin/env python3
"""Generate /verif/MANIFEST.json from harness/registry.py and properties.jsonl."""
import json
import sys
from pathlib import Path

V = Path(__file__).resolve().parent.parent
sys.path.insert(0, str(V / "harness"))
from registry import REGISTRY, TECH, NOT_APPLICABLE  # noqa: E402

props = [json.loads(l) for l in (V / "properties.jsonl").read_text().splitlines() if l.strip()]
checks, na = [], []
for p in props:
    pid = p["id"]
    r = REGISTRY.get(pid)
    if r is None:
        na.append({"property_id": pid, "reason": NOT_APPLICABLE.get(pid, "check not built yet (claimed once its first theorems + correspondence stream exist; see DESIGN.md §8)")})
        continue
    checks.append({
        "property_id": pid,
        "quick_cmd": f"./check {pid} --tier quick",
        "thorough_cmd": f"./check {pid} --tier thorough",
        "evidence_file": f"/verif/evidence/{pid}.json",
        "replay_cmd_template": f"./check {pid} --replay {{path}}",
        "engine": "lean4-model+correspondence",
        "level_claimed": {"category": "proof", "text": r["text"], "design_ref": r.get("design_ref", "§6")},
        "level_note": r["note"],
        "technique": r.get("technique", TECH),
    })
m = {
    "version": 1,
    "setup_cmd": "./check --setup",
    "hooks": {"guard": "SPSDK_VERIF", "enable": "no source hooks: the harness monkey-patches in-process; ./check exports SPSDK_VERIF=1 for its own sitecustomize helpers only",
              "baseline_off_cmd": "cd /repo && env -u SPSDK_VERIF /venv/bin/python -m pytest -ra -q -p no:cacheprovider --timeout=900 --continue-on-collection-errors",
              "source_commits": [], "add_only": True},
    "engines": [{"name": "lean4-model+correspondence", "path": "/verif/check", "serves_properties": [c["property_id"] for c in checks],
                 "kind_free_text": "Lean 4.33 theorems (lake project /verif/lean) + Python AST->Lean extractor + native model drivers + differential harness on the real code"}],
    "checks": checks,
    "notes": "Unguarded repairs of genuine defects in /repo are 'fix:' commits listed in /verif/known_findings.jsonl (status=fixed). "
             "Exit codes: 0 held, 1 violation (VIOLATION line), 2 infrastructure error (never a verdict).",
    "not_applicable": na,
}
(V / "MANIFEST.json").write_text(json.dumps(m, indent=1) + "\n")
print(f"MANIFEST: {len(checks)} checks, {len(na)} not claimed")
