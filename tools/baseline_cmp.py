#!/usr/bin/env python3
"""Compare a junit xml with /root/.vp/BASELINE.json stable_pass; print missing passes."""
import json, sys, xml.etree.ElementTree as ET
base = set(json.load(open('/root/.vp/BASELINE.json'))['stable_pass'])
t = ET.parse(sys.argv[1])
ok = set()
for tc in t.iter('testcase'):
    bad = any(c.tag in ('failure', 'error', 'skipped') for c in tc)
    if not bad:
        ok.add(f"{tc.get('classname')}::{tc.get('name')}")
missing = sorted(base - ok)
print(f"baseline={len(base)} passed_now={len(ok)} missing={len(missing)}")
for m in missing[:40]:
    print("  MISSING", m)
sys.exit(1 if missing else 0)
