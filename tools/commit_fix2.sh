#!/bin/bash
# commit_fix2.sh NAME... : apply proposed_fixes/NAME.diff to /repo working tree + index and commit (phase 2: fixes are NOT pre-applied)
set -u
for n in "$@"; do
  f=/verif/proposed_fixes/$n.diff
  msg=$(head -1 $f | sed 's/^# *//')
  case "$msg" in fix:*) ;; *) echo "$n: first line is not a fix: message"; exit 3;; esac
  grep -v '^#' $f > /tmp/cf_$n.diff
  if git -C /repo apply --index /tmp/cf_$n.diff 2>/tmp/cf_$n.err || git -C /repo apply --index --recount /tmp/cf_$n.diff 2>>/tmp/cf_$n.err; then
     git -C /repo commit -q -m "$msg" && echo "$n: committed $(git -C /repo rev-parse --short HEAD)"
  else
     echo "$n: DOES NOT APPLY"; head -5 /tmp/cf_$n.err
  fi
done
