#!/bin/bash
# seeded_all.sh : re-run ./check (quick) against every archived seeded BREAKING change on the current /repo HEAD + /verif (3 in parallel);
# expected: exit 1 with at least one concrete VIOLATION line for each. Writes seeded/recheck.json.
cd /verif; mkdir -p /tmp/sv/sd
run_one() {
  t=$1; prop=${t:0:3}
  cp /verif/seeded/$t/patch.diff /tmp/sv/sd/seed_$t.diff     # unique name: try_patch derives its scratch paths from the patch file name
  out=$(/verif/tools/try_patch.sh /tmp/sv/sd/seed_$t.diff $prop 2>&1)
  ex=$(echo "$out" | grep -o "check exit=[0-9]*" | head -1 | sed 's/check exit=//')
  conc=$(echo "$out" | grep "^VIOLATION" | grep -vc "no-failing-input-found")
  nf=$(echo "$out" | grep "^VIOLATION" | grep -c "no-failing-input-found")
  app=$(echo "$out" | grep -c "DOES NOT APPLY")
  echo "$t|$ex|$conc|$nf|$app" > /tmp/sv/sd/$t.res
  echo "SEED $t: exit=$ex concrete=$conc nofailing=$nf notapply=$app"
}
export -f run_one
ls seeded | grep -E "${TAGS:-^C[0-9][0-9][a-z]$}" | xargs -P ${PAR:-3} -I{} bash -c 'run_one {}'
python3 - <<'P'
import json,glob,os,subprocess
head=subprocess.run(["git","-C","/repo","rev-parse","--short","HEAD"],capture_output=True,text=True).stdout.strip()
out={"repo_head":head,"results":{}}
for f in sorted(glob.glob('/tmp/sv/sd/*.res')):
    t,ex,conc,nf,app=open(f).read().strip().split('|')
    out["results"][t]={"exit":ex,"concrete_violation_lines":int(conc),"no_failing_input_lines":int(nf),"patch_applies":app=="0"}
json.dump(out,open('/verif/seeded/recheck.json','w'),indent=1,sort_keys=True)
bad=[t for t,r in out["results"].items() if r["exit"]!="1" or r["concrete_violation_lines"]==0]
print(len(out["results"]),"seeded changes re-run;","not caught concretely:",bad)
P
