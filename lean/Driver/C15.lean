/-
Native driver of the C15 model (Model/Dat.lean); line protocol, see harness/props/C15.py.

A credential is 12 tokens:
  cls major minor socc uuid rotmeta dck cc_socu cc_vu cc_beacon rotpub sig
with cls ∈ {rsa, ecc, ele}, byte strings in hex ("-" = empty) and
  rotmeta = rsa:<items> | ecc:<used>:<cnt>:<items> | ele:<used>:<cnt>:<srk>      (<items> = hex,hex,… or "-")
A challenge is 10 tokens: major minor socc uuid revocation hash pinned default cc_vu challenge.
-/
import Driver.Proto
import SpsdkVerif.Model.Dat
import SpsdkVerif.Model.DatV2
import SpsdkVerif.Crypto.Exec
open SpsdkVerif Driver
open SpsdkVerif.Dat SpsdkVerif.Misc

def parseItems (s : String) : Option (List Bytes) :=
  if s == "-" then some [] else (s.splitOn ",").mapM parseHex

def itemsStr (l : List Bytes) : String :=
  if l.isEmpty then "-" else ",".intercalate (l.map (fun b => if b.isEmpty then "-" else toHex b))

def hx (b : Bytes) : String := if b.isEmpty then "-" else toHex b

def parseRotMeta (s : String) : Option RotMeta :=
  match s.splitOn ":" with
  | ["rsa", its] => (parseItems its).map .rsa
  | ["ecc", u, c, its] => match parseNat u, parseNat c, parseItems its with
    | some u, some c, some its => some (.ecc u c its) | _, _, _ => none
  | ["ele", u, c, srk] => match parseNat u, parseNat c, parseHex srk with
    | some u, some c, some srk => some (.ele u c srk) | _, _, _ => none
  | _ => none

def rotMetaStr : RotMeta → String
  | .rsa its => "rsa:" ++ itemsStr its
  | .ecc u c its => s!"ecc:{u}:{c}:" ++ itemsStr its
  | .ele u c srk => s!"ele:{u}:{c}:" ++ hx srk

def parseCls? (s : String) : Option Cls :=
  if s == "rsa" then some .rsa else if s == "ecc" then some .ecc else if s == "ele" then some .ele else none

def clsStr : Cls → String | .rsa => "rsa" | .ecc => "ecc" | .ele => "ele"

def parseDcToks : List String → Option DC
  | [cls, ma, mi, socc, uuid, rm, dck, socu, vu, bc, rp, sg] =>
    match parseCls? cls, parseNat ma, parseNat mi, parseNat socc, parseHex uuid, parseRotMeta rm with
    | some cls, some ma, some mi, some socc, some uuid, some rm =>
      match parseHex dck, parseNat socu, parseNat vu, parseNat bc, parseHex rp, parseHex sg with
      | some dck, some socu, some vu, some bc, some rp, some sg =>
        some { cls, major := ma, minor := mi, socc, uuid, rotMeta := rm, dck, ccSocu := socu, ccVu := vu, beacon := bc,
               rotPub := rp, sig := sg }
      | _, _, _, _, _, _ => none
    | _, _, _, _, _, _ => none
  | _ => none

def dcStr (d : DC) : String :=
  " ".intercalate [clsStr d.cls, toString d.major, toString d.minor, toString d.socc, hx d.uuid, rotMetaStr d.rotMeta,
    hx d.dck, toString d.ccSocu, toString d.ccVu, toString d.beacon, hx d.rotPub, hx d.sig]

def parseDacToks : List String → Option DAC
  | [ma, mi, socc, uuid, rev, h, pin, dflt, vu, ch] =>
    match parseNat ma, parseNat mi, parseNat socc, parseHex uuid, parseNat rev with
    | some ma, some mi, some socc, some uuid, some rev =>
      match parseHex h, parseNat pin, parseNat dflt, parseNat vu, parseHex ch with
      | some h, some pin, some dflt, some vu, some ch =>
        some { major := ma, minor := mi, socc, uuid, revocation := rev, rkthHash := h, socPinned := pin, socDefault := dflt,
               ccVu := vu, challenge := ch }
      | _, _, _, _, _ => none
    | _, _, _, _, _ => none
  | _ => none

def dacStr (a : DAC) : String :=
  " ".intercalate [toString a.major, toString a.minor, toString a.socc, hx a.uuid, toString a.revocation, hx a.rkthHash,
    toString a.socPinned, toString a.socDefault, toString a.ccVu, hx a.challenge]

def rows := SpsdkVerif.Generated.DatConsts.rows
def ex := SpsdkVerif.Crypto.execOps

def selStr : ClsSel → String | .cls c => clsStr c | .eleV2 => "eleV2"

def unitStr : Unit → String := fun _ => ""

/-- EdgeLock v2 certificate: 8 tokens `length sigoff permissions permdata fuse uuid key0 sig0` -/
def parseCertToks : List String → Option DatV2.Cert
  | [l, so, pm, pd, fu, uu, k0, sg] =>
    match parseNat l, parseNat so, parseNat pm, parseHex pd, parseNat fu, parseHex uu, parseHex k0, parseHex sg with
    | some l, some so, some pm, some pd, some fu, some uu, some k0, some sg =>
      some { length := l, sigOffset := so, permissions := pm, permData := pd, fuseVersion := fu, uuid := uu, key0 := k0, sig0 := sg }
    | _, _, _, _, _, _, _, _ => none
  | _ => none

def certStr (c : DatV2.Cert) : String :=
  " ".intercalate [toString c.length, toString c.sigOffset, toString c.permissions, hx c.permData, toString c.fuseVersion, hx c.uuid,
    hx c.key0, hx c.sig0]

def optCertStr : Option DatV2.Cert → String
  | some c => certStr c
  | none => "second-key-set"

def step : List String → String
  | "v2_export" :: t => match parseCertToks t with | some c => resLine hx (DatV2.exportCert c) | none => "bad-op"
  | "v2_signed" :: t => match parseCertToks t with | some c => resLine hx (DatV2.signedData c) | none => "bad-op"
  | "v2_wrap" :: t => match parseCertToks t with | some c => resLine certStr (DatV2.wrap c) | none => "bad-op"
  | ["v2_parse", h] => match parseHex h with | some b => resLine optCertStr (DatV2.parseV2 DatV2.keyWalk b) | none => "bad-op"
  | ["v2_create", socc, socu, fuse, uu, k0] => match parseNat socc, parseNat socu, parseNat fuse, parseHex uu, parseHex k0 with
    | some a, some b, some f, some u, some k => resLine certStr (DatV2.create a b f u k) | _, _, _, _, _ => "bad-op"
  | "export" :: t => match parseDcToks t with | some d => resLine hx (exportDC d) | none => "bad-op"
  | "tbs" :: t => match parseDcToks t with | some d => resLine hx (dataToSign d) | none => "bad-op"
  | ["parse", cls, h] => match parseHex h with
    | some b =>
      if cls == "auto" then resLine dcStr (parseDC rows srkWalk b)
      else (match parseCls? cls with | some c => resLine dcStr (parseCls srkWalk c b) | none => "bad-op")
    | none => "bad-op"
  | "hash" :: t => match parseDcToks t with | some d => resLine hx (calculateHash ex d) | none => "bad-op"
  | ["rsa_meta", keys] => match parseItems keys with
    | some ks => resLine rotMetaStr (rsaMetaOfKeys ex ks) | none => "bad-op"
  | ["ecc_meta", used, keys] => match parseNat used, parseItems keys with
    | some u, some ks => resLine rotMetaStr (eccMetaOfKeys ex ks u) | _, _ => "bad-op"
  | ["rotmeta_export", rm] => match parseRotMeta rm with | some m => resLine hx (rotMetaExport m) | none => "bad-op"
  | ["getclass", fam, rev, ma, mi] => match findRow rows fam rev, parseNat ma, parseNat mi with
    | some r, some ma, some mi => resLine selStr (getClass r ma mi) | none, _, _ => "norow" | _, _, _ => "bad-op"
  | ["ambassador", socc] => match parseNat socc with
    | some s => (match ambassador rows s with | some f => "ok:" ++ f | none => "none") | none => "bad-op"
  | ["dac_parse", h] => match parseHex h with | some b => resLine dacStr (dacParse rows b) | none => "bad-op"
  | "dac_export" :: t => match parseDacToks t with | some a => resLine hx (dacExport a) | none => "bad-op"
  | "dac_validate" :: fam :: t => match latestRow rows fam, parseDacToks (t.take 10), parseDcToks (t.drop 10) with
    | some r, some a, some d => resLine unitStr (dacValidate r a d (calculateHash ex d))
    | none, _, _ => "norow" | _, _, _ => "bad-op"
  | ["dar_uses_ecc", ma, mi] => match parseNat ma, parseNat mi with
    | some ma, some mi => (match darUsesEcc ma mi with | some b => "ok:" ++ boolStr b | none => "none") | _, _ => "bad-op"
  | "dar_common" :: e :: bc :: u :: ch :: t => match parseBool e, parseNat bc, parseHex u, parseHex ch, parseDcToks t with
    | some e, some bc, some u, some ch, some d => resLine hx (darCommon ⟨d, bc, u, ch, e⟩) | _, _, _, _, _ => "bad-op"
  | "dar_msg" :: e :: bc :: u :: ch :: t => match parseBool e, parseNat bc, parseHex u, parseHex ch, parseDcToks t with
    | some e, some bc, some u, some ch, some d => resLine hx (darMsg ⟨d, bc, u, ch, e⟩) | _, _, _, _, _ => "bad-op"
  | ["create_check", cls, ma, mi, ul, rk, rb, dk, db] =>
    let kind (k : String) (b : Nat) : Option KeyKind := if k == "rsa" then some (.rsa b) else if k == "ecc" then some (.ecc b) else none
    match parseCls? cls, parseNat ma, parseNat mi, parseNat ul, parseNat rb, parseNat db with
    | some c, some ma, some mi, some ul, some rb, some db =>
      (match kind rk rb, kind dk db with
       | some r, some d => resLine unitStr (createCheck c ma mi ul r d) | _, _ => "bad-op")
    | _, _, _, _, _, _ => "bad-op"
  | ["rows"] => s!"ok:{rows.length}"
  | _ => "bad-op"

def main : IO Unit := Driver.loop step
