/-
Line protocol shared by the model drivers: one request per line (space-separated tokens:
decimal integers, hex byte strings with "-" for empty), one canonical answer line out.
-/
import SpsdkVerif.Base.Py
namespace Driver
open SpsdkVerif

def hexVal (c : Char) : Option Nat :=
  if '0' ≤ c ∧ c ≤ '9' then some (c.toNat - 48)
  else if 'a' ≤ c ∧ c ≤ 'f' then some (c.toNat - 87)
  else if 'A' ≤ c ∧ c ≤ 'F' then some (c.toNat - 55) else none

def parseHexAux : List Char → List UInt8 → Option (List UInt8)
  | [], acc => some acc.reverse
  | a :: b :: rest, acc =>
    match hexVal a, hexVal b with
    | some x, some y => parseHexAux rest (UInt8.ofNat (x * 16 + y) :: acc)
    | _, _ => none
  | _, _ => none

def parseHex (s : String) : Option (List UInt8) :=
  if s == "-" then some [] else parseHexAux s.toList []

def hexDigit (n : Nat) : Char := if n < 10 then Char.ofNat (48 + n) else Char.ofNat (87 + n)

def toHex (b : List UInt8) : String :=
  String.ofList (b.foldr (fun x acc => hexDigit (x.toNat / 16) :: hexDigit (x.toNat % 16) :: acc) [])

def parseInt (s : String) : Option Int := s.toInt?
def parseNat (s : String) : Option Nat := s.toNat?
def parseBool (s : String) : Option Bool := if s == "1" then some true else if s == "0" then some false else none

def resLine {α} (f : α → String) : PyRes α → String
  | .ok v => "ok:" ++ f v
  | .error e => e.tag

def boolStr (b : Bool) : String := if b then "true" else "false"

def tokens (line : String) : List String :=
  (line.splitOn " ").filter (· ≠ "")

/-- Run `step` on every stdin line. -/
partial def loop (step : List String → String) : IO Unit := do
  let stdin ← IO.getStdin
  let stdout ← IO.getStdout
  let rec go : IO Unit := do
    let line ← stdin.getLine
    if line.isEmpty then return ()
    let l := if line.endsWith "\n" then (line.dropEnd 1).toString else line
    stdout.putStrLn (step (tokens l))
    -- flush when the reader is waiting: the harness reads exactly one answer per request
    stdout.flush
    go
  go

/-- Stateful variant: `step` threads a model state through the request lines. -/
partial def loopS {σ : Type} (init : σ) (step : σ → List String → σ × String) : IO Unit := do
  let stdin ← IO.getStdin
  let stdout ← IO.getStdout
  let rec go (s : σ) : IO Unit := do
    let line ← stdin.getLine
    if line.isEmpty then return ()
    let l := if line.endsWith "\n" then (line.dropEnd 1).toString else line
    let (s', out) := step s (tokens l)
    stdout.putStrLn out
    stdout.flush
    go s'
  go init

end Driver
