/-
C18 driver: the database-cache protocol model (Model/DbCache.lean) instantiated with the guards
generated from the current source and a toy pickle codec.  Stateful line protocol:

  init <quick|config> <file0> <queries>      file0   = missing | valid:<keys> | stale:<keys> | wrongtype | raises:<ExcName>
                                             queries = per process `k,k,…` (or `-`), processes separated by `;`
  ev <pid> <action> <result>                 replay one observed action of the real process `pid`:
                                             exists 0|1 · acquire - · open_r ok|FileNotFoundError · load ok|<ExcName> ·
                                             release - · remove ok|FileNotFoundError · open_w - · dump <keys> ·
                                             exit done|fatal:<ExcName>
                                             → `ok` or `mismatch …`
  crash <pid> <0|mid|full>                   SIGKILL (inside pickle.dump: that much has been written)
  file                                       class of the cache file now: missing | valid:<keys> | stale | wrongtype | raises:<Exc>
  proc <pid>                                 `<pc-action> <answers k=c,…>`
  explore <mode 0|1|2> <maxStates>           exhaustive search of ALL interleavings (1: + kills and I/O errors; 2: + wipes, checks
                                             only 'nobody fatal') from the current state:
                                             `safe states=<n>` | `unsafe <what> after <schedule>` | `limit`
  guards <quick|config>                      the generated guards (repr)
  issub <E> <C>                              `issubclass(E, C)` in the model's exception hierarchy; `excs` lists the enum
-/
import Driver.Proto
import SpsdkVerif.Model.DbCache
import SpsdkVerif.Generated.CacheGuards
import Std.Data.HashSet
open SpsdkVerif Driver
open SpsdkVerif.DbCache

namespace C18

/-! ### toy codec: `80 ty fp n (k c)* 2E`, numbers as 4 little-endian bytes; `FF idx` = damaged file raising class `idx` -/

def enc4 (n : Nat) : Bytes := [UInt8.ofNat n, UInt8.ofNat (n / 256), UInt8.ofNat (n / 65536), UInt8.ofNat (n / 16777216)]

def dec4 : Bytes → Option (Nat × Bytes)
  | a :: b :: c :: d :: rest => some (a.toNat + 256 * b.toNat + 65536 * c.toNat + 16777216 * d.toNat, rest)
  | _ => none

def toyPickle (v : Val) : Bytes :=
  [0x80] ++ enc4 v.ty ++ enc4 v.fp ++ enc4 v.ents.length ++ (v.ents.flatMap fun e => enc4 e.1 ++ enc4 e.2) ++ [0x2E]

def decEnts : Nat → Bytes → List (Nat × Nat) → Option (List (Nat × Nat) × Bytes)
  | 0, b, acc => some (acc.reverse, b)
  | n + 1, b, acc =>
    match dec4 b with
    | none => none
    | some (k, b1) => match dec4 b1 with
      | none => none
      | some (c, b2) => decEnts n b2 ((k, c) :: acc)

def toyUnpickle (b : Bytes) : Outcome :=
  match b with
  | [] => .raises .EOFError
  | [0xFF, idx] => .raises (Exc.all.getD idx.toNat .UnpicklingError)
  | 0x80 :: rest =>
    (match dec4 rest with
     | none => .raises .UnpicklingError
     | some (ty, r1) => match dec4 r1 with
       | none => .raises .UnpicklingError
       | some (fp, r2) => match dec4 r2 with
         | none => .raises .UnpicklingError
         | some (n, r3) =>
           if n > 4096 then .raises .UnpicklingError else
           match decEnts n r3 [] with
           | some (ents, [0x2E]) => .ok { ty := ty, fp := fp, ents := ents }
           | _ => .raises .UnpicklingError)
  | _ => .raises .UnpicklingError

def toyFp (ks : List Nat) : Nat := ks.foldl (fun a k => (a * 1000003 + k + 1) % 2147483629) 7

def toyEnv : Env :=
  { pickle := toyPickle, unpickle := toyUnpickle, loadCfg := fun k => k + 1000, fpOf := toyFp,
    expectedTy := 1, garbage := [0xFF, 0xFE] }

def guardsOf (kind : String) : Option Guards :=
  if kind == "quick" then some { l := Generated.CacheGuards.quickLoader, w := Generated.CacheGuards.quickWriter }
  else if kind == "config" then some { l := Generated.CacheGuards.configLoader, w := Generated.CacheGuards.configWriter }
  else none

def parseKeys (s : String) : List Nat := if s == "-" || s == "" then [] else (s.splitOn ",").filterMap (·.toNat?)

def goodVal (ks : List Nat) : Val :=
  { ty := toyEnv.expectedTy, fp := toyFp ks, ents := ks.map fun k => (k, toyEnv.loadCfg k) }

def parseFile (s : String) : Option (Option Bytes) :=
  match s.splitOn ":" with
  | ["missing"] => some none
  | ["valid", ks] => some (some (toyPickle (goodVal (parseKeys ks))))
  | ["stale", ks] =>
    let ks := parseKeys ks
    some (some (toyPickle { ty := toyEnv.expectedTy, fp := toyFp ks + 1, ents := ks.map fun k => (k, toyEnv.loadCfg k + 1) }))
  | ["wrongtype"] => some (some (toyPickle { ty := toyEnv.expectedTy + 1, fp := 0, ents := [(0, 0)] }))
  | ["raises", e] =>
    (match Exc.all.findIdx? (fun x => x.name == e) with
     | some i => some (some [0xFF, UInt8.ofNat i])
     | none => none)
  | _ => none

def csv (l : List Nat) : String := if l.isEmpty then "-" else ",".intercalate (l.map toString)

def fileClass (f : Option Bytes) : String :=
  match f with
  | none => "missing"
  | some b =>
    match toyUnpickle b with
    | .raises e => "raises:" ++ e.name
    | .ok v =>
      if v.ty != toyEnv.expectedTy then "wrongtype"
      else if v.fp == toyFp (keys v.ents) && v.ents.all (fun e => e.2 == toyEnv.loadCfg e.1) then "valid:" ++ csv (keys v.ents)
      else "stale"

structure DS where
  G : Guards := { l := default, w := default }
  st : St := default
  ok : Bool := false

/-- what the model predicts for the observable action at the current pc of process `i` -/
def predict (ds : DS) (p : Proc) : String × String :=
  let sh := ds.st.sh
  let present := sh.file.isSome
  match p.pc with
  | .lExists | .hExists | .wExists => ("exists", if present then "1" else "0")
  | .lAcquire | .wAcquire => ("acquire", "-")
  | .lOpen | .wOpenR => ("open_r", if present then "ok" else "FileNotFoundError")
  | .lUnpickle | .wUnpickle => ("load", match toyUnpickle p.buf with | .ok _ => "ok" | .raises e => e.name)
  | .lRelease _ | .wRelease _ => ("release", "-")
  | .lRemoveStale | .hRemove => ("remove", if present then "ok" else "FileNotFoundError")
  | .wTrunc => ("open_w", "-")
  | .wWrite => ("dump", csv (keys p.mem))
  | .done => ("exit", "done")
  | .fatal e => ("exit", "fatal:" ++ e.name)
  | .crashed => ("exit", "crashed")

def answersStr (p : Proc) : String :=
  if p.answers.isEmpty then "-" else ",".intercalate (p.answers.map fun a => s!"{a.1}={a.2}")

/-! ### exhaustive exploration of interleavings -/

instance : Hashable Exc := ⟨fun e => hash e.name⟩
deriving instance Hashable for Cont
deriving instance Hashable for PC
deriving instance Hashable for Val
deriving instance Hashable for Proc
deriving instance Hashable for Sh
deriving instance Hashable for St

def lblStr : Lbl → String
  | .run i => s!"r{i}"
  | .crash i n => s!"k{i}/{n}"
  | .fail i e n => s!"f{i}/{e.name}/{n}"
  | .wipe => "w"

def badState (s : St) : Option String :=
  let rec go (i : Nat) : List Proc → Option String
    | [] => none
    | p :: ps =>
      (match p.pc with
       | .fatal e => some s!"process {i} fatal {e.name}"
       | _ =>
         if p.answers.any (fun a => a.2 != toyEnv.loadCfg a.1) then some s!"process {i} wrong answer {answersStr p}"
         else if p.pc == .done && p.answers != disabledAnswers toyEnv p.asked then some s!"process {i} answers incomplete"
         else go (i + 1) ps)
  match go 0 s.procs with
  | some w => some w
  | none =>
    -- the file must never become trusted garbage: if it unpickles with right type and matching fingerprint, entries are right
    match s.sh.file with
    | some b => (match toyUnpickle b with
      | .ok v => if v.ty == toyEnv.expectedTy && v.fp == toyFp (keys v.ents) && !(v.ents.all fun e => e.2 == toyEnv.loadCfg e.1)
                 then some "file is a trusted-looking cache with wrong entries" else none
      | .raises _ => none)
    | none => none

def failable : PC → Bool
  | .lAcquire | .lOpen | .wAcquire | .wOpenR | .wTrunc | .wWrite => true
  | _ => false

/-- mode 0: run steps only; 1: + kills and I/O errors; 2: + `wipe` (a cache-disabled process removes the folder) -/
def labelsOf (G : Guards) (s : St) (mode : Nat) : List Lbl :=
  let n := s.procs.length
  let runs := (List.range n).map Lbl.run
  if mode ≥ 1 then
    runs ++ (List.range n).flatMap (fun i =>
      match s.procs[i]? with
      | some p =>
        let len := (toyEnv.pickle (written toyEnv p)).length
        (if p.pc == .wWrite && !G.w.atomicWrite then
          [Lbl.crash i 0, Lbl.crash i (len / 2), Lbl.crash i len, Lbl.fail i .OSError 0, Lbl.fail i .OSError (len / 2)]
        else [Lbl.crash i 0] ++ (if failable p.pc then [Lbl.fail i .OSError 0] else []))
      | none => []) ++ (if mode ≥ 2 then [Lbl.wipe] else [])
  else runs

def fatalState (s : St) : Option String :=
  let rec go (i : Nat) : List Proc → Option String
    | [] => none
    | p :: ps => (match p.pc with
      | .fatal e => some s!"process {i} fatal {e.name}"
      | _ => go (i + 1) ps)
  go 0 s.procs

/-- DFS with a visited set; returns (visited, result) -/
partial def explore (G : Guards) (mode : Nat) (limit : Nat) (s0 : St) : String := Id.run do
  let mut visited : Std.HashSet St := {}
  let mut stack : List (St × List Lbl) := [(s0, [])]
  let mut deadlock : Option String := none
  while !stack.isEmpty do
    match stack with
    | [] => break
    | (s, path) :: rest =>
      stack := rest
      if visited.contains s then continue
      visited := visited.insert s
      if visited.size > limit then return s!"limit states={visited.size}"
      match (if mode ≥ 2 then fatalState s else badState s) with
      | some w => return s!"unsafe {w} after {" ".intercalate (path.reverse.map lblStr)}"
      | none => pure ()
      let mut anyRun := false
      for l in labelsOf G s mode do
        match gstep toyEnv G s l with
        | some s' =>
          if let .run _ := l then anyRun := true
          if !visited.contains s' then stack := (s', l :: path) :: stack
        | none => pure ()
      if !anyRun && s.procs.any (fun p => !p.pc.terminal) then
        deadlock := some s!"deadlock after {" ".intercalate (path.reverse.map lblStr)}"
  match deadlock with
  | some d => return s!"unsafe {d}"
  | none => return s!"safe states={visited.size}"

def stepLine (ds : DS) : List String → DS × String
  | ["guards", kind] =>
    (match guardsOf kind with
     | some G => (ds, (toString (repr G.l) ++ " " ++ toString (repr G.w)).replace "\n" " ")
     | none => (ds, "bad-op"))
  | ["init", kind, f0, qs] =>
    (match guardsOf kind, parseFile f0 with
     | some G, some f =>
       let queries := (qs.splitOn ";").map parseKeys
       ({ G := G, st := initSt G f queries, ok := true }, "ok")
     | _, _ => (ds, "bad-op"))
  | ["ev", pid, act, res] =>
    (match pid.toNat? with
     | none => (ds, "bad-op")
     | some i =>
       -- a store through a temporary file: opening the temporary file is not an action on the cache file
       let ds := match ds.st.procs[i]? with
         | some p0 =>
           if p0.pc == .wTrunc && ds.G.w.atomicWrite && act != "open_w" then
             (match gstep toyEnv ds.G ds.st (.run i) with | some s' => { ds with st := s' } | none => ds)
           else ds
         | none => ds
       match ds.st.procs[i]? with
       | none => (ds, "bad-op")
       | some p =>
         let (pa, pr) := predict ds p
         let pr := if act == "dump" && res == "?" then "?" else pr
         -- an I/O error of the implementation at this action (injected or real): the model's `fail` step
         let ioErr := ioExcs.any (fun e => e.name == res) && failable p.pc && pa == act &&
                      !(res == "FileNotFoundError" && pr == "FileNotFoundError")
         if ioErr then
           (match gstep toyEnv ds.G ds.st (.fail i (Exc.ofName res) 0) with
            | some s' => ({ ds with st := s' }, "ok")
            | none => (ds, s!"mismatch process {i}: I/O error '{res}' at '{act}' is not enabled in the model"))
         else if pa != act then (ds, s!"mismatch process {i}: implementation does '{act}' where the model is at '{pa}'")
         else if pr != res then (ds, s!"mismatch process {i}: '{act}' gives '{res}' in the implementation, '{pr}' in the model")
         else if act == "exit" then (ds, "ok")
         else match gstep toyEnv ds.G ds.st (.run i) with
           | some s' => ({ ds with st := s' }, "ok")
           | none => (ds, s!"mismatch process {i}: '{act}' is not enabled in the model (lock held by {repr ds.st.sh.lock})"))
  | ["crash", pid, n] =>
    (match pid.toNat? with
     | none => (ds, "bad-op")
     | some i =>
       let len := match ds.st.procs[i]? with
         | some p => (toyEnv.pickle (written toyEnv p)).length
         | none => 0
       let k := if n == "0" then 0 else if n == "mid" then len / 2 else len
       match gstep toyEnv ds.G ds.st (.crash i k) with
       | some s' => ({ ds with st := s' }, "ok")
       | none => (ds, "mismatch crash not enabled"))
  | ["issub", e, c] => (ds, if Exc.isSub (Exc.ofName e) (Exc.ofName c) then "1" else "0")
  | ["excs"] => (ds, " ".intercalate (Exc.all.map (·.name)))
  | ["wipe"] => (match gstep toyEnv ds.G ds.st .wipe with
                 | some s' => ({ ds with st := s' }, "ok")
                 | none => (ds, "mismatch"))
  | ["file"] => (ds, fileClass ds.st.sh.file)
  | ["proc", pid] =>
    (match pid.toNat? with
     | none => (ds, "bad-op")
     | some i => match ds.st.procs[i]? with
       | some p => (ds, s!"{(predict ds p).1}:{(predict ds p).2} {answersStr p}")
       | none => (ds, "bad-op"))
  | ["explore", wc, lim] =>
    (match lim.toNat? with
     | some l => (ds, explore ds.G (wc.toNat?.getD 0) l ds.st)
     | none => (ds, "bad-op"))
  | _ => (ds, "bad-op")

end C18

def main : IO Unit := Driver.loopS ({} : C18.DS) C18.stepLine
