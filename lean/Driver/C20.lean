import Driver.Proto
import SpsdkVerif.Generated.PyFuns
import SpsdkVerif.Model.Misc
import SpsdkVerif.Generated.PyFuns2
import SpsdkVerif.Generated.EnumTables
import SpsdkVerif.Model.Misc2
import SpsdkVerif.Model.Misc3
open SpsdkVerif Driver
open SpsdkVerif.Misc

def asciiOf (b : List UInt8) : List Char := b.map (fun x => Char.ofNat x.toNat)

/-- phase 2 helpers -/
def bytesOfChars (l : List Char) : List UInt8 := l.map (fun c => UInt8.ofNat c.toNat)
def hexOrDash (b : List UInt8) : String := if b.isEmpty then "-" else toHex b
def parseOptInt (s : String) : Option (Option Int) := if s == "none" then some none else (parseInt s).map some

def enumByName (n : String) : Option (List EnumRow) :=
  if n == "sb2cmd" then some Generated.EnumTables.enumSb2CmdTag
  else if n == "ahabmem" then some Generated.EnumTables.enumAhabTargetMemory
  else if n == "flagssrk" then some Generated.EnumTables.enumFlagsSrkSet else none

def rowStr (m : EnumRow) : String :=
  s!"{m.1}:{hexOrDash (bytesOfChars m.2.1)}:" ++ (match m.2.2 with | some d => hexOrDash (bytesOfChars d) | none => "none")

/-- phase 3 -/
def charsHex (l : List Char) : String := hexOrDash (bytesOfChars l)

def softByName (n : String) : Option (List EnumRow) :=
  enumByName n

def step3 : List String → String
  | ["reverse_bits_i", x, n] => match parseInt x, parseInt n with
    | some x, some n => resLine toString (reverseBitsI x n) | _, _ => "bad-op"
  | ["format_value", v, sz, d, p] => match parseInt v, parseInt sz, parseHex d, parseBool p with
    | some v, some sz, some d, some p => resLine charsHex (formatValue v sz (asciiOf d) p) | _, _, _, _ => "bad-op"
  | ["v2b_any", kind, payload, a, c, le] =>
    let src : Option ValSrc :=
      if kind == "bytes" then (parseHex payload).map .bytes
      else if kind == "int" then (parseInt payload).map .int
      else if kind == "str" then (parseHex payload).map (fun b => .str (asciiOf b))
      else none
    (match src, parseBool a, parseOptInt c, parseBool le with
     | some src, some a, some c, some le => resLine toHex (valueToBytesAny src a c le)
     | _, _, _, _ => "bad-op")
  | ["extend_block_i", h, l, p] => match parseHex h, parseInt l, parseInt p with
    | some b, some l, some p => resLine toHex (extendBlockI b l p) | _, _, _ => "bad-op"
  | ["find_first", h, m, r] => match parseHex h, parseNat m, parseNat r with
    | some b, some m, some r => (match findFirst b (fun x => x.toNat % m == r) with
      | some x => s!"ok:{x.toNat}" | none => "ok:none")
    | _, _, _ => "bad-op"
  | ["soft", name, cls, "from_tag", t] => match softByName name, parseHex cls, parseInt t with
    | some E, some c, some t => "ok:" ++ rowStr (softFromTag E (asciiOf c) t) | _, _, _ => "bad-op"
  | ["soft", name, cls, "get_label", t] => match softByName name, parseHex cls, parseInt t with
    | some E, some c, some t => "ok:" ++ charsHex (softGetLabel E (asciiOf c) t) | _, _, _ => "bad-op"
  | ["soft", name, cls, "get_description", t, d] => match softByName name, parseHex cls, parseInt t with
    | some E, some c, some t =>
      let dflt : Option (List Char) := if d == "none" then none else (parseHex d).map asciiOf
      "ok:" ++ (match softGetDescription E (asciiOf c) t dflt with | some l => charsHex l | none => "none")
    | _, _, _ => "bad-op"
  | ["soft", name, "contains_tag", t] => match softByName name, parseInt t with
    | some E, some t => "ok:" ++ boolStr (softContainsTag E t) | _, _ => "bad-op"
  | ["size_fmt", n, k] => match parseInt n, parseBool k with
    | some n, some k => "ok:" ++ charsHex (sizeFmt n k) | _, _ => "bad-op"
  | ["bcd_from_str", h] => match parseHex h with
    | some b => resLine (fun v => s!"{v.1}.{v.2.1}.{v.2.2}") (bcdFromStr (asciiOf b)) | none => "bad-op"
  | ["bcd_str", a, b, c] => match parseNat a, parseNat b, parseNat c with
    | some a, some b, some c => "ok:" ++ charsHex (bcdStr (a, b, c)) | _, _, _ => "bad-op"
  | ["sb_fill_zeros", h] => match parseHex h with
    | some b => resLine toHex (sbAlignBlockFillZeros b) | none => "bad-op"
  | ["load_hex_file", content, src, n] => match parseHex content, parseHex src, parseInt n with
    | some c, some s, some n =>
      resLine (fun o => match o with | some b => hexOrDash b | none => "random") (loadHexStringFS (some c) (.str (asciiOf s)) n)
    | _, _, _ => "bad-op"
  | ["endianness"] => "ok:" ++ ",".intercalate (Generated.Misc3Tables.endiannessMembers.map (fun m => charsHex m.1 ++ "=" ++ charsHex m.2))
  | _ => "bad-op"

def step2 : List String → String
  | ["gen_bytes_cnt", f, v, a, c] => match parseNat f, parseInt v, parseBool a, parseOptInt c with
    | some f, some v, some a, some c => resLine toString (Generated.PyFuns2.getBytesCntOfInt f v a c) | _, _, _, _ => "bad-op"
  | ["gen_bcd_check", n] => match parseInt n with
    | some n => resLine boolStr (Generated.PyFuns2.bcdCheckNumber n) | _ => "bad-op"
  | ["gen_swap32_guard", x] => match parseInt x with
    | some x => resLine boolStr (Generated.PyFuns2.swap32Guard x) | _ => "bad-op"
  | ["gen_revlongs_guard", n] => match parseInt n with
    | some n => resLine boolStr (Generated.PyFuns2.revLongsGuard n) | _ => "bad-op"
  | ["gen_extend_np", n, l, p] => match parseInt n, parseInt l, parseInt p with
    | some n, some l, some p => resLine toString (Generated.PyFuns2.extendBlockNumPadding n l p) | _, _, _ => "bad-op"
  | ["gen_align_np", n, a] => match parseInt n, parseInt a with
    | some n, some a => resLine toString (Generated.PyFuns2.alignBlockNumPadding n a) | _, _ => "bad-op"
  | ["load_hex", kind, payload, n] =>
    let src : Option HexSrc :=
      if kind == "none" then some .none
      else if kind == "bytes" then (parseHex payload).map .bytes
      else if kind == "int" then (parseInt payload).map .int
      else if kind == "str" then (parseHex payload).map (fun b => .str (asciiOf b))
      else none
    (match src, parseInt n with
     | some src, some n => resLine (fun o => match o with | some b => hexOrDash b | none => "random") (loadHexString src n)
     | _, _ => "bad-op")
  | ["value_to_bool", kind, payload] =>
    let src : Option BoolSrc :=
      if kind == "none" then some .none
      else if kind == "bool" then (parseBool payload).map .bool
      else if kind == "int" then (parseInt payload).map .int
      else if kind == "str" then (parseHex payload).map (fun b => .str (asciiOf b))
      else none
    (match src with | some src => "ok:" ++ boolStr (valueToBool src) | none => "bad-op")
  | ["pattern_accept", h] => match parseHex h with
    | some b => "ok:" ++ boolStr (patternAccept (asciiOf b)) | none => "bad-op"
  | ["pattern_prop", h] => match parseHex h with
    | some b => "ok:" ++ hexOrDash (bytesOfChars (patternProp (asciiOf b))) | none => "bad-op"
  | ["split_data", h, n] => match parseHex h, parseInt n with
    | some b, some n => resLine (fun cs => ",".intercalate (cs.map hexOrDash)) (splitData b n) | _, _ => "bad-op"
  | ["enum", name, "from_tag", t] => match enumByName name, parseInt t with
    | some E, some t => resLine rowStr (fromTag E t) | _, _ => "bad-op"
  | ["enum", name, "from_label", h] => match enumByName name, parseHex h with
    | some E, some b => resLine rowStr (fromLabel E (asciiOf b)) | _, _ => "bad-op"
  | ["enum", name, "get_tag", h] => match enumByName name, parseHex h with
    | some E, some b => resLine toString (getTag E (asciiOf b)) | _, _ => "bad-op"
  | ["enum", name, "get_label", t] => match enumByName name, parseInt t with
    | some E, some t => resLine (fun l => hexOrDash (bytesOfChars l)) (getLabel E t) | _, _ => "bad-op"
  | ["enum", name, "get_description", t, d] => match enumByName name, parseInt t with
    | some E, some t =>
      let dflt : Option (List Char) := if d == "none" then none else (parseHex d).map asciiOf
      resLine (fun o => match o with | some l => hexOrDash (bytesOfChars l) | none => "none") (getDescription E t dflt)
    | _, _ => "bad-op"
  | ["enum", name, "contains_tag", t] => match enumByName name, parseInt t with
    | some E, some t => "ok:" ++ boolStr (containsTag E t) | _, _ => "bad-op"
  | ["enum", name, "contains_label", h] => match enumByName name, parseHex h with
    | some E, some b => "ok:" ++ boolStr (containsLabel E (asciiOf b)) | _, _ => "bad-op"
  | l => step3 l

def step : List String → String
  | ["align", n, a] => match parseInt n, parseInt a with
    | some n, some a => resLine toString (Generated.PyFuns.align n a) | _, _ => "bad-op"
  | ["check_range", x, lo, hi] => match parseInt x, parseInt lo, parseInt hi with
    | some x, some lo, some hi => resLine boolStr (Generated.PyFuns.check_range x lo hi) | _, _, _ => "bad-op"
  | ["swap16", x] => match parseInt x with | some x => resLine toString (Generated.PyFuns.swap16 x) | _ => "bad-op"
  | ["swap32", x] => match parseInt x with | some x => resLine toString (swap32 x) | _ => "bad-op"
  | ["sb_align", x] => match parseInt x with | some x => resLine toString (Generated.PyFuns.sbAlign x) | _ => "bad-op"
  | ["sb_is_aligned", x] => match parseInt x with | some x => resLine boolStr (Generated.PyFuns.sbIsAligned x) | _ => "bad-op"
  | ["sb_num_blocks", x] => match parseInt x with | some x => resLine toString (Generated.PyFuns.sbToNumBlocks x) | _ => "bad-op"
  | ["device_id", x] => match parseInt x with | some x => resLine toString (Generated.PyFuns.getDeviceId x) | _ => "bad-op"
  | ["group_id", x] => match parseInt x with | some x => resLine toString (Generated.PyFuns.getGroupId x) | _ => "bad-op"
  | ["memory_id", d, g] => match parseInt d, parseInt g with
    | some d, some g => resLine toString (Generated.PyFuns.getMemoryId d g) | _, _ => "bad-op"
  | ["value_to_int", h] => match parseHex h with
    | some b => (match valueToInt (asciiOf b) with | some v => s!"ok:{v}" | none => "E:spsdk")
    | none => "bad-op"
  | ["bytes_cnt", v, a, c] => match parseNat v, parseBool a, parseNat c with
    | some v, some a, some c => resLine toString (getBytesCnt v a c) | _, _, _ => "bad-op"
  | ["value_to_bytes", v, a, c, le] => match parseNat v, parseBool a, parseNat c, parseBool le with
    | some v, some a, some c, some le => resLine toHex (valueToBytes v a c le) | _, _, _, _ => "bad-op"
  | ["reverse_bits", x, n] => match parseNat x, parseNat n with
    | some x, some n => s!"ok:{reverseBits x n}" | _, _ => "bad-op"
  | ["rev_longs", h] => match parseHex h with | some b => resLine toHex (reverseBytesInLongs b) | none => "bad-op"
  | ["change_endianness", h] => match parseHex h with | some b => resLine toHex (changeEndianness b) | none => "bad-op"
  | ["swap_bytes", h] => match parseHex h with | some b => resLine toHex (swapBytes b) | none => "bad-op"
  | ["align_block", h, a, p] => match parseHex h, parseInt a, parseNat p with
    | some b, some a, some p => resLine toHex (alignBlock b a (UInt8.ofNat p)) | _, _, _ => "bad-op"
  | ["extend_block", h, l, p] => match parseHex h, parseInt l, parseNat p with
    | some b, some l, some p => resLine toHex (extendBlock b l (UInt8.ofNat p)) | _, _, _ => "bad-op"
  | ["pattern", kind, v, size] => match parseNat v, parseNat size with
    | some v, some size =>
      let p : Option Pattern := if kind == "zeros" then some .zeros else if kind == "ones" then some .ones
        else if kind == "inc" then some .inc else if kind == "num" then some (.num v) else none
      (match p with | some p => "ok:" ++ toHex (p.block size) | none => "bad-op")
    | _, _ => "bad-op"
  | ["bcd_from", h] => match parseHex h with | some b => resLine toString (bcdFromDigits (asciiOf b)) | none => "bad-op"
  | ["bcd_to", n] => match parseNat n with | some n => "ok:" ++ String.ofList (bcdToDigits n) | none => "bad-op"
  | l => step2 l

def main : IO Unit := Driver.loop step
