import Driver.Proto
import SpsdkVerif.Generated.PyFuns
import SpsdkVerif.Model.Misc
open SpsdkVerif Driver
open SpsdkVerif.Misc

def asciiOf (b : List UInt8) : List Char := b.map (fun x => Char.ofNat x.toNat)

def step : List String → String
  | ["align", n, a] => match parseInt n, parseInt a with
    | some n, some a => resLine toString (Generated.PyFuns.align n a) | _, _ => "bad-op"
  | ["check_range", x, lo, hi] => match parseInt x, parseInt lo, parseInt hi with
    | some x, some lo, some hi => resLine boolStr (Generated.PyFuns.check_range x lo hi) | _, _, _ => "bad-op"
  | ["swap16", x] => match parseInt x with | some x => resLine toString (Generated.PyFuns.swap16 x) | _ => "bad-op"
  | ["swap32", x] => match parseInt x with | some x => resLine toString (swap32 x) | _ => "bad-op"
  | ["sb_align", x] => match parseInt x with | some x => resLine toString (Generated.PyFuns.sbAlign x) | _ => "bad-op"
  | ["sb_is_aligned", x] => match parseInt x with | some x => resLine boolStr (Generated.PyFuns.sbIsAligned x) | _ => "bad-op"
  | ["sb_num_blocks", x] => match parseInt x with | some x => resLine toString (Generated.PyFuns.sbToNumBlocks x) | _ => "bad-op"
  | ["device_id", x] => match parseInt x with | some x => resLine toString (Generated.PyFuns.getDeviceId x) | _ => "bad-op"
  | ["group_id", x] => match parseInt x with | some x => resLine toString (Generated.PyFuns.getGroupId x) | _ => "bad-op"
  | ["memory_id", d, g] => match parseInt d, parseInt g with
    | some d, some g => resLine toString (Generated.PyFuns.getMemoryId d g) | _, _ => "bad-op"
  | ["value_to_int", h] => match parseHex h with
    | some b => (match valueToInt (asciiOf b) with | some v => s!"ok:{v}" | none => "E:spsdk")
    | none => "bad-op"
  | ["bytes_cnt", v, a, c] => match parseNat v, parseBool a, parseNat c with
    | some v, some a, some c => resLine toString (getBytesCnt v a c) | _, _, _ => "bad-op"
  | ["value_to_bytes", v, a, c, le] => match parseNat v, parseBool a, parseNat c, parseBool le with
    | some v, some a, some c, some le => resLine toHex (valueToBytes v a c le) | _, _, _, _ => "bad-op"
  | ["reverse_bits", x, n] => match parseNat x, parseNat n with
    | some x, some n => s!"ok:{reverseBits x n}" | _, _ => "bad-op"
  | ["rev_longs", h] => match parseHex h with | some b => resLine toHex (reverseBytesInLongs b) | none => "bad-op"
  | ["change_endianness", h] => match parseHex h with | some b => resLine toHex (changeEndianness b) | none => "bad-op"
  | ["swap_bytes", h] => match parseHex h with | some b => resLine toHex (swapBytes b) | none => "bad-op"
  | ["align_block", h, a, p] => match parseHex h, parseInt a, parseNat p with
    | some b, some a, some p => resLine toHex (alignBlock b a (UInt8.ofNat p)) | _, _, _ => "bad-op"
  | ["extend_block", h, l, p] => match parseHex h, parseInt l, parseNat p with
    | some b, some l, some p => resLine toHex (extendBlock b l (UInt8.ofNat p)) | _, _, _ => "bad-op"
  | ["pattern", kind, v, size] => match parseNat v, parseNat size with
    | some v, some size =>
      let p : Option Pattern := if kind == "zeros" then some .zeros else if kind == "ones" then some .ones
        else if kind == "inc" then some .inc else if kind == "num" then some (.num v) else none
      (match p with | some p => "ok:" ++ toHex (p.block size) | none => "bad-op")
    | _, _ => "bad-op"
  | ["bcd_from", h] => match parseHex h with | some b => resLine toString (bcdFromDigits (asciiOf b)) | none => "bad-op"
  | ["bcd_to", n] => match parseNat n with | some n => "ok:" ++ String.ofList (bcdToDigits n) | none => "bad-op"
  | _ => "bad-op"

def main : IO Unit := Driver.loop step
