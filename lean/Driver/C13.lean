/-
Native model driver for C13 (flash encryption).  One request per line, tokens separated by blanks:
decimal numbers, hex byte strings ("-" = empty).  See harness/props/C13.py for the request builders.
-/
import Driver.Proto
import SpsdkVerif.Model.FlashEnc
import SpsdkVerif.Crypto.Exec
open SpsdkVerif Driver
open SpsdkVerif.Crypto SpsdkVerif.FlashEnc

abbrev P (α : Type) := List String → Option (α × List String)

def pNat : P Nat
  | t :: r => (parseNat t).map (·, r)
  | [] => none
def pHex : P (List UInt8)
  | t :: r => (parseHex t).map (·, r)
  | [] => none
def pBool : P Bool
  | t :: r => (parseBool t).map (·, r)
  | [] => none

def pMany {α : Type} (p : P α) : Nat → P (List α)
  | 0, ts => some ([], ts)
  | n + 1, ts => do
    let (x, ts) ← p ts
    let (xs, ts) ← pMany p n ts
    pure (x :: xs, ts)

def pList {α : Type} (p : P α) : P (List α) := fun ts => do
  let (n, ts) ← pNat ts
  pMany p n ts

/-- `start end key ctr flags zerofill crcfill` -/
def pKeyBlob : P KeyBlob := fun ts => do
  let (s, ts) ← pNat ts
  let (e, ts) ← pNat ts
  let (k, ts) ← pHex ts
  let (ctr, ts) ← pHex ts
  let (fl, ts) ← pNat ts
  let (zf, ts) ← pHex ts
  let (cf, ts) ← pHex ts
  pure ({ start := s, end_ := e, key := k, ctr := ctr, flags := fl, zeroFill := zf, crcFill := cf }, ts)

/-- `key ctr srtaddr endaddr` -/
def pOtfadCtx : P OtfadCtx := fun ts => do
  let (k, ts) ← pHex ts
  let (ctr, ts) ← pHex ts
  let (s, ts) ← pNat ts
  let (e, ts) ← pNat ts
  pure (⟨k, ctr, s, e⟩, ts)

/-- `-` (disabled) or `mask align` introduced by `s` -/
def pScr : P (Option (Nat × Nat))
  | "-" :: r => some (none, r)
  | "s" :: m :: a :: r => do
    let m ← parseNat m
    let a ← parseNat a
    pure (some (m, a), r)
  | _ => none

def modeOf : Nat → Option IeeMode
  | 0 => some .bypass | 1 => some .xts | 2 => some .ctrAddr | 3 => some .ctrNoAddr | 4 => some .ctrKeystream
  | _ => none

/-- `lock keysize(0=128,1=256) mode(0..4) start end key1 key2 pageoffset` -/
def pIeeBlob : P IeeBlob := fun ts => do
  let (l, ts) ← pBool ts
  let (ks, ts) ← pNat ts
  let (m, ts) ← pNat ts
  let mode ← modeOf m
  let (s, ts) ← pNat ts
  let (e, ts) ← pNat ts
  let (k1, ts) ← pHex ts
  let (k2, ts) ← pHex ts
  let (po, ts) ← pNat ts
  pure ({ lock := l, keySize := if ks = 0 then .k128 else .k256, mode := mode, start := s, end_ := e, key1 := k1, key2 := k2,
          pageOffset := po }, ts)

def pFac : P Fac := fun ts => do
  let (s, ts) ← pNat ts
  let (l, ts) ← pNat ts
  pure (⟨s, l⟩, ts)

/-- `key counter nfac {start length}*` -/
def pEngine : P BeeEngine := fun ts => do
  let (k, ts) ← pHex ts
  let (ctr, ts) ← pHex ts
  let (fs, ts) ← pList pFac ts
  pure (⟨k, ctr, fs⟩, ts)

def pOptEngine : P (Option BeeEngine)
  | "none" :: r => some (none, r)
  | "some" :: r => (pEngine r).map (fun (e, r) => (some e, r))
  | _ => none

/-- `engine nlevels level* lock kibkey kibiv` -/
def pBeeHdr : P BeeHdr := fun ts => do
  let (e, ts) ← pEngine ts
  let (ls, ts) ← pList pNat ts
  let (lock, ts) ← pNat ts
  let (kk, ts) ← pHex ts
  let (ki, ts) ← pHex ts
  pure (⟨e, ls, lock, kk, ki⟩, ts)

def c : CryptoOps := execOps

def hexRes : PyRes (List UInt8) → String := resLine (fun b => if b.isEmpty then "-" else toHex b)
def hexOut (b : List UInt8) : String := "ok:" ++ (if b.isEmpty then "-" else toHex b)

def ctxStr : Option (OtfadCtx × Bool) → String
  | none => "none"
  | some (x, ok) => s!"{toHex x.key}:{toHex x.ctr}:{x.srtaddr}:{x.endaddr}:{if ok then 1 else 0}"

def ieeCtxStr : Option IeeCtx → String
  | none => "none"
  | some x => s!"{x.keySizeTag}:{x.modeTag}:{x.pageOffset}:{toHex x.key1}:{toHex x.key2}:{x.start}:{x.end_}"

def run (ts : List String) : Option String :=
  match ts with
  | "otfad_enc" :: ts => do
    let (swap, ts) ← pBool ts
    let (base, ts) ← pNat ts
    let (img, ts) ← pHex ts
    let (bs, _) ← pList pKeyBlob ts
    pure (hexRes (Otfad.encryptImage c bs img base swap))
  | "kb_enc" :: ts => do
    let (kb, ts) ← pKeyBlob ts
    let (base, ts) ← pNat ts
    let (d, ts) ← pHex ts
    let (swap, ts) ← pBool ts
    let cv ← match ts with
      | ["-"] => some none
      | [v] => (parseNat v).map some
      | _ => none
    -- the harness constructs the KeyBlob first
    pure (if kb.ctorOk then hexRes (kb.encryptImage c base d swap cv) else "E:spsdk")
  | "otfad_plain" :: ts => do
    let (kb, ts) ← pKeyBlob ts
    let (rnd, _) ← pHex ts
    pure (hexRes (kb.plainData rnd))
  | "otfad_tab" :: ts => do
    let (kek, ts) ← pHex ts
    let (scr, ts) ← pScr ts
    let (rev, ts) ← pBool ts
    let (sc, ts) ← pNat ts
    let (rnd, ts) ← pHex ts
    let (bs, _) ← pList pKeyBlob ts
    pure (hexRes (Otfad.encryptKeyBlobs c bs kek scr rev sc rnd))
  | "otfad_unwrap" :: ts => do
    let (kek, ts) ← pHex ts
    let (scr, ts) ← pScr ts
    let (rev, ts) ← pBool ts
    let (sc, ts) ← pNat ts
    let (n, ts) ← pNat ts
    let (tab, _) ← pHex ts
    pure ("ok:" ++ "|".intercalate ((otfadUnwrapTable c kek scr rev sc n 0 tab).map ctxStr))
  | "otfad_hw" :: ts => do
    let (swap, ts) ← pBool ts
    let (base, ts) ← pNat ts
    let (ct, ts) ← pHex ts
    let (ctxs, _) ← pList pOtfadCtx ts
    pure (hexOut (otfadHwReadAll c ctxs swap base ct))
  | "otfad_hwtab" :: ts => do
    let (kek, ts) ← pHex ts
    let (scr, ts) ← pScr ts
    let (rev, ts) ← pBool ts
    let (sc, ts) ← pNat ts
    let (n, ts) ← pNat ts
    let (tab, ts) ← pHex ts
    let (swap, ts) ← pBool ts
    let (base, ts) ← pNat ts
    let (ct, _) ← pHex ts
    let ctxs := (otfadUnwrapTable c kek scr rev sc n 0 tab).filterMap (fun o => o.map (·.1))
    pure (hexOut (otfadHwReadAll c ctxs swap base ct))
  | "scramble" :: ts => do
    let (kek, ts) ← pHex ts
    let (m, ts) ← pNat ts
    let (a, ts) ← pNat ts
    let (rev, ts) ← pBool ts
    let (i, _) ← pNat ts
    pure (hexOut (scrambleKek kek m a rev i))
  | "iee_enc" :: ts => do
    let (base, ts) ← pNat ts
    let (img, ts) ← pHex ts
    let (bs, _) ← pList pIeeBlob ts
    pure (hexRes (Iee.encryptImage c bs img base))
  | "iee_kb_enc" :: ts => do
    let (b, ts) ← pIeeBlob ts
    let (base, ts) ← pNat ts
    let (d, _) ← pHex ts
    pure (hexRes (b.encryptImage c base d))
  | "iee_plain" :: ts => do
    let (bs, _) ← pList pIeeBlob ts
    pure (hexRes (Iee.getKeyBlobs bs))
  | "iee_tab" :: ts => do
    let (k1, ts) ← pHex ts
    let (k2, ts) ← pHex ts
    let (addr, ts) ← pNat ts
    let (bs, _) ← pList pIeeBlob ts
    pure (hexRes (Iee.encryptKeyBlobs c bs k1 k2 addr))
  | "iee_unwrap" :: ts => do
    let (k1, ts) ← pHex ts
    let (k2, ts) ← pHex ts
    let (addr, ts) ← pNat ts
    let (n, ts) ← pNat ts
    let (tab, _) ← pHex ts
    pure ("ok:" ++ "|".intercalate ((ieeUnwrapTable c k1 k2 addr n tab).map ieeCtxStr))
  | "iee_hwtab" :: ts => do
    let (k1, ts) ← pHex ts
    let (k2, ts) ← pHex ts
    let (addr, ts) ← pNat ts
    let (n, ts) ← pNat ts
    let (tab, ts) ← pHex ts
    let (base, ts) ← pNat ts
    let (ct, _) ← pHex ts
    let ctxs := (ieeUnwrapTable c k1 k2 addr n tab).filterMap id
    pure (hexOut (ieeHwReadAll c ctxs base ct))
  | "iee_hwtabx" :: ts => do      -- extended engine (all modes, page offset) programmed from the exported table
    let (k1, ts) ← pHex ts
    let (k2, ts) ← pHex ts
    let (addr, ts) ← pNat ts
    let (n, ts) ← pNat ts
    let (tab, ts) ← pHex ts
    let (base, ts) ← pNat ts
    let (ct, _) ← pHex ts
    let ctxs := (ieeUnwrapTable c k1 k2 addr n tab).filterMap id
    pure (hexOut (ieeHwReadAllX c ctxs base ct))
  | "iee_ctrx" :: ts => do        -- region `idx` of the exported table reads `ct` block by block from system address `a`
    let (k1, ts) ← pHex ts
    let (k2, ts) ← pHex ts
    let (addr, ts) ← pNat ts
    let (n, ts) ← pNat ts
    let (tab, ts) ← pHex ts
    let (idx, ts) ← pNat ts
    let (a, ts) ← pNat ts
    let (ct, _) ← pHex ts
    match (ieeUnwrapTable c k1 k2 addr n tab)[idx]? with
    | some (some x) => pure (if x.isCtrMode then hexOut (ieeCtrReadX c x (blocksFor ct.length) a ct) else "E:not-ctr")
    | _ => pure "E:no-region"
  | "iee_tweak" :: ts => do
    let (a, _) ← pNat ts
    pure (hexOut (IeeBlob.tweak a))
  | "bee_enc" :: ts => do
    let (base, ts) ← pNat ts
    let (img, ts) ← pHex ts
    let (hs, _) ← pList pOptEngine ts
    pure (hexRes (Bee.exportImage c hs img base))
  | "bee_block" :: ts => do
    let (e, ts) ← pEngine ts
    let (a, ts) ← pNat ts
    let (d, _) ← pHex ts
    pure (hexRes (e.encryptBlock c a d))
  | "bee_hw" :: ts => do
    let (base, ts) ← pNat ts
    let (ct, ts) ← pHex ts
    let (es, _) ← pList pEngine ts
    pure (hexOut (beeHwReadAll c es base ct))
  | "kb_ctor" :: ts => do
    let (kb, _) ← pKeyBlob ts
    pure (if kb.ctorOk then "ok" else "E:spsdk")
  | "sb21_enc" :: ts => do
    let (s, ts) ← pNat ts
    let (e, ts) ← pNat ts
    let (k, ts) ← pHex ts
    let (ctr, ts) ← pHex ts
    let (swap, ts) ← pBool ts
    let (addr, ts) ← pNat ts
    let (d, _) ← pHex ts
    pure (hexRes (Sb21.encrypt c s e k ctr swap addr d))
  | "sb21_kw" :: ts => do
    let (s, ts) ← pNat ts
    let (e, ts) ← pNat ts
    let (k, ts) ← pHex ts
    let (ctr, ts) ← pHex ts
    let (kek, ts) ← pHex ts
    let (rnd, _) ← pHex ts
    pure (hexRes (Sb21.keywrap c s e k ctr kek rnd))
  | "bee_hdr" :: ts => do
    let (h, _) ← pBeeHdr ts
    pure (hexRes (h.export c))
  | "bee_unhdr" :: ts => do
    let (k, ts) ← pHex ts
    let (hdr, _) ← pHex ts
    pure (match beeHeaderUnwrap c k hdr with
      | none => "ok:none"
      | some e => s!"ok:{toHex e.key}:{toHex e.counter}:" ++ ",".intercalate (e.facs.map (fun f => s!"{f.start}+{f.length}")))
  | "bee_hwhdr" :: ts => do
    let (base, ts) ← pNat ts
    let (ct, ts) ← pHex ts
    let (hs, _) ← pList (fun ts => do
      let (k, ts) ← pHex ts
      let (h, ts) ← pHex ts
      pure ((k, h), ts)) ts
    let es := hs.filterMap (fun (k, h) => beeHeaderUnwrap c k h)
    pure (hexOut (beeHwReadAll c es base ct))
  | _ => none

def step (ts : List String) : String := (run ts).getD "bad-op"

def main : IO Unit := Driver.loop step
