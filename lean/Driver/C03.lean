/-
Native driver for property C03: Spec.rotkh (documented construction, SHA-2 in Lean) and every modelled tool path /
codec.  Tokens are separated by blanks; lists are comma separated ("-" = empty); byte strings are hex ("-" = empty).
Key token:  r:<n>:<e>[:<ca>]   or   e:<bits>:<x>:<y>[:<ca>]      (decimal numbers, ca = 0/1, default 0)
-/
import Driver.Proto
import SpsdkVerif.Crypto.Exec
import SpsdkVerif.Spec.Rotkh
import SpsdkVerif.Model.Rkht
import SpsdkVerif.Model.CertBlock
open SpsdkVerif Driver
open SpsdkVerif.Spec (Key Curve RotType)
open SpsdkVerif.Crypto (execOps)

abbrev B := List UInt8

def parseCurve (s : String) : Option Curve :=
  if s == "256" then some .p256 else if s == "384" then some .p384 else if s == "521" then some .p521 else none

def parseKey (s : String) : Option (Key × Bool) :=
  match s.splitOn ":" with
  | ["r", n, e] => do pure (.rsa (← n.toNat?) (← e.toNat?), false)
  | ["r", n, e, ca] => do pure (.rsa (← n.toNat?) (← e.toNat?), ← parseBool ca)
  | ["e", b, x, y] => do pure (.ecc (← parseCurve b) (← x.toNat?) (← y.toNat?), false)
  | ["e", b, x, y, ca] => do pure (.ecc (← parseCurve b) (← x.toNat?) (← y.toNat?), ← parseBool ca)
  | _ => none

def parseList {α} (f : String → Option α) (s : String) : Option (List α) :=
  if s == "-" then some [] else (s.splitOn ",").mapM f

def parseKeys (s : String) : Option (List (Key × Bool)) := parseList parseKey s
def parseHexList (s : String) : Option (List B) := parseList parseHex s

def hexL (l : List B) : String := if l.isEmpty then "-" else ",".intercalate (l.map fun b => if b.isEmpty then "_" else toHex b)
def hx (b : B) : String := if b.isEmpty then "-" else toHex b

def okHex (r : PyRes B) : String := resLine hx r

def dumpCb1 (cb : CertBlock.CertBlockV1) : String :=
  s!"{cb.major} {cb.minor} {cb.flags} {cb.buildNumber} {cb.imageLength} {cb.alignment} {hexL cb.certs} {hexL cb.rkh}"

def dumpRkr (r : Rkht.RootKeyRecord) : String := s!"{r.flags} {hexL r.rkh} {hx r.rootPublicKey}"

def dumpIsk (i : CertBlock.IskCert) : String :=
  s!"{boolStr i.offsetPresent} {i.constraints} {i.flags} {hx i.pubKey} {hx i.userData} {hx i.signature}"

def dumpCb21 (cb : CertBlock.CertBlockV21) : String :=
  s!"{cb.major} {cb.minor} | {dumpRkr cb.rkr} | " ++ (match cb.isk with | some i => dumpIsk i | none => "none")

def parseIsk : List String → Option (Option CertBlock.IskCert)
  | ["none"] => some none
  | [op, cs, fl, pk, ud, sg] => do
    pure (some { offsetPresent := ← parseBool op, constraints := ← cs.toNat?, flags := ← fl.toNat?,
                 pubKey := ← parseHex pk, userData := ← parseHex ud, signature := ← parseHex sg })
  | _ => none

def rowsLine : String :=
  ";".intercalate (Generated.RotTypes.rotRows.map fun r =>
    s!"{r.family}/{r.revision}/{boolStr r.latest}/{r.rotType}/{r.iskLimit}/{r.iskAlign}")

def step : List String → String
  | ["rotrows"] => rowsLine
  | ["spec", t, ks] => match RotType.ofName? t, parseKeys ks with
    | some t, some ks => "ok:" ++ hx (Spec.rotkhCa execOps t ks) | _, _ => "bad-op"
  | ["keysok", t, ks] => match RotType.ofName? t, parseKeys ks with
    | some t, some ks => boolStr (Spec.keysOK t (ks.map (·.1))) | _, _ => "bad-op"
  | ["keyhash", k] => match parseKey k with
    | some (k, _) => "ok:" ++ hx (Spec.keyHash execOps k) | none => "bad-op"
  | ["path", "rkht1", ks] => match parseKeys ks with
    | some ks => okHex (Rkht.pathRkhtV1 execOps (ks.map (·.1))) | none => "bad-op"
  | ["path", "rkht21", ks] => match parseKeys ks with
    | some ks => okHex (Rkht.pathRkhtV21 execOps (ks.map (·.1))) | none => "bad-op"
  | ["path", "cb1", ks, used] => match parseKeys ks, parseNat used with
    | some ks, some u => okHex (Rkht.pathCertBlockV1 execOps (ks.map (·.1)) u) | _, _ => "bad-op"
  | ["path", "cb21", ks, used, ca] => match parseKeys ks, parseNat used, parseBool ca with
    | some ks, some u, some ca => okHex (Rkht.pathCertBlockV21 execOps (ks.map (·.1)) u ca) | _, _, _ => "bad-op"
  | ["path", "pfr", t, w, ks] => match parseNat w, parseKeys ks with
    | some w, some ks => okHex (Rkht.pathPfr execOps t w (ks.map (·.1))) | _, _ => "bad-op"
  | ["path", "rot", t, ks] => match parseKeys ks with
    | some ks => okHex (Rkht.pathRot execOps t ks) | none => "bad-op"
  | ["path", "datrsa", ks] => match parseKeys ks with
    | some ks => okHex (Rkht.pathDatRsa execOps (ks.map (·.1))) | none => "bad-op"
  | ["path", "datecc", ks, used] => match parseKeys ks, parseNat used with
    | some ks, some u => okHex (Rkht.pathDatEcc execOps (ks.map (·.1)) u) | _, _ => "bad-op"
  | ["path", "ahab", ks] => match parseKeys ks with | some ks => okHex (Rkht.pathAhab execOps ks) | none => "bad-op"
  | ["path", "ahab2", ks] => match parseKeys ks with | some ks => okHex (Rkht.pathAhabV2 execOps ks) | none => "bad-op"
  | ["path", "hab", ks] => match parseKeys ks with | some ks => okHex (Rkht.pathHab execOps ks) | none => "bad-op"
  | ["table", "ahab", ks] => match parseKeys ks with | some ks => "ok:" ++ hx (Spec.ahabTable ks) | none => "bad-op"
  | ["table", "ahab2", ks] => match parseKeys ks with | some ks => "ok:" ++ hx (Spec.ahabTableV2 execOps ks) | none => "bad-op"
  | ["table", "hab", ks] => match parseKeys ks with | some ks => "ok:" ++ hx (Spec.habTable ks) | none => "bad-op"
  | ["table", "v1", ks] => match parseKeys ks with | some ks => "ok:" ++ hx (Spec.rkhTableV1 execOps (ks.map (·.1))) | none => "bad-op"
  | ["table", "v21", ks] => match parseKeys ks with | some ks => "ok:" ++ hx (Spec.ctrkTable execOps (ks.map (·.1))) | none => "bad-op"
  | ["setseq", init, ops] =>
    let parseOp (s : String) : Option (Nat × B) := match s.splitOn ":" with
      | [i, h] => do pure (← i.toNat?, ← parseHex h) | _ => none
    match parseHexList init, parseList parseOp ops with
    | some l, some os => match Rkht.setSeq l os with
      | .ok l' => s!"ok:{hexL l'} {okHex (Rkht.rkthV1 execOps l')}"
      | .error e => resLine (fun (_ : Unit) => "") (.error e)
    | _, _ => "bad-op"
  | ["fuses", h] => match parseHex h with
    | some b => "ok:" ++ ",".intercalate ((Rkht.rkthFuses b).map toString) | none => "bad-op"
  | ["export", k] => match parseKey k with | some (k, _) => okHex (Rkht.exportKey k) | none => "bad-op"
  | ["exportrsa", n, e, el, ml] => match parseNat n, parseNat e, parseNat el, parseNat ml with
    | some n, some e, some el, some ml =>
      okHex (Rkht.exportRsa n e (if el == 999 then none else some el) (if ml == 999 then none else some ml))
    | _, _, _, _ => "bad-op"
  -- certificate block v1
  | ["cb1_export", sem, mj, mn, fl, bn, il, al, certs, rkh] =>
    match parseBool sem, parseNat mj, parseNat mn, parseNat fl, parseNat bn, parseNat il, parseNat al, parseHexList certs, parseHexList rkh with
    | some sem, some mj, some mn, some fl, some bn, some il, some al, some certs, some rkh =>
      okHex (CertBlock.exportV1Block sem { major := mj, minor := mn, flags := fl, buildNumber := bn, imageLength := il,
                                           certs := certs, rkh := rkh, alignment := al })
    | _, _, _, _, _, _, _, _, _ => "bad-op"
  | ["cb1_parse", h] => match parseHex h with
    | some b => resLine dumpCb1 (CertBlock.parseV1Block (fun _ => true) b) | none => "bad-op"
  -- certificate block v2.1
  | ["rkr_calc", ca, used, ks] => match parseBool ca, parseNat used, parseKeys ks with
    | some ca, some u, some ks => resLine dumpRkr (Rkht.rkrCalculate execOps ca (ks.map (·.1)) u) | _, _, _ => "bad-op"
  | ["rkr_export", fl, rkh, pk] => match parseNat fl, parseHexList rkh, parseHex pk with
    | some fl, some rkh, some pk => okHex (CertBlock.rkrExport { flags := fl, rkh := rkh, rootPublicKey := pk }) | _, _, _ => "bad-op"
  | ["rkr_parse", h] => match parseHex h with
    | some b => resLine (fun p => dumpRkr p.1 ++ s!" {p.2}") (CertBlock.rkrParse execOps b) | none => "bad-op"
  | ["rkr_fields", fl] => match parseNat fl with
    | some fl => s!"ok:{boolStr (CertBlock.rkrCa fl)} {CertBlock.rkrUsed fl} {CertBlock.rkrCount fl} {CertBlock.rkrCurve fl}" | none => "bad-op"
  | "isk_tbs" :: krd :: isk => match parseHex krd, parseIsk isk with
    | some krd, some (some i) => okHex (CertBlock.iskDataToSign krd i) | _, _ => "bad-op"
  | "isk_export" :: isk => match parseIsk isk with
    | some (some i) => okHex (CertBlock.iskExport i) | _ => "bad-op"
  | ["isk_parse", h, sz] => match parseHex h, parseNat sz with
    | some b, some sz => resLine dumpIsk (CertBlock.iskParse (fun _ => true) b sz) | _, _ => "bad-op"
  | ["isk_flags", ud, pl] => match parseHex ud, parseNat pl with
    | some ud, some pl => s!"ok:{CertBlock.iskCalcFlags ud pl}" | _, _ => "bad-op"
  | "cb21_export" :: mj :: mn :: fl :: rkh :: pk :: isk =>
    match parseNat mj, parseNat mn, parseNat fl, parseHexList rkh, parseHex pk, parseIsk isk with
    | some mj, some mn, some fl, some rkh, some pk, some isk =>
      okHex (CertBlock.exportV21Block { major := mj, minor := mn, rkr := { flags := fl, rkh := rkh, rootPublicKey := pk }, isk := isk })
    | _, _, _, _, _, _ => "bad-op"
  | ["cb21_parse_obs", h] => match parseHex h with   -- observables of the parsed block: re-exported record, rkth, ISK certificate
    | some b => resLine (fun cb => s!"{cb.major} {cb.minor} | {okHex (CertBlock.rkrExport cb.rkr)} {okHex (Rkht.rkthV21 execOps cb.rkr.rkh)} | " ++
        (match cb.isk with | some i => dumpIsk i | none => "none")) (CertBlock.parseV21Block execOps (fun _ => true) b)
    | none => "bad-op"
  | ["cb21_parse", h] => match parseHex h with
    | some b => resLine dumpCb21 (CertBlock.parseV21Block execOps (fun _ => true) b) | none => "bad-op"
  -- ISK certificate lite / certificate block Vx
  | ["lite_tbs", cs, pk] => match parseNat cs, parseHex pk with
    | some cs, some pk => okHex (CertBlock.liteTbs { constraints := cs, pubKey := pk, signature := [] }) | _, _ => "bad-op"
  | ["lite_export", cs, pk, sg] => match parseNat cs, parseHex pk, parseHex sg with
    | some cs, some pk, some sg => okHex (CertBlock.liteExport { constraints := cs, pubKey := pk, signature := sg }) | _, _, _ => "bad-op"
  | ["vx_parse", h] => match parseHex h with
    | some b => resLine (fun i => s!"{i.constraints} {hx i.pubKey} {hx i.signature}") (CertBlock.vxParse (fun _ => true) b) | none => "bad-op"
  | ["vx_hash", cs, pk, sg] => match parseNat cs, parseHex pk, parseHex sg with
    | some cs, some pk, some sg =>
      resLine (fun h => hx h ++ " " ++ hexL (CertBlock.vxFuseWords h))
        (CertBlock.vxCertHash execOps { constraints := cs, pubKey := pk, signature := sg }) | _, _, _ => "bad-op"
  | ["lite_parse", h] => match parseHex h with
    | some b => resLine (fun i => s!"{i.constraints} {hx i.pubKey} {hx i.signature}") (CertBlock.liteParse (fun _ => true) b) | none => "bad-op"
  -- HAB SrkItemEcc (generated field description)
  | ["habecc_export", ks, x, y, fl] => match parseNat ks, parseNat x, parseNat y, parseNat fl with
    | some ks, some x, some y, some fl => okHex (Rkht.habEccExport { keySize := ks, x := x, y := y, flag := fl }) | _, _, _, _ => "bad-op"
  | ["habecc_parse", h] => match parseHex h with
    | some b => resLine (fun (i : Rkht.HabEccItem) => s!"{i.keySize} {i.x} {i.y} {i.flag}") (Rkht.habEccParse b) | none => "bad-op"
  | _ => "bad-op"

def main : IO Unit := Driver.loop step
