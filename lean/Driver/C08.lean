import Driver.Proto
import SpsdkVerif.Model.Keys
import SpsdkVerif.Model.KeysGlue
open SpsdkVerif Driver
open SpsdkVerif.Keys SpsdkVerif.Misc

def encStr : Enc → String
  | .nxp => "nxp" | .pem => "pem" | .der => "der"

def parseEnc (s : String) : Option Enc :=
  if s == "nxp" then some .nxp else if s == "pem" then some .pem else if s == "der" then some .der else none

def parseCurveOpt (s : String) : Option (Option Curve) :=
  if s == "none" then some none else (Curve.ofName s).map some

def hexOrDash (b : Bytes) : String := if b.isEmpty then "-" else toHex b

def pubStr : PubKey → String
  | .ecc c x y => s!"ecc:{c.name}:{x}:{y}"
  | .rsa n e => s!"rsa:{n}:{e}"

/-- `none` | `ecc:<curve>:<x>:<y>` | `rsa:<n>:<e>` -/
def parsePubOpt (s : String) : Option (Option PubKey) :=
  if s == "none" then some none else
  match s.splitOn ":" with
  | ["ecc", c, x, y] => match Curve.ofName c, x.toNat?, y.toNat? with
    | some c, some x, some y => some (some (.ecc c x y)) | _, _, _ => none
  | ["rsa", n, e] => match n.toNat?, e.toNat? with
    | some n, some e => some (some (.rsa n e)) | _, _ => none
  | _ => none

def parseExt (der pem onc rsaok otps : String) : Option Ext :=
  match parsePubOpt der, parsePubOpt pem, parseBool onc, parseBool rsaok, parsePubOpt otps with
  | some d, some p, some o, some r, some t => some ⟨d, p, fun _ _ _ => o, fun _ _ => r, t⟩
  | _, _, _, _, _ => none

def parseTry (s : String) : Option (Try String) :=
  if s == "spsdk" then some .spsdk else if s == "other" then some .other
  else if s.startsWith "ok:" then some (.ok (s.drop 3).toString) else none

def parsePVal (s : String) : Option PVal :=
  if s.startsWith "s:" then some (.str (s.drop 2).toString)
  else if s == "b:1" then some (.bool true) else if s == "b:0" then some (.bool false) else none

/-- `key=s:value` / `key=b:1` -/
def parseParam (s : String) : Option (String × PVal) :=
  match s.splitOn "=" with
  | k :: rest => (parsePVal ("=".intercalate rest)).map (fun v => (k, v))
  | _ => none

def pvalStr : PVal → String
  | .str s => "s:" ++ s
  | .bool b => if b then "b:1" else "b:0"

def rawKeyStr : RawKey → String
  | .priv c d => s!"priv:{c.name}:{d}"
  | .pub c x y => s!"pub:{c.name}:{x}:{y}"

def parseSyn (s : String) : Option SynRes :=
  if s == "ok" then some .ok else if s == "extra" then some .extra else if s == "fail" then some .bad else none

def stepGlue : List String → Option String
  | "first_accept" :: ts =>
    match ts.mapM parseTry with
    | some l => some (resLine id (firstAccept l)) | none => some "bad-op"
  | ["matching_key", bits] =>
    some (resLine toString (matchingKeyId (if bits == "-" then [] else bits.toList.map (· == '1'))))
  | ["cert_parse", h, plen, cls, pemOk] =>
    -- the loader's CONTENT answers as the harness obtained them directly: `cls` = verdict of `cryptography` on the first `plen` bytes
    -- (ok / extra = ExtraData raised inside / fail); which prefix is the element, too short / trailing data and what is stripped are
    -- decided by the model (`derTotalLen`, `derLoad`, `certLoadDer`)
    match parseHex h, parseNat plen, parseSyn cls, parseBool pemOk with
    | some b, some L, some sc, some po =>
      let syn : Bytes → SynRes := fun d => if d.length = L then sc else .bad
      some (resLine id (certParse (fun _ => if po then some "cert" else none) (derLoad syn (fun _ => some "cert")) b))
    | _, _, _, _ => some "bad-op"
  | ["der_load", h, plen, cls] =>
    match parseHex h, parseNat plen, parseSyn cls with
    | some b, some L, some sc =>
      let syn : Bytes → SynRes := fun d => if d.length = L then sc else .bad
      some (match derLoad syn (fun _ => some "cert") b with
        | .ok _ => "ok:cert" | .extraData => "extra" | .fail => "fail")
    | _, _, _ => some "bad-op"
  | ["der_total_len", h] =>
    match parseHex h with
    | some b => some (match derTotalLen b with | some n => s!"ok:{n}" | none => "none")
    | none => some "bad-op"
  | ["cert_export_nxp", h] =>
    match parseHex h with
    | some b => some s!"ok:{toHex (certExportNxp b)},{certRawSize b}" | none => some "bad-op"
  | ["validate_chain", n, bits] =>
    match parseNat n with
    | some n =>
      let m := bits.toList.map (· == '1')
      some (resLine (fun r => String.ofList (r.map (fun b => if b then '1' else '0')))
        (validateChain (fun i j => m.getD (i * n + j) false) (List.range n)))
    | none => some "bad-op"
  | ["cert_call", alg] =>
    let a : Option CertAlg := if alg == "rsa_v15" then some .rsaV15 else if alg == "rsa_pss" then some .rsaPss
      else if alg == "ecdsa" then some .ecdsa else none
    match a with
    | some a => some s!"ok:{boolStr (certValidateCall a "h").pss}" | none => some "bad-op"
  | "sp_create" :: ps =>
    match ps.mapM parseParam with
    | some l =>
      let kw := plainFileSignKwargs l
      some ("ok:" ++ ",".intercalate (kw.map (fun p => p.1 ++ "=" ++ pvalStr p.2)) ++ ";" ++ boolStr (createdUsesPss l))
    | none => some "bad-op"
  | "sp_local" :: ps =>
    match ps.mapM parseParam with
    | some l => some ("ok:" ++ boolStr (localFileUsesPss l)) | none => some "bad-op"
  | ["sig_len", "rsa", ks] => match parseNat ks with | some ks => some s!"ok:{rsaSigLen ks}" | none => some "bad-op"
  | ["sig_len", "ecc", c] => match Curve.ofName c with | some c => some s!"ok:{eccSigLen c}" | none => some "bad-op"
  | ["key_len_curve", n] =>
    match parseNat n with
    | some n => some (match Generated.KeysTables.keyLenCurve n with | some c => "ok:" ++ c | none => "E:spsdk")
    | none => some "bad-op"
  | ["hash_from_sig_size", n] =>
    match parseNat n with
    | some n => some (match Generated.KeysTables.hashFromSigSize.lookup n with | some h => "ok:" ++ h | none => "E:spsdk")
    | none => some "bad-op"
  | ["reconstruct_key", t1, t2, h, pk, oc] =>
    match parseTry t1, parseTry t2, parseHex h, parseBool pk, parseBool oc with
    | some t1, some t2, some b, some pk, some oc =>
      let raw : PyRes String := match reconstructRaw (fun _ _ => pk) (fun _ _ _ => oc) b with
        | .ok k => .ok (rawKeyStr k) | .error e => .error e
      some (resLine id (reconstructKey t1 t2 raw))
    | _, _, _, _, _ => some "bad-op"
  | ["reconstruct_raw", h, pk, oc] =>
    match parseHex h, parseBool pk, parseBool oc with
    | some b, some pk, some oc => some (resLine rawKeyStr (reconstructRaw (fun _ _ => pk) (fun _ _ _ => oc) b))
    | _, _, _ => some "bad-op"
  | _ => none

def step : List String → String
  | ["derenc", r, s] => match parseNat r, parseNat s with
    | some r, some s => "ok:" ++ toHex (derEncode r s) | _, _ => "bad-op"
  | ["derdec", h] => match parseHex h with
    | some b => (match derDecode b with | some (r, s) => s!"ok:{r},{s}" | none => "E:other")
    | none => "bad-op"
  | ["sig_sniff", h] => match parseHex h with
    | some b => resLine encStr (sigSniff b) | none => "bad-op"
  | ["sig_curve", n] => match parseNat n with
    | some n => resLine Curve.name (sigCurve n) | none => "bad-op"
  | ["sig_parse", h] => match parseHex h with
    | some b => resLine (fun x => s!"{x.r},{x.s},{x.curve.name}") (sigParse b) | none => "bad-op"
  | ["sig_export", r, s, c, e] => match parseNat r, parseNat s, Curve.ofName c, parseEnc e with
    | some r, some s, some c, some e => resLine toHex (sigExport ⟨r, s, c⟩ e) | _, _, _, _ => "bad-op"
  | ["serialize", h, cl] => match parseHex h, parseNat cl with
    | some b, some cl => resLine toHex (serializeSignature b cl) | _, _ => "bad-op"
  | ["verify_cands", c, h] => match Curve.ofName c, parseHex h with
    | some c, some b => "ok:" ++ ",".intercalate ((verifyCandidates c b).map hexOrDash) | _, _ => "bad-op"
  | ["get_signature", h, e] => match parseHex h with
    | some b =>
      if e == "none" then resLine toHex (getSignature b none)
      else (match parseEnc e with | some e => resLine toHex (getSignature b (some e)) | none => "bad-op")
    | none => "bad-op"
  | ["rsa_export", n, e, el, ml] => match parseNat n, parseNat e, parseNat el, parseNat ml with
    | some n, some e, some el, some ml => resLine toHex (rsaExportNxp n e el ml) | _, _, _, _ => "bad-op"
  | ["rsa_numbers", h] => match parseHex h with
    | some b => resLine (fun p => s!"{p.1},{p.2}") (rsaRecreateNumbers b) | none => "bad-op"
  | ["ecc_export", c, x, y] => match Curve.ofName c, parseNat x, parseNat y with
    | some c, some x, some y => resLine toHex (eccExportNxp c x y) | _, _, _ => "bad-op"
  | ["ecc_get_curve", n, c] => match parseNat n, parseCurveOpt c with
    | some n, some c => resLine (fun p => s!"{p.1.name},{boolStr p.2}") (eccGetCurve n c) | _, _ => "bad-op"
  | ["file_enc", h] => match parseHex h with
    | some b => "ok:" ++ encStr (fileEncoding b) | none => "bad-op"
  | ["utf8", h] => match parseHex h with
    | some b => "ok:" ++ boolStr (utf8Valid b) | none => "bad-op"
  | ["ecc_recreate", h, c, der, pem, onc, rsaok, otps] => match parseHex h, parseCurveOpt c, parseExt der pem onc rsaok otps with
    | some b, some c, some ext => resLine pubStr (eccRecreateFromData ext b c) | _, _, _ => "bad-op"
  | ["pub_parse", which, h, der, pem, onc, rsaok, otps] => match parseHex h, parseExt der pem onc rsaok otps with
    | some b, some ext =>
      if which == "any" then resLine pubStr (pubParse ext b)
      else if which == "rsa" then resLine pubStr (pubParseRsa ext b)
      else if which == "ecc" then resLine pubStr (pubParseEcc ext b)
      else if which == "rsa_data" then resLine pubStr (rsaRecreateFromData ext b)
      else "bad-op"
    | _, _ => "bad-op"
  | _ => "bad-op"

def main : IO Unit := Driver.loop (fun ts => match stepGlue ts with | some r => r | none => step ts)
