import Driver.Proto
import SpsdkVerif.Model.Keys
open SpsdkVerif Driver
open SpsdkVerif.Keys SpsdkVerif.Misc

def encStr : Enc → String
  | .nxp => "nxp" | .pem => "pem" | .der => "der"

def parseEnc (s : String) : Option Enc :=
  if s == "nxp" then some .nxp else if s == "pem" then some .pem else if s == "der" then some .der else none

def parseCurveOpt (s : String) : Option (Option Curve) :=
  if s == "none" then some none else (Curve.ofName s).map some

def hexOrDash (b : Bytes) : String := if b.isEmpty then "-" else toHex b

def pubStr : PubKey → String
  | .ecc c x y => s!"ecc:{c.name}:{x}:{y}"
  | .rsa n e => s!"rsa:{n}:{e}"

/-- `none` | `ecc:<curve>:<x>:<y>` | `rsa:<n>:<e>` -/
def parsePubOpt (s : String) : Option (Option PubKey) :=
  if s == "none" then some none else
  match s.splitOn ":" with
  | ["ecc", c, x, y] => match Curve.ofName c, x.toNat?, y.toNat? with
    | some c, some x, some y => some (some (.ecc c x y)) | _, _, _ => none
  | ["rsa", n, e] => match n.toNat?, e.toNat? with
    | some n, some e => some (some (.rsa n e)) | _, _ => none
  | _ => none

def parseExt (der pem onc rsaok otps : String) : Option Ext :=
  match parsePubOpt der, parsePubOpt pem, parseBool onc, parseBool rsaok, parsePubOpt otps with
  | some d, some p, some o, some r, some t => some ⟨d, p, fun _ _ _ => o, fun _ _ => r, t⟩
  | _, _, _, _, _ => none

def step : List String → String
  | ["derenc", r, s] => match parseNat r, parseNat s with
    | some r, some s => "ok:" ++ toHex (derEncode r s) | _, _ => "bad-op"
  | ["derdec", h] => match parseHex h with
    | some b => (match derDecode b with | some (r, s) => s!"ok:{r},{s}" | none => "E:other")
    | none => "bad-op"
  | ["sig_sniff", h] => match parseHex h with
    | some b => resLine encStr (sigSniff b) | none => "bad-op"
  | ["sig_curve", n] => match parseNat n with
    | some n => resLine Curve.name (sigCurve n) | none => "bad-op"
  | ["sig_parse", h] => match parseHex h with
    | some b => resLine (fun x => s!"{x.r},{x.s},{x.curve.name}") (sigParse b) | none => "bad-op"
  | ["sig_export", r, s, c, e] => match parseNat r, parseNat s, Curve.ofName c, parseEnc e with
    | some r, some s, some c, some e => resLine toHex (sigExport ⟨r, s, c⟩ e) | _, _, _, _ => "bad-op"
  | ["serialize", h, cl] => match parseHex h, parseNat cl with
    | some b, some cl => resLine toHex (serializeSignature b cl) | _, _ => "bad-op"
  | ["verify_cands", c, h] => match Curve.ofName c, parseHex h with
    | some c, some b => "ok:" ++ ",".intercalate ((verifyCandidates c b).map hexOrDash) | _, _ => "bad-op"
  | ["get_signature", h, e] => match parseHex h with
    | some b =>
      if e == "none" then resLine toHex (getSignature b none)
      else (match parseEnc e with | some e => resLine toHex (getSignature b (some e)) | none => "bad-op")
    | none => "bad-op"
  | ["rsa_export", n, e, el, ml] => match parseNat n, parseNat e, parseNat el, parseNat ml with
    | some n, some e, some el, some ml => resLine toHex (rsaExportNxp n e el ml) | _, _, _, _ => "bad-op"
  | ["rsa_numbers", h] => match parseHex h with
    | some b => resLine (fun p => s!"{p.1},{p.2}") (rsaRecreateNumbers b) | none => "bad-op"
  | ["ecc_export", c, x, y] => match Curve.ofName c, parseNat x, parseNat y with
    | some c, some x, some y => resLine toHex (eccExportNxp c x y) | _, _, _ => "bad-op"
  | ["ecc_get_curve", n, c] => match parseNat n, parseCurveOpt c with
    | some n, some c => resLine (fun p => s!"{p.1.name},{boolStr p.2}") (eccGetCurve n c) | _, _ => "bad-op"
  | ["file_enc", h] => match parseHex h with
    | some b => "ok:" ++ encStr (fileEncoding b) | none => "bad-op"
  | ["utf8", h] => match parseHex h with
    | some b => "ok:" ++ boolStr (utf8Valid b) | none => "bad-op"
  | ["ecc_recreate", h, c, der, pem, onc, rsaok, otps] => match parseHex h, parseCurveOpt c, parseExt der pem onc rsaok otps with
    | some b, some c, some ext => resLine pubStr (eccRecreateFromData ext b c) | _, _, _ => "bad-op"
  | ["pub_parse", which, h, der, pem, onc, rsaok, otps] => match parseHex h, parseExt der pem onc rsaok otps with
    | some b, some ext =>
      if which == "any" then resLine pubStr (pubParse ext b)
      else if which == "rsa" then resLine pubStr (pubParseRsa ext b)
      else if which == "ecc" then resLine pubStr (pubParseEcc ext b)
      else if which == "rsa_data" then resLine pubStr (rsaRecreateFromData ext b)
      else "bad-op"
    | _, _ => "bad-op"
  | _ => "bad-op"

def main : IO Unit := Driver.loop step
