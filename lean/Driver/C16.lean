import Driver.Proto
import SpsdkVerif.Model.BinImage
import SpsdkVerif.Model.HexFmt
open SpsdkVerif Driver
open SpsdkVerif.BinImg SpsdkVerif.Misc

def parsePat (s : String) : Option (Option Pattern) :=
  if s == "N" then some none
  else if s == "zeros" then some (some .zeros)
  else if s == "ones" then some (some .ones)
  else if s == "inc" then some (some .inc)
  else if s.startsWith "num:" then (s.drop 4).toString.toNat?.map (fun v => some (.num v))
  else none

def parseBin (s : String) : Option (Option (List UInt8)) :=
  if s == "N" then some none else (parseHex s).map some

/-- tokens: "(" size off al bin pat child* ")" ; fuel-bounded recursive descent -/
def parseImg : Nat → List String → Option (Img × List String)
  | 0, _ => none
  | fuel + 1, "(" :: sz :: off :: al :: bin :: pat :: rest =>
    match parseNat sz, parseNat off, parseNat al, parseBin bin, parsePat pat with
    | some sz, some off, some al, some bin, some pat =>
      let rec kids (f : Nat) (toks : List String) (acc : List Img) : Option (List Img × List String) :=
        match f, toks with
        | 0, _ => none
        | _, ")" :: r => some (acc.reverse, r)
        | f + 1, toks => match parseImg fuel toks with
          | some (c, r) => kids f r (c :: acc)
          | none => none
      (match kids (rest.length + 1) rest [] with
       | some (ch, r) => some (Img.mk sz off al bin pat ch, r)
       | none => none)
    | _, _, _, _, _ => none
  | _, _ => none

def vres : Except VErr Unit → String
  | .ok () => "ok"
  | .error .sticksOut => "E:overlap"
  | .error .overlap => "E:overlap"

def parseSeg (s : String) : Option HexFmt.Seg :=
  match s.splitOn ":" with
  | [a, d] => match parseNat a, parseHex d with
    | some a, some d => some ⟨a, d⟩
    | _, _ => none
  | _ => none

def parseExec (s : String) : Option (Option Nat) :=
  if s == "N" then some none else (parseNat s).map some

def herr : HexFmt.HErr → String
  | .fmt => "E:fmt"
  | .value => "E:value"

def hexEnc (f : Option Nat → List HexFmt.Seg → Except HexFmt.HErr HexFmt.Bytes) (e : String) (toks : List String) : String :=
  match parseExec e, toks.mapM parseSeg with
  | some e, some segs => (match f e segs with | .ok t => "ok:" ++ toHex t | .error x => herr x)
  | _, _ => "bad-op"

def hexDec (f : HexFmt.Bytes → Except HexFmt.HErr HexFmt.Image) (t : String) : String :=
  match parseHex t with
  | none => "bad-op"
  | some text =>
    match f text with
    | .error x => herr x
    | .ok img =>
      let e := match img.exec with | some e => toString e | none => "N"
      "ok:" ++ " ".intercalate (e :: img.segs.map (fun s => s!"{s.addr}:{if s.data.isEmpty then "-" else toHex s.data}"))

def step : List String → String
  | "len" :: toks => match parseImg 64 toks with | some (i, []) => s!"ok:{i.len}" | _ => "bad-op"
  | "export" :: toks => match parseImg 64 toks with | some (i, []) => resLine toHex i.export | _ => "bad-op"
  | "validate" :: toks => match parseImg 64 toks with | some (i, []) => vres i.validate | _ => "bad-op"
  | "order" :: toks =>   -- offsets in insertion order -> resulting child order (indices)
    let offs := toks.filterMap (·.toNat?)
    let imgs := offs.mapIdx (fun i o => Img.mk i o 1 none none [])   -- size field abused as identity tag
    let p := imgs.foldl (fun p c => p.addImage c) (Img.mk 0 0 1 none none [])
    "ok:" ++ ",".intercalate (p.children.map (fun c => toString c.size))
  -- HEX / SREC text model (Model/HexFmt.lean): <exec|N> <addr>:<hex> …  ->  ok:<hex of the text>
  | "ihex_enc" :: e :: toks => hexEnc HexFmt.ihexEncode e toks
  | "srec_enc" :: e :: toks => hexEnc HexFmt.srecEncode e toks
  -- <hex of the text>  ->  ok:<exec|N> <addr>:<hex> …
  | ["ihex_dec", t] => hexDec HexFmt.ihexDecode t
  | ["srec_dec", t] => hexDec HexFmt.srecDecode t
  | ["load_text", t] => hexDec HexFmt.loadText t
  | _ => "bad-op"

def main : IO Unit := Driver.loop step
