import Driver.Proto
import SpsdkVerif.Model.BinImage
import SpsdkVerif.Model.HexFmt
import SpsdkVerif.Model.HexFmtOw
import SpsdkVerif.Model.BinImageOps
open SpsdkVerif Driver
open SpsdkVerif.BinImg SpsdkVerif.Misc

def parsePat (s : String) : Option (Option Pattern) :=
  if s == "N" then some none
  else if s == "zeros" then some (some .zeros)
  else if s == "ones" then some (some .ones)
  else if s == "inc" then some (some .inc)
  else if s.startsWith "num:" then (s.drop 4).toString.toNat?.map (fun v => some (.num v))
  else none

def parseBin (s : String) : Option (Option (List UInt8)) :=
  if s == "N" then some none else (parseHex s).map some

/-- tokens: "(" size off al bin pat child* ")" ; fuel-bounded recursive descent -/
def parseImg : Nat → List String → Option (Img × List String)
  | 0, _ => none
  | fuel + 1, "(" :: sz :: off :: al :: bin :: pat :: rest =>
    match parseNat sz, parseNat off, parseNat al, parseBin bin, parsePat pat with
    | some sz, some off, some al, some bin, some pat =>
      let rec kids (f : Nat) (toks : List String) (acc : List Img) : Option (List Img × List String) :=
        match f, toks with
        | 0, _ => none
        | _, ")" :: r => some (acc.reverse, r)
        | f + 1, toks => match parseImg fuel toks with
          | some (c, r) => kids f r (c :: acc)
          | none => none
      (match kids (rest.length + 1) rest [] with
       | some (ch, r) => some (Img.mk sz off al bin pat ch, r)
       | none => none)
    | _, _, _, _, _ => none
  | _, _ => none

def vres : Except VErr Unit → String
  | .ok () => "ok"
  | .error .sticksOut => "E:overlap"
  | .error .overlap => "E:overlap"

def parseSeg (s : String) : Option HexFmt.Seg :=
  match s.splitOn ":" with
  | [a, d] => match parseNat a, parseHex d with
    | some a, some d => some ⟨a, d⟩
    | _, _ => none
  | _ => none

def parseExec (s : String) : Option (Option Nat) :=
  if s == "N" then some none else (parseNat s).map some

def herr : HexFmt.HErr → String
  | .fmt => "E:fmt"
  | .value => "E:value"

def hexEnc (f : Option Nat → List HexFmt.Seg → Except HexFmt.HErr HexFmt.Bytes) (e : String) (toks : List String) : String :=
  match parseExec e, toks.mapM parseSeg with
  | some e, some segs => (match f e segs with | .ok t => "ok:" ++ toHex t | .error x => herr x)
  | _, _ => "bad-op"

def hexDec (f : HexFmt.Bytes → Except HexFmt.HErr HexFmt.Image) (t : String) : String :=
  match parseHex t with
  | none => "bad-op"
  | some text =>
    match f text with
    | .error x => herr x
    | .ok img =>
      let e := match img.exec with | some e => toString e | none => "N"
      "ok:" ++ " ".intercalate (e :: img.segs.map (fun s => s!"{s.addr}:{if s.data.isEmpty then "-" else toHex s.data}"))

def segsLine (l : List HexFmt.Seg) : String :=
  "ok:" ++ " ".intercalate (l.map (fun s => s!"{s.addr}:{if s.data.isEmpty then "-" else toHex s.data}"))

/-- HEX / S19 text of a whole tree through the overwrite path (Model/HexFmtOw.lean) -/
def saveText (f : Option Nat → Img → Except HexFmt.HErr HexFmt.Bytes) (e : String) (toks : List String) : String :=
  match parseExec e, parseImg 64 toks with
  | some e, some (i, []) => (match f e i with | .ok t => "ok:" ++ toHex t | .error x => herr x)
  | _, _ => "bad-op"

def step : List String → String
  | "len" :: toks => match parseImg 64 toks with | some (i, []) => s!"ok:{i.len}" | _ => "bad-op"
  | "export" :: toks => match parseImg 64 toks with | some (i, []) => resLine toHex i.export | _ => "bad-op"
  | "validate" :: toks => match parseImg 64 toks with | some (i, []) => vres i.validate | _ => "bad-op"
  | "order" :: toks =>   -- offsets in insertion order -> resulting child order (indices)
    let offs := toks.filterMap (·.toNat?)
    let imgs := offs.mapIdx (fun i o => Img.mk i o 1 none none [])   -- size field abused as identity tag
    let p := imgs.foldl (fun p c => p.addImage c) (Img.mk 0 0 1 none none [])
    "ok:" ++ ",".intercalate (p.children.map (fun c => toString c.size))
  -- HEX / SREC text model (Model/HexFmt.lean): <exec|N> <addr>:<hex> …  ->  ok:<hex of the text>
  | "ihex_enc" :: e :: toks => hexEnc HexFmt.ihexEncode e toks
  | "srec_enc" :: e :: toks => hexEnc HexFmt.srecEncode e toks
  -- <hex of the text>  ->  ok:<exec|N> <addr>:<hex> …
  | ["ihex_dec", t] => hexDec HexFmt.ihexDecode t
  | ["srec_dec", t] => hexDec HexFmt.srecDecode t
  | ["load_text", t] => hexDec HexFmt.loadText t
  -- overwrite path: <addr>:<hex> … (add_binary(.., overwrite=True) in this order)  ->  ok:<addr>:<hex> … (the BinFile's segments)
  | "ow_segs" :: toks =>
    (match toks.mapM parseSeg with
     | some ws => (match HexFmt.addAllOw ⟨[], 0⟩ ws with | .ok st => segsLine st.list | .error x => herr x)
     | none => "bad-op")
  -- whole trees: <tree>  ->  the BinFile's segments ;  <exec|N> <tree>  ->  ok:<hex of the text>
  | "save_segs" :: toks =>
    (match parseImg 64 toks with
     | some (i, []) => (match i.saveSegs with | .ok l => segsLine l | .error x => herr x)
     | _ => "bad-op")
  -- remaining tree operations (Model/BinImageOps.lean)
  | "join" :: toks =>     -- join_images(): ok:<len> <number of sub-images> <hex of export()>
    (match parseImg 64 toks with
     | some (i, []) => resLine (fun (j : Img) => s!"{j.len} {j.children.length} " ++ (match j.export with | .ok b => (if b.isEmpty then "-" else toHex b) | .error e => e.tag)) i.joinImages
     | _ => "bad-op")
  | "getaddr" :: a :: toks =>   -- get_image_by_absolute_address(a): ok:<path of child indices|-> <absolute address of the image found> <its length>
    (match parseNat a, parseImg 64 toks with
     | some a, some (i, []) =>
       resLine (fun (r : List Nat × Nat × Img) =>
         (if r.1.isEmpty then "-" else ",".intercalate (r.1.map toString)) ++ s!" {i.offset + r.2.1} {r.2.2.len}") (i.getByAddr a)
     | _, _ => "bad-op")
  | "updoff" :: toks =>   -- update_offsets(): ok:<own offset> <child offsets> <len>
    (match parseImg 64 toks with
     | some (i, []) => resLine (fun (j : Img) => s!"{j.offset} " ++ ",".intercalate (j.children.map (fun c => toString c.offset)) ++ s!" {j.len}") i.updateOffsets
     | _ => "bad-op")
  -- `node.size = n` for the node at <path|-> : ok:<len of the root> <len of the node> <validate> <export>
  | "setsize" :: pth :: n :: toks =>
    (match (if pth == "-" then some [] else (pth.splitOn ",").mapM (·.toNat?)), parseNat n, parseImg 64 toks with
     | some path, some n, some (i, []) =>
       let j := mapAt path (fun x => x.setSize n) i
       let nl := match atPath path j with | some d => toString d.len | none => "?"
       s!"ok:{j.len} {nl} {vres j.validate} " ++ (match j.export with | .ok b => (if b.isEmpty then "-" else toHex b) | .error e => e.tag)
     | _, _, _ => "bad-op")
  | "save_ihex" :: e :: toks => saveText Img.saveIhex e toks
  | "save_srec" :: e :: toks => saveText Img.saveSrec e toks
  | _ => "bad-op"

def main : IO Unit := Driver.loop step
