import Driver.Proto
import SpsdkVerif.Crypto.Exec
import SpsdkVerif.Model.Sb2
import SpsdkVerif.Model.Sb2Spec
import SpsdkVerif.Model.Sb2Parse
open SpsdkVerif Driver
open SpsdkVerif.Sb2
open SpsdkVerif.Misc (Bytes)

/-! C04 driver.  Request grammar (space separated; integers decimal, byte strings hex, `-` = empty):
  cmd    := N | T f a c d | L a m f <data> | F a p l | J a arg (sp|-) | C a arg | E a l f m | R | M a s m
          | P a m w1 w2 f | V t v | KT a cid | KF a cid
  section:= uid hmacCount ncmds cmd*
  cfg    := kek dek mac nonce padding timestamp pv0 pv1 pv2 cv0 cv1 cv2 build flags <cert> <sig> nsections section*
-/

def c := SpsdkVerif.Crypto.execOps

abbrev P := StateT (List String) Option

def tok : P String := do
  let s ← get
  match s with
  | [] => failure
  | t :: r => set r; pure t
def pNat : P Nat := do let t ← tok; match parseNat t with | some n => pure n | none => failure
def pHex : P Bytes := do let t ← tok; match parseHex t with | some b => pure b | none => failure
def pOptNat : P (Option Nat) := do
  let t ← tok
  if t == "-" then pure none else match parseNat t with | some n => pure (some n) | none => failure

def pCmd : P Cmd := do
  let k ← tok
  match k with
  | "N" => pure .nop
  | "T" => do let f ← pNat; let a ← pNat; let cn ← pNat; let d ← pNat; pure (.tag f a cn d)
  | "L" => do let a ← pNat; let m ← pNat; let f ← pNat; let d ← pHex; pure (.load a d m f)
  | "F" => do let a ← pNat; let p ← pNat; let l ← pNat; pure (.fill a p l)
  | "J" => do let a ← pNat; let g ← pNat; let sp ← pOptNat; pure (.jump a g sp)
  | "C" => do let a ← pNat; let g ← pNat; pure (.call a g)
  | "E" => do let a ← pNat; let l ← pNat; let f ← pNat; let m ← pNat; pure (.erase a l f m)
  | "R" => pure .reset
  | "M" => do let a ← pNat; let s ← pNat; let m ← pNat; pure (.memEnable a s m)
  | "P" => do let a ← pNat; let m ← pNat; let w1 ← pNat; let w2 ← pNat; let f ← pNat; pure (.prog a m w1 w2 f)
  | "V" => do let t ← pNat; let v ← pNat; pure (.versionCheck t v)
  | "KT" => do let a ← pNat; let i ← pNat; pure (.keystoreToNv a i)
  | "KF" => do let a ← pNat; let i ← pNat; pure (.keystoreFromNv a i)
  | _ => failure

def pMany {α} (p : P α) : Nat → P (List α)
  | 0 => pure []
  | n + 1 => do let x ← p; let xs ← pMany p n; pure (x :: xs)

def pSection : P Section := do
  let uid ← pNat; let hc ← pNat; let n ← pNat
  let cmds ← pMany pCmd n
  pure ⟨uid, hc, cmds⟩

def pCfg : P Cfg := do
  let kek ← pHex; let dek ← pHex; let mac ← pHex; let nonce ← pHex; let padding ← pHex
  let ts ← pNat
  let p0 ← pNat; let p1 ← pNat; let p2 ← pNat
  let c0 ← pNat; let c1 ← pNat; let c2 ← pNat
  let bn ← pNat; let fl ← pNat
  let cert ← pHex; let sig ← pHex
  let n ← pNat
  let ss ← pMany pSection n
  pure { kek := kek, dek := dek, mac := mac, nonce := nonce, padding := padding, timestamp := ts,
         productVersion := ⟨p0, p1, p2⟩, componentVersion := ⟨c0, c1, c2⟩, buildNumber := bn, flags := fl,
         certBlock := cert, signature := sig, sections := ss }

def runP {α} (p : P α) (ts : List String) : Option α :=
  match p.run ts with
  | some (x, []) => some x
  | _ => none

def hx (b : Bytes) : String := if b.isEmpty then "-" else toHex b

def optStr : Option Nat → String
  | some v => toString v
  | none => "-"

def romCmdStr : Rom.RomCmd → String
  | .nop => "nop"
  | .tag f a cn d => s!"tag({f},{a},{cn},{d})"
  | .load a f d => s!"load({a},{f},{hx d})"
  | .fill a p cn => s!"fill({a},{p},{cn})"
  | .jump a g sp => s!"jump({a},{g},{optStr sp})"
  | .call a g => s!"call({a},{g})"
  | .erase a cn f => s!"erase({a},{cn},{f})"
  | .reset => "reset"
  | .memEnable a s f => s!"memEnable({a},{s},{f})"
  | .prog a w1 w2 f => s!"prog({a},{w1},{w2},{f})"
  | .fwVersionCheck k v => s!"fwVersionCheck({k},{v})"
  | .keystoreToNv a f => s!"keystoreToNv({a},{f})"
  | .keystoreFromNv a f => s!"keystoreFromNv({a},{f})"

def sectionStr (s : Rom.RomSection) : String :=
  s!"{s.uid}:{s.flags}:{s.hmacCount}:[" ++ ",".intercalate (s.cmds.map romCmdStr) ++ "]"

def verStr (v : Version3) : String := s!"{v.major}.{v.minor}.{v.service}"

def contentStr (x : Rom.Content) : String :=
  s!"ver={x.major}.{x.minor};flags={x.flags};ib={x.imageBlocks};fbtb={x.firstBootTagBlock};fbsid={x.firstBootSectionId};" ++
  s!"offc={x.offsetToCert};hb={x.headerBlocks};kbb={x.keyBlobBlock};kbc={x.keyBlobBlockCount};mmc={x.maxSectionMacCount};" ++
  s!"ts={x.timestamp};pv={verStr x.productVersion};cv={verStr x.componentVersion};bn={x.buildNumber};" ++
  s!"nonce={hx x.nonce};dek={hx x.dek};mac={hx x.mac};signed={x.signedLen};sig={hx x.signature};cert={hx x.certBlock};" ++
  "sections=" ++ "|".intercalate (x.sections.map sectionStr)

def romLine : Except Rom.RomErr Rom.Content → String
  | .ok x => "ok:" ++ contentStr x
  | .error e => "E:rom:" ++ e.name

/-- header fields + payload + raw size of a command object: the observable compared with `parse_command` -/
def cmdObs (x : Cmd) (n : Nat) : String :=
  let h := x.hdr
  s!"{n};{h.tag};{h.flags};{h.address};{h.count};{h.data};{hx x.payload}"

def boolOf (s : String) : Option Bool := parseBool s

/-! ### SPSDK's own image parser (Model/Sb2Parse.lean) -/

def hexUDigits : Nat → Nat → List Char
  | 0, _ => []
  | f + 1, n => if n = 0 then [] else hexUDigits f (n / 16) ++ [let d := n % 16; if d < 10 then Char.ofNat (48 + d) else Char.ofNat (55 + d)]

/-- Python `f"{n:X}"` -/
def hexU (n : Nat) : String := if n = 0 then "0" else String.ofList (hexUDigits 64 n)

def verHex (v : Version3) : String := s!"{hexU v.major}.{hexU v.minor}.{hexU v.service}"

/-- a parsed command object through its public attributes (twin of `obj_view` in the harness) -/
def objView (x : Cmd) : String :=
  let h := x.hdr
  match x with
  | .nop => "nop"
  | .reset => "reset"
  | .tag .. => s!"tag({h.flags},{h.address},{h.count},{h.data})"
  | .load .. => s!"load({h.address},{h.flags},{hx x.payload})"
  | .fill .. => s!"fill({h.address},{h.data},{h.count})"
  | .jump .. => s!"jump({h.address},{h.data},{if h.flags = 2 then toString h.count else "-"})"
  | .call .. => s!"call({h.address},{h.data})"
  | .erase .. => s!"erase({h.address},{h.count},{h.flags})"
  | .memEnable .. => s!"memEnable({h.address},{h.count},{h.flags})"
  | .prog .. => s!"prog({h.address},{h.count},{h.data},{h.flags})"
  | .versionCheck .. => s!"fwVersionCheck({h.address},{h.count})"
  | .keystoreToNv .. => s!"keystoreToNv({h.address},{(h.flags &&& 0xFF00) >>> 8 * 256})"
  | .keystoreFromNv .. => s!"keystoreFromNv({h.address},{(h.flags &&& 0xFF00) >>> 8 * 256})"

def parsedSectionStr (s : Section) : String :=
  s!"{s.uid}:{s.effHmacCount}:[" ++ ",".intercalate (s.cmds.map objView) ++ "]"

def parsedStr (x : Parse.Parsed) : String :=
  s!"ver=2.{x.minor};flags={x.flags};pv={verHex x.productVersion};cv={verHex x.componentVersion};bn={x.buildNumber};" ++
  s!"ts={x.timestamp / 1000000 + 946684800};nonce={hx x.nonce};dek={hx x.dek};mac={hx x.mac};sections=" ++
  "|".intercalate (x.sections.map parsedSectionStr)

def certParserOf (raw : Option Nat) (sigSize : Nat) (ok : Bool) : Parse.CertParser :=
  fun _ => raw.map (fun r => ⟨r, sigSize, fun _ _ => ok⟩)

def step (ts : List String) : String :=
  match ts with
  | ["hdr_enc", t, f, a, cn, d] =>
    (match parseNat t, parseNat f, parseNat a, parseNat cn, parseNat d with
     | some t, some f, some a, some cn, some d =>
       let h : CmdHdr := ⟨t, f, a, cn, d⟩
       if h.inRange then "ok:" ++ toHex (encodeHdr h) else "E:other"
     | _, _, _, _, _ => "bad-op")
  | ["hdr_dec", d] =>
    (match parseHex d with
     | some d => resLine (fun h : CmdHdr => s!"{h.tag};{h.flags};{h.address};{h.count};{h.data}") (decodeHdr d)
     | none => "bad-op")
  | "cmd_exp" :: rest =>
    (match runP pCmd rest with
     | some x => resLine toHex (exportCmd x)
     | none => "bad-op")
  | ["cmd_parse", d] =>
    (match parseHex d with
     | some d => resLine (fun r : Cmd × Nat => cmdObs r.1 r.2) (decodeCmd d)
     | none => "bad-op")
  | ["rom_cmd", d] =>
    (match parseHex d with
     | some d => (match Rom.readCmd d with
                  | .ok (x, n) => s!"ok:{n};{romCmdStr x}"
                  | .error e => "E:rom:" ++ e.name)
     | none => "bad-op")
  | "view" :: rest =>
    (match runP pCmd rest with
     | some x => "ok:" ++ romCmdStr (Spec.view x)
     | none => "bad-op")
  | "section" :: dek :: mac :: nonce :: ctr :: flags :: rest =>
    (match parseHex dek, parseHex mac, parseHex nonce, parseNat ctr, parseNat flags, runP pSection rest with
     | some dek, some mac, some nonce, some ctr, some flags, some s =>
       if s.cmds.isEmpty then "E:spsdk" else "ok:" ++ toHex (buildSectionWith c dek mac nonce ctr flags s)
     | _, _, _, _, _, _ => "bad-op")
  | "build21" :: rest =>
    (match runP pCfg rest with
     | some cfg => "ok:" ++ toHex (buildV21 c cfg)
     | none => "bad-op")
  | "build20" :: sg :: rest =>
    (match boolOf sg, runP pCfg rest with
     | some sg, some cfg => "ok:" ++ toHex (buildV20 c cfg sg)
     | _, _ => "bad-op")
  | "expected21" :: rest =>
    (match runP pCfg rest with
     | some cfg => (if decide (Spec.WF21 cfg) then "ok:" else "notwf:") ++ contentStr (Spec.expected21 cfg)
     | none => "bad-op")
  | "expected20" :: sg :: rest =>
    (match boolOf sg, runP pCfg rest with
     | some sg, some cfg => (if decide (Spec.WF20 cfg sg) then "ok:" else "notwf:") ++ contentStr (Spec.expected20 cfg sg)
     | _, _ => "bad-op")
  | ["sparse21", kek, raw, sg, ok, file] =>
    (match parseHex kek, pOptNat.run [raw], parseNat sg, boolOf ok, parseHex file with
     | some kek, some (raw, _), some sg, some ok, some file =>
       resLine parsedStr (Parse.parseV21 c (certParserOf raw sg ok) kek file)
     | _, _, _, _, _ => "bad-op")
  | ["sparse20", kek, raw, sg, ok, file] =>
    (match parseHex kek, pOptNat.run [raw], parseNat sg, boolOf ok, parseHex file with
     | some kek, some (raw, _), some sg, some ok, some file =>
       resLine parsedStr (Parse.parseV20 c (certParserOf raw sg ok) kek file)
     | _, _, _, _, _ => "bad-op")
  | "parsed21" :: rest =>
    (match runP pCfg rest with
     | some cfg => "ok:" ++ parsedStr (Parse.parsedOf21 cfg)
     | none => "bad-op")
  | "parsed20" :: sg :: rest =>
    (match boolOf sg, runP pCfg rest with
     | some sg, some cfg => "ok:" ++ parsedStr (Parse.parsedOf20 cfg sg)
     | _, _ => "bad-op")
  | ["rom21", kek, file] =>
    (match parseHex kek, parseHex file with
     | some kek, some file => romLine (Rom.romV21 c kek file)
     | _, _ => "bad-op")
  | ["rom20", kek, file] =>
    (match parseHex kek, parseHex file with
     | some kek, some file => romLine (Rom.romV20 c kek file)
     | _, _ => "bad-op")
  | _ => "bad-op"

def main : IO Unit := Driver.loop step
