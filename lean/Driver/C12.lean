import Driver.Proto
import SpsdkVerif.Model.ConfigArea
import SpsdkVerif.Generated.RegLayouts
import SpsdkVerif.Generated.RegDetails
import SpsdkVerif.Generated.PfrRules
import SpsdkVerif.Generated.ScalarRule
open SpsdkVerif Driver
open SpsdkVerif.CfgArea SpsdkVerif.Misc

/-! Native driver of the C12 model (stateful: a selected layout).

  sel <i>                          select generated layout i                      -> ok <nregs>
  use <size> <fill> <regs>         ad-hoc layout; regs = `off,width,hidden,cov,f0off,f0w,…;…`   -> ok <nregs>
  dump                             canonical text of the selected layout
  count                            number of generated layouts / tz files
  wf                               layoutWFb of the selected layout
  wfall                            indices of the generated layouts with layoutWFb = false
  export <vals>                    vals = comma separated decimals                -> ok:<hex>
  parse <hex> <vals>               values after parsing <hex> into an object holding <vals>
  compute <rules a:b,…> <mentioned idx,…> <vals>
  seal <start> <count> <vals>      exportSealed with the generated seal mark
  crc <hex>                        CRC-32/MPEG-2
  xmcdhdr <size> <blockType> <instance> <interface>   header word with the generated tag
  tzexport <vals> | tzparse <n> <hex> | tzwords
-/

structure St where
  l : Layout := Layout.ofRaw "none" 0 0 0 0 true [] 0 0 []
  d : LayoutD := LayoutD.ofRaw 0 [] [] []

def initVals (d : LayoutD) : Vals := d.regs.map (·.init)

def cfgValStr : CfgVal → String
  | .name n => s!"n{n}"
  | .num v => s!"v{v}"

/-- clauses of the details table that fail for layout `i` (for the evidence: which family file / which fact) -/
def failingClauses (l : Layout) (d : LayoutD) : List String :=
  (if alignedB l d then [] else ["aligned"]) ++ (if resetsB l d then [] else ["resets"]) ++
  (if enumsFitB l d then [] else ["enums"]) ++ (if computedTargetsB l d then [] else ["computed"]) ++
  (if regNamesB l d then [] else ["regnames"]) ++ (if findRegB d then [] else ["findreg"]) ++ (if fieldNamesB d then [] else ["fieldnames"]) ++
  (if sealRegsB l then [] else ["seal"]) ++ (if groupsB l d then [] else ["groups"]) ++
  (if l.kind == 6 && !fcbTableB Generated.RegLayouts.fcbSize Generated.RegLayouts.fcbTag l d then ["fcb"] else []) ++
  (if l.kind == 4 && !fcbTableB Generated.RegLayouts.bcaSize Generated.RegLayouts.bcaTag l d then ["bca"] else []) ++
  (if l.kind == 9 && !memcfgTableB l d then ["memcfg"] else [])

def csvNat (s : String) : List Nat :=
  if s == "-" then [] else (s.splitOn ",").filterMap (·.toNat?)

def natCsv (l : List Nat) : String := if l.isEmpty then "-" else ",".intercalate (l.map toString)

def parseRegs (s : String) : List (List Nat) :=
  if s == "-" then [] else (s.splitOn ";").map csvNat

def dumpReg (r : RegL) : String :=
  natCsv ([r.off, r.width, (if r.hidden then 1 else 0), r.cov] ++ r.fields.flatMap (fun f => [f.off, f.width]))

def dumpLayout (l : Layout) : String :=
  s!"{l.name} {l.kind} {l.size} {l.fill} {l.docSize} {if l.binary then 1 else 0} " ++
  (if l.computed.isEmpty then "-" else ",".intercalate (l.computed.map (fun ir => s!"{ir.1}:{ir.2}"))) ++
  s!" {l.sealStart} {l.sealCount} " ++ (if l.regs.isEmpty then "-" else ";".intercalate (l.regs.map dumpReg))

def parseRules (s : String) : List (Nat × Nat) :=
  if s == "-" then [] else (s.splitOn ",").filterMap (fun t => match t.splitOn ":" with
    | [a, b] => match a.toNat?, b.toNat? with | some a, some b => some (a, b) | _, _ => none
    | _ => none)

/-- first (register, bit-field) of the selected layout whose reset value / enum table violates the table facts -/
def firstBadField (l : Layout) (d : LayoutD) : String :=
  let pairs := (l.regs.zip d.regs).zipIdx
  let bad := pairs.filterMap (fun x =>
    let r := x.1.1; let rd := x.1.2; let ri := x.2
    if !decide (rd.init < 2 ^ r.width) then some s!"{ri}:-:init" else
    ((r.fields.zip rd.fields).zipIdx.filterMap (fun y =>
      let f := y.1.1; let fd := y.1.2; let fi := y.2
      if !decide (fd.reset >>> fd.shift < 2 ^ f.width) || ((rd.init >>> f.off) % 2 ^ f.width) <<< fd.shift != fd.reset then some s!"{ri}:{fi}:reset"
      else if !fd.enums.all (fun e => decide (e.1 >>> fd.shift < 2 ^ f.width)) then some s!"{ri}:{fi}:enum"
      else none)).head?)
  match bad.head? with
  | some x => x
  | none => "-"

def regsCfgValStr : Regs.CfgVal → String
  | .enumName n => s!"n{n}"
  | .num v => s!"v{v}"
  | .rawNum v => s!"r{v}"

def namedCfgStr (n : NamedCfg) : String :=
  ";".intercalate (n.map (fun e => match e.2 with
    | .value v => s!"{e.1}=V{v}"
    | .fields l => s!"{e.1}=" ++ "{" ++ ",".intercalate (l.map (fun fc => s!"{fc.1}:{regsCfgValStr fc.2}")) ++ "}"))

/-- get_config → names → find_reg/find_bitfield → load into the fresh state → values -/
def cfgRoundtrip (l : Layout) (d : LayoutD) (vals : Vals) : String :=
  match Regs.getConfig (toMeta d) (toFileG l d vals) with
  | .error e => e.tag
  | .ok cfg => match nameCfg d cfg with
    | none => "unnameable"
    | some n => match resolveCfg d n with
      | none => "unresolved"
      | some cfg' => match Regs.loadConfig (toMeta d) (toFileG l d d.initVals) cfg' with
        | .error e => e.tag
        | .ok rf => "ok:" ++ natCsv (valuesOfG rf)

def hexDigitVal (c : Char) : Option Nat :=
  if '0' ≤ c && c ≤ '9' then some (c.toNat - '0'.toNat)
  else if 'a' ≤ c && c ≤ 'f' then some (c.toNat - 'a'.toNat + 10)
  else if 'A' ≤ c && c ≤ 'F' then some (c.toNat - 'A'.toNat + 10)
  else none

def digitsOf (s : String) : Option (List Nat) :=
  if s == "-" then some [] else s.toList.mapM hexDigitVal

def stepLine (st : St) : List String → St × String
  | ["sel", i] => match parseNat i with
    | some i => (match Generated.RegLayouts.layouts[i]? with
      | some l => ({ l := l, d := (Generated.RegDetails.details[i]?).getD (LayoutD.ofRaw 0 [] [] []) }, s!"ok {l.regs.length}")
      | none => (st, "bad-index"))
    | none => (st, "bad-op")
  | ["use", size, fill, regs] => match parseNat size, parseNat fill with
    | some size, some fill =>
      let l := Layout.ofRaw "adhoc" 0 size fill 0 true [] 0 0 (parseRegs regs)
      ({ st with l := l }, s!"ok {l.regs.length}")
    | _, _ => (st, "bad-op")
  | ["dump"] => (st, dumpLayout st.l)
  | ["count"] => (st, s!"{Generated.RegLayouts.layouts.length} {Generated.RegLayouts.tzWords.length}")
  | ["wf"] => (st, boolStr (layoutWFb st.l))
  | ["wfall"] =>
    let bad := (List.range Generated.RegLayouts.layouts.length).filter (fun i =>
      match Generated.RegLayouts.layouts[i]? with | some l => !layoutWFb l | none => true)
    (st, natCsv bad)
  | ["export", vals] => (st, resLine toHex (exportArea st.l (csvNat vals)))
  | ["parse", h, vals] => match parseHex h with
    | some b => (st, natCsv (parseArea st.l b (csvNat vals)))
    | none => (st, "bad-op")
  | ["compute", rules, ment, vals] =>
    let m := csvNat ment
    (st, natCsv (computeAll (parseRules rules) (fun i => m.contains i) (csvNat vals)))
  | ["seal", start, count, vals] => match parseNat start, parseNat count with
    | some s, some c =>
      (st, resLine toHex (exportSealed Generated.RegLayouts.sealMark { st.l with sealStart := s, sealCount := c } (csvNat vals)))
    | _, _ => (st, "bad-op")
  | ["crc", h] => match parseHex h with
    | some b => (st, toString (crc32Mpeg b))
    | none => (st, "bad-op")
  | ["tzexport", vals] => (st, resLine toHex (tzExport (csvNat vals)))
  | ["tzparse", n, h] => match parseNat n, parseHex h with
    | some n, some b => (st, resLine natCsv (tzParse n b))
    | _, _ => (st, "bad-op")
  | ["xmcdhdr", size, bt, inst, iface] => match parseNat size, parseNat bt, parseNat inst, parseNat iface with
    | some size, some bt, some inst, some iface =>
      (st, toString (xmcdHeader Generated.RegLayouts.xmcdTag size bt inst iface))
    | _, _, _, _ => (st, "bad-op")
  | ["fcbparse", h] => match parseHex h, st.d.aux with
    | some b, [ti] => (st, resLine natCsv (fcbParse Generated.RegLayouts.fcbSize Generated.RegLayouts.fcbTag ti st.l b (initVals st.d)))
    | _, _ => (st, "bad-op")
  | ["bcaparse", h] => match parseHex h, st.d.aux with
    | some b, [ti] => (st, resLine natCsv (bcaParse Generated.RegLayouts.bcaTag ti st.l b (initVals st.d)))
    | _, _ => (st, "bad-op")
  | ["fcfparse", h] => match parseHex h with
    | some b => (st, resLine natCsv (fcfParse Generated.RegLayouts.fcfSize st.l b (initVals st.d)))
    | none => (st, "bad-op")
  | ["ow", vals] => (st, resLine natCsv (optionWords st.d.aux st.l (csvNat vals)))
  | ["scalar", hx, kind, payload] =>
    let sc : Option Scalar := if kind == "i" then payload.toNat?.map Scalar.int
      else if kind == "d" then (digitsOf payload).map Scalar.digits
      else if kind == "p" then (digitsOf payload).map Scalar.prefixed else none
    (match sc, Generated.ScalarRule.scalarRule with
     | some sc, some rule => (match decodeScalar rule (hx == "1") sc with
       | some v => (st, s!"ok:{v}")
       | none => (st, "err"))
     | none, _ => (st, "bad-op")
     | _, none => (st, "untranslated"))
  | ["init"] => (st, natCsv (initVals st.d))
  | ["groups"] => (st, ";".intercalate (st.d.regs.zipIdx.filterMap (fun x =>
      if x.1.subW == 0 then none
      else some (natCsv ([x.2, x.1.subW, x.1.nsubs, (if x.1.revSubs then 1 else 0), (if x.1.reverse then 1 else 0), x.1.alts.length] ++ x.1.alts ++ x.1.subKeys)))))
  | ["enumval", ri, fi, v] => match parseNat ri, parseNat fi, parseNat v with
    | some ri, some fi, some v => (match st.d.regs[ri]? with
      | some rd => (match rd.fields[fi]? with
        | some fd => (st, cfgValStr (enumValue fd.enums v))
        | none => (st, "bad-index"))
      | none => (st, "bad-index"))
    | _, _, _ => (st, "bad-op")
  | ["getcfg", vals] => match Regs.getConfig (toMeta st.d) (toFileG st.l st.d (csvNat vals)) with
    | .error e => (st, e.tag)
    | .ok cfg => match nameCfg st.d cfg with
      | some n => (st, "ok:" ++ namedCfgStr n)
      | none => (st, "unnameable")
  | ["rtcfg", vals] => (st, cfgRoundtrip st.l st.d (csvNat vals))
  | ["evalrule", rid, v] => match parseNat rid, parseNat v with
    | some rid, some v =>
      let e := if rid == 0 then Generated.PfrRules.rule0 else if rid == 1 then Generated.PfrRules.rule1 else none
      (match e with
       | some e => (st, toString (BitExpr.eval e v))
       | none => (st, "untranslated"))
    | _, _ => (st, "bad-op")
  | ["dwhere"] => (st, firstBadField st.l st.d)
  | ["dcheck"] =>
    let bad := (List.range Generated.RegLayouts.layouts.length).filterMap (fun i =>
      match Generated.RegLayouts.layouts[i]?, Generated.RegDetails.details[i]? with
      | some l, some d => let f := failingClauses l d; if f.isEmpty then none else some (s!"{i}:" ++ "+".intercalate f)
      | _, _ => some s!"{i}:missing")
    (st, if bad.isEmpty then "-" else ",".intercalate bad)
  | ["tzwords"] => (st, natCsv Generated.RegLayouts.tzWords)
  | ["consts"] => (st, s!"{toHex Generated.RegLayouts.sealMark} {toHex Generated.RegLayouts.bcaTag} {toHex Generated.RegLayouts.fcbTag} {Generated.RegLayouts.xmcdTag}")
  | _ => (st, "bad-op")

def main : IO Unit := Driver.loopS ({} : St) stepLine
