import Driver.Proto
import SpsdkVerif.Model.Bimg
import Std.Data.HashMap
open SpsdkVerif Driver
open SpsdkVerif.Bimg SpsdkVerif.Misc SpsdkVerif.Generated

/-!
Model driver for C14 (stateful: byte blobs are defined once and referred to by id).

  blob <id> <hex>                                   -> ok
  init <layout> <int>                               -> ok:<init>:<excluded bits> | E:spsdk
  initk <layout> <kind index>                       -> same (set_init_offset by segment name)
  rt <layout> <fcbSup 0|1> <init request> <tok>*    -> M:<merge observables>|P:<parse of the model's own export>
  parse <layout> <fcbSup 0|1> <bin blob id> <tok>*  -> P:<parse observables> of an explicit binary
<tok>: one per table entry, `-` (not supplied) or a blob id.  The external parsers (`Ext`) are instantiated by
"recognise exactly the supplied blobs" (container kinds, XMCD), a concrete AHAB container-head test for
`find_segment_offset`, and "FCB.parse accepts every block that carries the tag".
-/

abbrev Blobs := Std.HashMap String Bytes

def adler32 (b : Bytes) : Nat :=
  let (a, s) := b.foldl (fun (p : Nat × Nat) x => let a := (p.1 + x.toNat) % 65521; (a, (p.2 + a) % 65521)) (1, 0)
  s * 65536 + a

def getLayout (tok : String) : Option (Desc × List (Nat × Int)) :=
  match tok.toNat? with
  | none => none
  | some i => match BimgTables.layouts[i]? with
    | none => none
    | some l => (resolve l).map (fun d => (d, l.segs))

def lookupToks (bl : Blobs) : List String → Option (List (Option Bytes))
  | [] => some []
  | t :: ts =>
    match lookupToks bl ts with
    | none => none
    | some r => if t == "-" then some (none :: r) else match bl.get? t with
      | some b => some (some b :: r)
      | none => none

def parserName (k : Nat) : String := match BimgTables.kinds[k]? with | some x => x.parser | none => "?"

/-- AHAB `DummyContainer.check_container_head`: version in {0, 2}, tag 0x87, declared length available -/
def looksLikeHead (d : Bytes) : Bool :=
  match d with
  | v :: l0 :: l1 :: t :: _ => (v == 0 || v == 2) && t == 0x87 && decide (l0.toNat + 256 * l1.toNat ≤ d.length)
  | _ => false

def findHead (fuel : Nat) (d : Bytes) (off : Nat) : Option Nat :=
  match fuel with
  | 0 => none
  | f + 1 => if d.isEmpty then none else if looksLikeHead d then some off else findHead f (d.drop 0x400) (off + 0x400)

def stubExt (known : List (Seg × Bytes)) : Ext where
  app k data := known.findSome? (fun p => if parserName p.1.kind == parserName k && p.2.isPrefixOf data then some p.2.length else none)
  find _ data := findHead (data.length / 0x400 + 1) data 0
  fcbOk _ := true
  xmcd data := known.findSome? (fun p => if p.1.parser == .xmcd && p.2.isPrefixOf data then some p.2 else none)

def bits (l : List Bool) : String := String.ofList (l.map (fun b => if b then '1' else '0'))

def initLine (segs : List Seg) : PyRes Nat → String
  | .ok i => s!"ok:{i}:{bits (segs.map (excluded i))}"
  | .error e => e.tag

def foundStr : Found → String
  | none => "-"
  | some (o, raw) => s!"{o}:{raw.length}:{adler32 raw}"

def parseLine (ext : Ext) (fcbSup : Bool) (segs : List Seg) (bin : Bytes) : String :=
  match parseAll ext fcbSup segs bin with
  | .error e => "P:" ++ e.tag
  | .ok (i, f) => s!"P:{i};" ++ ",".intercalate (f.map foundStr)

def mergeLine (d : Desc) (init : Nat) (raws : List (Option Bytes)) : String × Option Bytes :=
  let slots := mkSlots d.segs raws
  let offs := (List.range slots.length).map (fun i => match segOffset init slots i with | .ok o => toString o | .error _ => "x")
  let ln := match imageLen init slots with | .ok n => toString n | .error e => e.tag
  match exportImg d init raws with
  | .ok b => (s!"M:{init};{",".intercalate offs};{ln};{b.length}:{adler32 b}", some b)
  | .error e => (s!"M:{init};{",".intercalate offs};{ln};{e.tag}", none)

def known (d : Desc) (raws : List (Option Bytes)) : List (Seg × Bytes) :=
  (d.segs.zip raws).filterMap (fun p => p.2.map (fun b => (p.1, b)))

def step (bl : Blobs) : List String → Blobs × String
  | ["blob", id, hex] => match parseHex hex with
    | some b => (bl.insert id b, "ok")
    | none => (bl, "bad-op")
  | ["init", l, r] => match getLayout l, r.toInt? with
    | some (d, _), some req => (bl, initLine d.segs (setInit d.segs req))
    | _, _ => (bl, "bad-op")
  | ["initk", l, k] => match getLayout l, k.toNat? with
    | some (d, _), some k => (bl, initLine d.segs (setInitByKind d.segs k))
    | _, _ => (bl, "bad-op")
  | "rt" :: l :: fs :: r :: toks => match getLayout l, parseBool fs, r.toInt?, lookupToks bl toks with
    | some (d, _), some fcbSup, some req, some raws =>
      if raws.length ≠ d.segs.length then (bl, "bad-op") else
      match setInit d.segs req with
      | .error e => (bl, "M:" ++ e.tag)
      | .ok init =>
        let (m, b) := mergeLine d init raws
        match b with
        | none => (bl, m)
        | some bin => (bl, m ++ "|" ++ parseLine (stubExt (known d raws)) fcbSup d.segs bin)
    | _, _, _, _ => (bl, "bad-op")
  -- rtany <fcbSup> <init request> <own index> <n> <layout_1> … <layout_n> <tok>* : export with the own layout, parse trying all layouts
  | "rtany" :: fs :: r :: own :: n :: rest =>
    match parseBool fs, r.toInt?, own.toNat?, n.toNat? with
    | some fcbSup, some req, some own, some n =>
      let ls := (rest.take n).filterMap (fun x => (getLayout x).map (·.1))
      let toks := rest.drop n
      if ls.length ≠ n then (bl, "bad-op") else
      match ls[own]?, lookupToks bl toks with
      | some d, some raws =>
        if raws.length ≠ d.segs.length then (bl, "bad-op") else
        match setInit d.segs req with
        | .error e => (bl, "A:" ++ e.tag)
        | .ok init => match exportImg d init raws with
          | .error e => (bl, "A:" ++ e.tag)
          | .ok bin => match parseAny (stubExt (known d raws)) fcbSup (ls.map (·.segs)) bin with
            | .error e => (bl, "A:" ++ e.tag)
            | .ok (i, ini, f) => (bl, s!"A:{i};{ini};" ++ ",".intercalate (f.map foundStr))
      | _, _ => (bl, "bad-op")
    | _, _, _, _ => (bl, "bad-op")
  -- seq <layout> <op>* with <op> = i:<int> | k:<kind index> : the object's (init, excluded flags) after every assignment
  | "seq" :: l :: ops => match getLayout l with
    | some (d, _) =>
      let parseOp (s : String) : Option InitOp :=
        if s.startsWith "i:" then (s.drop 2).toString.toInt?.map InitOp.byInt
        else if s.startsWith "k:" then (s.drop 2).toString.toNat?.map InitOp.byKind else none
      match ops.mapM parseOp with
      | none => (bl, "bad-op")
      | some os =>
        let (_, outs) := os.foldl (fun (acc : ObjState × List String) op =>
          let s' := stepOp d.segs acc.1 op
          (s', acc.2 ++ [s!"{s'.init}:{bits s'.excl}"])) (freshObj d.segs, [])
        (bl, "S:" ++ ",".intercalate outs)
    | none => (bl, "bad-op")
  | "parse" :: l :: fs :: binId :: toks => match getLayout l, parseBool fs, bl.get? binId, lookupToks bl toks with
    | some (d, _), some fcbSup, some bin, some raws =>
      if raws.length ≠ d.segs.length then (bl, "bad-op") else
      (bl, parseLine (stubExt (known d raws)) fcbSup d.segs bin)
    | _, _, _, _ => (bl, "bad-op")
  | _ => (bl, "bad-op")

def main : IO Unit := Driver.loopS ({} : Blobs) step
