/-
Native driver of the independent ROM acceptance model (Spec/MbiRom.lean) for C02.  One request per line:
  rom certkind=<none|v1|v21> manifest=<crc|digest> hmac=<0|1> zerolen=<0|1> tzsize=<n> rkth=<hex> userkey=<hex|none> data=<hex>
answers
  reject:<reason>
  accept strip=<n> plain=<hex|none> obs=<obligation>;<obligation>…
    chain:<off>-<len>,…|<rkh0>,<rkh1>,<rkh2>,<rkh3>      X.509 chain + root key hash membership
    rsa:<off>-<len>:<dataEnd>                               RSA PKCS#1 v1.5/SHA-256 by that certificate over body[:dataEnd], signature body[dataEnd:]
    ecdsa:<pub>:<data>:<sig>                                ECDSA by the raw public key over data
  romvx kind=<plain|crc|signed> rootpub=<hex> iskhash=<0|1> data=<hex>      Spec/MbiRomVx.lean (header-less mc56 / mwct images), same answers
-/
import Driver.Proto
import SpsdkVerif.Spec.MbiRom
import SpsdkVerif.Spec.MbiRomVx
import SpsdkVerif.Crypto.Exec
import SpsdkVerif.Spec.Rotkh
open SpsdkVerif Driver
open SpsdkVerif.Spec.MbiRom
open SpsdkVerif.Crypto (execOps)

namespace Driver.Rom

abbrev KV := List (String × String)

def kvOf (toks : List String) : KV :=
  toks.filterMap (fun t => match t.splitOn "=" with
    | [k, v] => some (k, v)
    | _ => none)

def KV.get? (kv : KV) (k : String) : Option String := (kv.find? (·.1 == k)).map (·.2)
def KV.nat (kv : KV) (k : String) (d : Nat := 0) : Nat := ((kv.get? k).bind parseNat).getD d
def KV.hex (kv : KV) (k : String) : List UInt8 := ((kv.get? k).bind parseHex).getD []

def hexOr (b : List UInt8) : String := if b.isEmpty then "-" else toHex b

def envOf (kv : KV) : RomEnv :=
  { certKind := (match kv.get? "certkind" with | some "v1" => .v1 | some "v21" => .v21 | _ => .none)
    manifestKind := (match kv.get? "manifest" with | some "crc" => .crc | _ => .digest)
    hmacHeader := kv.nat "hmac" == 1
    zeroTotalLength := kv.nat "zerolen" == 1
    tzSize := kv.nat "tzsize"
    rkth := kv.hex "rkth"
    userKey := (match kv.get? "userkey" with | none => none | some "none" => none | some v => parseHex v) }

def obStr : Obligation → String
  | .x509Chain certs tbl =>
    "chain:" ++ ",".intercalate (certs.map (fun c => s!"{c.1}-{c.2}")) ++ "|" ++ ",".intercalate (tbl.map hexOr)
  | .rsaByCert c e => s!"rsa:{c.1}-{c.2}:{e}"
  | .ecdsa p d s => "ecdsa:" ++ hexOr p ++ ":" ++ hexOr d ++ ":" ++ hexOr s

def step (toks : List String) : String :=
  match toks with
  | "rom" :: rest =>
    let kv := kvOf rest
    match romCheck execOps (envOf kv) (kv.hex "data") with
    | .error why => "reject:" ++ why.replace " " "_"
    | .ok a =>
      s!"accept strip={a.stripped} plain={match a.plain with | some p => hexOr p | none => "none"} obs="
        ++ ";".intercalate (a.obligations.map obStr)
  | "romvx" :: rest =>
    let kv := kvOf rest
    let k : Spec.MbiRomVx.Kind := match kv.get? "kind" with | some "crc" => .crc | some "signed" => .signed | _ => .plain
    match Spec.MbiRomVx.romVx execOps { rootPub := kv.hex "rootpub", iskHash := kv.nat "iskhash" == 1 } k (kv.hex "data") with
    | .error why => "reject:" ++ why.replace " " "_"
    | .ok a => s!"accept strip={a.stripped} plain=none obs=" ++ ";".intercalate (a.obligations.map obStr)
  | ["rotkh", t, ks] =>
    -- the documented root-of-trust hash (Spec/Rotkh.lean, C03) over raw key numbers: r:<n>:<e> or e:<bits>:<x>:<y>, comma separated
    let key (s : String) : Option Spec.Key := match s.splitOn ":" with
      | ["r", n, e] => do pure (.rsa (← n.toNat?) (← e.toNat?))
      | ["e", b, x, y] => do
        let cv ← (if b == "256" then some Spec.Curve.p256 else if b == "384" then some Spec.Curve.p384 else none)
        pure (.ecc cv (← x.toNat?) (← y.toNat?))
      | _ => none
    match Spec.RotType.ofName? t, (ks.splitOn ",").mapM key with
    | some t, some ks => "ok:" ++ hexOr (Spec.rotkh execOps t ks)
    | _, _ => "bad-op"
  | _ => "bad-op"

end Driver.Rom

def main : IO Unit := Driver.loop Driver.Rom.step
