/-
Native model driver of property C06 (AHAB image).  Stateful line protocol: building lines answer "ok", query lines answer
the canonical result.  See harness/props/C06.py for the grammar of the lines.
-/
import Driver.Proto
import SpsdkVerif.Model.Ahab
import SpsdkVerif.Model.AhabVerify
import SpsdkVerif.Model.AhabParse
import SpsdkVerif.Model.AhabCert
import SpsdkVerif.Model.AhabResign
import SpsdkVerif.Spec.AhabRom
import SpsdkVerif.Crypto.Exec
open SpsdkVerif Driver
open SpsdkVerif.Ahab SpsdkVerif.AhabVerify
open SpsdkVerif.Generated

structure St where
  ver : Ver := .v1
  chip : Option Chip := none
  conts : List (Container × List SrkRecord × List SrkV2) := []     -- newest first
  -- verifier side
  vconts : List VContainer := []                      -- newest first
  voverlap : Bool := true

def crypto := SpsdkVerif.Crypto.execOps

def parseVer (s : String) : Option Ver := if s == "v1" then some .v1 else if s == "v2" then some .v2 else none

def mkChip (family rev tm : String) : Option Chip := (findChip family rev).map (fun r => ⟨r, tm⟩)

def emptySb : SigBlock := ⟨[], [], [], [], none⟩

def modTop (st : St) (f : Container × List SrkRecord × List SrkV2 → Container × List SrkRecord × List SrkV2) : St × String :=
  match st.conts with
  | c :: cs => ({ st with conts := f c :: cs }, "ok")
  | [] => (st, "bad-op:no-container")

def modVTop (st : St) (f : VContainer → VContainer) : St × String :=
  match st.vconts with
  | c :: cs => ({ st with vconts := f c :: cs }, "ok")
  | [] => (st, "bad-op:no-container")

/-- SRK table (v1) / SRK table array (v2) from the accumulated records with the lengths `update_fields` computes -/
def finalize (p : Container × List SrkRecord × List SrkV2) : PyRes Container :=
  match p with
  | (c, [], []) => .ok c
  | (c, recs, []) =>
    let recs := recs.reverse.map (fun r => { r with length := r.computedLength })
    match encodeSrkTable ⟨SrkTable.computedLength recs, recs⟩ with
    | .ok b => .ok { c with sb := { c.sb with srk := b } }
    | .error e => .error e
  | (c, _, srks) =>
    match encodeSrkArray crypto c.usedSrkId srks.reverse with
    | .ok b => .ok { c with sb := { c.sb with srk := b } }
    | .error e => .error e

def finalizeAll : List (Container × List SrkRecord × List SrkV2) → PyRes (List Container)
  | [] => .ok []
  | p :: ps =>
    match finalize p, finalizeAll ps with
    | .ok c, .ok cs => .ok (c :: cs)
    | .error e, _ => .error e
    | _, .error e => .error e

def theImage (st : St) : PyRes Image :=
  match st.chip, finalizeAll st.conts.reverse with
  | some ch, .ok cs => .ok ⟨st.ver, ch, cs⟩
  | none, _ => .error .other
  | _, .error e => .error e

def natList (l : List Nat) : String := " ".intercalate (l.map toString)

def layoutLine (img : Image) : PyRes String :=
  match img.update crypto with
  | .error e => .error e
  | .ok us =>
    let per := us.map (fun u =>
      let o := sbLayout img.ver u.cont.sb
      let n := u.placed.length
      s!"c{u.index} base={u.base} len={headerLength img.ver n o.length} sbo={sigBlockOffset img.ver n} srk={o.srkOff} sig={o.sigOff} cert={o.certOff} blob={o.blobOff} sblen={o.length} imgs=" ++
        ",".intercalate (u.placed.map (fun p => s!"{p.offset}:{p.ready.size}")))
    .ok (" ".intercalate per ++ s!" total={imageLength img.chip us} start={startReal img.chip img.ver us}")

/-- Phase 3: the state after a SECOND `update_fields()` (re-sign flow): layout numbers plus size, hash field and IV field of
    every entry -/
def relayoutLine (img : Image) : PyRes String :=
  match img.update2 crypto with
  | .error e => .error e
  | .ok us =>
    let per := us.map (fun u =>
      let o := sbLayout img.ver u.cont.sb
      let n := u.placed.length
      s!"c{u.index} base={u.base} len={headerLength img.ver n o.length} sbo={sigBlockOffset img.ver n} srk={o.srkOff} sig={o.sigOff} cert={o.certOff} blob={o.blobOff} sblen={o.length} imgs=" ++
        ",".intercalate (u.placed.map (fun p => s!"{p.offset}:{p.ready.size}:{p.iae.imageOffset}:{toHex p.ready.hash}:{toHex p.ready.iv}:{p.ready.image.length}")))
    .ok (" ".intercalate per ++ s!" total={imageLength img.chip us} start={startReal img.chip img.ver us}")

def nthU (us : List UContainer) (k : Nat) : Option UContainer := us[k]?

def repLine (bin : List UInt8) (rs : List Spec.AhabRom.ContainerRep) : String :=
  ";".intercalate (rs.map (fun r =>
    s!"k={r.index} base={r.base} len={r.length} flags={r.flags} sw={r.swVersion} fuse={r.fuseVersion} sbo={r.sbOffset} srk={r.srkOff} sig={r.sigOff} cert={r.certOff} blob={r.blobOff} sblen={r.sbLength} imgs=" ++
      ",".intercalate (r.images.map (fun i => s!"{i.offset}:{i.size}:{i.flags}:{if i.encrypted then 1 else 0}")) ++
      " extra=" ++ ",".intercalate ((List.range r.images.length).map (fun i =>
        let x := Spec.AhabRom.entryExtra bin (r.base + 16 + 128 * i)
        s!"{x.1}:{x.2.1}:{x.2.2}")) ++
      (match r.sig with
       | none => " unsigned"
       | some s => s!" signed={s.signedLen} table={s.srkTableOff}:{s.srkTableLen} rec={s.srkRecOff}:{s.srkRecLen} used={s.usedSrk} sigdata={s.sigOff}:{s.sigLen} srkhash={toHex s.srkHash}")))

def sha (b : List UInt8) : String := toHex (crypto.hash .sha256 b)

def dumpContainer (v : Ver) (c : PContainer) : String :=
  let h := c.header
  let sb := c.sb
  let srk := match sb.srk with
    | .none => "-"
    | .table t => s!"table:{t.length}:" ++ "/".intercalate (t.records.map (fun (r : SrkRecord) => s!"{r.signAlg},{r.hashAlg},{r.keySize},{r.srkFlags},{r.length},{sha r.params}"))
    | .raw b => s!"raw:{b.length}:{sha b}"
  let blob := match sb.blob with
    | some b => s!"{b.flags},{b.size},{b.algorithm},{b.mode},{b.length},{toHex b.keyblob},{b.keyIdentifier}"
    | none => "-"
  s!"H:{h.version},{h.length},{h.tag},{h.flags},{h.swVersion},{h.fuseVersion},{h.nImages},{h.sbOffset} " ++
  s!"SB:{sb.length},{sb.srkOff},{sb.sigOff},{sb.certOff},{sb.blobOff} SRK:{srk} " ++
  s!"SIG:{match sb.signature with | some g => toHex g | none => "-"} CERT:{match sb.cert with | some x => sha x | none => "-"} BLOB:{blob} IMGS:" ++
  ";".intercalate ((c.iaes.zip c.images).map (fun ((e, im) : Iae × List UInt8) =>
    s!"{e.imageOffset},{e.imageSize},{e.loadAddress},{e.entryPoint},{e.flags},{e.metaData},{toHex e.hash},{if Iae.isEncrypted v e.flags then toHex e.iv else "-"},{im.length},{sha im}"))

def parseDeks : Nat → List String → Option (List (Option (List UInt8)) × List String)
  | 0, rest => some ([], rest)
  | n + 1, t :: rest =>
    match (if t == "none" then some none else (parseHex t).map some), parseDeks n rest with
    | some d, some (ds, r) => some (d :: ds, r)
    | _, _ => none
  | _, [] => none

def pI (s : String) : Int := (parseInt s).getD 0
def pN (s : String) : Nat := (parseNat s).getD 0
def pB (s : String) : Bool := s == "1"
def pH (s : String) : List UInt8 := (parseHex s).getD []

def step (st : St) : List String → St × String
  -- ------------------------------------------------------------ builder
  | ["new", v, family, rev, tm] =>
    match parseVer v, mkChip family rev tm with
    | some v, some ch => ({ st with ver := v, chip := some ch, conts := [] }, "ok")
    | _, _ => (st, "bad-chip")
  | ["cont", flags, sw, fuse] =>
    ({ st with conts := (⟨pN flags, pN sw, pN fuse, [], emptySb, none⟩, [], []) :: st.conts }, "ok")
  | ["img", d, off, load, entry, flags, md, gap, sa] =>
    modTop st (fun (c, r, r2) => ({ c with entries := c.entries ++ [⟨pH d, pN off, pN load, pN entry, pN flags, pN md, pN gap, pN sa⟩] }, r, r2))
  | ["srk", h] => modTop st (fun (c, r, r2) => ({ c with sb := { c.sb with srk := pH h } }, r, r2))
  | ["srkrec", alg, hsh, ks, fl, params] =>
    modTop st (fun (c, r, r2) => (c, ⟨pN alg, pN hsh, pN ks, pN fl, 0, pH params⟩ :: r, r2))
  | ["srk2rec", alg, hsh, ks, fl, keydata] =>
    modTop st (fun (c, r, r2) => (c, r, ⟨pN alg, pN hsh, pN ks, pN fl, pH keydata⟩ :: r2))
  | ["sig", h] => modTop st (fun (c, r, r2) => ({ c with sb := { c.sb with signature := pH h } }, r, r2))
  | ["sig2", h] => modTop st (fun (c, r, r2) => ({ c with sb := { c.sb with signature2 := pH h } }, r, r2))
  | ["cert", h] => modTop st (fun (c, r, r2) => ({ c with sb := { c.sb with cert := pH h } }, r, r2))
  | ["blob", flags, size, alg, mode, len, kb, kid, dek] =>
    let bl : Blob := ⟨pN flags, pN size, pN alg, pN mode, pN len, pH kb, pN kid⟩
    let dk : Option (List UInt8) := if dek == "none" then none else some (pH dek)
    modTop st (fun (c, r, r2) => ({ c with sb := { c.sb with blob := some bl }, dek := dk }, r, r2))
  | ["export"] =>
    match theImage st with
    | .ok img => (st, resLine toHex (img.export crypto))
    | .error e => (st, e.tag)
  | ["layout"] =>
    match theImage st with
    | .ok img => (st, resLine id (layoutLine img))
    | .error e => (st, e.tag)
  | ["relayout"] =>
    match theImage st with
    | .ok img => (st, resLine id (relayoutLine img))
    | .error e => (st, e.tag)
  | ["sigdata", k] =>
    match theImage st with
    | .ok img =>
      match img.update crypto with
      | .ok us =>
        match nthU us (pN k) with
        | some u => (st, resLine toHex (signatureData img.ver u.cont (u.placed.map (·.iae))))
        | none => (st, "bad-op")
      | .error e => (st, e.tag)
    | .error e => (st, e.tag)
  | ["srkhash", k] =>
    match theImage st with
    | .ok img =>
      match img.containers[pN k]? with
      | some c => (st, "ok:" ++ toHex (srkTableHash crypto c.sb.srk))
      | none => (st, "bad-op")
    | .error e => (st, e.tag)
  -- ------------------------------------------------------------ independent checker
  | "check" :: v :: maxC :: maxI :: nd :: rest =>
    match parseVer v, parseDeks (pN nd) rest with
    | some v, some (deks, [bin]) =>
      let p := match v with
        | .v1 => Spec.AhabRom.paramsV1 (pN maxC) (pN maxI)
        | .v2 => Spec.AhabRom.paramsV2 (pN maxC) (pN maxI)
      match Spec.AhabRom.ahabCheck crypto p (pH bin) deks with
      | .ok rs => (st, "ok:" ++ repLine (pH bin) rs)
      | .error e => (st, "fail:" ++ e)
    | _, _ => (st, "bad-op")
  | ["parse", v, maxC, bin] =>
    (st, match parseVer v with
      | some v =>
        match parseFile v (pN maxC) (pH bin) with
        | some cs => "ok:" ++ " | ".intercalate (cs.map (dumpContainer v))
        | none => "E:spsdk"
      | none => "bad-op")
  -- ------------------------------------------------------------ small functions
  | ["flags", v, ty, core, hsh, enc, boot] =>
    (st, match parseVer v with
      | some .v1 => resLine toString (AhabConsts.createFlagsV1 (pI ty) (pI core) (pI hsh) (pB enc) (pI boot))
      | some .v2 => resLine toString (AhabConsts.createFlagsV2 (pI ty) (pI core) (pI hsh) (pB enc) (pI boot))
      | none => "bad-op")
  | ["cflags", v, srkSet, used, revoke, gdet, ca] =>
    (st, match parseVer v with
      | some .v1 => s!"ok:{containerFlags (pN srkSet) (pN used) (pN revoke) (pN gdet)}"
      | some .v2 => s!"ok:{containerFlagsV2 (pN srkSet) (pN used) (pN revoke) (pN gdet) (pN ca)}"
      | none => "bad-op")
  | ["meta", a, b, c] => (st, resLine toString (AhabConsts.createMeta (pI a) (pI b) (pI c)))
  | ["coffset", v, ix] =>
    (st, match parseVer v with
      | some .v1 => resLine toString (AhabConsts.containerOffsetV1 (pI ix))
      | some .v2 => resLine toString (AhabConsts.containerOffsetV2 (pI ix))
      | none => "bad-op")
  | ["iae", v, h] =>
    (st, match parseVer v with
      | some v =>
        match decodeIae v.iaeLayout (pH h) with
        | some e => s!"ok:{e.imageOffset} {e.imageSize} {e.loadAddress} {e.entryPoint} {e.flags} {e.metaData} {toHex e.hash} {toHex e.iv}"
        | none => "E:spsdk"
      | none => "bad-op")
  | ["srktable", h] =>
    (st, match decodeSrkTable (pH h) with
      | some t => s!"ok:{t.length} " ++ " ".intercalate (t.records.map (fun r => s!"{r.signAlg},{r.hashAlg},{r.keySize},{r.srkFlags},{r.length},{toHex r.params}"))
      | none => "E:spsdk")
  | ["header", v, h] =>
    (st, match parseVer v with
      | some v =>
        match decodeHeader v (pH h) with
        | some x => s!"ok:{x.version} {x.length} {x.tag} {x.flags} {x.swVersion} {x.fuseVersion} {x.nImages} {x.sbOffset}"
        | none => "E:spsdk"
      | none => "bad-op")
  -- ------------------------------------------------------------ verifier
  | ["vnew", v, family, rev, tm, ov] =>
    match parseVer v, mkChip family rev tm with
    | some v, some ch => ({ st with ver := v, chip := some ch, vconts := [], voverlap := pB ov }, "ok")
    | _, _ => (st, "bad-chip")
  | ["vcont", tag, len, ver, objLen, flags, sw, fuse, coff] =>
    ({ st with vconts := ⟨⟨pI tag, pI len, pI ver, pI objLen⟩, pI flags, pI sw, pI fuse, pI coff, [], none⟩ :: st.vconts }, "ok")
  | ["vimg", off, size, load, entry, flags, md, ilen, sa, hok] =>
    modVTop st (fun c => { c with images := c.images ++ [⟨pI off, pI size, pI load, pI entry, pI flags, pI md, pN ilen, pN sa, pB hok⟩] })
  | ["vsb", tag, len, ver, objLen] =>
    let nb : VBlock := ⟨false, 0, 0, true⟩
    modVTop st (fun c => { c with sb := some ⟨⟨pI tag, pI len, pI ver, pI objLen⟩, nb, nb, nb, nb, none⟩ })
  | ["vblk", which, present, off, len, sub] =>
    let b : VBlock := ⟨pB present, pI off, pN len, pB sub⟩
    modVTop st (fun c => { c with sb := c.sb.map (fun sb =>
      if which == "srk" then { sb with srk := b } else if which == "sig" then { sb with sig := b }
      else if which == "cert" then { sb with cert := b } else { sb with blob := b }) })
  | ["vblob", size, mode, dekLen, kbLen, kid, tag, len, ver, objLen] =>
    modVTop st (fun c => { c with sb := c.sb.map (fun sb =>
      { sb with blobData := some ⟨pI size, pI mode, (if dekLen == "none" then none else some (pN dekLen)), pN kbLen, pI kid,
                                  ⟨pI tag, pI len, pI ver, pI objLen⟩⟩ }) })
  | ["cverify"] =>
    match st.chip with
    | some ch =>
      let r := st.vconts.reverse.flatMap (verifyContainer ch st.ver)
      (st, "ok:" ++ (if r.isEmpty then "-" else "|".intercalate r))
    | none => (st, "bad-op")
  | ["verify"] =>
    match st.chip with
    | some ch =>
      let r := verifyImage ⟨st.ver, ch, st.vconts.reverse, st.voverlap⟩
      (st, "ok:" ++ (if r.isEmpty then "-" else "|".intercalate r))
    | none => (st, "bad-op")
  -- ------------------------------------------------------------ certificate
  | ["certenc", perms, pd, fuse, uuid, alg, hsh, ks, fl, sid, kd, sig] =>
    let ct : Cert := ⟨pN perms, pH pd, pN fuse, pH uuid, ⟨pN alg, pN hsh, pN ks, pN fl, pH kd⟩, pN sid, pH sig⟩
    match encodeCert crypto ct, encodeCertSigned crypto ct with
    | .ok b, .ok sd => (st, s!"ok:{toHex b} signed={toHex sd}")
    | .error e, _ => (st, e.tag)
    | _, .error e => (st, e.tag)
  | ["certparse", h] =>
    let hx := fun (b : List UInt8) => if b.isEmpty then "-" else toHex b
    match parseCert (pH h) with
    | some p =>
      (st, s!"ok:{p.length},{p.sigOff},{p.perms},{hx p.permData},{p.fuse},{hx p.uuid},{p.record.signAlg},{p.record.hashAlg},{p.record.keySize},{p.record.srkFlags},{hx p.record.params},{p.srkId},{hx p.keyData},{hx p.signature}")
    | none => (st, "none")
  | _ => (st, "bad-op")

def main : IO Unit := Driver.loopS ({} : St) step
