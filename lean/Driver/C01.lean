/-
Native driver of the MBI model (C01; C02 reuses the request parser).  One request per line:
  <op> k=v k=v …        values: decimal numbers, hex byte strings ("-" = empty), "none" for an absent option
ops
  export   shape= tzsize= app= [load= ver= sub= tz= hwk= ks= hkey= iv= reloc= cert= siglen= sig= fw= digest= bca= fcf=]
           -> ok:<hex> | E:spsdk | E:other
  parse    shape= tzsize= data= [dek= siglen= certsize=]           -> ok:<settings> | E:…
  reexport (parse arguments) sig=                                   -> export of the parsed object
  select   fixed= cands=<shape>:<tzsize>,… data=                    -> ok:<index into cands> | none
-/
import Driver.Proto
import SpsdkVerif.Model.Mbi
import SpsdkVerif.Model.MbiVx
import SpsdkVerif.Crypto.Exec
open SpsdkVerif Driver
open SpsdkVerif.Mbi hiding Bytes
open SpsdkVerif.Crypto (HashAlg execOps)
abbrev Bytes := SpsdkVerif.Misc.Bytes
open SpsdkVerif.Generated.MbiClasses (shapes)

namespace Driver.Mbi

abbrev KV := List (String × String)

def kvOf (toks : List String) : KV :=
  toks.filterMap (fun t => match t.splitOn "=" with
    | [k, v] => some (k, v)
    | _ => none)

def KV.get? (kv : KV) (k : String) : Option String := (kv.find? (·.1 == k)).map (·.2)
def KV.nat (kv : KV) (k : String) (d : Nat := 0) : Nat := ((kv.get? k).bind parseNat).getD d
def KV.hex (kv : KV) (k : String) : Bytes := ((kv.get? k).bind parseHex).getD []
def KV.optHex (kv : KV) (k : String) : Option Bytes :=
  match kv.get? k with
  | none => none
  | some "none" => none
  | some v => parseHex v

def clsOf (kv : KV) : Option Cls :=
  match shapes[kv.nat "shape" 9999]? with
  | some (t, ms) => some ⟨t, ms, kv.nat "tzsize"⟩
  | none => none

def tzOf (s : String) : TzCfg :=
  if s == "d" then .disabled else if s == "e" then .enabled
  else match s.splitOn ":" with
    | ["c", h] => .custom ((parseHex h).getD [])
    | _ => .enabled

def relocOf (s : String) : Option (List RelocEntry) :=
  if s == "none" then none
  else if s == "-" then some []
  else some ((s.splitOn ",").filterMap (fun e => match e.splitOn ":" with
    | [h, d] => some ⟨(parseHex h).getD [], (parseNat d).getD 0⟩
    | _ => none))

def digestOf (s : String) : Option HashAlg :=
  if s == "sha256" then some .sha256 else if s == "sha384" then some .sha384
  else if s == "sha512" then some .sha512 else none

def cfgOf (kv : KV) : Cfg :=
  { app := kv.hex "app", loadAddress := kv.nat "load", imageVersion := kv.nat "ver", subType := kv.nat "sub",
    tz := tzOf ((kv.get? "tz").getD "e"), hwKey := kv.nat "hwk" == 1, keyStore := kv.optHex "ks", hmacKey := kv.optHex "hkey",
    ctrIv := kv.hex "iv", reloc := relocOf ((kv.get? "reloc").getD "none"), cert := kv.hex "cert", sigLen := kv.nat "siglen",
    fwVersion := kv.nat "fw", digest := digestOf ((kv.get? "digest").getD "none"), bca := kv.optHex "bca", fcf := kv.optHex "fcf" }

def hexOr (b : Bytes) : String := if b.isEmpty then "-" else toHex b
def optHexStr : Option Bytes → String
  | none => "none" | some b => hexOr b

def tzStr : TzCfg → String
  | .disabled => "d" | .enabled => "e" | .custom d => "c:" ++ hexOr d

def digestStr : Option HashAlg → String
  | some .sha256 => "sha256" | some .sha384 => "sha384" | some .sha512 => "sha512" | _ => "none"

def relocStr : Option (List RelocEntry) → String
  | none => "none"
  | some [] => "-"
  | some es => ",".intercalate (es.map (fun e => hexOr e.image ++ ":" ++ toString e.dst))

def parsedStr (p : Parsed) : String :=
  s!"app={optHexStr p.app};load={p.loadAddress};ver={p.imageVersion};sub={p.subType};tz={tzStr p.tz};hwk={if p.hwKey then 1 else 0};" ++
  s!"ks={optHexStr p.keyStore};iv={hexOr p.ctrIv};reloc={relocStr p.reloc};cert={optHexStr (p.cert.map (·.bytes))};" ++
  s!"fw={p.fwVersion};digest={digestStr p.digest};bca={optHexStr p.bca};fcf={optHexStr p.fcf}"

def envOf (kv : KV) : Env :=
  { sigSize := fun _ => kv.nat "siglen", certV21Size := fun _ => kv.nat "certsize", certOk := fun _ => true }

def step (toks : List String) : String :=
  match toks with
  | op :: rest =>
    let kv := kvOf rest
    match clsOf kv with
    | none =>
      if op == "vxexport" || op == "vxparse" || op == "vxthm" then
        -- mc56 / mwct ("Vx") images: Model/MbiVx.lean
        let k : Vx.Kind := match kv.get? "kind" with | some "crc" => .crc | some "signed" => .signed | _ => .plain
        let cfg : Vx.Cfg := { app := kv.hex "app", lifecycle := kv.nat "lifecycle" 255, fwVersion := kv.nat "fw", cert := kv.hex "cert",
                              certHash := kv.hex "certhash", addHash := kv.nat "addhash" == 1, justHeader := kv.nat "jh" == 1 }
        let sig := kv.hex "sig"
        let pstr := fun (p : Vx.Parsed) => s!"app={hexOr p.app};lifecycle={p.lifecycle};fw={p.fwVersion}"
        if op == "vxexport" then resLine toHex (Vx.exportImage execOps k cfg (fun _ => sig))
        else if op == "vxparse" then resLine pstr (Vx.parseImage k (kv.hex "data"))
        else
          let b := fun (x : Bool) => if x then "1" else "0"
          match Vx.exportImage execOps k cfg (fun _ => sig) with
          | .error e => s!"wf={b (Vx.cfgWF k cfg)} export={e.tag}"
          | .ok e =>
            let app := SpsdkVerif.Mbi.align4 cfg.app
            let frame := cfg.justHeader || (e.length == app.length
              && (List.range e.length).all (fun i => Vx.owned k cfg i || e[i]? == app[i]?))
            let rt := match Vx.parseImage k e with
              | .ok p => p.app == e && p.fwVersion == (if k == .signed then cfg.fwVersion else 0)
                  && p.lifecycle == (if cfg.lifecycle == 255 then (app.getD 1036 0).toNat else cfg.lifecycle)
              | .error _ => false
            s!"wf={b (Vx.cfgWF k cfg)} frame={b frame} rt={b rt}"
      else if op == "select" then
        let cands := ((kv.get? "cands").getD "").splitOn ","
        let cls := cands.filterMap (fun s => match s.splitOn ":" with
          | [a, b] => (match shapes[(parseNat a).getD 9999]? with
              | some (t, ms) => some (⟨t, ms, (parseNat b).getD 0⟩ : Cls)
              | none => none)
          | _ => none)
        let fixed : Int := ((kv.get? "fixed").bind parseInt).getD (-1)
        match selectClass fixed cls (kv.hex "data") with
        | some c => (match cls.findIdx? (· == c) with | some i => s!"ok:{i}" | none => "none")
        | none => "none"
      else "bad-shape"
    | some c =>
      if op == "export" then
        let sig := kv.hex "sig"
        resLine toHex (exportImage execOps c (cfgOf kv) (fun _ => sig))
      else if op == "parse" || op == "mparse" then
        resLine parsedStr (parseImage execOps (envOf kv) c (kv.optHex "dek") (kv.hex "data"))
      else if op == "thm" then
        -- evaluate the hypotheses and conclusions of the C01 theorems on this concrete case (instance check)
        let cfg := cfgOf kv
        let sig := kv.hex "sig"
        let sig2 := sig.map (· ^^^ 0x5A)
        let env := envOf kv
        let dek := kv.optHex "dek"
        let b := fun (x : Bool) => if x then "1" else "0"
        match exportImage execOps c cfg (fun _ => sig) with
        | .error e => s!"cwf={b (ClassWF c)} wf={b (cfgWF c cfg)} export={e.tag}"
        | .ok e =>
          let rt := parseImage execOps env c dek e == .ok (canon c cfg dek)
          let re := match exportImage execOps c (canon c cfg dek).toCfg (fun _ => sig2) with
            | .error _ => false
            | .ok e2 => (match sigOffset c cfg e with
                | none => e == e2
                | some o => e.length == e2.length && e.take o == e2.take o && e.drop (o + cfg.sigLen) == e2.drop (o + cfg.sigLen))
          let hdr := rd32 e 0x20 == (if c.zeroTotalLength then 0 else e.length) && rd32 e 0x24 == flagsOf c cfg
            && rd32 e 0x34 == (if c.hasAttr .load_address then cfg.loadAddress else 0)
          let tl := e.length == (totalLen c cfg).toNat + (if c.signKind == .rsa then cfg.sigLen else 0)
            + (if c.family == some .encrypted then 72 else 0)
          s!"cwf={b (ClassWF c)} wf={b (cfgWF c cfg)} rt={b rt} re={b re} hdr={b hdr} tl={b tl}"
      else if op == "tzcfg" then
        -- configuration path: what `load_from_config` makes of the TrustZone keys (en = a|t|f, pf = a|e|f:<hex>)
        let en : Option Bool := match kv.get? "en" with | some "t" => some true | some "f" => some false | _ => none
        let pfs := (kv.get? "pf").getD "a"
        let pf : Option (Option Bytes) := if pfs == "a" then none else if pfs == "e" then some none
          else some (some ((parseHex ((pfs.drop 2).replace "-" "")).getD []))
        let k : TzKeys := { enable := en, preset := pf }
        let opt := c.tzLoader == some .Mbi_MixinTrustZone
        let r := match tzOfConfig c k with
          | .error e => "E:" ++ e.tag
          | .ok none => "none"
          | .ok (some t) => tzStr t
        s!"{r};loader={repr c.tzLoader};req={tzRequestedTag opt k}"
      else if op == "reexport" then
        match parseImage execOps (envOf kv) c (kv.optHex "dek") (kv.hex "data") with
        | .error e => "parse:" ++ e.tag
        | .ok p => let sig := kv.hex "sig"; resLine toHex (exportImage execOps c p.toCfg (fun _ => sig))
      else "bad-op"
  | [] => "bad-op"

end Driver.Mbi

def main : IO Unit := Driver.loop Driver.Mbi.step
