/-
Native driver for C05 (Secure Binary 3.1).  Stateful line protocol (one answer line per request):

  new <hashLen> <fw> <flags> <ts> <descHex> <isNxp> <enc> <pckHex> <rights> <certHex>   -> ok | E:spsdk | E:other
  add <cmd>              (constructor + add_command)                                    -> ok | E:spsdk
  export <sigHex>        (the signature bytes of this call: randomised by design)       -> ok:<fileHex> | E:other
  rom <pckHex> <rights> <enc> <rotkhHex> <fileHex>
        -> ok <hdr> | <cmd>;<cmd>;… | <coord> <pub> <msg> <sig>;… | <start>,<len> …     or  rej:<RomErr>
  kdf <keyHex> <const> <rights> <mode> <keyLen>      (model, generated constants)       -> <hex>
  romkdf <keyHex> <const> <rights> <blk> <keyBits>   (ROM side, hand-written)           -> <hex>
  enc <cmd>              (constructor + export)                                         -> ok:<hex> | E:spsdk | E:other
  parse <hex>                                                                           -> ok <cmd> | <restHex>  or rej:<RomErr>
  kdk <pckHex> <ts> <keyLen> <rights>       (KeyDerivator.__init__ through the generated call site)   -> <hex>
  blk <kdkHex> <n> <keyLen> <rights>        (KeyDerivator.get_block_key through the generated call site) -> <hex>
  expfull <certSignerHex> <providerPubHex> <sigHex> <overrideHex|->   (validate() + export(cert_block=override))  -> ok:<fileHex> | E:spsdk | E:other

<cmd> ::= erase a l m | load a m hex | execute a | call a | fuses a hex | ifr a hex | cmac a m hex
        | copy a l dst mf mt | hashlock a m hex | keyblob off kw hex | cfgmem a m | fill a l p | fwcheck v cid | reset

Signatures are not computed here: `export` takes the signature bytes as input, `rom` runs the loader with
`verify := true` and prints the verification obligations for the harness to discharge.
-/
import Driver.Proto
import SpsdkVerif.Model.Sb31
import SpsdkVerif.Model.Sb31Ext
import SpsdkVerif.Crypto.Exec
open SpsdkVerif Driver
open SpsdkVerif.Sb31 SpsdkVerif.Crypto

def parseCmdToks : List String → Option Cmd
  | ["erase", a, l, m] => do pure (.erase (← parseNat a) (← parseNat l) (← parseNat m))
  | ["load", a, m, d] => do pure (.load (← parseNat a) (← parseHex d) (← parseNat m))
  | ["execute", a] => do pure (.execute (← parseNat a))
  | ["call", a] => do pure (.call (← parseNat a))
  | ["fuses", a, d] => do pure (.progFuses (← parseNat a) (← parseHex d))
  | ["ifr", a, d] => do pure (.progIfr (← parseNat a) (← parseHex d))
  | ["cmac", a, m, d] => do pure (.loadCmac (← parseNat a) (← parseHex d) (← parseNat m))
  | ["copy", a, l, dst, mf, mt] => do
    pure (.copy (← parseNat a) (← parseNat l) (← parseNat dst) (← parseNat mf) (← parseNat mt))
  | ["hashlock", a, m, d] => do pure (.loadHashLocking (← parseNat a) (← parseHex d) (← parseNat m))
  | ["keyblob", off, kw, d] => do pure (.loadKeyBlob (← parseNat off) (← parseHex d) (← parseNat kw))
  | ["cfgmem", a, m] => do pure (.configureMemory (← parseNat a) (← parseNat m))
  | ["fill", a, l, p] => do pure (.fillMemory (← parseNat a) (← parseNat l) (← parseNat p))
  | ["fwcheck", v, cid] => do pure (.fwVersionCheck (← parseNat v) (← parseNat cid))
  | ["reset"] => some .reset
  | _ => none

def hx (b : List UInt8) : String := if b.isEmpty then "-" else toHex b

def cmdStr : Cmd → String
  | .erase a l m => s!"erase {a} {l} {m}"
  | .load a d m => s!"load {a} {m} {hx d}"
  | .execute a => s!"execute {a}"
  | .call a => s!"call {a}"
  | .progFuses a d => s!"fuses {a} {hx d}"
  | .progIfr a d => s!"ifr {a} {hx d}"
  | .loadCmac a d m => s!"cmac {a} {m} {hx d}"
  | .copy a l dst mf mt => s!"copy {a} {l} {dst} {mf} {mt}"
  | .loadHashLocking a d m => s!"hashlock {a} {m} {hx d}"
  | .loadKeyBlob off d kw => s!"keyblob {off} {kw} {hx d}"
  | .configureMemory a m => s!"cfgmem {a} {m}"
  | .fillMemory a l p => s!"fill {a} {l} {p}"
  | .fwVersionCheck v cid => s!"fwcheck {v} {cid}"
  | .reset => "reset"

/-- the model side: signatures are an input (`sign … r = r`) -/
def modelOps : CryptoOps := { execOps with sign := fun _ _ _ r => r }
/-- the ROM side: signature checks are emitted as obligations instead of being evaluated -/
def romOps : CryptoOps := { execOps with verify := fun _ _ _ _ => true }

def hdrStr (h : Header) : String :=
  s!"{h.flags} {h.blockCount} {h.blockSize} {h.timestamp} {h.fwVersion} {h.totalLength} {h.imageType} {h.certOffset} {hx h.description}"

def obStr (o : Rom.SigOb) : String := s!"{o.coord} {hx o.pub} {hx o.msg} {hx o.sig}"

def stepLine (st : Option ObjState) : List String → Option ObjState × String
  | ["new", hl, fw, fl, ts, desc, nxp, enc, pck, rights, cert] =>
    match parseNat hl, parseNat fw, parseNat fl, parseNat ts, parseHex desc, parseBool nxp, parseBool enc,
          parseHex pck, parseNat rights, parseHex cert with
    | some hl, some fw, some fl, some ts, some desc, some nxp, some enc, some pck, some rights, some cert =>
      let cfg : Cfg := { hashLen := hl, fwVersion := fw, flags := fl, timestamp := ts, description := desc,
                         isNxp := nxp, encrypted := enc, pck := pck, rights := rights, cert := cert, sk := [] }
      (match newObj modelOps cfg with
       | .ok s => (some s, "ok")
       | .error e => (none, e.tag))
    | _, _, _, _, _, _, _, _, _, _ => (st, "bad-op")
  | "add" :: toks =>
    match st, parseCmdToks toks with
    | some s, some cmd =>
      (match newCmd cmd with
       | .ok cmd => (some (addCmd s cmd), "ok")
       | .error e => (some s, e.tag))
    | _, _ => (st, "bad-op")
  | ["export", sig] =>
    match st, parseHex sig with
    | some s, some sig =>
      (match exportRes modelOps s sig with
       | .ok (s', out) => (some s', "ok:" ++ toHex out)
       | .error e => (some s, e.tag))
    | _, _ => (st, "bad-op")
  | ["rom", pck, rights, enc, rotkh, file] =>
    match parseHex pck, parseNat rights, parseBool enc, parseHex rotkh, parseHex file with
    | some pck, some rights, some enc, some rotkh, some file =>
      (match Rom.romLoad romOps ⟨pck, rights, enc, rotkh⟩ file with
       | .ok r =>
         let hl := r.hdr.blockSize - 260
         (st, "ok " ++ hdrStr r.hdr ++ " | " ++ ";".intercalate (r.cmds.map cmdStr) ++ " | " ++
              ";".intercalate (r.obligations.map obStr) ++ " | " ++
              " ".intercalate ((Rom.coverage r.hdr hl).map (fun p => s!"{p.1},{p.2}")))
       | .error e => (st, "rej:" ++ e.name))
    | _, _, _, _, _ => (st, "bad-op")
  | ["kdf", key, const, rights, mode, keyLen] =>
    match parseHex key, parseNat const, parseNat rights, parseNat mode, parseNat keyLen with
    | some key, some const, some rights, some mode, some keyLen => (st, hx (deriveKey execOps key const rights mode keyLen))
    | _, _, _, _, _ => (st, "bad-op")
  | ["romkdf", key, const, rights, blk, keyBits] =>
    match parseHex key, parseNat const, parseNat rights, parseBool blk, parseNat keyBits with
    | some key, some const, some rights, some blk, some keyBits => (st, hx (Rom.kdf execOps key const rights blk keyBits))
    | _, _, _, _, _ => (st, "bad-op")
  | ["kdk", pck, ts, keyLen, rights] =>
    match parseHex pck, parseNat ts, parseNat keyLen, parseNat rights with
    | some pck, some ts, some keyLen, some rights =>
      (st, hx (deriveVia execOps (Generated.Sb31Consts.kdkCall pck ts keyLen rights)))
    | _, _, _, _ => (st, "bad-op")
  | ["blk", kdk, n, keyLen, rights] =>
    match parseHex kdk, parseNat n, parseNat keyLen, parseNat rights with
    | some kdk, some n, some keyLen, some rights =>
      (st, hx (deriveVia execOps (Generated.Sb31Consts.blkCall kdk n keyLen rights)))
    | _, _, _, _ => (st, "bad-op")
  | ["expfull", signer, prov, sig, ov] =>
    match st, parseHex signer, parseHex prov, parseHex sig, (if ov == "-" then some none else if ov == "empty" then some (some []) else (parseHex ov).map some) with
    | some s, some signer, some prov, some sig, some ov =>
      (match exportFull { modelOps with pubOf := fun _ => prov } signer s ov sig with
       | .ok (s', out) => (some s', "ok:" ++ toHex out)
       | .error e => (some s, e.tag))
    | _, _, _, _, _ => (st, "bad-op")
  | "enc" :: toks =>
    match parseCmdToks toks with
    | some cmd =>
      (match newCmd cmd with
       | .ok cmd => (st, if cmd.inRange then "ok:" ++ toHex (encCmd cmd) else PyErr.other.tag)
       | .error e => (st, e.tag))
    | none => (st, "bad-op")
  | ["parse", h] =>
    match parseHex h with
    | some b =>
      (match Rom.parseCmd b with
       | .ok (cmd, rest) => (st, "ok " ++ cmdStr cmd ++ " | " ++ hx rest)
       | .error e => (st, "rej:" ++ e.name))
    | none => (st, "bad-op")
  | _ => (st, "bad-op")

def main : IO Unit := Driver.loopS (none : Option ObjState) stepLine
