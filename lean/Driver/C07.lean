/-
Native driver of the C07 (HAB container) model.  One request per line:

  build F START IVTOFF ILS ENTRY DCD XMCDFILE APP VER DEK NONCE MACLEN SIGDATA SIGCSF [CMD:DATA]...
        hex tokens ("-" empty, "N" = None); CMD = the command as exported before update_csf, DATA = its data block
        -> ok:<image hex>;<sha256 msgData>;<sha256 msgCsf>;<attempts>;<signed blocks>;<encrypted blocks>;shape=std|fast|none;vis=..;rt=..
  parse <image hex>            -> ok:flags,start,ivtoff|name@off=hex|...   or E:spsdk / E:other
  check <image hex> <dek|N>    -> ok:... report of Spec.HabRom.habCheck      or refused:<reason>
  cmd <hex>                    -> ok:<re-encoded hex>:<size>                 or none
  xmcd <file hex>              -> ok:<exported segment>                      or E:...
  nonce <n>                    -> ok:<nonce length>
  dcmd <hex>                   -> ok:<fields>:<re-encoded hex>:<size>        or E:spsdk / E:other   (parse_command, all classes)
  dcd <hex>                    -> ok:<param>:<fields|fields..>:<re-exported hex>:<header length>    or E:...  (SegDCD.parse)
  bdt <hex>                    -> ok:<start>,<length>,<plugin>:<re-exported hex>                     or E:...  (SegBDT.parse)
-/
import Driver.Proto
import SpsdkVerif.Model.Hab
import SpsdkVerif.Model.HabWF
import SpsdkVerif.Model.HabDcd
import SpsdkVerif.Model.HabGen
import SpsdkVerif.Spec.HabRom
import SpsdkVerif.Crypto.Exec
open SpsdkVerif Driver
open SpsdkVerif.Hab

def optHex (s : String) : Option (Option (List UInt8)) :=
  if s == "N" then some none else (parseHex s).map some

def hexOr (b : List UInt8) : String := if b.isEmpty then "-" else toHex b

def parseCmdTok (s : String) : Option CsfCmd :=
  match s.splitOn ":" with
  | [c, d] => do
    let cb ← parseHex c
    let cmd ← Cmd.decode cb
    let db ← optHex d
    pure { cmd := cmd, data := db }
  | _ => none

def blocksStr (bl : List Block) : String :=
  ",".intercalate (bl.map (fun b => s!"{b.base}:{b.start}:{b.size}"))

def sha (b : List UInt8) : String := toHex (Crypto.Sha.sha256 b)

def pairsStr (l : List (Nat × Nat)) : String := ",".intercalate (l.map (fun (a, b) => s!"{a}:{b}"))
def refStr : Option (Nat × Nat) → String
  | some (a, b) => s!"{a}:{b}"
  | none => "N"

def dcmdStr : HabDcd.DCmd → String
  | .writeData w o data => s!"W,{w},{o}," ++ "+".intercalate (data.map (fun (a, v) => s!"{a}={v}"))
  | .checkData w o a m count => s!"C,{w},{o},{a},{m}," ++ (match count with | some c => toString c | none => "N")
  | .init e data => s!"I,{e}," ++ "+".intercalate (data.map toString)
  | .other (.nop p) => s!"N,{p}"
  | .other (.unlock e f uid) => s!"U,{e},{f},{uid}"
  | .other (.set itm alg eng cfg) => s!"S,{itm},{alg},{eng},{cfg}"
  | .other c => "X," ++ toHex c.encode

def step : List String → String
  | ["dcmd", h] =>
    match parseHex h with
    | some d =>
      match HabDcd.DCmd.decodeR d with
      | .error e => e.tag
      | .ok c => s!"ok:{dcmdStr c}:{toHex c.encode}:{c.size}"
    | _ => "bad-op"
  | ["dcd", h] =>
    match parseHex h with
    | some d =>
      match HabDcd.dcdParse d with
      | .error e => e.tag
      | .ok (p, cmds) =>
        s!"ok:{p}:" ++ "|".intercalate (cmds.map dcmdStr) ++ s!":{toHex (HabDcd.dcdEncode p cmds)}:{HabDcd.dcdLen cmds}"
    | _ => "bad-op"
  | ["bdt", h] =>
    match parseHex h with
    | some d =>
      match HabDcd.bdtParse d with
      | .error e => e.tag
      | .ok (s, l, p) => s!"ok:{s},{l},{p}:{toHex (HabDcd.bdtEncode s l p)}"
    | _ => "bad-op"
  | "build" :: f :: st :: io :: ils :: en :: dcd :: xm :: app :: ver :: dek :: nonce :: ml :: sd :: sc :: cmds =>
    match parseNat f, parseNat st, parseNat io, parseNat ils, parseNat en, optHex dcd, optHex xm, parseHex app,
          parseNat ver, parseHex dek, parseHex nonce, parseNat ml, parseHex sd, parseHex sc, cmds.mapM parseCmdTok with
    | some f, some st, some io, some ils, some en, some dcd, some xm, some app, some ver, some dek, some nonce,
      some ml, some sd, some sc, some cmds =>
      let xmR : PyRes (Option (List UInt8)) := match xm with
        | none => .ok none
        | some file => (match xmcdLoad file with | .ok b => .ok (some b) | .error e => .error e)
      match xmR with
      | .error e => e.tag
      | .ok xmSeg =>
        let c : Cfg := { flags := f, start := st, ivtOff := io, ils := ils, entry := en, dcd := dcd, xmcd := xmSeg,
                         app := app, version := ver, cmds := cmds, dek := dek, nonce := nonce, macLen := ml }
        let signer : Signer := { data := fun _ => sd, csf := fun _ _ => sc }
        match build Crypto.execOps signer 8 c with
        | none => "none"
        | some b =>
          "ok:" ++ toHex (exportImage c b) ++ ";" ++ sha b.msgData ++ ";" ++ sha b.msgCsf ++ ";" ++ toString b.attempts
            ++ ";" ++ blocksStr (if isAuth c.flags then c.signedBlocks else []) ++ ";"
            ++ blocksStr (if isEnc c.flags then c.encryptedBlocks else [])
            ++ ";shape=" ++ (match genShape c with | some (_, true, _, _) => "fast" | some (_, false, _, _) => "std" | none => "none")
            ++ ";vis=" ++ boolStr (decide (AppVisible c b.app))
            ++ ";rt=" ++ boolStr (decide (parse (exportImage c b) = .ok (expectedParse c b)))
    | _, _, _, _, _, _, _, _, _, _, _, _, _, _, _ => "bad-op"
  | ["parse", img] =>
    match parseHex img with
    | none => "bad-op"
    | some d =>
      match parse d with
      | .error e => e.tag
      | .ok p => s!"ok:{p.flags},{p.start},{p.ivtOff}|" ++
          "|".intercalate (p.segs.map (fun s => s!"{s.name}@{s.offset}={hexOr s.bytes}"))
  | ["check", img, dek] =>
    match parseHex img, optHex dek with
    | some d, some k =>
      match Spec.HabRom.habCheck Crypto.execOps d k with
      | .error e => "refused:" ++ e.replace " " "_"
      | .ok r =>
        let srk := match r.srk with | some (a, b, i) => s!"{a}:{b}:{i}" | none => "N"
        let plain := match r.plain with | some p => sha p | none => "N"
        s!"ok:self={r.ivtSelf};start={r.start};csf={r.csfOff};hdr={r.hdrLen};srk={srk};csfcert={refStr r.csfCert};" ++
        s!"csfsig={refStr r.csfSig};imgcert={refStr r.imgCert};datasig={refStr r.dataSig};msgcsf={sha r.msgCsf};" ++
        s!"msgdata={sha r.msgData};auth={pairsStr r.authBlocks};dec={pairsStr r.decBlocks};nonce={hexOr r.nonce};" ++
        s!"mac={hexOr r.mac};plain={plain}"
    | _, _ => "bad-op"
  | ["cmd", h] =>
    match parseHex h with
    | none => "bad-op"
    | some d => match Cmd.decode d with
      | none => "none"
      | some c => s!"ok:{toHex c.encode}:{c.size}"
  | ["xmcd", h] =>
    match parseHex h with
    | none => "bad-op"
    | some d => resLine toHex (xmcdLoad d)
  | ["nonce", n] =>
    match parseNat n with
    | some n => s!"ok:{nonceLenN n}"
    | none => "bad-op"
  | _ => "bad-op"

def main : IO Unit := Driver.loop step
