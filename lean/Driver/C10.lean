import Driver.Proto
import SpsdkVerif.Model.Mboot
import SpsdkVerif.Model.Sdp
import SpsdkVerif.Model.MbootProps
open SpsdkVerif Driver
open SpsdkVerif.Mboot

/-! Native driver of the C10 model (see harness/props/C10.py for the line protocol). -/

structure St where
  host : Host := {}
  dev : Dev := { mem := [], maxPacket := 32 }
  shost : Sdp.Host := {}
  rom : Sdp.Rom := { mem := [] }

def hx (b : Bytes) : String := if b.isEmpty then "-" else toHex b

def joinOr (sep : String) (empty : String) (l : List String) : String :=
  if l.isEmpty then empty else sep.intercalate l

def valStr : Val → String
  | .unit => "ok:unit"
  | .none => "ok:none"
  | .bool b => "ok:" ++ boolStr b
  | .bytes b => "ok:b:" ++ hx b
  | .ints l => "ok:i:" ++ joinOr ";" "-" (l.map toString)
  | .int n => s!"ok:n:{n}"

def errStr : HErr → String
  | .timeout => "E:timeout"
  | .conn => "E:conn"
  | .abort => "E:abort"
  | .cmd s => s!"E:cmd:{s}"
  | .mboot => "E:mboot"
  | .spsdk => "E:spsdk"
  | .other => "E:other"
  | .fuel => "E:fuel"

def resStr : Except HErr Val → String
  | .ok v => valStr v
  | .error e => errStr e

def chunkStr (c : List Bytes) : String := joinOr "+" "-" (c.map hx)

def parseChunk (s : String) : Option (List Bytes) :=
  if s == "-" then some [] else (s.splitOn "+").mapM parseHex

def parseChunks (s : String) : Option (List (List Bytes)) :=
  if s == "." then some [] else (s.splitOn ",").mapM parseChunk

def parsePairs (s : String) : Option (List (Nat × Nat)) :=
  if s == "-" then some [] else (s.splitOn ";").mapM (fun kv =>
    match kv.splitOn "=" with
    | [k, v] => do let k ← k.toNat?; let v ← v.toNat?; pure (k, v)
    | _ => none)

def parseNats (s : String) : Option (List Nat) :=
  if s == "-" then some [] else (s.splitOn ";").mapM (·.toNat?)

def parseFaults (s : String) : Option (List (Nat × Bool × Nat)) :=
  if s == "-" then some [] else (s.splitOn ";").mapM (fun f =>
    match f.splitOn ":" with
    | [i, fin, st] => do let i ← i.toNat?; let fin ← parseBool fin; let st ← st.toNat?; pure (i, fin, st)
    | _ => none)

def scriptSize (cs : List (List Bytes)) : Nat :=
  cs.foldl (fun acc c => c.foldl (fun a r => a + r.length + 1) (acc + 1)) 0

def parseOp : List String → Option Op
  | ["open"] => some .open_
  | ["get_property", t, i] => do pure (.getProperty (← t.toNat?) (← i.toNat?))
  | ["set_property", t, v] => do pure (.setProperty (← t.toNat?) (← v.toNat?))
  | ["fill_memory", a, n, p] => do pure (.fillMemory (← a.toNat?) (← n.toNat?) (← p.toNat?))
  | ["flash_erase_region", a, n, m] => do pure (.eraseRegion (← a.toNat?) (← n.toNat?) (← m.toNat?))
  | ["flash_erase_all", m] => do pure (.eraseAll (← m.toNat?))
  | ["execute", a, g, s] => do pure (.execute (← a.toNat?) (← g.toNat?) (← s.toNat?))
  | ["call", a, g] => do pure (.call (← a.toNat?) (← g.toNat?))
  | ["flash_erase_all_unsecure"] => some .eraseAllUnsecure
  | ["configure_memory", a, m] => do pure (.configureMemory (← a.toNat?) (← m.toNat?))
  | ["reliable_update", a] => do pure (.reliableUpdate (← a.toNat?))
  | ["read_memory", a, n, m, f] => do pure (.readMemory (← a.toNat?) (← n.toNat?) (← m.toNat?) (← parseBool f))
  | ["write_memory", a, d, m] => do pure (.writeMemory (← a.toNat?) (← parseHex d) (← m.toNat?))
  | ["receive_sb_file", d, c] => do pure (.receiveSbFile (← parseHex d) (← parseBool c))
  | ["load_image", d] => do pure (.loadImage (← parseHex d))
  | ["flash_read_once", i, c] => do pure (.flashReadOnce (← i.toNat?) (← c.toNat?))
  | ["flash_program_once", i, d] => do pure (.flashProgramOnce (← i.toNat?) (← parseHex d))
  | ["efuse_read_once", i] => do pure (.efuseReadOnce (← i.toNat?))
  | ["efuse_program_once", i, v, c] => do pure (.efuseProgramOnce (← i.toNat?) (← v.toNat?) (← parseBool c))
  | ["flash_read_resource", a, n, o] => do pure (.flashReadResource (← a.toNat?) (← n.toNat?) (← o.toNat?))
  | ["kp_enroll"] => some .kpEnroll
  | ["kp_set_intrinsic_key", t, z] => do pure (.kpSetIntrinsicKey (← t.toNat?) (← z.toNat?))
  | ["kp_write_nonvolatile", m] => do pure (.kpWriteNonvolatile (← m.toNat?))
  | ["kp_read_nonvolatile", m] => do pure (.kpReadNonvolatile (← m.toNat?))
  | ["kp_set_user_key", t, d] => do pure (.kpSetUserKey (← t.toNat?) (← parseHex d))
  | ["kp_write_key_store", d] => do pure (.kpWriteKeyStore (← parseHex d))
  | ["kp_read_key_store"] => some .kpReadKeyStore
  | ["reset", r] => do pure (.reset (← parseBool r))
  | ["update_life_cycle", lc] => do pure (Op.updateLifeCycle (← lc.toNat?))
  | ["ele_message", a, c, ra, rc] => do pure (Op.eleMessage (← a.toNat?) (← c.toNat?) (← ra.toNat?) (← rc.toNat?))
  | ["tp_oem_set_master_share", a, b, c, d] => do
    pure (Op.tpOemSetMasterShare (← a.toNat?) (← b.toNat?) (← c.toNat?) (← d.toNat?))
  | ["tp_hsm_enc_blk", a, b, k, c, d, n, e, f] => do
    pure (Op.tpHsmEncBlk (← a.toNat?) (← b.toNat?) (← k.toNat?) (← c.toNat?) (← d.toNat?) (← n.toNat?) (← e.toNat?) (← f.toNat?))
  | ["fuse_program", a, d, m] => do pure (.fuseProgram (← a.toNat?) (← parseHex d) (← m.toNat?))
  | ["fuse_read", a, n, m] => do pure (.fuseRead (← a.toNat?) (← n.toNat?) (← m.toNat?))
  | _ => none

def phaseStr : Phase → String
  | .idle => "idle"
  | .recv t a r f => s!"recv:{t}:{a}:{r}:{f}"
  | .send t cs f => s!"send:{t}:{cs.length}:{f}"

def respStr (r : Resp) : String :=
  let k := match r.kind with
    | .generic => "generic" | .getProperty => "getProperty" | .readMemory => "readMemory"
    | .flashReadResource => "flashReadResource" | .flashReadOnce => "flashReadOnce" | .keyProv => "keyProv"
    | .trustProv => "trustProv" | .plain => "plain" | .noResponse => "noResponse"
  s!"ok:{k}:{r.tag}:{r.pc}:{r.status}:{r.cmdTag}:{r.length}:" ++ joinOr ";" "-" (r.values.map toString)

def rxItemStr : Except HErr RxItem → String
  | .ok (.resp r) => respStr r
  | .ok (.data b) => "ok:data:" ++ hx b
  | .error e => errStr e

def sdpValStr : Sdp.Val → String
  | .none => "ok:none"
  | .bool b => "ok:" ++ boolStr b
  | .bytes b => "ok:b:" ++ hx b
  | .int n => s!"ok:n:{n}"

def sdpResStr : Except Sdp.SErr Sdp.Val → String
  | .ok v => sdpValStr v
  | .error .conn => "E:conn"
  | .error (.cmd v) => s!"E:cmd:{v}"
  | .error .other => "E:other"
  | .error .fuel => "E:fuel"

def parseSdpOp : List String → Option Sdp.Op
  | ["read", a, n, f] => do pure (.read (← a.toNat?) (← n.toNat?) (← f.toNat?))
  | ["write", a, v, c, f] => do pure (.write (← a.toNat?) (← v.toNat?) (← c.toNat?) (← f.toNat?))
  | ["write_file", a, d] => do pure (.writeFile (← a.toNat?) (← parseHex d))
  | ["write_dcd", a, d] => do pure (.writeDcd (← a.toNat?) (← parseHex d))
  | ["write_csf", a, d] => do pure (.writeCsf (← a.toNat?) (← parseHex d))
  | ["skip_dcd"] => some .skipDcd
  | ["jump_and_run", a] => do pure (.jumpAndRun (← a.toNat?))
  | ["read_status"] => some .readStatus
  | ["sdps_write_file", nc, ps, d] => do pure (.sdpsWriteFile (← parseBool nc) (← ps.toNat?) (← parseHex d))
  | _ => none

def optStr : Option Nat → String
  | some v => toString v
  | none => "-"

def pvalStr (tag : Nat) : Except PyErr MbootProps.PVal → String
  | .error e => e.tag
  | .ok (.version v) => s!"ver:{optStr v.mark}:{v.major}:{v.minor}:{v.fixation}:{v.toInt}"
  | .ok (.word v) =>
    if tag = 7 then s!"word:{v}|tags:" ++ joinOr ";" "-" ((MbootProps.commandTagsOf MbootProps.allCommandTags v).map toString)
    else if tag = 2 then s!"word:{v}|per:" ++ joinOr ";" "-" ((MbootProps.peripheralsOf MbootProps.allPeripheryTags v).map toString)
    else if tag = 28 then s!"word:{v}|irq:{v % 256}:{v / 256 % 256}:{boolStr (v.testBit 31)}"
    else s!"word:{v}"
  | .ok (.bool v t) => s!"bool:{v}:{boolStr t}"
  | .ok (.regions r) => "regions:" ++ joinOr "," "-" (r.map (fun (q : Nat × Nat) => s!"{q.1}-{q.2}"))
  | .ok (.uid b) => "uid:" ++ hx b
  | .ok (.extMem e) => s!"ext:{e.value}:{optStr e.start}:{optStr e.totalSize}:{optStr e.pageSize}:{optStr e.sectorSize}:{optStr e.blockSize}"
  | .ok (.fuses f) => "fuses:" ++ joinOr "," "-" (f.map (fun (q : Nat × Bool) => s!"{q.1}={if q.2 then 1 else 0}"))
  | .ok (.words l) => "words:" ++ joinOr ";" "-" (l.map toString)

def stepLine (st : St) : List String → St × String
  | ["propval", tag, raw] =>
    match tag.toNat?, parseNats raw with
    | some tag, some raw => (st, pvalStr tag (MbootProps.parseProperty tag raw))
    | _, _ => (st, "bad-op")
  | ["verle", a, b] =>
    match a.toNat?, b.toNat? with
    | some a, some b => (st, boolStr ((MbootProps.Version.fromInt a).le (MbootProps.Version.fromInt b)))
    | _, _ => (st, "bad-op")
  | ["sdp_cfg", ce, tr] =>
    match parseBool ce with
    | some ce => ({ st with shost := { ce, tr := if tr == "hid" then .hid else .serial } }, "ok")
    | none => (st, "bad-op")
  | ["sdp_rom", mem, locked, err, forced] =>
    match parseHex mem, parseBool locked, err.toNat?, parsePairs forced with
    | some mem, some locked, some err, some forced => ({ st with rom := { mem, locked, errStatus := err, forced } }, "ok")
    | _, _, _, _ => (st, "bad-op")
  | ["sdp_live"] =>
    ({ st with shost := { st.shost with peer := if st.shost.tr == .hid then .liveHid { rom := st.rom } else .live st.rom } }, "ok")
  | ["sdp_script", cs] =>
    match parseChunks cs with
    | some cs => ({ st with shost := { st.shost with peer := .script cs, fuelHint := scriptSize cs } }, "ok")
    | none => (st, "bad-op")
  | "sdp_op" :: rest =>
    match parseSdpOp rest with
    | some op =>
      let (r, h) := Sdp.runOp op st.shost
      let tx := joinOr "," "." (h.txRev.reverse.map hx)
      let rel := joinOr "," "." (h.relRev.reverse.map chunkStr)
      ({ st with shost := { h with txRev := [], relRev := [] } },
        s!"{sdpResStr r} st={h.status} hab={h.hab} cs={h.cmdStatus} tx={tx} rel={rel}")
    | none => (st, "bad-op")
  | ["sdp_state"] =>
    match st.shost.peer with
    | .live r => (st, s!"mem={hx r.mem} ncmd={r.ncmd} jumped={r.jumped.getD 0} rx={hx st.shost.rx}")
    | .liveHid x => (st, s!"mem={hx x.rom.mem} ncmd={x.rom.ncmd} jumped={x.rom.jumped.getD 0} rx={chunkStr st.shost.rxR}")
    | _ => (st, s!"norom rx={hx st.shost.rx}")
  | ["sdp_cmdbytes", t, a, f, c, v] =>
    match t.toNat?, a.toNat?, f.toNat?, c.toNat?, v.toNat? with
    | some t, some a, some f, some c, some v =>
      let cmd : Sdp.Cmd := ⟨t, a, f, c, v⟩
      (st, if cmd.fits then "ok:" ++ hx cmd.encode else "E:other")
    | _, _, _, _, _ => (st, "bad-op")
  | ["cfg", tr, usb, part, ce] =>
    match parseBool usb, parseBool part, parseBool ce with
    | some usb, some part, some ce =>
      let cfg : Cfg := { tr := if tr == "hid" then .hid else .serial, usb, partialReads := part, cmdExc := ce }
      ({ st with host := { cfg } }, "ok")
    | _, _, _ => (st, "bad-op")
  | ["dev", mem, mp, pad, dummy, props, rw, faults] =>
    match parseHex mem, mp.toNat?, pad.toNat?, dummy.toNat?, parsePairs props, parseNats rw, parseFaults faults with
    | some mem, some mp, some pad, some dummy, some props, some rw, some faults =>
      ({ st with dev := { mem, maxPacket := mp, hidPad := pad, pingDummy := dummy, props, rwProps := rw, faults } }, "ok")
    | _, _, _, _, _, _, _ => (st, "bad-op")
  -- further device state: fuses, locked fuse indices, resource, key store, image mode, abort-after (or "-")
  | ["dev2", fuses, locked, res, ks, img, ab] =>
    match parsePairs fuses, parseNats locked, parseHex res, parseHex ks, parseBool img with
    | some fuses, some locked, some res, some ks, some img =>
      ({ st with dev := { st.dev with fuses, lockedFuses := locked, resource := res, keyStore := ks, imageMode := img,
                                      abortAfter := ab.toNat? } }, "ok")
    | _, _, _, _, _ => (st, "bad-op")
  | ["live"] => ({ st with host := { st.host with peer := .live st.dev, fuelHint := 0 } }, "ok")
  | ["script", cs] =>
    match parseChunks cs with
    | some cs => ({ st with host := { st.host with peer := .script cs, fuelHint := scriptSize cs } }, "ok")
    | none => (st, "bad-op")
  | "op" :: rest =>
    match parseOp rest with
    | some op =>
      let (r, h) := runOp op st.host
      let tx := joinOr "," "." (h.txRev.reverse.map hx)
      let rel := joinOr "," "." (h.relRev.reverse.map chunkStr)
      ({ st with host := { h with txRev := [], relRev := [], reads := 0 } },
        s!"{resStr r} st={h.status} rd={h.reads} tx={tx} rel={rel}")
    | none => (st, "bad-op")
  | ["state"] =>
    let h := st.host
    let d := match h.peer with | .live d => some d | _ => none
    let ds := match d with
      | some d => s!"mem={hx d.mem} sb={hx d.sb} ncmd={d.ncmd} phase={phaseStr d.phase} log=" ++
          joinOr "|" "-" (d.log.map (fun (e : Nat × List Nat) => s!"{e.1}:" ++ joinOr ";" "-" (e.2.map toString))) ++
          s!" img={hx d.image} ks={hx d.keyStore} fuses=" ++
          joinOr ";" "-" ((d.fuses.mergeSort (fun a b => a.1 ≤ b.1)).map (fun (e : Nat × Nat) => s!"{e.1}={e.2}")) ++
          " keys=" ++ joinOr ";" "-" ((d.userKeys.mergeSort (fun a b => a.1 ≤ b.1)).map (fun (e : Nat × Bytes) => s!"{e.1}={hx e.2}"))
      | none => "nodev"
    let mps := match h.mps with | some v => toString v | none => "none"
    (st, s!"mps={mps} opened={boolStr h.opened} eda={boolStr h.eda} rxB={hx h.rxB} rxR={chunkStr h.rxR} {ds}")
  -- stateless codec endpoints
  | ["crc", d] => match parseHex d with | some d => (st, toString (crc16 d)) | none => (st, "bad-op")
  | ["mkframe", t, d] => match t.toNat?, parseHex d with
    | some t, some d => (st, hx (mkFrame t d)) | _, _ => (st, "bad-op")
  | ["mkreport", t, d] => match t.toNat?, parseHex d with
    | some t, some d => (st, hx (mkReport t d)) | _, _ => (st, "bad-op")
  | ["hidparse", d] => match parseHex d with
    | some d => (st, rxItemStr (hidParseFrame d)) | none => (st, "bad-op")
  | ["serialread", part, d] => match parseBool part, parseHex d with
    | some part, some d =>
      let h : Host := { cfg := { partialReads := part }, rxB := d }
      let (r, h') := serialRead h
      (st, rxItemStr r ++ s!" rest={hx h'.rxB} tx=" ++ joinOr "," "." (h'.txRev.reverse.map hx))
    | _, _ => (st, "bad-op")
  | ["parseresp", d] => match parseHex d with
    | some d => (st, match parseCmdResponse d with | .ok r => respStr r | .error e => errStr e) | none => (st, "bad-op")
  | "cmdbytes" :: t :: f :: ps =>
    match t.toNat?, f.toNat?, ps.mapM (·.toNat?) with
    | some t, some f, some ps => (st, match (CmdPkt.toBytes ⟨t, f, ps⟩) with | .ok b => "ok:" ++ hx b | .error e => errStr e)
    | _, _, _ => (st, "bad-op")
  | ["split", n, d] => match n.toNat?, parseHex d with
    | some n, some d => (st, joinOr "," "." ((split n d).map hx)) | _, _ => (st, "bad-op")
  | _ => (st, "bad-op")

def main : IO Unit := Driver.loopS ({} : St) stepLine
