import Driver.Proto
import SpsdkVerif.Model.Registers
import SpsdkVerif.Model.RegistersP3
import SpsdkVerif.Generated.RegProc
open SpsdkVerif Driver
open SpsdkVerif.Regs

structure St where
  rf : RegFile := []
  little : Bool := false
  md : Meta := []          -- hidden bit-fields, shared enum names, alternative widths (config_model / alt streams)
  saved : RegFile := []    -- `mark` / `restore`: the freshly loaded object
  names : List RegName := []   -- phase 3: look-up table (`names`)
  offs : List Nat := []        -- phase 3: byte offsets of the registers (`offs`)

def parseCsvNat (s : String) : List Nat :=
  if s == "-" then [] else (s.splitOn ",").filterMap (·.toNat?)

def resStr : PyRes Nat → String
  | .ok v => toString v
  | .error e => e.tag

/-- `alts = []` (every register of the older streams): `getAlt [] = get` (theorem `getAlt_nil`) -/
def dumpReg (r : Reg) (alts : List Nat) : String :=
  let fs := r.fields.map (fun f => resStr (fieldGet r f))
  s!"{resStr (r.getAlt alts true)}/{resStr (r.getAlt alts false)}[{",".intercalate fs}]"

def dump (st : St) : String :=
  " ".intercalate ((List.range st.rf.length).map (fun i => dumpReg (st.rf.getD i {width := 0}) (st.md.reg i).alts))

/-! configuration encoding (one token): entries joined by ';', entry = `t<i>=<c>` | `s<i>.<k>=<c>`,
    `<c>` = `v<num>` | `f<j>:<x>,<j>:<x>…` (`f` alone = empty dict), `<x>` = `e<name id>` | `n<num>` | `r<num>`; `-` = empty -/
def cfgValStr : CfgVal → String
  | .enumName n => s!"e{n}"
  | .num v => s!"n{v}"
  | .rawNum v => s!"r{v}"

def regCfgStr : RegCfg → String
  | .value v => s!"v{v}"
  | .fields l => "f" ++ ",".intercalate (l.map (fun (j, c) => s!"{j}:{cfgValStr c}"))

def refStr : RegRef → String
  | .top i => s!"t{i}"
  | .sub i k => s!"s{i}.{k}"

def cfgStr (c : Cfg) : String :=
  if c.isEmpty then "-" else ";".intercalate (c.map (fun (r, x) => refStr r ++ "=" ++ regCfgStr x))

def parseCfgVal (s : String) : Option CfgVal :=
  match s.toList with
  | 'e' :: rest => (String.ofList rest).toNat?.map CfgVal.enumName
  | 'n' :: rest => (String.ofList rest).toNat?.map CfgVal.num
  | 'r' :: rest => (String.ofList rest).toNat?.map CfgVal.rawNum
  | _ => none

def parseRegCfg (s : String) : Option RegCfg :=
  match s.toList with
  | 'v' :: rest => (String.ofList rest).toNat?.map RegCfg.value
  | 'f' :: rest =>
    if rest.isEmpty then some (.fields []) else
    let items := (String.ofList rest).splitOn ","
    let parsed := items.map (fun it => match it.splitOn ":" with
      | [j, x] => (match j.toNat?, parseCfgVal x with | some j, some x => some (j, x) | _, _ => none)
      | _ => none)
    if parsed.all Option.isSome then some (.fields (parsed.filterMap id)) else none
  | _ => none

def parseRef (s : String) : Option RegRef :=
  match s.toList with
  | 't' :: rest => (String.ofList rest).toNat?.map RegRef.top
  | 's' :: rest => (match (String.ofList rest).splitOn "." with
    | [i, k] => (match i.toNat?, k.toNat? with | some i, some k => some (.sub i k) | _, _ => none)
    | _ => none)
  | _ => none

def parseCfg (s : String) : Option Cfg :=
  if s == "-" then some [] else
  let parsed := (s.splitOn ";").map (fun e => match e.splitOn "=" with
    | [r, c] => (match parseRef r, parseRegCfg c with | some r, some c => some (r, c) | _, _ => none)
    | _ => none)
  if parsed.all Option.isSome then some (parsed.filterMap id) else none

/-- load-time initialisation of one register as `Register.create_from_spec` does it -/
def initReg (r : Reg) : Reg :=
  let r0 : Reg := if r.resetRaw != 0 then (match r.set r.resetRaw true with | .ok x => x | .error _ => r) else r
  let (r1, fs) := r.fields.foldl (fun (acc : Reg × List Field) f =>
    let (cur, done) := acc
    if f.reset != 0 then
      let cur' := match fieldSet cur f f.reset true false with | .ok x => x | .error _ => cur
      (cur', done ++ [f])
    else
      let rv := match fieldGet cur f with | .ok v => v | .error _ => 0
      (cur, done ++ [{ f with reset := rv }])) (r0, [])
  { r1 with fields := fs }


/-! phase 3: look-up table `names <reg>;<reg>…`; a register is four '/'-separated parts: name, uid, aliases (csv or a dash),
    group members (`<name>.<uid>` joined by '+', or a dash) -/
def parseRegName (s : String) : Option RegName :=
  match s.splitOn "/" with
  | [n, u, al, subs] =>
    match n.toNat?, u.toNat? with
    | some n, some u =>
      let ss := if subs == "-" then [] else (subs.splitOn "+").filterMap (fun x => match x.splitOn "." with
        | [a, b] => (match a.toNat?, b.toNat? with | some a, some b => some (a, ([] : List Nat), b) | _, _ => none)
        | _ => none)
      some { name := n, uid := u, aliases := parseCsvNat al, subs := ss }
    | _, _ => none
  | _ => none

def refOptStr : Option RegRef → String
  | some r => refStr r
  | none => "none"

/-- the dispatch table of `from_spec`, taken from the generated processor table -/
def procTable : List (String × List String) :=
  (SpsdkVerif.Generated.RegProc.procs.filter (fun p => SpsdkVerif.Generated.RegProc.dispatch.contains p.name)).map (fun p => (p.name, p.keys))

def procStr : Option (String × List Nat) → String
  | none => "none"
  | some (n, vs) => n ++ ":" ++ ",".intercalate (vs.map toString)

def applyRes (st : St) (res : PyRes RegFile) : St × String :=
  match res with
  | .ok rf' => ({ st with rf := rf' }, "ok " ++ dump { st with rf := rf' })
  | .error e => (st, e.tag ++ " " ++ dump st)

def applyOp (st : St) (op : Op) : St × String := applyRes st (step st.rf op)

def updLast {α} (l : List α) (f : α → α) : List α :=
  match l.getLast? with
  | some x => l.dropLast ++ [f x]
  | none => l

def stepLine (st : St) : List String → St × String
  | ["new", l] => ({ rf := [], little := l == "1" }, "ok")
  | ["reg", w, rev, rst, subW, nsubs, revSubs] =>
    match parseNat w, parseBool rev, parseNat rst, parseNat subW, parseNat nsubs, parseBool revSubs with
    | some w, some rev, some rst, some subW, some nsubs, some revSubs =>
      ({ st with rf := st.rf ++ [{ width := w, reverse := rev, resetRaw := rst, subW := subW,
                                    subs := List.replicate nsubs 0, revSubs := revSubs }],
                 md := st.md ++ [{}] }, "ok")
    | _, _, _, _, _, _ => (st, "bad-op")
  | ["field", off, w, sh, rst, en] =>
    match parseNat off, parseNat w, parseNat sh, parseNat rst with
    | some off, some w, some sh, some rst =>
      (match st.rf.getLast? with
       | some r =>
         let r' : Reg := { r with fields := r.fields ++
            [{ offset := off, width := w, shift := sh, reset := rst, enums := parseCsvNat en }] }
         let md' : Meta := updLast st.md (fun (rm : RegMeta) => { rm with fields := rm.fields ++ [({} : FieldMeta)] })
         ({ st with rf := st.rf.dropLast ++ [r'], md := md' }, "ok")
       | none => (st, "bad-op"))
    | _, _, _, _ => (st, "bad-op")
  -- C11 extension: meta data of the last register / last bit-field, configuration path, alternative widths
  | ["alts", a] => ({ st with md := updLast st.md (fun rm => { rm with alts := parseCsvNat a }) }, "ok")
  | ["fmeta", h, names] => match parseBool h with
    | some h => ({ st with md := updLast st.md (fun rm =>
        { rm with fields := updLast rm.fields (fun _ => { hidden := h, names := parseCsvNat names }) }) }, "ok")
    | none => (st, "bad-op")
  | ["flip_reverse", i] => match parseNat i with
    | some i => (match st.rf[i]? with
      | some r => ({ st with rf := st.rf.set i { r with reverse := !r.reverse } }, "ok")
      | none => (st, "bad-op"))
    | none => (st, "bad-op")
  | ["set_alt", i, v, raw] => match parseNat i, parseNat v, parseBool raw with
    | some i, some v, some raw => applyRes st (updAt st.rf i (fun r => r.setAlt (st.md.reg i).alts v raw))
    | _, _, _ => (st, "bad-op")
  | ["set_sub", i, k, v] => match parseNat i, parseNat k, parseNat v with
    | some i, some k, some v => applyRes st (loadEntry st.md st.rf (.sub i k, .value v))
    | _, _, _ => (st, "bad-op")
  | ["mark"] => ({ st with saved := st.rf }, "ok")
  | ["restore"] => let st' := { st with rf := st.saved }; (st', "ok " ++ dump st')
  | ["get_config"] => (st, resLine cfgStr (getConfig st.md st.rf))
  | ["load_config", c] => match parseCfg c with
    | some c => applyRes st (loadConfig st.md st.rf c)
    | none => (st, "bad-op")
  | ["init"] => let st' := { st with rf := st.rf.map initReg }; (st', "ok " ++ dump st')
  | ["set_reg", i, v, raw] => match parseNat i, parseNat v, parseBool raw with
    | some i, some v, some raw => applyOp st (.setReg i v raw) | _, _, _ => (st, "bad-op")
  | ["set_field", i, j, v, raw] => match parseNat i, parseNat j, parseNat v, parseBool raw with
    | some i, some j, some v, some raw => applyOp st (.setField i j v raw) | _, _, _, _ => (st, "bad-op")
  | ["set_enum", i, j, k] => match parseNat i, parseNat j, parseNat k with
    | some i, some j, some k => applyOp st (.setEnum i j k) | _, _, _ => (st, "bad-op")
  | ["reset", i] => match parseNat i with | some i => applyOp st (.resetReg i) | none => (st, "bad-op")
  | ["reset_all"] => applyOp st .resetAll
  | ["parse", h] => match parseHex h with | some b => applyOp st (.parse b st.little) | none => (st, "bad-op")
  | ["export"] => (st, resLine toHex (exportRegs st.rf st.little))
  -- phase 3
  | ["get_config_diff"] => (st, resLine cfgStr (getConfigD true st.md st.rf))
  | ["proc_spec", h] => match parseHex h with
    | some b => (st, resLine procStr (procFromSpec procTable (b.map (fun x => Char.ofNat x.toNat))))
    | none => (st, "bad-op")
  | ["names", t] =>
    let parsed := (t.splitOn ";").map parseRegName
    if parsed.all Option.isSome then ({ st with names := parsed.filterMap id }, "ok") else (st, "bad-op")
  | ["find", x, incl] => match parseNat x, parseBool incl with
    | some x, some incl => (st, "ok:" ++ refOptStr (findReg st.names x incl))
    | _, _ => (st, "bad-op")
  | ["get_uid", x] => match parseNat x with
    | some x => (st, "ok:" ++ refOptStr (getRegByUid st.names x))
    | none => (st, "bad-op")
  | ["find_bf", t, x] => match parseNat x with
    | some x =>
      let fs := (if t == "-" then [] else t.splitOn ",").filterMap (fun e => match e.splitOn "." with
        | [a, b] => (match a.toNat?, b.toNat? with | some a, some b => some (a, b) | _, _ => none)
        | _ => none)
      (st, "ok:" ++ (match findBitfield fs x with | some j => toString j | none => "none"))
    | none => (st, "bad-op")
  | ["offs", t] => ({ st with offs := parseCsvNat t }, "ok")
  | ["image_len"] => (st, "ok:" ++ toString (imageLen st.offs st.rf))
  | ["export_at", f] => match parseNat f with
    | some f => (st, resLine toHex (exportAt st.offs st.rf st.little (UInt8.ofNat f)))
    | none => (st, "bad-op")
  | ["parse_at", h] => match parseHex h with
    | some b => applyRes st (parseAt st.offs st.rf b st.little)
    | none => (st, "bad-op")
  | ["dump"] => (st, "ok " ++ dump st)
  | _ => (st, "bad-op")

def main : IO Unit := Driver.loopS ({} : St) stepLine
