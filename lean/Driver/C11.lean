import Driver.Proto
import SpsdkVerif.Model.Registers
open SpsdkVerif Driver
open SpsdkVerif.Regs

structure St where
  rf : RegFile := []
  little : Bool := false

def parseCsvNat (s : String) : List Nat :=
  if s == "-" then [] else (s.splitOn ",").filterMap (·.toNat?)

def resStr : PyRes Nat → String
  | .ok v => toString v
  | .error e => e.tag

def dumpReg (r : Reg) : String :=
  let fs := r.fields.map (fun f => resStr (fieldGet r f))
  s!"{resStr (r.get true)}/{resStr (r.get false)}[{",".intercalate fs}]"

def dump (st : St) : String := " ".intercalate (st.rf.map dumpReg)

/-- load-time initialisation of one register as `Register.create_from_spec` does it -/
def initReg (r : Reg) : Reg :=
  let r0 : Reg := if r.resetRaw != 0 then (match r.set r.resetRaw true with | .ok x => x | .error _ => r) else r
  let (r1, fs) := r.fields.foldl (fun (acc : Reg × List Field) f =>
    let (cur, done) := acc
    if f.reset != 0 then
      let cur' := match fieldSet cur f f.reset true false with | .ok x => x | .error _ => cur
      (cur', done ++ [f])
    else
      let rv := match fieldGet cur f with | .ok v => v | .error _ => 0
      (cur, done ++ [{ f with reset := rv }])) (r0, [])
  { r1 with fields := fs }

def applyOp (st : St) (op : Op) : St × String :=
  match step st.rf op with
  | .ok rf' => ({ st with rf := rf' }, "ok " ++ dump { st with rf := rf' })
  | .error e => (st, e.tag ++ " " ++ dump st)

def stepLine (st : St) : List String → St × String
  | ["new", l] => ({ rf := [], little := l == "1" }, "ok")
  | ["reg", w, rev, rst, subW, nsubs, revSubs] =>
    match parseNat w, parseBool rev, parseNat rst, parseNat subW, parseNat nsubs, parseBool revSubs with
    | some w, some rev, some rst, some subW, some nsubs, some revSubs =>
      ({ st with rf := st.rf ++ [{ width := w, reverse := rev, resetRaw := rst, subW := subW,
                                    subs := List.replicate nsubs 0, revSubs := revSubs }] }, "ok")
    | _, _, _, _, _, _ => (st, "bad-op")
  | ["field", off, w, sh, rst, en] =>
    match parseNat off, parseNat w, parseNat sh, parseNat rst with
    | some off, some w, some sh, some rst =>
      (match st.rf.getLast? with
       | some r => ({ st with rf := st.rf.dropLast ++ [{ r with fields := r.fields ++
            [{ offset := off, width := w, shift := sh, reset := rst, enums := parseCsvNat en }] }] }, "ok")
       | none => (st, "bad-op"))
    | _, _, _, _ => (st, "bad-op")
  | ["init"] => let st' := { st with rf := st.rf.map initReg }; (st', "ok " ++ dump st')
  | ["set_reg", i, v, raw] => match parseNat i, parseNat v, parseBool raw with
    | some i, some v, some raw => applyOp st (.setReg i v raw) | _, _, _ => (st, "bad-op")
  | ["set_field", i, j, v, raw] => match parseNat i, parseNat j, parseNat v, parseBool raw with
    | some i, some j, some v, some raw => applyOp st (.setField i j v raw) | _, _, _, _ => (st, "bad-op")
  | ["set_enum", i, j, k] => match parseNat i, parseNat j, parseNat k with
    | some i, some j, some k => applyOp st (.setEnum i j k) | _, _, _ => (st, "bad-op")
  | ["reset", i] => match parseNat i with | some i => applyOp st (.resetReg i) | none => (st, "bad-op")
  | ["reset_all"] => applyOp st .resetAll
  | ["parse", h] => match parseHex h with | some b => applyOp st (.parse b st.little) | none => (st, "bad-op")
  | ["export"] => (st, resLine toHex (exportRegs st.rf st.little))
  | ["dump"] => (st, "ok " ++ dump st)
  | _ => (st, "bad-op")

def main : IO Unit := Driver.loopS ({} : St) stepLine
