import Driver.Proto
import SpsdkVerif.Crypto.Exec
open SpsdkVerif Driver
open SpsdkVerif.Crypto

def optHex : Option Bytes → String
  | some b => "ok:" ++ toHex b
  | none => "none"

def c := execOps

/-- reference primitives and modes (validated against hashlib / cryptography: tests of the reference) -/
def stepRef : List String → Option String
  | ["hash", a, m] => do let a ← HashAlg.ofName? a; let m ← parseHex m; pure ("ok:" ++ toHex (c.hash a m))
  | ["aes_enc", k, b] => do let k ← parseHex k; let b ← parseHex b; pure ("ok:" ++ toHex (c.encBlk k b))
  | ["aes_dec", k, b] => do let k ← parseHex k; let b ← parseHex b; pure ("ok:" ++ toHex (c.decBlk k b))
  | ["sm4_enc", k, b] => do let k ← parseHex k; let b ← parseHex b; pure ("ok:" ++ toHex (c.sm4Enc k b))
  | ["sm4_dec", k, b] => do let k ← parseHex k; let b ← parseHex b; pure ("ok:" ++ toHex (c.sm4Dec k b))
  | ["ecb_enc", k, m] => do let k ← parseHex k; let m ← parseHex m; pure ("ok:" ++ toHex (ecbEnc c k m))
  | ["ecb_dec", k, m] => do let k ← parseHex k; let m ← parseHex m; pure ("ok:" ++ toHex (ecbDec c k m))
  | ["cbc_enc", k, iv, m] => do
    let k ← parseHex k; let iv ← parseHex iv; let m ← parseHex m; pure ("ok:" ++ toHex (cbcEnc c k iv m))
  | ["cbc_dec", k, iv, m] => do
    let k ← parseHex k; let iv ← parseHex iv; let m ← parseHex m; pure ("ok:" ++ toHex (cbcDec c k iv m))
  | ["sm4cbc_enc", k, iv, m] => do
    let k ← parseHex k; let iv ← parseHex iv; let m ← parseHex m; pure ("ok:" ++ toHex (sm4CbcEnc c k iv m))
  | ["sm4cbc_dec", k, iv, m] => do
    let k ← parseHex k; let iv ← parseHex iv; let m ← parseHex m; pure ("ok:" ++ toHex (sm4CbcDec c k iv m))
  | ["ctr", k, iv, m] => do
    let k ← parseHex k; let iv ← parseHex iv; let m ← parseHex m; pure ("ok:" ++ toHex (ctrXor c k iv m))
  | ["xts_enc", k1, k2, t, m] => do
    let k1 ← parseHex k1; let k2 ← parseHex k2; let t ← parseHex t; let m ← parseHex m
    pure ("ok:" ++ toHex (xtsEnc c k1 k2 t m))
  | ["xts_dec", k1, k2, t, m] => do
    let k1 ← parseHex k1; let k2 ← parseHex k2; let t ← parseHex t; let m ← parseHex m
    pure ("ok:" ++ toHex (xtsDec c k1 k2 t m))
  | ["ccm_enc", k, n, a, t, m] => do
    let k ← parseHex k; let n ← parseHex n; let a ← parseHex a; let t ← parseNat t; let m ← parseHex m
    pure ("ok:" ++ toHex (ccmEnc c k n a t m))
  | ["ccm_dec", k, n, a, t, m] => do
    let k ← parseHex k; let n ← parseHex n; let a ← parseHex a; let t ← parseNat t; let m ← parseHex m
    pure (optHex (ccmDec c k n a t m))
  | ["kw_wrap", k, p] => do let k ← parseHex k; let p ← parseHex p; pure ("ok:" ++ toHex (kwWrap c k p))
  | ["kw_unwrap", k, w] => do let k ← parseHex k; let w ← parseHex w; pure (optHex (kwUnwrap c k w))
  | ["cmac", k, m] => do let k ← parseHex k; let m ← parseHex m; pure ("ok:" ++ toHex (cmac c k m))
  | ["hmac", a, k, m] => do
    let a ← HashAlg.ofName? a; let k ← parseHex k; let m ← parseHex m; pure ("ok:" ++ toHex (hmac c a k m))
  | ["hkdf", a, salt, ikm, info, len] => do
    let a ← HashAlg.ofName? a; let salt ← parseHex salt; let ikm ← parseHex ikm; let info ← parseHex info
    let len ← parseNat len; pure ("ok:" ++ toHex (hkdf c a salt ikm info len))
  | ["crc", w, poly, init, xo, ri, ro, d] => do
    let w ← parseNat w; let poly ← parseNat poly; let init ← parseNat init; let xo ← parseNat xo
    let ri ← parseBool ri; let ro ← parseBool ro; let d ← parseHex d
    pure s!"ok:{Crc.crc ⟨w, poly, init, xo, ri, ro⟩ d}"
  | _ => none

def step (t : List String) : String :=
  match stepRef t with
  | some s => s
  | none => "bad-op"

def main : IO Unit := Driver.loop step
