import Driver.Proto
import SpsdkVerif.Crypto.Exec
import SpsdkVerif.Model.SymWrappers
import SpsdkVerif.Model.SymStream
open SpsdkVerif Driver
open SpsdkVerif.Crypto
open SpsdkVerif.SymWrappers
open SpsdkVerif.SymStream

def optHex : Option Bytes → String
  | some b => "ok:" ++ toHex b
  | none => "none"

def c := execOps

/-- reference primitives and modes (validated against hashlib / cryptography: tests of the reference) -/
def stepRef : List String → Option String
  | ["hash", a, m] => do let a ← HashAlg.ofName? a; let m ← parseHex m; pure ("ok:" ++ toHex (c.hash a m))
  | ["aes_enc", k, b] => do let k ← parseHex k; let b ← parseHex b; pure ("ok:" ++ toHex (c.encBlk k b))
  | ["aes_dec", k, b] => do let k ← parseHex k; let b ← parseHex b; pure ("ok:" ++ toHex (c.decBlk k b))
  | ["sm4_enc", k, b] => do let k ← parseHex k; let b ← parseHex b; pure ("ok:" ++ toHex (c.sm4Enc k b))
  | ["sm4_dec", k, b] => do let k ← parseHex k; let b ← parseHex b; pure ("ok:" ++ toHex (c.sm4Dec k b))
  | ["ecb_enc", k, m] => do let k ← parseHex k; let m ← parseHex m; pure ("ok:" ++ toHex (ecbEnc c k m))
  | ["ecb_dec", k, m] => do let k ← parseHex k; let m ← parseHex m; pure ("ok:" ++ toHex (ecbDec c k m))
  | ["cbc_enc", k, iv, m] => do
    let k ← parseHex k; let iv ← parseHex iv; let m ← parseHex m; pure ("ok:" ++ toHex (cbcEnc c k iv m))
  | ["cbc_dec", k, iv, m] => do
    let k ← parseHex k; let iv ← parseHex iv; let m ← parseHex m; pure ("ok:" ++ toHex (cbcDec c k iv m))
  | ["sm4cbc_enc", k, iv, m] => do
    let k ← parseHex k; let iv ← parseHex iv; let m ← parseHex m; pure ("ok:" ++ toHex (sm4CbcEnc c k iv m))
  | ["sm4cbc_dec", k, iv, m] => do
    let k ← parseHex k; let iv ← parseHex iv; let m ← parseHex m; pure ("ok:" ++ toHex (sm4CbcDec c k iv m))
  | ["ctr", k, iv, m] => do
    let k ← parseHex k; let iv ← parseHex iv; let m ← parseHex m; pure ("ok:" ++ toHex (ctrXor c k iv m))
  | ["xts_enc", k1, k2, t, m] => do
    let k1 ← parseHex k1; let k2 ← parseHex k2; let t ← parseHex t; let m ← parseHex m
    pure ("ok:" ++ toHex (xtsEnc c k1 k2 t m))
  | ["xts_dec", k1, k2, t, m] => do
    let k1 ← parseHex k1; let k2 ← parseHex k2; let t ← parseHex t; let m ← parseHex m
    pure ("ok:" ++ toHex (xtsDec c k1 k2 t m))
  | ["ccm_enc", k, n, a, t, m] => do
    let k ← parseHex k; let n ← parseHex n; let a ← parseHex a; let t ← parseNat t; let m ← parseHex m
    pure ("ok:" ++ toHex (ccmEnc c k n a t m))
  | ["ccm_dec", k, n, a, t, m] => do
    let k ← parseHex k; let n ← parseHex n; let a ← parseHex a; let t ← parseNat t; let m ← parseHex m
    pure (optHex (ccmDec c k n a t m))
  | ["kw_wrap", k, p] => do let k ← parseHex k; let p ← parseHex p; pure ("ok:" ++ toHex (kwWrap c k p))
  | ["kw_unwrap", k, w] => do let k ← parseHex k; let w ← parseHex w; pure (optHex (kwUnwrap c k w))
  | ["cmac", k, m] => do let k ← parseHex k; let m ← parseHex m; pure ("ok:" ++ toHex (cmac c k m))
  | ["hmac", a, k, m] => do
    let a ← HashAlg.ofName? a; let k ← parseHex k; let m ← parseHex m; pure ("ok:" ++ toHex (hmac c a k m))
  | ["hkdf", a, salt, ikm, info, len] => do
    let a ← HashAlg.ofName? a; let salt ← parseHex salt; let ikm ← parseHex ikm; let info ← parseHex info
    let len ← parseNat len; pure ("ok:" ++ toHex (hkdf c a salt ikm info len))
  | ["crc", w, poly, init, xo, ri, ro, d] => do
    let w ← parseNat w; let poly ← parseNat poly; let init ← parseNat init; let xo ← parseNat xo
    let ri ← parseBool ri; let ro ← parseBool ro; let d ← parseHex d
    pure s!"ok:{Crc.crc ⟨w, poly, init, xo, ri, ro⟩ d}"
  | _ => none

def parseOptHex (s : String) : Option (Option Bytes) :=
  if s == "none" then some none else (parseHex s).map some

def parseOptInt (s : String) : Option (Option Int) :=
  if s == "none" then some none else (parseInt s).map some

def parseMode (s : String) : Option KdfMode :=
  if s == "kdk" then some .kdk else if s == "blk" then some .blk else none

def counterRun (cn : Counter) : List Int → List String
  | [] => [toHex cn.value]
  | v :: rest => toHex cn.value :: counterRun (cn.increment v) rest

/-- the model of SPSDK's wrappers (Model/SymWrappers.lean) instantiated with the executable primitives -/
def stepWrap : List String → Option String
  | ["w_kw_wrap", k, p] => do let k ← parseHex k; let p ← parseHex p; pure (resLine toHex (aesKeyWrap c k p))
  | ["w_kw_unwrap", k, p] => do let k ← parseHex k; let p ← parseHex p; pure (resLine toHex (aesKeyUnwrap c k p))
  | ["w_ecb_enc", k, m] => do let k ← parseHex k; let m ← parseHex m; pure (resLine toHex (aesEcbEncrypt c k m))
  | ["w_ecb_dec", k, m] => do let k ← parseHex k; let m ← parseHex m; pure (resLine toHex (aesEcbDecrypt c k m))
  | ["w_cbc_enc", k, m, iv] => do
    let k ← parseHex k; let m ← parseHex m; let iv ← parseOptHex iv; pure (resLine toHex (aesCbcEncrypt c k m iv))
  | ["w_cbc_dec", k, m, iv] => do
    let k ← parseHex k; let m ← parseHex m; let iv ← parseOptHex iv; pure (resLine toHex (aesCbcDecrypt c k m iv))
  | ["w_sm4_enc", k, m, iv] => do
    let k ← parseHex k; let m ← parseHex m; let iv ← parseOptHex iv; pure (resLine toHex (sm4CbcEncrypt c k m iv))
  | ["w_sm4_dec", k, m, iv] => do
    let k ← parseHex k; let m ← parseHex m; let iv ← parseOptHex iv; pure (resLine toHex (sm4CbcDecrypt c k m iv))
  | ["w_ctr", k, m, n] => do
    let k ← parseHex k; let m ← parseHex m; let n ← parseHex n; pure (resLine toHex (aesCtr c k m n))
  | ["w_xts_enc", k, m, t] => do
    let k ← parseHex k; let m ← parseHex m; let t ← parseHex t; pure (resLine toHex (aesXtsEncrypt c k m t))
  | ["w_xts_dec", k, m, t] => do
    let k ← parseHex k; let m ← parseHex m; let t ← parseHex t; pure (resLine toHex (aesXtsDecrypt c k m t))
  | ["w_ccm_enc", k, m, n, a, t] => do
    let k ← parseHex k; let m ← parseHex m; let n ← parseHex n; let a ← parseHex a; let t ← parseInt t
    pure (resLine toHex (aesCcmEncrypt c k m n a t))
  | ["w_ccm_dec", k, m, n, a, t] => do
    let k ← parseHex k; let m ← parseHex m; let n ← parseHex n; let a ← parseHex a; let t ← parseInt t
    pure (resLine toHex (aesCcmDecrypt c k m n a t))
  | ["w_cmac", k, m] => do let k ← parseHex k; let m ← parseHex m; pure (resLine toHex (cmacW c k m))
  | ["w_cmac_validate", k, m, s] => do
    let k ← parseHex k; let m ← parseHex m; let s ← parseHex s; pure (resLine boolStr (cmacValidate c k m s))
  | ["w_hmac", a, k, m] => do
    let a ← HashAlg.ofName? a; let k ← parseHex k; let m ← parseHex m; pure ("ok:" ++ toHex (hmacW c a k m))
  | ["w_hmac_validate", a, k, m, s] => do
    let a ← HashAlg.ofName? a; let k ← parseHex k; let m ← parseHex m; let s ← parseHex s
    pure ("ok:" ++ boolStr (hmacValidate c a k m s))
  | ["w_hkdf", salt, ikm, info, len] => do
    let salt ← parseHex salt; let ikm ← parseHex ikm; let info ← parseHex info; let len ← parseNat len
    pure (resLine toHex (hkdfW c salt ikm info len))
  | ["w_hash", a, m] => do let a ← HashAlg.ofName? a; let m ← parseHex m; pure ("ok:" ++ toHex (getHash c a m))
  | ["w_hash_int", a, v] => do
    let a ← HashAlg.ofName? a; let v ← parseInt v; pure ("ok:" ++ toHex (getHash c a (updateIntBytes v)))
  | ["w_hash_len", label] => pure (resLine toString (getHashLength label))
  | "w_hash_stream" :: a :: parts => do
    let a ← HashAlg.ofName? a
    let parts ← parts.mapM parseHex
    pure ("ok:" ++ toHex ((parts.foldl HashObj.update (HashObj.new a)).finalize c))
  | ["w_crc", name, d] => do let d ← parseHex d; pure (resLine toString (crcCalculate name d))
  | ["w_crc_verify", name, d, v] => do
    let d ← parseHex d; let v ← parseNat v; pure (resLine boolStr (crcVerify name d v))
  | ["w_ks_hmac", k] => do let k ← parseHex k; pure (resLine toHex (deriveHmacKey c k))
  | ["w_ks_enc_image", k] => do let k ← parseHex k; pure (resLine toHex (deriveEncImageKey c k))
  | ["w_ks_sbkek", k] => do let k ← parseHex k; pure (resLine toHex (deriveSbKekKey c k))
  | ["w_ks_otfad", k, i] => do let k ← parseHex k; let i ← parseHex i; pure (resLine toHex (deriveOtfadKekKey c k i))
  | ["w_kdf_data", dc, r, mode, kl, it] => do
    let dc ← parseInt dc; let r ← parseInt r; let mode ← parseMode mode; let kl ← parseInt kl; let it ← parseInt it
    pure (resLine toHex (kdfData dc r mode kl it))
  | ["w_derive_kdk", k, ts, kl, r] => do
    let k ← parseHex k; let ts ← parseInt ts; let kl ← parseInt kl; let r ← parseInt r
    pure (resLine toHex (deriveKdk c k ts kl r))
  | ["w_derive_blk", k, bn, kl, r] => do
    let k ← parseHex k; let bn ← parseInt bn; let kl ← parseInt kl; let r ← parseInt r
    pure (resLine toHex (deriveBlockKey c k bn kl r))
  | "w_counter" :: nonce :: cv :: little :: incs => do
    let nonce ← parseHex nonce; let cv ← parseOptInt cv; let little ← parseBool little
    let incs ← incs.mapM parseInt
    match Counter.new nonce cv little with
    | .error e => pure e.tag
    | .ok cn => pure ("ok:" ++ ",".intercalate (counterRun cn incs))
  | _ => none

/-- one call on a `Hash` object: `i:<int>` = `update_int`, otherwise hex = `update` -/
def parseCall (s : String) : Option HashCall :=
  if s.startsWith "i:" then (parseInt (s.drop 2).toString).map HashCall.int else (parseHex s).map HashCall.bytes

/-- phase 3: the incremental forms (Model/SymStream.lean) — the running SHA state machine, CRC continuation,
    `Counter`-positioned AES-CTR -/
def stepStream : List String → Option String
  | "w_sha_stream" :: a :: calls => do
    let a ← HashAlg.ofName? a
    let calls ← calls.mapM parseCall
    pure ("ok:" ++ toHex (calls.foldl ShaObj.call (ShaObj.new a)).finalize)
  | "w_hmac_stream" :: a :: key :: chunks => do
    let a ← HashAlg.ofName? a; let key ← parseHex key
    let chunks ← chunks.mapM parseHex
    pure ("ok:" ++ toHex (chunks.foldl HmacObj.update (HmacObj.new a key)).finalize)
  | "w_crc_pieces" :: name :: pieces => do
    let pieces ← pieces.mapM parseHex
    pure (resLine toString (crcPieces name pieces))
  | ["w_crc_resume", name, prev, d] => do
    let prev ← parseNat prev; let d ← parseHex d
    pure (resLine toString (crcResume name prev d))
  | "w_ctr_chunks" :: k :: nonce :: cv :: little :: chunks => do
    let k ← parseHex k; let nonce ← parseHex nonce; let cv ← parseOptInt cv; let little ← parseBool little
    let chunks ← chunks.mapM parseHex
    match Counter.new nonce cv little with
    | .error e => pure e.tag
    | .ok cn => pure (resLine toHex (ctrChunks c k cn chunks))
  | _ => none

def step (t : List String) : String :=
  match stepRef t with
  | some s => s
  | none => match stepWrap t with
    | some s => s
    | none => match stepStream t with
      | some s => s
      | none => "bad-op"

def main : IO Unit := Driver.loop step
