/-
drv_c19 — native driver of the C19 model (BD command files).  One request per line:

  X <kind> <hextext> [name=int|name:hexstr ...]     evaluate an expression text (kind b = bool_expr/const_expr, i = int_const_expr)
        -> i<int> | s<hex> | E            (lexer model, reference parser with the generated levels, generated actions)
  A <vars> ; <bexpr in prefix form>                 print + evaluate an abstract bool_expr
        -> <tokens> | <Spec.evalB> | <evalB of refParseB (tokens)> | <round trip ok?>
  P <env and program in the wire format below>      run a whole program
        -> <config or E> # <commands or E> # <Spec.cmdOf per statement>
-/
import Driver.Proto
import SpsdkVerif.Model.Bd
import SpsdkVerif.Model.BdStmt
import SpsdkVerif.Model.BdText
import SpsdkVerif.Spec.BdSem
import SpsdkVerif.Spec.BdStmtSem
open SpsdkVerif Driver
open SpsdkVerif.Bd

def hexStr (s : String) : String := let b := s.toUTF8.toList; if b.isEmpty then "-" else toHex b
def unhex (h : String) : Option String :=
  match parseHex h with
  | some b => String.fromUTF8? (ByteArray.mk b.toArray)
  | none => none

/-- integers beyond 256 bits are compared by bit length, residue mod 2^61-1 and low 64 bits (decimal printing of
    65 000-bit numbers dominates the run time otherwise) -/
def intStr (i : Int) : String :=
  let n := i.natAbs
  if n < 2 ^ 256 then s!"i{i}"
  else s!"I{if i < 0 then "-" else "+"}{n.log2 + 1}:{n % (2 ^ 61 - 1)}:{n % 2 ^ 64}"

def valStr : Val → String
  | .int i => intStr i
  | .sym s => "s" ++ hexStr s

def dvalStr : DVal → String
  | .i i => intStr i
  | .s s => "s" ++ hexStr s

/-! ### abstract syntax -> prefix form (answer of the parse-only request) -/
def exprWire : Expr → String
  | .lit n => s!"L {n}"
  | .var x => s!"V {x}"
  | .bin o l r => s!"B {Spec.binText o} {exprWire l} {exprWire r}"
  | .neg e => s!"N {exprWire e}"
  | .pos e => s!"P {exprWire e}"
  | .size sz e => s!"Z {sz.letter} {exprWire e}"

def bexprWire : BExpr → String
  | .atom e => s!"A {exprWire e}"
  | .bin o l r => s!"C {Spec.cmpText o} {bexprWire l} {bexprWire r}"
  | .lnot b => s!"! {bexprWire b}"
  | .defined x => s!"D {x}"

def resStr {α} (f : α → String) : Except EvalErr α → String
  | .ok v => f v
  | .error _ => "E"

def pyResStr {α} (f : α → String) : PyRes α → String
  | .ok v => f v
  | .error _ => "E"

def parseVar (t : String) : Option (String × Val) :=
  match t.splitOn "=" with
  | [n, v] => v.toInt?.map (fun i => (n, .int i))
  | _ => match t.splitOn ":" with
    | [n, h] => (unhex h).map (fun s => (n, .sym s))
    | _ => none

/-! ### abstract syntax in prefix form -/

def binOfText (t : String) : Option BinOp := BinOp.all.find? (fun o => Spec.binText o == t)
def cmpOfText (t : String) : Option CmpOp := CmpOp.all.find? (fun o => Spec.cmpText o == t)
def sizeOfText (t : String) : Option IntSz := IntSz.all.find? (fun o => o.letter == t)

partial def readExpr : List String → Option (Expr × List String)
  | "L" :: n :: ts => n.toNat?.map (fun v => (.lit v, ts))
  | "V" :: x :: ts => some (.var x, ts)
  | "B" :: o :: ts => do
    let op ← binOfText o
    let (l, ts1) ← readExpr ts
    let (r, ts2) ← readExpr ts1
    pure (.bin op l r, ts2)
  | "N" :: ts => do let (e, ts1) ← readExpr ts; pure (.neg e, ts1)
  | "P" :: ts => do let (e, ts1) ← readExpr ts; pure (.pos e, ts1)
  | "Z" :: s :: ts => do
    let sz ← sizeOfText s
    let (e, ts1) ← readExpr ts
    pure (.size sz e, ts1)
  | _ => none

partial def readBExpr : List String → Option (BExpr × List String)
  | "A" :: ts => do let (e, ts1) ← readExpr ts; pure (.atom e, ts1)
  | "C" :: o :: ts => do
    let op ← cmpOfText o
    let (l, ts1) ← readBExpr ts
    let (r, ts2) ← readBExpr ts1
    pure (.bin op l r, ts2)
  | "!" :: ts => do let (b, ts1) ← readBExpr ts; pure (.lnot b, ts1)
  | "D" :: x :: ts => some (.defined x, ts)
  | _ => none

def tokStr : Tok → String
  | .num n => s!"n{n}"
  | .ident s => "i" ++ s
  | .source s => "S" ++ s
  | .kw s => "k" ++ s
  | .op o => "o" ++ Spec.binText o
  | .cmp o => "c" ++ Spec.cmpText o
  | .lnot => "!"
  | .defined => "D"
  | .lparen => "("
  | .rparen => ")"
  | .dot => "."
  | .isize s => "z" ++ s.letter
  | .str s => "q" ++ hexStr s
  | .secname s => "s" ++ hexStr s
  | .blob s => "b" ++ s
  | .other n => "x" ++ n

/-! ### programs in wire form -/

structure RawEnv where
  env : Env := {}


def rdStr : List String → Option (String × List String)
  | h :: ts => (unhex h).map (fun s => (s, ts))
  | [] => none

def rdNat : List String → Option (Nat × List String)
  | h :: ts => h.toNat?.map (fun n => (n, ts))
  | [] => none

def rdInt : List String → Option (Int × List String)
  | h :: ts => h.toInt?.map (fun n => (n, ts))
  | [] => none

/-- expression text -> Expr with the sources known so far -/
def pExpr (srcs : List String) (text : String) : Except EvalErr Expr :=
  match lex srcs text with
  | .error _ => .error (.py .other)
  | .ok ts => match refParse genLevels ts with
    | .ok e => .ok e
    | .error _ => .error .syntax

def pBExpr (srcs : List String) (text : String) : Except EvalErr BExpr :=
  match lex srcs text with
  | .error _ => .error (.py .other)
  | .ok ts => match refParseB genLevels ts with
    | .ok e => .ok e
    | .error _ => .error .syntax

/-- a reader that may meet an expression that does not parse: `none` = malformed request, `some (.error _)` = BD error -/
-- Option (Except EvalErr α × List String) = Option (Except EvalErr α × List String)

def rdExpr (srcs : List String) : List String → Option (Except EvalErr Expr × List String)
  | h :: ts => (unhex h).map (fun s => (pExpr srcs s, ts))
  | [] => none

def rdMemOpt (srcs : List String) : List String → Option (Except EvalErr MemOpt × List String)
  | "m-" :: ts => some (.ok .none, ts)
  | "m@" :: ts => do let (e, ts1) ← rdExpr srcs ts; pure (e.map MemOpt.at, ts1)
  | "mn" :: n :: ts => some (.ok (.name n), ts)
  | _ => none

def rdData (srcs : List String) : List String → Option (Except EvalErr LoadData × List String)
  | "df" :: ts => do let (s, ts1) ← rdStr ts; pure (.ok (.file s), ts1)
  | "ds" :: n :: ts => some (.ok (.source n), ts)
  | "db" :: ts => do let (s, ts1) ← rdStr ts; pure (.ok (.blob s), ts1)
  | "dp" :: ts => do let (e, ts1) ← rdExpr srcs ts; pure (e.map LoadData.pattern, ts1)
  | _ => none

def rdTarget (srcs : List String) : List String → Option (Except EvalErr Target × List String)
  | "ta" :: ts => do let (e, ts1) ← rdExpr srcs ts; pure (e.map Target.addr, ts1)
  | "tr" :: ts => do
    let (a, ts1) ← rdExpr srcs ts
    let (b, ts2) ← rdExpr srcs ts1
    pure ((do let x ← a; let y ← b; pure (Target.range x y)), ts2)
  | _ => none

def rdArg (srcs : List String) : List String → Option (Except EvalErr CallArg × List String)
  | "a-" :: ts => some (.ok .none, ts)
  | "a0" :: ts => some (.ok .empty, ts)
  | "a1" :: ts => do let (e, ts1) ← rdExpr srcs ts; pure (e.map CallArg.arg, ts1)
  | _ => none

def rdStmt (srcs : List String) : List String → Option (Except EvalErr Stmt × List String)
  | "load" :: ts => do
    let (o, t1) ← rdMemOpt srcs ts
    let (d, t2) ← rdData srcs t1
    let (t, t3) ← rdTarget srcs t2
    pure ((do let o ← o; let d ← d; let t ← t; pure (Stmt.load o d t)), t3)
  | "erase" :: ts => do
    let (o, t1) ← rdMemOpt srcs ts
    let (t, t2) ← rdTarget srcs t1
    pure ((do let o ← o; let t ← t; pure (Stmt.erase o t)), t2)
  | "eraseall" :: ts => do
    let (o, t1) ← rdMemOpt srcs ts
    pure (o.map Stmt.eraseAll, t1)
  | "eraseunsec" :: ts => some (.ok .eraseUnsecureAll, ts)
  | "enable" :: ts => do
    let (o, t1) ← rdMemOpt srcs ts
    let (e, t2) ← rdExpr srcs t1
    pure ((do let o ← o; let e ← e; pure (Stmt.enable o e)), t2)
  | "call" :: ts => do
    let (e, t1) ← rdExpr srcs ts
    let (a, t2) ← rdArg srcs t1
    pure ((do let e ← e; let a ← a; pure (Stmt.call e a)), t2)
  | "jump" :: ts => do
    let (e, t1) ← rdExpr srcs ts
    let (a, t2) ← rdArg srcs t1
    pure ((do let e ← e; let a ← a; pure (Stmt.jump e a)), t2)
  | "jumpsp" :: ts => do
    let (s, t0) ← rdExpr srcs ts
    let (e, t1) ← rdExpr srcs t0
    let (a, t2) ← rdArg srcs t1
    pure ((do let s ← s; let e ← e; let a ← a; pure (Stmt.jumpSp s e a)), t2)
  | "reset" :: ts => some (.ok .reset, ts)
  | "ver" :: n :: ts => do
    let (e, t1) ← rdExpr srcs ts
    pure (e.map (Stmt.versionCheck (n == "1")), t1)
  | "ksto" :: ts => do
    let (o, t1) ← rdMemOpt srcs ts
    let (t, t2) ← rdTarget srcs t1
    pure ((do let o ← o; let t ← t; pure (Stmt.keystoreToNv o t)), t2)
  | "ksfrom" :: ts => do
    let (o, t1) ← rdMemOpt srcs ts
    let (t, t2) ← rdTarget srcs t1
    pure ((do let o ← o; let t ← t; pure (Stmt.keystoreFromNv o t)), t2)
  | "keywrap" :: ts => do
    let (i, t1) ← rdExpr srcs ts
    let (b, t2) ← rdStr t1
    let (a, t3) ← rdExpr srcs t2
    pure ((do let i ← i; let a ← a; pure (Stmt.keywrap i b a)), t3)
  | "encrypt" :: ts => do
    let (i, t0) ← rdExpr srcs ts
    let (o, t1) ← rdMemOpt srcs t0
    let (d, t2) ← rdData srcs t1
    let (t, t3) ← rdTarget srcs t2
    pure ((do let i ← i; let o ← o; let d ← d; let t ← t; pure (Stmt.encrypt i o d t)), t3)
  | "unsup" :: k :: ts => some (.ok (.unsupported k), ts)
  | _ => none

def rdConst (srcs : List String) : List String → Option (Except EvalErr ConstVal × List String)
  | "S" :: ts => do let (s, t1) ← rdStr ts; pure (.ok (.str s), t1)
  | "E" :: h :: ts => (unhex h).map (fun s => ((pBExpr srcs s).map ConstVal.bexpr, ts))
  | _ => none

partial def rdMany {α} (n : Nat) (rd : List String → Option (Except EvalErr α × List String)) (ts : List String) : Option (Except EvalErr (List α) × List String) :=
  if n = 0 then some (.ok [], ts)
  else match rd ts with
    | none => none
    | some (x, t1) =>
      match rdMany (n - 1) rd t1 with
      | none => none
      | some (xs, t2) => some ((do let a ← x; let b ← xs; pure (a :: b)), t2)

def rdNamed {α} (rd : List String → Option (Except EvalErr α × List String)) : List String → Option (Except EvalErr (String × α) × List String)
  | n :: ts => do let (v, t1) ← rd ts; pure (v.map (fun x => (n, x)), t1)
  | [] => none

/-! ### canonical output -/

def sortDict (d : Dict) : Dict := (d.toArray.qsort (fun a b => a.1 < b.1)).toList
def dictStr (d : Dict) : String := "{" ++ ",".intercalate ((sortDict d).map (fun p => p.1 ++ "=" ++ dvalStr p.2)) ++ "}"

def configStr (env : Env) (c : Config) : String :=
  let o := match c.options with | some d => "O" ++ dictStr d | none => "O-"
  let k := "K[" ++ ";".intercalate (c.keyblobs.map (fun kb => dvalStr kb.id ++ dictStr kb.content)) ++ "]"
  let s := if c.hasSources then "S" ++ dictStr (Dict.update [] (env.sources.map (fun p => (p.1, DVal.s p.2)))) else "S-"
  let secs := "[" ++ "|".intercalate (c.sections.map (fun sec => dvalStr sec.1 ++ ":(" ++
      ";".intercalate (sec.2.map (fun cd => cd.1 ++ dictStr cd.2)) ++ ")")) ++ "]"
  o ++ " " ++ k ++ " " ++ s ++ " " ++ secs

def cmdStr : Cmd → String
  | .load a m d => s!"load:{a}:{m}:{hexs' d}"
  | .fill a p c => s!"fill:{a}:{hexs' p}:{c}"
  | .prog a m w1 w2 => s!"prog:{a}:{m}:{w1}:{w2}"
  | .erase a l f m => s!"erase:{a}:{l}:{f}:{m}"
  | .enable a s m => s!"enable:{a}:{s}:{m}"
  | .jump a x sp => s!"jump:{a}:{dvalStr x}:{match sp with | some v => dvalStr v | none => "-"}"
  | .call a x => s!"call:{a}:{dvalStr x}"
  | .reset => "reset"
  | .versionCheck t v => s!"vc:{t}:{dvalStr v}"
  | .ksToNv a c => s!"ksto:{a}:{c}"
  | .ksFromNv a c => s!"ksfrom:{a}:{c}"
  | .loadCrypto k a st en key ctr inp sw => s!"crypto:{k}:{a}:{st}:{en}:{key.toLower}:{ctr.toLower}:{inp.toLower}:{if sw then 1 else 0}"
where hexs' (b : List UInt8) : String := if b.isEmpty then "-" else toHex b

/-! ### program runner (blocks are parsed with the sources known at that point, like the lexer) -/

partial def runWire (env : Env) (cfg : Config) (specAcc : List String) : List String → Option (Except EvalErr (Env × Config) × List String)
  | [] => some (.ok (env, cfg), specAcc.reverse)
  | "OPTS" :: n :: ts => do
    let cnt ← n.toNat?
    let srcs := env.sources.map (·.1)
    let (defs, t1) ← rdMany cnt (rdNamed (rdConst srcs)) ts
    match defs with
    | .error e => some (.error e, [])
    | .ok ds => match runBlock env cfg (.options ds) with
      | .ok (e', c') => runWire e' c' specAcc t1
      | .error e => some (.error e, [])
  | "CONSTS" :: n :: ts => do
    let cnt ← n.toNat?
    let srcs := env.sources.map (·.1)
    let (defs, t1) ← rdMany cnt (rdNamed (fun t => match t with
        | h :: r => (unhex h).map (fun s => (pBExpr srcs s, r))
        | [] => none)) ts
    match defs with
    | .error e => some (.error e, [])
    | .ok ds => match runBlock env cfg (.constants ds) with
      | .ok (e', c') => runWire e' c' specAcc t1
      | .error e => some (.error e, [])
  | "SRC" :: name :: "P" :: h :: ts => do
    -- one source definition at a time: later definitions are lexed with the earlier names known
    let p ← unhex h
    match runBlock env cfg (.sources [(name, .path p)]) with
    | .ok (e', c') => runWire e' c' specAcc ts
    | .error e => some (.error e, [])
  | "SRC" :: name :: "X" :: h :: ts => do
    let t ← unhex h
    match pExpr (env.sources.map (·.1)) t with
    | .error e => some (.error e, [])
    | .ok ex => match runBlock env cfg (.sources [(name, .extern ex)]) with
      | .ok (e', c') => runWire e' c' specAcc ts
      | .error e => some (.error e, [])
  | "SRCS0" :: ts =>
    match runBlock env cfg (.sources []) with
    | .ok (e', c') => runWire e' c' specAcc ts
    | .error e => some (.error e, [])
  | "KB" :: h :: n :: ts => do
    let cnt ← n.toNat?
    let t ← unhex h
    let srcs := env.sources.map (·.1)
    let (defs, t1) ← rdMany cnt (rdNamed (rdConst srcs)) ts
    match pExpr srcs t, defs with
    | .ok ex, .ok ds => match runBlock env cfg (.keyblob ex ds) with
      | .ok (e', c') => runWire e' c' specAcc t1
      | .error e => some (.error e, [])
    | .error e, _ => some (.error e, [])
    | _, .error e => some (.error e, [])
  | "SEC" :: h :: n :: ts => do
    let cnt ← n.toNat?
    let t ← unhex h
    let srcs := env.sources.map (·.1)
    let (stmts, t1) ← rdMany cnt (rdStmt srcs) ts
    match pExpr srcs t, stmts with
    | .ok ex, .ok ss =>
      match runSections env [{ id := ex, stmts := ss }] with
      | .ok secs =>
        -- self-check of `elab_one_cmd_partial` on this statement: "!" marks a statement where the model's command is
        -- not the one the Spec states (outside the two known blob forms)
        let spec := ss.map (fun s => match Spec.cmdOf env cfg.keyblobs s with
          | some c =>
            let bad := !(Spec.isPlainBlobLoad env s) && !(Spec.isProgBlobLeadingZeros env s) &&

              (match elabStmt env cfg.keyblobs s with | .ok c' => c' != c | .error _ => true)
            (if bad then "!" else "") ++ cmdStr c
          | none => "?")
        runWire env { cfg with sections := cfg.sections ++ secs } ((";".intercalate spec) :: specAcc) t1
      | .error e => some (.error e, [])
    | .error e, _ => some (.error e, [])
    | _, .error e => some (.error e, [])
  | _ => none

partial def rdEnv (env : Env) : List String → Option (Env × List String)
  | "EXT" :: h :: ts => do let s ← unhex h; rdEnv { env with externs := env.externs ++ [s] } ts
  | "FILE" :: h :: c :: ts => do
    let s ← unhex h
    let b ← parseHex c
    rdEnv { env with files := env.files ++ [(s, b)] } ts
  | "MEM" :: n :: v :: ts => do let i ← v.toInt?; rdEnv { env with memNames := env.memNames ++ [(n, i)] } ts
  | "EXTMEM" :: v :: ts => do let i ← v.toInt?; rdEnv { env with extMemTags := env.extMemTags ++ [i] } ts
  | "PROG" :: ts => some (env, ts)
  | _ => none

def step : List String → String
  | "X" :: kind :: h :: vs =>
    match unhex h, vs.mapM parseVar with
    | some text, some vars =>
      if kind == "i" then resStr valStr (evalIntText [] vars text)
      else if kind == "c" then resStr valStr (evalConstText [] vars text)
      else resStr valStr (evalBoolText [] vars text)
    | _, _ => "bad-op"
  | ["T", h] =>
    match unhex h with
    | some text =>
      (match lex [] text with
       | .error _ => "E"
       | .ok ts => match refParseB genLevels ts with
         | .ok b => bexprWire b
         | .error _ => "E")
    | none => "bad-op"
  | "K" :: h :: srcs =>
    -- token level: the lexer model on a text, with the given source names
    match unhex h with
    | some text =>
      (match lex srcs text with
       | .error _ => "E"
       | .ok ts => "T " ++ " ".intercalate (ts.map tokStr))
    | none => "bad-op"
  | "A" :: rest =>
    let vs := rest.takeWhile (· != ";")
    let body := (rest.dropWhile (· != ";")).drop 1
    match vs.mapM parseVar, readBExpr body with
    | some vars, some (b, []) =>
      let toks := prB genLevels 0 b
      let spec := pyResStr valStr (Spec.evalB vars b)
      let (model, rt) := match refParseB genLevels toks with
        | .ok b' => (pyResStr valStr (evalB vars b'), if b' == b then "rt" else "RT-MISMATCH")
        | .error _ => ("E", "RT-FAIL")
      -- canonical text of the proved text-level round trip (`-` when the token list has no concrete syntax)
      let canon := if Lexable [] toks then hexStr (String.ofList (render toks)) else "-"
      " ".intercalate (toks.map tokStr) ++ " | " ++ spec ++ " | " ++ model ++ " | " ++ rt ++ " | " ++ canon
    | _, _ => "bad-op"
  | "P" :: rest =>
    match rdEnv {} rest with
    | none => "bad-op"
    | some (env, ts) =>
      match runWire env {} [] ts with
      | none => "bad-op"
      | some (.error _, _) => "E # E # - # -"
      | some (.ok (env', cfg), spec) =>
        let cmds := match cmdsOfConfig env' cfg with
          | .ok secs => "|".intercalate (secs.map (fun cs => ";".intercalate (cs.map cmdStr)))
          | .error _ => "E"
        let uids := (match sectionUids cfg with | .ok l => ",".intercalate (l.map toString) | .error _ => "E") ++ ";" ++
          (match Spec.sectionUids cfg with | some l => ",".intercalate (l.map toString) | none => "?")
        configStr env' cfg ++ " # " ++ cmds ++ " # " ++ "|".intercalate spec ++ " # " ++ uids
  | _ => "bad-op"

def main : IO Unit := Driver.loop step
