import Driver.Proto
import SpsdkVerif.Model.Fresh
import SpsdkVerif.Generated.SecretSites
import SpsdkVerif.Model.FreshObj
import SpsdkVerif.Model.FreshFile
import SpsdkVerif.Model.FreshLoop
import SpsdkVerif.Generated.SecretState
open SpsdkVerif Driver
open SpsdkVerif.Fresh

/-
Requests (one per line):
  table                 -> `idx|evalTime|kind|loc|via|field;...`   the compiled site table
  wrappers              -> `name|prim|everyReturnDraws;...`
  run 3,4/3,4/_/7       -> history = builds separated by `/`, each a comma list of site indices (`_` = no site);
                           answer per build `site:label:e|c` (comma separated, builds separated by `/`), where
                           label = rank of the value by first occurrence in the history (the sharing partition)
                           and e/c = the site is early (evaluated once) / per call.
-/

def evalStr : EvalTime → String
  | .perCall => "perCall" | .atDefinition => "atDefinition" | .atImport => "atImport"

def kindStr (k : Kind) : String := (reprStr k).replace "SpsdkVerif.Fresh.Kind." ""

def tableLine : String :=
  let rows := (Generated.secretSites.zipIdx).map fun (s, i) =>
    s!"{i}|{evalStr s.evalTime}|{kindStr s.kind}|{s.loc}|{s.via}|{s.field}"
  if rows.isEmpty then "-" else ";".intercalate rows

def wrappersLine : String :=
  let rows := Generated.rngWrappers.map fun w => s!"{w.name}|{w.prim}|{if w.everyReturnDraws then 1 else 0}"
  if rows.isEmpty then "-" else ";".intercalate rows

def parseBuild (s : String) : Option Build :=
  if s == "_" then some [] else (s.splitOn ",").mapM (·.toNat?)

def parseHistory (s : String) : Option History := (s.splitOn "/").mapM parseBuild

/-- rank of each token by first occurrence -/
def labelOf (seen : List Token) (t : Token) : Nat × List Token :=
  match seen.idxOf? t with
  | some i => (i, seen)
  | none => (seen.length, seen ++ [t])

def isEarly (i : Nat) : Bool :=
  match Generated.secretSites[i]? with
  | some s => s.evalTime != .perCall
  | none => false

def renderRun (h : History) : String :=
  let obs := run Generated.secretSites h
  let nb := h.length
  -- label tokens in observation order
  let (_, labelled) := obs.foldl (fun (acc : List Token × List (Obs × Nat)) o =>
    let (l, seen') := labelOf acc.1 o.tok
    (seen', acc.2 ++ [(o, l)])) ([], [])
  let perBuild := (List.range nb).map fun a =>
    let xs := labelled.filter (fun p => p.1.art == a)
    if xs.isEmpty then "_" else ",".intercalate (xs.map fun p => s!"{p.1.site}:{p.2}:{if isEarly p.1.site then "e" else "c"}")
  "/".intercalate perBuild

/-
  slots                   -> `idx|kind|cls|slot|method|role|resets|direct;...`   Generated.secretSlots
  objrun n,0/r,0,5,_/e,0  -> history with object identity: `n,o` new object, `r,o,p,u` re-specification of object o through row p of
                             secretSlots supplying user value number u (`_` = nothing), `e,o` artifact emitted from o;
                             answer per artifact (oldest first) `supplied:value` with value `u<k>` (user value k) or `c<rank>`.
-/
def roleStr : Role → String
  | .init => "init" | .getter => "getter" | .lazy => "lazy" | .respec => "respec" | .other => "other"

def slotsLine : String :=
  let rows := (Generated.secretSlots.zipIdx).map fun (r, i) =>
    s!"{i}|{kindStr r.kind}|{r.cls}|{r.slot}|{r.method}|{roleStr r.role}|{if r.resets then 1 else 0}|{if r.direct then 1 else 0}"
  if rows.isEmpty then "-" else ";".intercalate rows

def parseStep (s : String) : Option Step :=
  match s.splitOn "," with
  | ["n", o] => o.toNat?.map .new
  | ["e", o] => o.toNat?.map .emit
  | ["r", o, p, u] =>
    match o.toNat?, p.toNat? with
    | some o, some p => if u == "_" then some (.respec o p none) else u.toNat?.map (fun u => .respec o p (some u))
    | _, _ => none
  | _ => none

def renderObjRun (h : List Step) : String :=
  let arts := (runObj (Generated.secretSlots.map (·.resets)) h).reverse
  let (_, out) := arts.foldl (fun (acc : List Token × List String) a =>
    match a.val with
    | .user u => (acc.1, acc.2 ++ [s!"{if a.supplied then 1 else 0}:u{u}"])
    | .chosen t =>
      let (l, seen') := labelOf acc.1 t
      (seen', acc.2 ++ [s!"{if a.supplied then 1 else 0}:c{l}"])) ([], [])
  if out.isEmpty then "_" else "/".intercalate out

/-
  sources                 -> `idx|kind|scope|var|loc|guard|altFile;...`   Generated.secretSources
  frun 5 _ b0/b0/p3/b1/x  -> same-directory rebuild history for source row 5, initial file `_` (none) or a user value number:
                             `b0`/`b1` build without / with the reuse flag, `p<u>` user places key file u, `x` directory cleaned;
                             answer per step: `-` (no artifact: place / clean), `E` (build failed), `<reuse>:u<k>` / `<reuse>:c<rank>`.
-/
def sourcesLine : String :=
  let rows := (Generated.secretSources.zipIdx).map fun (r, i) =>
    s!"{i}|{kindStr r.kind}|{r.scope}|{r.var}|{r.loc}|{if r.guard == .flag then "flag" else "fileExists"}|{if r.altFile then 1 else 0}"
  if rows.isEmpty then "-" else ";".intercalate rows

def parseFStep (s : String) : Option FStep :=
  if s == "b0" then some (.build false) else if s == "b1" then some (.build true) else if s == "x" then some .remove
  else if s.startsWith "p" then (s.drop 1).toString.toNat?.map .place else none

def renderFRun (g : Guard) (init : Option Nat) (h : List FStep) : String :=
  let s0 : FSt := { file := init.map .user }
  let (_, _, out) := h.foldl (fun (acc : FSt × List Token × List String) st =>
    let (s, seen, out) := acc
    let s' := fstep g s st
    if s'.arts.length == s.arts.length then
      (s', seen, out ++ [match st with | .build _ => "E" | _ => "-"])
    else match s'.arts.head? with
      | some a =>
        match a.val with
        | .user u => (s', seen, out ++ [s!"{if a.reuse then 1 else 0}:u{u}"])
        | .chosen t => let (l, seen') := labelOf seen t; (s', seen', out ++ [s!"{if a.reuse then 1 else 0}:c{l}"])
      | none => (s', seen, out ++ ["?"])) (s0, [], [])
  if out.isEmpty then "_" else "/".intercalate out

/-
  loops                   -> `idx|kind|scope|var|drawLoc|loopLoc|inside;...`   Generated.loopUses
  crun 3 2,1              -> history of calls serving 2 and 1 artifacts through loop row 3: sharing ranks per call `0,0/1`
-/
def loopsLine : String :=
  let rows := (Generated.loopUses.zipIdx).map fun (r, i) =>
    s!"{i}|{kindStr r.kind}|{r.scope}|{r.var}|{r.drawLoc}|{r.loopLoc}|{if r.inside then 1 else 0}"
  if rows.isEmpty then "-" else ";".intercalate rows

def renderCRun (inside : Bool) (h : List Nat) : String :=
  let (_, _, out) := h.foldl (fun (acc : Nat × List Token × List String) n =>
    let (next, seen, out) := acc
    let r := serve inside n next
    let (seen', labs) := r.1.foldl (fun (a : List Token × List String) t =>
      let (l, s') := labelOf a.1 t; (s', a.2 ++ [toString l])) (seen, [])
    (r.2, seen', out ++ [if labs.isEmpty then "_" else ",".intercalate labs])) (0, [], [])
  if out.isEmpty then "_" else "/".intercalate out

def step : List String → String
  | ["loops"] => loopsLine
  | ["crun", i, h] =>
    match i.toNat?.bind (Generated.loopUses[·]?), (h.splitOn ",").mapM (·.toNat?) with
    | some r, some hh => renderCRun r.inside hh
    | _, _ => "bad-op"
  | ["sources"] => sourcesLine
  | ["frun", i, init, h] =>
    match i.toNat?.bind (Generated.secretSources[·]?), (h.splitOn "/").mapM parseFStep with
    | some r, some hh => renderFRun r.guard (if init == "_" then none else init.toNat?) hh
    | _, _ => "bad-op"
  | ["slots"] => slotsLine
  | ["objrun", h] => match (h.splitOn "/").mapM parseStep with
    | some hh => renderObjRun hh
    | none => "bad-op"
  | ["table"] => tableLine
  | ["wrappers"] => wrappersLine
  | ["run", h] => match parseHistory h with
    | some hh => if hh.all (fun b => b.all (· < Generated.secretSites.length)) then renderRun hh else "unknown-site"
    | none => "bad-op"
  | _ => "bad-op"

def main : IO Unit := Driver.loop step
