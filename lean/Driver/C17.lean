import Driver.Proto
import SpsdkVerif.Model.Fresh
import SpsdkVerif.Generated.SecretSites
open SpsdkVerif Driver
open SpsdkVerif.Fresh

/-
Requests (one per line):
  table                 -> `idx|evalTime|kind|loc|via|field;...`   the compiled site table
  wrappers              -> `name|prim|everyReturnDraws;...`
  run 3,4/3,4/_/7       -> history = builds separated by `/`, each a comma list of site indices (`_` = no site);
                           answer per build `site:label:e|c` (comma separated, builds separated by `/`), where
                           label = rank of the value by first occurrence in the history (the sharing partition)
                           and e/c = the site is early (evaluated once) / per call.
-/

def evalStr : EvalTime → String
  | .perCall => "perCall" | .atDefinition => "atDefinition" | .atImport => "atImport"

def kindStr (k : Kind) : String := (reprStr k).replace "SpsdkVerif.Fresh.Kind." ""

def tableLine : String :=
  let rows := (Generated.secretSites.zipIdx).map fun (s, i) =>
    s!"{i}|{evalStr s.evalTime}|{kindStr s.kind}|{s.loc}|{s.via}|{s.field}"
  if rows.isEmpty then "-" else ";".intercalate rows

def wrappersLine : String :=
  let rows := Generated.rngWrappers.map fun w => s!"{w.name}|{w.prim}|{if w.everyReturnDraws then 1 else 0}"
  if rows.isEmpty then "-" else ";".intercalate rows

def parseBuild (s : String) : Option Build :=
  if s == "_" then some [] else (s.splitOn ",").mapM (·.toNat?)

def parseHistory (s : String) : Option History := (s.splitOn "/").mapM parseBuild

/-- rank of each token by first occurrence -/
def labelOf (seen : List Token) (t : Token) : Nat × List Token :=
  match seen.idxOf? t with
  | some i => (i, seen)
  | none => (seen.length, seen ++ [t])

def isEarly (i : Nat) : Bool :=
  match Generated.secretSites[i]? with
  | some s => s.evalTime != .perCall
  | none => false

def renderRun (h : History) : String :=
  let obs := run Generated.secretSites h
  let nb := h.length
  -- label tokens in observation order
  let (_, labelled) := obs.foldl (fun (acc : List Token × List (Obs × Nat)) o =>
    let (l, seen') := labelOf acc.1 o.tok
    (seen', acc.2 ++ [(o, l)])) ([], [])
  let perBuild := (List.range nb).map fun a =>
    let xs := labelled.filter (fun p => p.1.art == a)
    if xs.isEmpty then "_" else ",".intercalate (xs.map fun p => s!"{p.1.site}:{p.2}:{if isEarly p.1.site then "e" else "c"}")
  "/".intercalate perBuild

def step : List String → String
  | ["table"] => tableLine
  | ["wrappers"] => wrappersLine
  | ["run", h] => match parseHistory h with
    | some hh => if hh.all (fun b => b.all (· < Generated.secretSites.length)) then renderRun hh else "unknown-site"
    | none => "bad-op"
  | _ => "bad-op"

def main : IO Unit := Driver.loop step
