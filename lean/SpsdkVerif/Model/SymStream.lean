/-
C09 phase 3 — the INCREMENTAL forms of SPSDK's hash / CRC / AES-CTR glue, modelled as they run:

  * `spsdk/crypto/hash.py` `Hash`: `__init__` / `update` / `update_int` / `finalize` delegate to the library's
    streaming hash object.  `ShaObj` is that object written out over the Lean FIPS 180-4 reference: chaining value,
    a buffer of fewer than one block, the running byte count; `update` compresses every complete block at once,
    `finalize` pads what is left (Merkle–Damgård strengthening with the TOTAL length).  Nothing is kept of the data
    but the buffer — this is the real state machine, not "remember everything and hash at the end" (`HashObj`).
  * `spsdk/crypto/crc.py` continuation: the only way the code offers to resume a CRC is the one used by
    `Mbi_ExportMixinCrcSign…`/`mbi_mixin.py`: `crc_obj.initial_value = crc; crc_obj.calculate(rest)` — i.e. a `Crc` whose
    `initial_value` is the CRC so far (`crcmod`'s `initCrc` is a CRC VALUE, xor-out and reflection included).
  * AES-CTR positioning: `aes_ctr_encrypt(key, chunk, counter.value)` followed by `counter.increment(blocks)`, the
    pattern of `sbfile/sb2/images.py`.

Tied to /repo by the C09 streams `hash_stream`, `crc_resume`, `ctr_position`.  No Mathlib imports.
-/
import SpsdkVerif.Crypto.Exec
import SpsdkVerif.Model.SymWrappers

namespace SpsdkVerif.SymStream
open SpsdkVerif SpsdkVerif.Crypto SpsdkVerif.SymWrappers
open SpsdkVerif.Misc (beEnc beDec leEnc leDec)
open SpsdkVerif.Generated

/-! ## Merkle–Damgård streaming, generic in the compression function -/

/-- what distinguishes SHA-1/256/384/512 for the streaming wrapper -/
structure MdAlg (σ : Type) where
  blk : Nat                       -- block size in bytes
  lenBytes : Nat                  -- size of the length field of the padding
  compress : σ → Bytes → σ
  iv : σ
  out : σ → Bytes

/-- the state of a running hash: chaining value, unprocessed tail (shorter than a block), bytes fed so far -/
structure MdState (σ : Type) where
  h : σ
  buf : Bytes
  total : Nat

/-- `0x80`, zeros, the bit length of the WHOLE message — what `Sha.pad` appends to a message of `total` bytes -/
def mdSuffix (blk lenBytes total : Nat) : Bytes :=
  [0x80] ++ List.replicate ((blk - (total + 1 + lenBytes) % blk) % blk) 0 ++ beEnc lenBytes (8 * total)

namespace MdAlg
variable {σ : Type} (A : MdAlg σ)

def init : MdState σ := ⟨A.iv, [], 0⟩

/-- absorb `d`: every complete block of `buf ++ d` is compressed now, the rest is kept -/
def update (s : MdState σ) (d : Bytes) : MdState σ :=
  let all := s.buf ++ d
  let q := all.length / A.blk
  ⟨Sha.foldChunks A.blk A.compress q s.h all, all.drop (A.blk * q), s.total + d.length⟩

/-- pad the kept tail (one or two more blocks) and emit the digest -/
def finalize (s : MdState σ) : Bytes :=
  let tail := s.buf ++ mdSuffix A.blk A.lenBytes s.total
  A.out (Sha.foldChunks A.blk A.compress (tail.length / A.blk) s.h tail)

/-- the one-shot definition of FIPS 180-4 (the shape of `Sha.sha256` etc.) -/
def oneShot (m : Bytes) : Bytes :=
  let p := Sha.pad A.blk A.lenBytes m
  A.out (Sha.foldChunks A.blk A.compress (p.length / A.blk) A.iv p)

end MdAlg

open Sha in
def alg1 : MdAlg (St8 UInt32) :=
  ⟨64, 8, compress1, h1, fun s => be32 s.a ++ be32 s.b ++ be32 s.c ++ be32 s.d ++ be32 s.e⟩
open Sha in
def alg256 : MdAlg (St8 UInt32) :=
  ⟨64, 8, compress256, h256,
   fun s => be32 s.a ++ be32 s.b ++ be32 s.c ++ be32 s.d ++ be32 s.e ++ be32 s.f ++ be32 s.g ++ be32 s.h⟩
open Sha in
def alg384 : MdAlg (St8 UInt64) :=
  ⟨128, 16, compress512, h384, fun s => be64 s.a ++ be64 s.b ++ be64 s.c ++ be64 s.d ++ be64 s.e ++ be64 s.f⟩
open Sha in
def alg512 : MdAlg (St8 UInt64) :=
  ⟨128, 16, compress512, h512,
   fun s => be64 s.a ++ be64 s.b ++ be64 s.c ++ be64 s.d ++ be64 s.e ++ be64 s.f ++ be64 s.g ++ be64 s.h⟩

/-! ## `Hash(algorithm)` over the Lean SHA reference -/

/-- the library object behind `Hash.hash_obj`, one constructor per modelled algorithm -/
inductive ShaObj where
  | s1 (s : MdState (Sha.St8 UInt32))
  | s256 (s : MdState (Sha.St8 UInt32))
  | s384 (s : MdState (Sha.St8 UInt64))
  | s512 (s : MdState (Sha.St8 UInt64))

/-- `Hash(algorithm)` -/
def ShaObj.new : HashAlg → ShaObj
  | .sha1 => .s1 alg1.init
  | .sha256 => .s256 alg256.init
  | .sha384 => .s384 alg384.init
  | .sha512 => .s512 alg512.init

def ShaObj.alg : ShaObj → HashAlg
  | .s1 _ => .sha1 | .s256 _ => .sha256 | .s384 _ => .sha384 | .s512 _ => .sha512

/-- `Hash.update(data)` -/
def ShaObj.update : ShaObj → Bytes → ShaObj
  | .s1 s, d => .s1 (alg1.update s d)
  | .s256 s, d => .s256 (alg256.update s d)
  | .s384 s, d => .s384 (alg384.update s d)
  | .s512 s, d => .s512 (alg512.update s d)

/-- `Hash.update_int(value)`: the minimal big-endian bytes of `abs(value)` (none for 0) -/
def ShaObj.updateInt (o : ShaObj) (v : Int) : ShaObj := o.update (updateIntBytes v)

/-- `Hash.finalize()` -/
def ShaObj.finalize : ShaObj → Bytes
  | .s1 s => alg1.finalize s
  | .s256 s => alg256.finalize s
  | .s384 s => alg384.finalize s
  | .s512 s => alg512.finalize s

/-- bytes still buffered / bytes fed so far (observable only through the digest; used by the theorems) -/
def ShaObj.buffered : ShaObj → Nat
  | .s1 s => s.buf.length | .s256 s => s.buf.length | .s384 s => s.buf.length | .s512 s => s.buf.length

/-- one call on a `Hash` object: `update(bytes)` or `update_int(int)` -/
inductive HashCall where
  | bytes (d : Bytes)
  | int (v : Int)

/-- the bytes a call contributes to the message -/
def HashCall.data : HashCall → Bytes
  | .bytes d => d
  | .int v => updateIntBytes v

def ShaObj.call (o : ShaObj) : HashCall → ShaObj
  | .bytes d => o.update d
  | .int v => o.updateInt v

/-! ## HMAC in its incremental form (`hmac.HMAC(key, alg)`; `update`*; `finalize`): `spsdk_hmac.hmac` makes one
    `update` call, the library object underneath is two running hashes — inner fed with `K0 ⊕ ipad` first -/

structure HmacObj where
  alg : HashAlg
  k0 : Bytes
  inner : ShaObj

def HmacObj.new (a : HashAlg) (key : Bytes) : HmacObj :=
  let k0 := hmacKey0 execOps a key
  ⟨a, k0, (ShaObj.new a).update (k0.map (· ^^^ 0x36))⟩

def HmacObj.update (o : HmacObj) (d : Bytes) : HmacObj := { o with inner := o.inner.update d }

def HmacObj.finalize (o : HmacObj) : Bytes :=
  (((ShaObj.new o.alg).update (o.k0.map (· ^^^ 0x5c))).update o.inner.finalize).finalize

/-! ## CRC continuation -/

/-- `crcmod.mkCrcFun(poly, initCrc, rev, xorOut)` for an ARBITRARY `initCrc`: `initCrc` is a CRC value, so the register
    starts at `initCrc xor xorOut`, bit-reversed when `rev` (crcmod keeps a reflected register).  `crcParams` of
    Model/SymWrappers.lean omits the reversal, which is exact for the rows of `CRC_ALGORITHMS` (their start registers
    0 and 0xFFFFFFFF are palindromes: `crcParamsExact_table` in Properties/C09) but not for a resumed CRC-32. -/
def crcParamsExact (cfg : CrcTable.CrcConfig) : Crc.Params :=
  let w := Misc.bitLen cfg.polynomial - 1
  let r := cfg.initialValue ^^^ cfg.finalXor
  ⟨w, cfg.polynomial % 2 ^ w, if cfg.reverse then Crc.reflect w r else r, cfg.finalXor, cfg.reverse, cfg.reverse⟩

/-- `crc_obj = from_crc_algorithm(name); crc_obj.initial_value = prev; crc_obj.calculate(data)` -/
def crcResume (name : String) (prev : Nat) (data : Bytes) : PyRes Nat :=
  match crcLookup name with
  | some cfg => .ok (Crc.crc (crcParamsExact { cfg with initialValue := prev }) data)
  | none => .error .spsdk

/-- a CRC computed piecewise through that API: first piece with the table's initial value, every further piece resumed -/
def crcPieces (name : String) : List Bytes → PyRes Nat
  | [] => crcCalculate name []
  | p :: ps => ps.foldl (fun acc d => match acc with
      | .ok v => crcResume name v d
      | .error e => .error e) (crcCalculate name p)

/-! ## AES-CTR positioned by `Counter` -/

/-- `for chunk in chunks: out += aes_ctr_encrypt(key, chunk, counter.value); counter.increment(len(chunk) // 16)` -/
def ctrChunks (c : CryptoOps) (k : Bytes) : Counter → List Bytes → PyRes Bytes
  | _, [] => .ok []
  | cn, ch :: rest =>
    match aesCtr c k ch cn.value with
    | .error e => .error e
    | .ok x =>
      match ctrChunks c k (cn.increment (ch.length / 16 : Nat)) rest with
      | .error e => .error e
      | .ok y => .ok (x ++ y)

end SpsdkVerif.SymStream
