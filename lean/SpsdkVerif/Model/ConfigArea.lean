/-
Hand-written executable model of the register-backed configuration areas of SPSDK (C12):
`spsdk/pfr/pfr.py` (BaseConfigArea: CMPA, CFPA, ROMCFG, CMACTABLE), `spsdk/image/segments_base.py`
(BCA, FCF, FCB, XMCD export = `registers.image_info().export()`), `spsdk/utils/registers.py`
(`Registers.image_info / export / parse`), `spsdk/image/xmcd/xmcd.py` (header word, CRC),
`spsdk/image/trustzone.py` (preset words), on top of the C16 model of `BinaryImage` (Model/BinImage.lean).

An area = register layout + image size + prefill byte + computed-field rules + seal words.  The state of an area
object is the list of RAW register values (one unbounded `Nat` per register of `Registers._registers`, a grouped
register being the assembly of its sub-registers), exactly what `Register.get_value(raw=True)` returns.
All areas use little-endian base endianness.

Tied to /repo by harness/props/C12.py: the generated layouts (Generated/RegLayouts.lean) are compared with the live
`Registers` objects, and export / parse / computed fields / seal / CRC are compared with the real code.
-/
import SpsdkVerif.Base.Py
import SpsdkVerif.Model.Misc
import SpsdkVerif.Model.BinImage
import SpsdkVerif.Model.Registers

namespace SpsdkVerif.CfgArea
open SpsdkVerif SpsdkVerif.Misc SpsdkVerif.BinImg

/-- a bit-field: bit offset inside the register and width -/
structure BF where
  off : Nat
  width : Nat
  deriving Repr, DecidableEq

/-- one entry of `Registers._registers` -/
structure RegL where
  off : Nat          -- byte offset
  width : Nat        -- bits
  hidden : Bool      -- `is_reserved`: not visited by `parse`, not in templates
  cov : Nat          -- bits backed by sub-registers (= width for a plain register)
  fields : List BF
  deriving Repr, DecidableEq

structure Layout where
  name : String
  kind : Nat                      -- 0 cmpa 1 cfpa 2 romcfg 3 cmactable 4 bca 5 fcf 6 fcb 7 xmcd 8 fuses 9 memcfg
  size : Nat                      -- `size` handed to `image_info` (0 = automatic minimal size)
  fill : Nat                      -- prefill byte
  docSize : Nat                   -- documented fixed size of the binary (0 = none)
  binary : Bool                   -- the area has a binary form
  computed : List (Nat × Nat)     -- (register index, rule): 0 = inverse high half-word, 1 = inverse of the low byte in bits 8..15
  sealStart : Nat
  sealCount : Nat
  regs : List RegL
  deriving Repr

def pairs : List Nat → List BF
  | a :: b :: rest => ⟨a, b⟩ :: pairs rest
  | _ => []

/-- decoder of the compact generated form `[offset, width, flags, cov, f0.off, f0.width, f1.off, …]` -/
def RegL.ofRaw : List Nat → RegL
  | off :: width :: flags :: cov :: rest =>
    { off := off, width := width, hidden := flags % 2 == 1, cov := cov, fields := pairs rest }
  | _ => { off := 0, width := 0, hidden := false, cov := 0, fields := [] }

def Layout.ofRaw (name : String) (kind size fill doc : Nat) (binary : Bool) (computed : List (Nat × Nat))
    (sealStart sealCount : Nat) (raw : List (List Nat)) : Layout :=
  { name := name, kind := kind, size := size, fill := fill, docSize := doc, binary := binary, computed := computed,
    sealStart := sealStart, sealCount := sealCount, regs := raw.map RegL.ofRaw }


/-! ### details of a layout (second generated table, aligned with the first): initial values, names (as per-layout ids of the
    distinct strings), access, enum tables, SHIFT_RIGHT counts, hidden flags as the loaded object has them -/

structure FieldD where
  reset : Nat                 -- `RegsBitField.reset_value` (configuration units: already shifted left by `shift`)
  hidden : Bool               -- unnamed gap, or made hidden by `BaseConfigArea._load_registers` (computed field)
  access : Nat                -- 0 none 1 RO 2 RW 3 WO
  shift : Nat                 -- SHIFT_RIGHT count (0 = no processor)
  name : Nat
  enums : List (Nat × Nat)    -- (value in configuration units, name id), in specification order
  deriving Repr, DecidableEq

structure RegD where
  init : Nat                  -- `get_value(raw=True)` of the freshly loaded register
  name : Nat
  uid : Nat
  reverse : Bool
  access : Nat
  fields : List FieldD
  subW : Nat := 0             -- width of one sub-register (0 = plain register)
  nsubs : Nat := 0            -- number of sub-registers
  revSubs : Bool := false     -- `reverse_subregs_order`
  alts : List Nat := []       -- `alt_widths`
  subKeys : List Nat := []    -- names and uids of the sub-registers (`find_reg(include_group_regs=True)` matches them too)
  deriving Repr, DecidableEq

structure LayoutD where
  emptyName : Nat                     -- id of the empty string (an absent uid)
  computed : List (Nat × Nat × Nat)   -- (register index, rule, index of the computed bit-field)
  aux : List Nat                      -- kind specific: FCB/BCA [index of the tag register]; memcfg [count rule, register, field, enum value]
  regs : List RegD
  deriving Repr

def enumPairs : List Nat → List (Nat × Nat)
  | a :: b :: rest => (a, b) :: enumPairs rest
  | _ => []

def FieldD.ofRaw : List Nat → FieldD
  | reset :: flags :: shift :: name :: rest =>
    { reset := reset, hidden := flags % 2 == 1, access := flags / 2, shift := shift, name := name, enums := enumPairs rest }
  | _ => { reset := 0, hidden := false, access := 0, shift := 0, name := 0, enums := [] }

def RegD.ofRaw (x : List Nat × List (List Nat)) : RegD :=
  match x.1 with
  | init :: name :: uid :: flags :: subW :: nsubs :: rs :: nalts :: more =>
    { init := init, name := name, uid := uid, reverse := flags % 2 == 1, access := flags / 2, fields := x.2.map FieldD.ofRaw,
      subW := subW, nsubs := nsubs, revSubs := rs % 2 == 1, alts := more.take nalts, subKeys := more.drop nalts }
  | init :: name :: uid :: flags :: _ =>
    { init := init, name := name, uid := uid, reverse := flags % 2 == 1, access := flags / 2, fields := x.2.map FieldD.ofRaw }
  | _ => { init := 0, name := 0, uid := 0, reverse := false, access := 0, fields := [] }

def LayoutD.ofRaw (emptyName : Nat) (computed : List (Nat × Nat × Nat)) (aux : List Nat)
    (raw : List (List Nat × List (List Nat))) : LayoutD :=
  { emptyName := emptyName, computed := computed, aux := aux, regs := raw.map RegD.ofRaw }

abbrev Vals := List Nat

/-! ### export: `Registers.image_info(size, pattern).export()` -/

def RegL.bytes (r : RegL) : Nat := r.width / 8
def RegL.stop (r : RegL) : Nat := r.off + r.bytes

/-- the sub-image of one register: `BinaryImage(name, width // 8, offset=offset, binary=get_bytes_value(raw=True))` -/
def regImg (r : RegL) (v : Nat) : Img :=
  .mk r.bytes r.off 1 (some (leEnc r.bytes v)) none []

def rootImg (l : Layout) : Img := .mk l.size 0 1 none (some (.num l.fill)) []

/-- `image_info`: the registers are added one by one with `add_image` (sorted insertion by offset) -/
def areaImgFrom (root : Img) : List RegL → Vals → Img
  | r :: rs, v :: vs => areaImgFrom (root.addImage (regImg r v)) rs vs
  | _, _ => root

def areaImg (l : Layout) (vals : Vals) : Img := areaImgFrom (rootImg l) l.regs vals

def exportArea (l : Layout) (vals : Vals) : PyRes Bytes := (areaImg l vals).export

/-- length of the exported binary for a well-formed layout -/
def maxStop : List RegL → Nat
  | [] => 0
  | r :: rs => max r.stop (maxStop rs)

def Layout.exportLen (l : Layout) : Nat := if l.size ≠ 0 then l.size else maxStop l.regs

/-! ### parse: `Registers.parse(binary)` into an object currently holding `cur` -/

def slice (b : Bytes) (off n : Nat) : Bytes := (b.drop off).take n

/-- visible registers in order; the first one that does not fit the binary ends the parsing (`break`);
    a grouped register keeps only the bits its sub-registers hold -/
def parseAux : List RegL → Vals → Bytes → Bool → Vals
  | r :: rs, v :: vs, b, stopped =>
    if r.hidden then v :: parseAux rs vs b stopped
    else if stopped || b.length < r.stop then v :: parseAux rs vs b true
    else (leDec (slice b r.off r.bytes) % 2 ^ r.cov) :: parseAux rs vs b false
  | _, vs, _, _ => vs

def parseArea (l : Layout) (b : Bytes) (cur : Vals) : Vals := parseAux l.regs cur b false

/-! ### computed fields (`BaseConfigArea.compute_register`) -/

/-- `pfr_reg_inverse_high_half` -/
def invHighHalf (v : Nat) : Nat := (v &&& 0xFFFF) ||| (((v &&& 0xFFFF) ^^^ 0xFFFF) <<< 16)

/-- `pfr_reg_inverse_lower_8_bits` -/
def invLow8 (v : Nat) : Nat := (v &&& 0xFFFF00FF) ||| (((v &&& 0xFF) ^^^ 0xFF) <<< 8)

def applyRule (rule v : Nat) : Nat :=
  if rule = 0 then invHighHalf v else if rule = 1 then invLow8 v else v

/-- `set_config` after `load_yml_config`: every computed register that the configuration mentions through its
    bit-fields (without giving the computed field itself) is recomputed from its current raw value -/
def computeAll (rules : List (Nat × Nat)) (mentioned : Nat → Bool) (vals : Vals) : Vals :=
  rules.foldl (fun vs ir => if mentioned ir.1 then vs.set ir.1 (applyRule ir.2 (vs.getD ir.1 0)) else vs) vals

/-- what "the computed field holds" means for a 32-bit register value -/
def RuleHolds (rule v : Nat) : Prop :=
  if rule = 0 then v >>> 16 = (v &&& 0xFFFF) ^^^ 0xFFFF
  else if rule = 1 then (v >>> 8) &&& 0xFF = (v &&& 0xFF) ^^^ 0xFF
  else True

instance (rule v : Nat) : Decidable (RuleHolds rule v) := by unfold RuleHolds; infer_instance

/-! ### seal (`export(add_seal=True)`): `data[start : start + 4*count] = MARK * count`, then the length check -/

def repeatBytes (m : Bytes) : Nat → Bytes
  | 0 => []
  | n + 1 => m ++ repeatBytes m n

/-- bytearray slice assignment (the slice is clipped to the buffer, the buffer may grow) -/
def sliceAssign (b : Bytes) (start stop : Nat) (d : Bytes) : Bytes :=
  b.take start ++ d ++ b.drop (max start stop)

def sealBytes (mark : Bytes) (l : Layout) (b : Bytes) : PyRes Bytes :=
  let b' := if l.sealCount = 0 then b
            else sliceAssign b l.sealStart (l.sealStart + l.sealCount * 4) (repeatBytes mark l.sealCount)
  if b'.length ≠ l.size then .error .spsdk else .ok b'

def exportSealed (mark : Bytes) (l : Layout) (vals : Vals) : PyRes Bytes :=
  match exportArea l vals with
  | .error e => .error e
  | .ok b => sealBytes mark l b

/-! ### well-formedness of a layout: a verified Boolean checker (`layoutWFb_sound` in Proofs/ConfigArea.lean) -/

def disjointB (a b : RegL) : Bool := a.stop ≤ b.off || b.stop ≤ a.off

def pairwiseB {α} (p : α → α → Bool) : List α → Bool
  | [] => true
  | x :: xs => xs.all (p x) && pairwiseB p xs

def fieldDisjB (f g : BF) : Bool := f.off + f.width ≤ g.off || g.off + g.width ≤ f.off

def regWFb (r : RegL) : Bool :=
  r.width % 8 == 0 && 0 < r.width && r.cov == r.width &&
  r.fields.all (fun f => f.off + f.width ≤ r.width) && pairwiseB fieldDisjB r.fields

def nodupB : List Nat → Bool
  | [] => true
  | x :: xs => !xs.contains x && nodupB xs

/-- linear-time duplicate check for small numbers (ids): the sum of the powers of two equals their bitwise or
    iff no id occurs twice (`nodupFastB_sound`); the kernel evaluates it with big-number arithmetic -/
def sumPow : List Nat → Nat
  | [] => 0
  | a :: t => 2 ^ a + sumPow t
def orPow : List Nat → Nat
  | [] => 0
  | a :: t => 2 ^ a ||| orPow t
def nodupFastB (l : List Nat) : Bool := sumPow l == orPow l

def computedWFb (l : Layout) : Bool :=
  l.computed.all (fun ir => match l.regs[ir.1]? with
    | some r => r.width == 32 && ir.2 ≤ 1
    | none => false) && nodupB (l.computed.map (·.1))

def layoutWFb (l : Layout) : Bool :=
  l.regs.all regWFb &&
  (!l.binary ||
    (pairwiseB disjointB l.regs &&
     (l.size == 0 || l.regs.all (fun r => r.stop ≤ l.size)) &&
     !l.regs.isEmpty &&
     (l.docSize == 0 || l.exportLen == l.docSize) &&
     computedWFb l &&
     (l.sealCount == 0 || (l.size != 0 && l.sealStart + l.sealCount * 4 ≤ l.size))))



/-! ### enum names in configurations (`RegsBitField.get_enum_value / get_enum_constant / set_enum_value`) -/

/-- `get_enum_constant(name)`: value of the FIRST enum with that name -/
def enumConstant (enums : List (Nat × Nat)) (name : Nat) : Option Nat := (enums.find? (fun e => e.2 == name)).map (·.1)

/-- what a configuration holds for a bit-field value: an enum name or a number -/
inductive CfgVal where
  | name (n : Nat)
  | num (v : Nat)
  deriving Repr, DecidableEq

/-- `get_enum_value()`: the name of the first enum with this value if that name decodes back to the value, else the number -/
def enumValue (enums : List (Nat × Nat)) (v : Nat) : CfgVal :=
  match enums.find? (fun e => e.1 == v) with
  | some e => if enumConstant enums e.2 = some v then .name e.2 else .num v
  | none => .num v

/-- `set_enum_value(x)`: a known name gives its constant, a number itself; an unknown name is refused -/
def decodeCfgVal (enums : List (Nat × Nat)) : CfgVal → Option Nat
  | .name n => enumConstant enums n
  | .num v => some v


/-! ### the configuration level: a generated layout with its details as a C11 register file (`Model/Registers.lean`), and the
    name layer on top of it (`find_reg` / `find_bitfield`)

Registers are taken as plain, non-reversed registers holding their raw value (a non-reversed group reads and writes like one
register of the total width); layouts with byte-reversed registers (ROTKH & co.) are outside this part of the model. -/

def toField (f : BF) (fd : FieldD) : Regs.Field :=
  { offset := f.off, width := f.width, shift := fd.shift, enums := fd.enums.map (·.1), reset := fd.reset }

def toReg (r : RegL) (rd : RegD) (v : Nat) : Regs.Reg :=
  { width := r.width, value := v, fields := List.zipWith toField r.fields rd.fields }

def toRegMeta (rd : RegD) : Regs.RegMeta :=
  { alts := rd.alts, fields := rd.fields.map (fun fd => { hidden := fd.hidden, names := fd.enums.map (·.2) }) }

def toMeta (d : LayoutD) : Regs.Meta := d.regs.map toRegMeta

def toFileFrom : List RegL → List RegD → Vals → Regs.RegFile
  | r :: rs, rd :: rds, v :: vs => toReg r rd v :: toFileFrom rs rds vs
  | _, _, _ => []

def toFile (l : Layout) (d : LayoutD) (vals : Vals) : Regs.RegFile := toFileFrom l.regs d.regs vals

def valuesOf (rf : Regs.RegFile) : Vals := rf.map (·.value)

/-- the state of a freshly constructed object -/
def LayoutD.initVals (d : LayoutD) : Vals := d.regs.map (·.init)

def noReversedB (d : LayoutD) : Bool := d.regs.all (fun rd => !rd.reverse)

/-! ### grouped registers (ROTKH, RKTH, CUST_MK_SK, reversed fuse groups): the sub-register structure of the details table

The state of an area stays the list of RAW register values; the C11 register of a group holding the raw value `v` is the fresh
group after `set_value(v, raw=True)` (sub-register `i` = its slice of `v`). -/

/-- the group as `_load_from_spec` creates it, all sub-registers zero -/
def groupBase (r : RegL) (rd : RegD) : Regs.Reg :=
  { width := r.width, reverse := rd.reverse, subW := rd.subW, subs := List.replicate rd.nsubs 0, revSubs := rd.revSubs }

/-- a register of the layout as C11 register: plain, or a group (with byte-reversed view / alternative widths in `toRegMeta`) -/
def toRegG (r : RegL) (rd : RegD) (v : Nat) : Regs.Reg :=
  if rd.subW = 0 then toReg r rd v
  else match (groupBase r rd).set v true with
    | .ok x => x
    | .error _ => groupBase r rd

def toFileFromG : List RegL → List RegD → Vals → Regs.RegFile
  | r :: rs, rd :: rds, v :: vs => toRegG r rd v :: toFileFromG rs rds vs
  | _, _, _ => []

def toFileG (l : Layout) (d : LayoutD) (vals : Vals) : Regs.RegFile := toFileFromG l.regs d.regs vals

/-- `get_value(raw=True)` of every register -/
def valuesOfG (rf : Regs.RegFile) : Vals := rf.map (fun r => if r.isGroup then Regs.assemble r else r.value)

/-- the group structure of one register is database-like (C11 `GroupWF` / `AltOK`): a plain register is not reversed and has no
    alternative widths; a group has no bit-fields of its own, is exactly as wide as its sub-registers, its alternative widths are byte
    and sub-register multiples not wider than the group, the sub-register order is normal when there are alternative widths, and a
    FRESH group with alternative widths holds zero (so the sub-registers beyond a short value are zero) -/
def groupOkB (r : RegL) (rd : RegD) : Bool :=
  if rd.subW = 0 then !rd.reverse && rd.alts.isEmpty
  else r.fields.isEmpty && r.width == rd.subW * rd.nsubs &&
    rd.alts.all (fun a => a % 8 == 0 && decide (8 ≤ a) && decide (a ≤ r.width) && a % rd.subW == 0) &&
    (!rd.revSubs || rd.alts.isEmpty) && (rd.alts.isEmpty || rd.init == 0)

/-- `find_reg(name, include_group_regs=True)`: registers in order, each followed by its sub-registers; no register NAME is the
    name or uid of a sub-register, so the search for a register name never ends in a sub-register -/
def subKeysB (d : LayoutD) : Bool :=
  (orPow (d.regs.map (·.name)) &&& orPow (d.regs.flatMap (·.subKeys))) == 0

/-- all-or-nothing map -/
def optAll {α β : Type} (f : α → Option β) : List α → Option (List β)
  | [] => some []
  | a :: as => match f a, optAll f as with
    | some b, some bs => some (b :: bs)
    | _, _ => none

/-- one register entry of the dictionary `get_config` returns: keyed by NAMES -/
inductive NamedReg where
  | value (v : Nat)
  | fields (l : List (Nat × Regs.CfgVal))    -- (bit-field name, value)
  deriving Repr, DecidableEq

abbrev NamedCfg := List (Nat × NamedReg)       -- (register name, entry), in dictionary order

/-- index-keyed configuration → name-keyed dictionary (what the code really hands out) -/
def nameEntry (d : LayoutD) : Regs.RegRef × Regs.RegCfg → Option (Nat × NamedReg)
  | (.top i, .value v) => (d.regs[i]?).map (fun rd => (rd.name, .value v))
  | (.top i, .fields l) => match d.regs[i]? with
    | some rd => (optAll (fun jc => (rd.fields[jc.1]?).map (fun fd => (fd.name, jc.2))) l).map (fun l' => (rd.name, .fields l'))
    | none => none
  | (.sub _ _, _) => none

def nameCfg (d : LayoutD) (cfg : Regs.Cfg) : Option NamedCfg := optAll (nameEntry d) cfg

/-- `find_reg(name, include_group_regs=True)` on the top-level registers: first register whose name or uid is the key -/
def findReg (d : LayoutD) (key : Nat) : Option Nat := d.regs.findIdx? (fun rd => rd.name == key || rd.uid == key)

/-- `find_bitfield(name)`: first bit-field with that name -/
def findField (rd : RegD) (key : Nat) : Option Nat := rd.fields.findIdx? (fun fd => fd.name == key)

/-- name-keyed dictionary → index-keyed configuration, as `_load_yml_config` resolves it -/
def resolveEntry (d : LayoutD) : Nat × NamedReg → Option (Regs.RegRef × Regs.RegCfg)
  | (n, .value v) => (findReg d n).map (fun i => (.top i, .value v))
  | (n, .fields l) => match findReg d n with
    | some i => match d.regs[i]? with
      | some rd => (optAll (fun nc => (findField rd nc.1).map (fun j => (j, nc.2))) l).map (fun l' => (.top i, .fields l'))
      | none => none
    | none => none

def resolveCfg (d : LayoutD) (n : NamedCfg) : Option Regs.Cfg := optAll (resolveEntry d) n

/-! ### Boolean checkers over a layout together with its details (run by the kernel over the generated tables) -/

def zipAll {α β} (p : α → β → Bool) : List α → List β → Bool
  | [], [] => true
  | a :: as, b :: bs => p a b && zipAll p as bs
  | _, _ => false

/-- both tables describe the same registers and bit-fields -/
def groupsB (l : Layout) (d : LayoutD) : Bool := zipAll groupOkB l.regs d.regs && subKeysB d

def alignedB (l : Layout) (d : LayoutD) : Bool :=
  zipAll (fun r rd => r.fields.length == rd.fields.length) l.regs d.regs &&
  l.computed == d.computed.map (fun c => (c.1, c.2.1))

/-- the initial value fits the register; every bit-field reset value fits its field and IS what the field reads in the initial value -/
def resetsB (l : Layout) (d : LayoutD) : Bool :=
  zipAll (fun r rd => decide (rd.init < 2 ^ r.width) &&
    zipAll (fun f fd => decide (fd.reset >>> fd.shift < 2 ^ f.width) &&
      ((rd.init >>> f.off) % 2 ^ f.width) <<< fd.shift == fd.reset) r.fields rd.fields) l.regs d.regs

/-- every enum value fits its bit-field (after the SHIFT_RIGHT processor) -/
def enumsFitB (l : Layout) (d : LayoutD) : Bool :=
  zipAll (fun r rd => zipAll (fun f fd => fd.enums.all (fun e => decide (e.1 >>> fd.shift < 2 ^ f.width))) r.fields rd.fields) l.regs d.regs

/-- no two registers share a name; no two registers share a (non-empty) uid (XMCD merges the registers of two specification
    files, header and option block, whose uids are independent: names only) -/
def regNamesB (l : Layout) (d : LayoutD) : Bool :=
  nodupFastB (d.regs.map (·.name)) && (l.kind == 7 || nodupFastB ((d.regs.map (·.uid)).filter (· != d.emptyName)))

def otherUids (d : LayoutD) : List Nat :=
  (d.regs.filter (fun r => r.uid != r.name && r.uid != d.emptyName)).map (·.uid)

/-- `find_reg(name)` resolves the name of every register to that register: names are unique and non-empty, and no register's
    name is the uid of ANOTHER register (`find_reg` matches name or uid, first hit wins) -/
def findRegB (d : LayoutD) : Bool :=
  nodupFastB (d.regs.map (·.name)) && !(d.regs.map (·.name)).contains d.emptyName &&
  (orPow (d.regs.map (·.name)) &&& orPow (otherUids d)) == 0

/-- no two bit-fields of one register share a name -/
def fieldNamesB (d : LayoutD) : Bool := d.regs.all (fun rd => nodupFastB (rd.fields.map (·.name)))

/-- the computed bit-field named by the database is exactly the bits the rule writes (rule 0: bits 16..31, rule 1: bits 8..15),
    sits in a 32-bit register and is hidden in the loaded object -/
def computedTargetsB (l : Layout) (d : LayoutD) : Bool :=
  d.computed.all (fun c => match l.regs[c.1]?, d.regs[c.1]? with
    | some r, some rd => match r.fields[c.2.2]?, rd.fields[c.2.2]? with
      | some f, some fd => r.width == 32 && fd.hidden &&
          ((c.2.1 == 0 && f.off == 16 && f.width == 16) || (c.2.1 == 1 && f.off == 8 && f.width == 8))
      | _, _ => false
    | _, _ => false)

/-- the seal words are whole 32-bit registers -/
def sealRegsB (l : Layout) : Bool :=
  (List.range l.sealCount).all (fun k => l.regs.any (fun r => r.off == l.sealStart + 4 * k && r.width == 32))



/-- FCB layouts: the tag register is the first word, its reset value is the FCB tag, the block is at least FCB.SIZE long (the
    parser's length check accepts every export) and has an even length (byte-swapped images) -/
def fcbTableB (minSize : Nat) (tag : Bytes) (l : Layout) (d : LayoutD) : Bool :=
  match d.aux with
  | [ti] => (match l.regs[ti]?, d.regs[ti]? with
    | some r, some rd => r.off == 0 && r.width == 32 && !r.hidden && leEnc 4 rd.init == tag
    | _, _ => false) && decide (minSize ≤ l.exportLen) && l.exportLen % 2 == 0
  | _ => false

def wordsFromB : Nat → List RegL → Bool
  | _, [] => true
  | k, r :: rs => r.off == 4 * k && r.width == 32 && r.cov == 32 && !r.hidden && wordsFromB (k + 1) rs

/-- memcfg layouts: the count rule is resolvable, every register is a visible 32-bit word at offset 4·i -/
def memcfgTableB (l : Layout) (d : LayoutD) : Bool :=
  (match d.aux with
   | [rule, ri, fi, _] => decide (rule ≤ 2) && (rule == 0 || (ri == 0 && (match l.regs[ri]? with
      | some r => decide (fi < r.fields.length)
      | none => false)))
   | _ => false) && wordsFromB 0 l.regs && !l.regs.isEmpty

/-! ### the parsers of the segment areas (`FCB.parse`, `BCA.parse`, `FCF.parse`) -/

/-- `tag.get_bytes_value() != cls.TAG` after `registers.parse` -/
def tagCheck (tag : Bytes) (tagIdx : Nat) (l : Layout) (vals : Vals) : PyRes Vals :=
  match l.regs[tagIdx]? with
  | none => .error .spsdk                       -- find_reg raises SPSDKRegsErrorRegisterNotFound
  | some r => if leEnc r.bytes (vals.getD tagIdx 0) = tag then .ok vals else .error .spsdk

/-- `FCB.parse(binary)` into a fresh object holding `cur`: length check against FCB.SIZE, byte-swapped image detection
    (`binary[:4] == swap_bytes(TAG)` → `swap_bytes(binary)`, a ValueError for an odd length), `registers.parse` over the WHOLE
    binary, tag check -/
def fcbParse (minSize : Nat) (tag : Bytes) (tagIdx : Nat) (l : Layout) (b : Bytes) (cur : Vals) : PyRes Vals :=
  if b.length < minSize then .error .spsdk else
  match (if b.take tag.length = swapPairs tag then swapBytes b else .ok b) with
  | .error e => .error e
  | .ok b' => tagCheck tag tagIdx l (parseArea l b' cur)

/-- `BCA.parse`: no length check, `registers.parse`, tag check -/
def bcaParse (tag : Bytes) (tagIdx : Nat) (l : Layout) (b : Bytes) (cur : Vals) : PyRes Vals :=
  tagCheck tag tagIdx l (parseArea l b cur)

/-- `FCF.parse`: length check against FCF.SIZE, `registers.parse` -/
def fcfParse (minSize : Nat) (l : Layout) (b : Bytes) (cur : Vals) : PyRes Vals :=
  if b.length < minSize then .error .spsdk else .ok (parseArea l b cur)

/-! ### memory-configuration option words (`MemoryConfig.option_words_count / option_words / parse`) -/

/-- number of option words that count: rule 0 `All`, 1 `OptionSize` (1 + the field of the first register), 2 `AcTimingMode`
    (all words iff the field reads the enum value `UserDefined`); anything else raises -/
def owCount (aux : List Nat) (l : Layout) (vals : Vals) : PyRes Nat :=
  match aux with
  | [rule, ri, fi, ud] =>
    if rule = 0 then .ok l.regs.length
    else match l.regs[ri]? with
      | none => .error .spsdk
      | some r => match r.fields[fi]? with
        | none => .error .spsdk
        | some f =>
          let fv := (vals.getD ri 0 >>> f.off) % 2 ^ f.width
          if rule = 1 then .ok (1 + fv)
          else if rule = 2 then .ok (if fv = ud then l.regs.length else 1)
          else .error .spsdk
  | _ => .error .spsdk

/-- `option_words`: the leading registers that count (all registers of these areas are visible) -/
def optionWords (aux : List Nat) (l : Layout) (vals : Vals) : PyRes (List Nat) :=
  match owCount aux l vals with
  | .error e => .error e
  | .ok n => .ok (vals.take n)

/-- `option_words_to_bytes` -/
def owBytes (ws : List Nat) : Bytes := ws.flatMap (leEnc 4)

/-! ### XMCD: header word and CRC -/

/-- the XMCD header word (little endian at offset 0): size[0:12] type[12:16] instance[16:20] interface[20:24]
    version[24:28] tag[28:32] -/
def xmcdHeader (tag size blockType inst iface : Nat) : Nat :=
  (size &&& 0xFFF) ||| ((blockType &&& 0xF) <<< 12) ||| ((inst &&& 0xF) <<< 16) ||| ((iface &&& 0xF) <<< 20) ||| ((tag &&& 0xF) <<< 28)

def xmcdSizeField (hdr : Nat) : Nat := hdr &&& 0xFFF
def xmcdTagField (hdr : Nat) : Nat := (hdr >>> 28) &&& 0xF

/-- non-reflected (MSB first) 32-bit CRC with polynomial `poly` (without the x^32 term), start value `init`, final xor `fx` -/
def crcStepP (poly crc : Nat) : Nat :=
  if crc &&& 0x80000000 ≠ 0 then ((crc <<< 1) ^^^ poly) &&& 0xFFFFFFFF else (crc <<< 1) &&& 0xFFFFFFFF

def crcByteP (poly crc : Nat) (x : UInt8) : Nat :=
  let c := crc ^^^ (x.toNat <<< 24)
  crcStepP poly (crcStepP poly (crcStepP poly (crcStepP poly (crcStepP poly (crcStepP poly (crcStepP poly (crcStepP poly c)))))))

def crcMsb32 (poly init fx : Nat) (b : Bytes) : Nat := (b.foldl (crcByteP poly) init) ^^^ fx

/-- CRC-32/MPEG-2: poly 0x04C11DB7, init 0xFFFFFFFF, no reflection, no final xor (`CrcAlg.CRC32_MPEG`) -/
def crc32Mpeg (b : Bytes) : Nat := crcMsb32 0x04C11DB7 0xFFFFFFFF 0 b

/-- `XMCD.crc`: big-endian bytes of the CRC of the exported block -/
def xmcdCrc (l : Layout) (vals : Vals) : PyRes Bytes :=
  match exportArea l vals with
  | .error e => .error e
  | .ok b => .ok (beEnc 4 (crc32Mpeg b))

/-! ### TrustZone preset: a fixed list of 32-bit words, `struct.pack("<nI")` / `struct.unpack("<nL")` -/

def tzExport (ws : List Nat) : PyRes Bytes :=
  if ws.all (· < 2 ^ 32) then .ok (ws.flatMap (leEnc 4)) else .error .other   -- struct.error

def tzWordsOf : Nat → Bytes → List Nat
  | 0, _ => []
  | n + 1, b => leDec (b.take 4) :: tzWordsOf n (b.drop 4)

/-- `_parse_raw_data` for `n` presets: refuses a binary with fewer than `n` words, ignores a longer tail
    (`struct.unpack(f"<{n}L", raw_data[: n * 4])`) -/
def tzParse (n : Nat) (b : Bytes) : PyRes (List Nat) :=
  if n > b.length / 4 then .error .spsdk else .ok (tzWordsOf n b)

/-! ### decoding of a scalar register value of a configuration (`_RegistersBase._load_yml_config`)

`get_hex_value` writes a register marked `config_as_hexstring` as hexadecimal digits WITHOUT the `0x` prefix (zero padded to the
width); the loader must read such a text in base 16.  The decision "which parser under which condition, in which order" is GENERATED
from the source (`Generated/ScalarRule.lean`); the parsers are modelled on digit lists. -/

inductive ScalarParser where
  | hex16          -- `int(x, 16)`
  | valueToInt     -- `value_to_int(x)`
  deriving Repr, DecidableEq

inductive ScalarCond where
  | always
  | hexStr         -- `register.config_as_hexstring and isinstance(x, str)`
  | hexReg         -- `register.config_as_hexstring`
  deriving Repr, DecidableEq

structure ScalarStep where
  cond : ScalarCond
  parser : ScalarParser
  tryNext : Bool     -- a parse error of this step is caught and the next step is tried (otherwise it is raised)
  deriving Repr, DecidableEq

abbrev ScalarRule := List ScalarStep

/-- a scalar of a configuration: an int, a string of hexadecimal digits (values 0..15, most significant first) without prefix, or
    such a string behind `0x` -/
inductive Scalar where
  | int (v : Nat)
  | digits (ds : List Nat)
  | prefixed (ds : List Nat)
  deriving Repr, DecidableEq

def Scalar.isStr : Scalar → Bool
  | .int _ => false
  | _ => true

def digitsVal (base : Nat) (ds : List Nat) : Nat := ds.foldl (fun a d => a * base + d) 0

/-- `int(x, 16)` (Python accepts the `0x` prefix in base 16; an int argument is a TypeError) -/
def parseHex16 : Scalar → Option Nat
  | .int _ => none
  | .digits ds => if ds.isEmpty then none else some (digitsVal 16 ds)
  | .prefixed ds => if ds.isEmpty then none else some (digitsVal 16 ds)

/-- `value_to_int(x)` on these texts (regex `(0[box])?([0-9a-f_]+)([ul]{0,3})$` on the lower-cased text): `0x` + digits is
    hexadecimal; an unprefixed text that starts with `0b` is a BINARY literal (an error when a digit is not 0/1); any other unprefixed
    text is DECIMAL (an error when it contains a..f) -/
def valueToIntS : Scalar → Option Nat
  | .int v => some v
  | .prefixed ds => if ds.isEmpty then none else some (digitsVal 16 ds)
  | .digits (0 :: 11 :: d :: rest) => if (d :: rest).all (· ≤ 1) then some (digitsVal 2 (d :: rest)) else none
  | .digits ds => if !ds.isEmpty && ds.all (· ≤ 9) then some (digitsVal 10 ds) else none

def ScalarParser.run : ScalarParser → Scalar → Option Nat
  | .hex16 => parseHex16
  | .valueToInt => valueToIntS

def ScalarCond.holds (c : ScalarCond) (hexstring isStr : Bool) : Bool :=
  match c with
  | .always => true
  | .hexStr => hexstring && isStr
  | .hexReg => hexstring

/-- the value handed to `set_value`, `none` = an exception -/
def decodeScalar : ScalarRule → Bool → Scalar → Option Nat
  | [], _, _ => none
  | st :: rest, hx, s =>
    if st.cond.holds hx s.isStr then
      match st.parser.run s with
      | some v => some v
      | none => if st.tryNext then decodeScalar rest hx s else none
    else decodeScalar rest hx s

/-- `n` hexadecimal digits of `v`, most significant first: the text `get_hex_value` writes for a `config_as_hexstring` register -/
def hexDigits : Nat → Nat → List Nat
  | 0, _ => []
  | n + 1, v => hexDigits n (v / 16) ++ [v % 16]

/-- the first step that applies to a hex-string register given as a string is `int(x, 16)` -/
def hexFirstB (rule : ScalarRule) : Bool :=
  match rule.find? (fun st => st.cond.holds true true) with
  | some st => st.parser == .hex16
  | none => false

end SpsdkVerif.CfgArea
