/-
Hand-written executable model of `spsdk/utils/registers.py` (Register, RegsBitField, Registers),
tied to /repo by the C11 op-sequence correspondence (harness/props/C11.py).

Values are unbounded `Nat` exactly like Python ints; a plain register stores `_value`; a grouped
register stores nothing itself and is assembled from its sub-registers.
-/
import SpsdkVerif.Base.Py
import SpsdkVerif.Model.Misc

namespace SpsdkVerif.Regs
open SpsdkVerif SpsdkVerif.Misc

structure Field where
  offset : Nat
  width : Nat
  shift : Nat := 0            -- SHIFT_RIGHT config processor count (0 = no processor)
  enums : List Nat := []      -- enum values; enum `k` is named "E<k>" in the harness
  reset : Nat := 0            -- reset_value_int of the spec
  deriving Repr, DecidableEq

structure Reg where
  width : Nat                 -- bits, multiple of 8
  reverse : Bool := false
  value : Nat := 0            -- `_value` (plain register)
  resetRaw : Nat := 0         -- `_reset_value` of the spec
  fields : List Field := []
  subW : Nat := 0             -- 0 = plain register; otherwise width of each sub-register
  subs : List Nat := []       -- sub-register values
  revSubs : Bool := false     -- reverse_subregs_order
  deriving Repr, DecidableEq

abbrev RegFile := List Reg

/-- byte reversal of a value on `w/8` bytes (Python: `to_bytes(w//8, 'big')` then `from_bytes(…, 'little')`).
    `none` when the value does not fit (Python raises through `get_bytes_cnt_of_int`). -/
def brev (w v : Nat) : Option Nat :=
  if v < 256 ^ (w / 8) ∨ v = 0 then some (leDec (beEnc (w / 8) v)) else none

def mask (w : Nat) : Nat := 2 ^ w - 1

def Reg.isGroup (r : Reg) : Bool := r.subW != 0

def subPos (r : Reg) (i : Nat) : Nat :=   -- bit position of sub-register `i` (0-based)
  if r.revSubs then r.width - (i + 1) * r.subW else i * r.subW

def assemble (r : Reg) : Nat :=
  (List.range r.subs.length).foldl (fun acc i => acc ||| (r.subs.getD i 0 <<< subPos r i)) 0

/-- `Register.get_value(raw)` -/
def Reg.get (r : Reg) (raw : Bool) : PyRes Nat :=
  let v := if r.isGroup then assemble r else r.value
  if !raw && r.reverse then
    match brev r.width v with
    | some x => .ok x
    | none => .error .spsdk
  else .ok v

/-- `Register.set_value(int, raw)` -/
def Reg.set (r : Reg) (v : Nat) (raw : Bool) : PyRes Reg :=
  if v ≥ 2 ^ r.width then .error .spsdk else
  let v' : Option Nat := if !raw && r.reverse then brev r.width v else some v
  match v' with
  | none => .error .spsdk
  | some v' =>
    if r.isGroup then
      let n := r.width / r.subW
      .ok { r with subs := (List.range r.subs.length).map (fun i =>
              if i < n then (v' >>> subPos r i) &&& mask r.subW else r.subs.getD i 0) }
    else .ok { r with value := v' }

/-- `RegsBitField.get_value()` : always through the non-raw view of the parent -/
def fieldGet (r : Reg) (f : Field) : PyRes Nat :=
  match r.get false with
  | .error e => .error e
  | .ok rv => .ok (((rv >>> f.offset) &&& mask f.width) <<< f.shift)

/-- clear-and-insert on the register value (the mask/shift arithmetic of `set_value`) -/
def insertBits (rv off w v : Nat) : Nat :=
  (rv - (rv &&& (mask w <<< off))) ||| ((v <<< off) &&& (mask w <<< off))

/-- `RegsBitField.set_value(int, raw, no_preprocess)`; a value that does not fit in `width` bits is refused -/
def fieldSet (r : Reg) (f : Field) (v : Nat) (raw noPre : Bool) : PyRes Reg :=
  let v1 := if noPre then v else v >>> f.shift
  if v1 ≥ 2 ^ f.width then .error .spsdk else
  match r.get raw with
  | .error e => .error e
  | .ok rv => r.set (insertBits rv f.offset f.width v1) raw

/-- reset value of a register: spec value or-ed with the bit-field reset values -/
def Reg.resetValue (r : Reg) : Nat :=
  r.fields.foldl (fun acc f => acc ||| ((f.reset &&& mask f.width) <<< f.offset)) r.resetRaw

def Reg.reset (r : Reg) : PyRes Reg := r.set r.resetValue true

/-! ### register-file operations -/

inductive Op where
  | setReg (i v : Nat) (raw : Bool)
  | setField (i j v : Nat) (raw : Bool)
  | setEnum (i j k : Nat)              -- by enum name "E<k>" (raw = false)
  | resetReg (i : Nat)
  | resetAll
  | parse (b : Bytes) (little : Bool)
  deriving Repr

def updAt (rf : RegFile) (i : Nat) (f : Reg → PyRes Reg) : PyRes RegFile :=
  match rf[i]? with
  | none => .error .spsdk
  | some r => match f r with
    | .error e => .error e
    | .ok r' => .ok (rf.set i r')

def parseAll : RegFile → Nat → Bytes → Bool → PyRes RegFile
  | [], _, _, _ => .ok []
  | r :: rs, off, b, little =>
    -- registers are laid out back to back at `off` (the harness generates contiguous layouts)
    if b.length < off + r.width / 8 then .ok (r :: rs)      -- "parsing ends at this register"
    else
      let chunk := (b.drop off).take (r.width / 8)
      let v := if little then leDec chunk else beDec chunk
      match r.set v true with
      | .error e => .error e
      | .ok r' => match parseAll rs (off + r.width / 8) b little with
        | .error e => .error e
        | .ok rs' => .ok (r' :: rs')

def resetAllRegs : RegFile → PyRes RegFile
  | [] => .ok []
  | r :: rs => match r.reset with
    | .error e => .error e
    | .ok r' => match resetAllRegs rs with
      | .error e => .error e
      | .ok rs' => .ok (r' :: rs')

def step (rf : RegFile) : Op → PyRes RegFile
  | .setReg i v raw => updAt rf i (fun r => r.set v raw)
  | .setField i j v raw => updAt rf i (fun r =>
      match r.fields[j]? with
      | none => .error .spsdk
      | some f => fieldSet r f v raw false)
  | .setEnum i j k => updAt rf i (fun r =>
      match r.fields[j]? with
      | none => .error .spsdk
      | some f => match f.enums[k]? with
        | none => .error .spsdk
        | some v => fieldSet r f v false false)
  | .resetReg i => updAt rf i Reg.reset
  | .resetAll => resetAllRegs rf
  | .parse b little => parseAll rf 0 b little

/-- `Registers.export()` for a contiguous layout: every register's raw bytes in base endianness -/
def exportRegs (rf : RegFile) (little : Bool) : PyRes Bytes :=
  rf.foldl (fun acc r =>
    match acc, r.get true with
    | .error e, _ => .error e
    | _, .error e => .error e
    | .ok b, .ok v =>
      if v ≥ 256 ^ (r.width / 8) ∧ v ≠ 0 then .error .spsdk
      else .ok (b ++ (if little then leEnc (r.width / 8) v else beEnc (r.width / 8) v))) (.ok [])

end SpsdkVerif.Regs
