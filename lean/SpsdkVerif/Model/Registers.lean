/-
Hand-written executable model of `spsdk/utils/registers.py` (Register, RegsBitField, Registers),
tied to /repo by the C11 op-sequence correspondence (harness/props/C11.py).

Values are unbounded `Nat` exactly like Python ints; a plain register stores `_value`; a grouped
register stores nothing itself and is assembled from its sub-registers.
-/
import SpsdkVerif.Base.Py
import SpsdkVerif.Model.Misc

namespace SpsdkVerif.Regs
open SpsdkVerif SpsdkVerif.Misc

structure Field where
  offset : Nat
  width : Nat
  shift : Nat := 0            -- SHIFT_RIGHT config processor count (0 = no processor)
  enums : List Nat := []      -- enum values; enum `k` is named "E<k>" in the harness
  reset : Nat := 0            -- reset_value_int of the spec
  deriving Repr, DecidableEq

structure Reg where
  width : Nat                 -- bits, multiple of 8
  reverse : Bool := false
  value : Nat := 0            -- `_value` (plain register)
  resetRaw : Nat := 0         -- `_reset_value` of the spec
  fields : List Field := []
  subW : Nat := 0             -- 0 = plain register; otherwise width of each sub-register
  subs : List Nat := []       -- sub-register values
  revSubs : Bool := false     -- reverse_subregs_order
  deriving Repr, DecidableEq

abbrev RegFile := List Reg

/-- byte reversal of a value on `w/8` bytes (Python: `to_bytes(w//8, 'big')` then `from_bytes(…, 'little')`).
    `none` when the value does not fit (Python raises through `get_bytes_cnt_of_int`). -/
def brev (w v : Nat) : Option Nat :=
  if v < 256 ^ (w / 8) ∨ v = 0 then some (leDec (beEnc (w / 8) v)) else none

def mask (w : Nat) : Nat := 2 ^ w - 1

def Reg.isGroup (r : Reg) : Bool := r.subW != 0

def subPos (r : Reg) (i : Nat) : Nat :=   -- bit position of sub-register `i` (0-based)
  if r.revSubs then r.width - (i + 1) * r.subW else i * r.subW

def assemble (r : Reg) : Nat :=
  (List.range r.subs.length).foldl (fun acc i => acc ||| (r.subs.getD i 0 <<< subPos r i)) 0

/-- `Register.get_value(raw)` -/
def Reg.get (r : Reg) (raw : Bool) : PyRes Nat :=
  let v := if r.isGroup then assemble r else r.value
  if !raw && r.reverse then
    match brev r.width v with
    | some x => .ok x
    | none => .error .spsdk
  else .ok v

/-- `Register.set_value(int, raw)` -/
def Reg.set (r : Reg) (v : Nat) (raw : Bool) : PyRes Reg :=
  if v ≥ 2 ^ r.width then .error .spsdk else
  let v' : Option Nat := if !raw && r.reverse then brev r.width v else some v
  match v' with
  | none => .error .spsdk
  | some v' =>
    if r.isGroup then
      let n := r.width / r.subW
      .ok { r with subs := (List.range r.subs.length).map (fun i =>
              if i < n then (v' >>> subPos r i) &&& mask r.subW else r.subs.getD i 0) }
    else .ok { r with value := v' }

/-- `RegsBitField.get_value()` : always through the non-raw view of the parent -/
def fieldGet (r : Reg) (f : Field) : PyRes Nat :=
  match r.get false with
  | .error e => .error e
  | .ok rv => .ok (((rv >>> f.offset) &&& mask f.width) <<< f.shift)

/-- clear-and-insert on the register value (the mask/shift arithmetic of `set_value`) -/
def insertBits (rv off w v : Nat) : Nat :=
  (rv - (rv &&& (mask w <<< off))) ||| ((v <<< off) &&& (mask w <<< off))

/-- `RegsBitField.set_value(int, raw, no_preprocess)`; a value that does not fit in `width` bits is refused -/
def fieldSet (r : Reg) (f : Field) (v : Nat) (raw noPre : Bool) : PyRes Reg :=
  let v1 := if noPre then v else v >>> f.shift
  if v1 ≥ 2 ^ f.width then .error .spsdk else
  match r.get raw with
  | .error e => .error e
  | .ok rv => r.set (insertBits rv f.offset f.width v1) raw

/-- reset value of a register: spec value or-ed with the bit-field reset values -/
def Reg.resetValue (r : Reg) : Nat :=
  r.fields.foldl (fun acc f => acc ||| ((f.reset &&& mask f.width) <<< f.offset)) r.resetRaw

def Reg.reset (r : Reg) : PyRes Reg := r.set r.resetValue true

/-! ### register-file operations -/

inductive Op where
  | setReg (i v : Nat) (raw : Bool)
  | setField (i j v : Nat) (raw : Bool)
  | setEnum (i j k : Nat)              -- by enum name "E<k>" (raw = false)
  | resetReg (i : Nat)
  | resetAll
  | parse (b : Bytes) (little : Bool)
  deriving Repr

def updAt (rf : RegFile) (i : Nat) (f : Reg → PyRes Reg) : PyRes RegFile :=
  match rf[i]? with
  | none => .error .spsdk
  | some r => match f r with
    | .error e => .error e
    | .ok r' => .ok (rf.set i r')

def parseAll : RegFile → Nat → Bytes → Bool → PyRes RegFile
  | [], _, _, _ => .ok []
  | r :: rs, off, b, little =>
    -- registers are laid out back to back at `off` (the harness generates contiguous layouts)
    if b.length < off + r.width / 8 then .ok (r :: rs)      -- "parsing ends at this register"
    else
      let chunk := (b.drop off).take (r.width / 8)
      let v := if little then leDec chunk else beDec chunk
      match r.set v true with
      | .error e => .error e
      | .ok r' => match parseAll rs (off + r.width / 8) b little with
        | .error e => .error e
        | .ok rs' => .ok (r' :: rs')

def resetAllRegs : RegFile → PyRes RegFile
  | [] => .ok []
  | r :: rs => match r.reset with
    | .error e => .error e
    | .ok r' => match resetAllRegs rs with
      | .error e => .error e
      | .ok rs' => .ok (r' :: rs')

def step (rf : RegFile) : Op → PyRes RegFile
  | .setReg i v raw => updAt rf i (fun r => r.set v raw)
  | .setField i j v raw => updAt rf i (fun r =>
      match r.fields[j]? with
      | none => .error .spsdk
      | some f => fieldSet r f v raw false)
  | .setEnum i j k => updAt rf i (fun r =>
      match r.fields[j]? with
      | none => .error .spsdk
      | some f => match f.enums[k]? with
        | none => .error .spsdk
        | some v => fieldSet r f v false false)
  | .resetReg i => updAt rf i Reg.reset
  | .resetAll => resetAllRegs rf
  | .parse b little => parseAll rf 0 b little

/-- `Registers.export()` for a contiguous layout: every register's raw bytes in base endianness -/
def exportRegs (rf : RegFile) (little : Bool) : PyRes Bytes :=
  rf.foldl (fun acc r =>
    match acc, r.get true with
    | .error e, _ => .error e
    | _, .error e => .error e
    | .ok b, .ok v =>
      if v ≥ 256 ^ (r.width / 8) ∧ v ≠ 0 then .error .spsdk
      else .ok (b ++ (if little then leEnc (r.width / 8) v else beEnc (r.width / 8) v))) (.ok [])

/-! ## C11 extension: alternative widths and the configuration path (`get_config` / `load_yml_config`)

Everything below only ADDS definitions (Model/ConfigArea.lean and the C11/C12 proofs build on the ones above).
Facts that the core structures do not carry (hidden bit-fields, enum names shared by several values,
`alt_widths`) live in a separate `Meta` value that is passed along; `Meta = []` means "none of these". -/

/-- what `RegsBitField` knows beyond `Field` -/
structure FieldMeta where
  hidden : Bool := false        -- spec entry without a name ("HIDDEN_BITFIELD_xxx"): reserved bits
  names : List Nat := []        -- name id of enum entry `k` (several entries may share one name); missing = `k`
  deriving Repr, DecidableEq

/-- what `Register` knows beyond `Reg` -/
structure RegMeta where
  alts : List Nat := []         -- `alt_widths` (None / [] = no alternative widths)
  fields : List FieldMeta := []
  deriving Repr, DecidableEq

abbrev Meta := List RegMeta

def Meta.reg (m : Meta) (i : Nat) : RegMeta := m.getD i {}
def RegMeta.field (rm : RegMeta) (j : Nat) : FieldMeta := rm.fields.getD j {}
def FieldMeta.nameOf (fm : FieldMeta) (k : Nat) : Nat := fm.names.getD k k

/-! ### alternative widths -/

/-- `get_bytes_cnt_of_int(value, align_to_2n=False)` -/
def byteCnt (v : Nat) : Nat := if v = 0 then 1 else byteLen v

/-- `Register.get_alt_width(value)`: the smallest alternative width whose byte count holds the value, else the width
    (the code sorts the list and takes the first hit). -/
def altWidth (alts : List Nat) (w v : Nat) : Nat :=
  match alts.filter (fun a => decide (byteCnt v ≤ a / 8)) with
  | [] => w
  | a :: as => as.foldl min a

/-- bit position of sub-register `i` when the value is `aw` bits wide -/
def subPosW (r : Reg) (aw i : Nat) : Nat :=
  if r.revSubs then aw - (i + 1) * r.subW else i * r.subW

/-- `Register.set_value(int, raw)` of a register with `alt_widths = alts`: the byte reversal works on `alt/8` bytes and
    only the first `alt / subW` sub-registers are written (the others keep their content). -/
def Reg.setAlt (r : Reg) (alts : List Nat) (v : Nat) (raw : Bool) : PyRes Reg :=
  if v ≥ 2 ^ r.width then .error .spsdk else
  let aw := altWidth alts r.width v
  let v' : Option Nat := if !raw && r.reverse then brev aw v else some v
  match v' with
  | none => .error .spsdk
  | some v' =>
    if r.isGroup then
      let n := aw / r.subW
      .ok { r with subs := (List.range r.subs.length).map (fun i =>
              if i < n then (v' >>> subPosW r aw i) &&& mask r.subW else r.subs.getD i 0) }
    else .ok { r with value := v' }

/-- `Register.get_value(raw)` with `alt_widths = alts`: the alternative width is recomputed from the stored value -/
def Reg.getAlt (r : Reg) (alts : List Nat) (raw : Bool) : PyRes Nat :=
  let v := if r.isGroup then assemble r else r.value
  if !raw && r.reverse then
    match brev (altWidth alts r.width v) v with
    | some x => .ok x
    | none => .error .spsdk
  else .ok v

/-! ### configuration values -/

/-- a bit-field value inside a configuration -/
inductive CfgVal where
  | enumName (n : Nat)      -- a string used as enum name (name id `n`)
  | num (v : Nat)           -- an int or a numeric string
  | rawNum (v : Nat)        -- "RAW:<number>": written without the config pre-processor
  deriving Repr, DecidableEq

/-- the configuration of one register -/
inductive RegCfg where
  | value (v : Nat)                     -- `{"value": x}` or a plain int / numeric string
  | fields (l : List (Nat × CfgVal))    -- `{name: x, …}` / `{"bitfields": {…}}`, bit-fields by index, in dict order
  deriving Repr, DecidableEq

/-- what `find_reg(name, include_group_regs=True)` resolves a key to -/
inductive RegRef where
  | top (i : Nat)
  | sub (i k : Nat)                     -- sub-register `k` of grouped register `i`
  deriving Repr, DecidableEq

def RegRef.idx : RegRef → Nat
  | .top i => i
  | .sub i _ => i

abbrev Cfg := List (RegRef × RegCfg)

/-- `RegsBitField.get_enum_constant(name)`: value of the first entry with that name -/
def enumConst (f : Field) (fm : FieldMeta) (n : Nat) : Option Nat :=
  match (List.range f.enums.length).find? (fun k => fm.nameOf k == n) with
  | some k => f.enums[k]?
  | none => none

/-- `RegsBitField.get_enum_value()` (after 85623b6): the name of the first entry with the current value, provided
    that name decodes back to this value; otherwise the number (rendered as hex string by the code). -/
def enumValueOf (r : Reg) (f : Field) (fm : FieldMeta) : PyRes CfgVal :=
  match fieldGet r f with
  | .error e => .error e
  | .ok v =>
    match (List.range f.enums.length).find? (fun k => f.enums.getD k 0 == v) with
    | some k => if enumConst f fm (fm.nameOf k) = some v then .ok (.enumName (fm.nameOf k)) else .ok (.num v)
    | none => .ok (.num v)

/-- the bit-field part of `get_config(diff=False)`: every bit-field except hidden ones that hold their reset value -/
def fieldsConfig (r : Reg) (rm : RegMeta) : List Field → Nat → PyRes (List (Nat × CfgVal))
  | [], _ => .ok []
  | f :: fs, j =>
    match fieldGet r f with
    | .error e => .error e
    | .ok v =>
      if (rm.field j).hidden && v == f.reset then fieldsConfig r rm fs (j + 1)
      else match enumValueOf r f (rm.field j), fieldsConfig r rm fs (j + 1) with
        | .error e, _ => .error e
        | _, .error e => .error e
        | .ok c, .ok rest => .ok ((j, c) :: rest)

/-- one entry of `get_config`: bit-field dictionary when the register has bit-fields, else its (processed) value -/
def regConfig (r : Reg) (rm : RegMeta) : PyRes RegCfg :=
  if r.fields.isEmpty then
    match r.getAlt rm.alts false with
    | .error e => .error e
    | .ok v => .ok (.value v)
  else
    match fieldsConfig r rm r.fields 0 with
    | .error e => .error e
    | .ok l => .ok (.fields l)

def getConfigFrom (m : Meta) : RegFile → Nat → PyRes Cfg
  | [], _ => .ok []
  | r :: rs, i =>
    match regConfig r (m.reg i), getConfigFrom m rs (i + 1) with
    | .error e, _ => .error e
    | _, .error e => .error e
    | .ok c, .ok rest => .ok ((.top i, c) :: rest)

/-- `_RegistersBase.get_config(diff=False)` (every register of `_registers`, hidden ones included) -/
def getConfig (m : Meta) (rf : RegFile) : PyRes Cfg := getConfigFrom m rf 0

/-- `bitfield.set_enum_value(val, raw=True)` as `_load_yml_config` calls it: enum name → constant, otherwise the
    number; an unknown name is an error (also after the "backward compatibility" retry) -/
def loadField (r : Reg) (f : Field) (fm : FieldMeta) : CfgVal → PyRes Reg
  | .enumName n => match enumConst f fm n with
    | some v => fieldSet r f v true false
    | none => .error .spsdk
  | .num v => fieldSet r f v true false
  | .rawNum v => fieldSet r f v true true

def loadFields (r : Reg) (rm : RegMeta) : List (Nat × CfgVal) → PyRes Reg
  | [] => .ok r
  | (j, c) :: rest =>
    match r.fields[j]? with
    | none => .error .spsdk                    -- `find_bitfield` raises
    | some f => match loadField r f (rm.field j) c with
      | .error e => .error e
      | .ok r' => loadFields r' rm rest

/-- one register entry of `_load_yml_config` -/
def loadReg (r : Reg) (rm : RegMeta) : RegCfg → PyRes Reg
  | .value v => r.setAlt rm.alts v false
  | .fields l =>
    match loadFields r rm l with
    | .error e => .error e
    | .ok r1 =>
      -- "Run the processing of loaded register value": `register.set_value(register.get_value(True), False)`
      match r1.getAlt rm.alts true with
      | .error e => .error e
      | .ok v => r1.setAlt rm.alts v false

/-- an entry that names a sub-register of a group (sub-registers are plain, never reversed, and carry no
    bit-fields in this model) -/
def loadSub (r : Reg) (k : Nat) : RegCfg → PyRes Reg
  | .value v =>
    if r.isGroup ∧ k < r.subs.length then
      (if v ≥ 2 ^ r.subW then .error .spsdk else .ok { r with subs := r.subs.set k v })
    else .error .spsdk
  | .fields [] => if r.isGroup ∧ k < r.subs.length then .ok r else .error .spsdk
  | .fields (_ :: _) => .error .spsdk

def loadEntry (m : Meta) (rf : RegFile) : RegRef × RegCfg → PyRes RegFile
  | (.top i, c) => updAt rf i (fun r => loadReg r (m.reg i) c)
  | (.sub i k, c) => updAt rf i (fun r => loadSub r k c)

/-- `_RegistersBase._load_yml_config(cfg)`; stops at the first entry that fails -/
def loadConfig (m : Meta) (rf : RegFile) : Cfg → PyRes RegFile
  | [] => .ok rf
  | e :: es =>
    match loadEntry m rf e with
    | .error err => .error err
    | .ok rf' => loadConfig m rf' es

end SpsdkVerif.Regs
