/-
Hand-written executable model of the helpers of `spsdk/utils/misc.py` that are not
straight-line integer functions (those are *generated*: see Generated/PyFuns.lean).
Tied to /repo by the C20 correspondence sweep (harness/props/C20.py).

Strings are ASCII `List Char`; byte strings are `List UInt8`.
-/
import SpsdkVerif.Base.Py

namespace SpsdkVerif.Misc
open SpsdkVerif

abbrev Bytes := List UInt8

/-! ### `value_to_int` (string branch): `strip().lower()`, the regex
    `(0[box])?[0-9a-f_]+[ul]{0,3}$` with Python's backtracking order, then `int(number, base)`. -/

/-- ASCII characters for which Python's `str.isspace()` holds. -/
def isWs (c : Char) : Bool :=
  c == ' ' || (9 ≤ c.toNat && c.toNat ≤ 13) || (28 ≤ c.toNat && c.toNat ≤ 31)

def lowerCh (c : Char) : Char :=
  if 'A' ≤ c ∧ c ≤ 'Z' then Char.ofNat (c.toNat + 32) else c

def strip (s : List Char) : List Char :=
  ((s.dropWhile isWs).reverse.dropWhile isWs).reverse

/-- the character class `[0-9a-f_]` -/
def isNumCh (c : Char) : Bool :=
  ('0' ≤ c && c ≤ '9') || ('a' ≤ c && c ≤ 'f') || c == '_'

def isSufCh (c : Char) : Bool := c == 'u' || c == 'l'

/-- `[0-9a-f_]+[ul]{0,3}$` on the whole of `rest`; returns the number group. -/
def matchNumSuf (rest : List Char) : Option (List Char) :=
  let n := rest.takeWhile isNumCh
  let suf := rest.dropWhile isNumCh
  if !n.isEmpty && suf.length ≤ 3 && suf.all isSufCh then some n else none

/-- The regex match: `(base, number group)`.  The optional prefix is tried first (greedy `?`),
    the prefix-less alternative only if the first fails – Python's backtracking order. -/
def regexMatch (s : List Char) : Option (Nat × List Char) :=
  let noPrefix := (matchNumSuf s).map (fun n => (10, n))
  match s with
  | '0' :: c :: rest =>
    if c == 'b' || c == 'o' || c == 'x' then
      let base := if c == 'b' then 2 else if c == 'o' then 8 else 16
      match matchNumSuf rest with
      | some n => some (base, n)
      | none => noPrefix
    else noPrefix
  | _ => noPrefix

def digitVal (c : Char) : Nat :=
  if '0' ≤ c ∧ c ≤ '9' then c.toNat - 48 else if 'a' ≤ c ∧ c ≤ 'f' then c.toNat - 87 else 99

/-- Digits with single interior underscores (CPython `_PyLong_FromString` after prefix handling):
    first and last character are digits, no two adjacent underscores, every digit `< base`. -/
def digitsValue (base : Nat) : List Char → Bool → Nat → Option Nat
  | [], prevUs, acc => if prevUs then none else some acc
  | c :: cs, prevUs, acc =>
    if c == '_' then (if prevUs then none else digitsValue base cs true acc)
    else if digitVal c < base then digitsValue base cs false (acc * base + digitVal c) else none

/-- Python `int(s, base)` for `s` over `[0-9a-f_]`, `s ≠ ""`: an optional `0b` prefix when `base = 2`
    (the only base prefix expressible in that alphabet), one optional underscore right after it,
    then `digitsValue`. -/
def pyIntOf (base : Nat) (s : List Char) : Option Nat :=
  let body (t : List Char) : Option Nat :=
    match t with
    | [] => none
    | '_' :: _ => none
    | _ => digitsValue base t false 0
  match s with
  | '0' :: 'b' :: rest =>
    if base == 2 then
      (match rest with
       | '_' :: r => body r
       | r => body r)
    else body s
  | _ => body s

/-- `value_to_int(str)` with `default=None`: `some v` or `none` (= SPSDKError). -/
def valueToInt (raw : List Char) : Option Nat :=
  if raw.isEmpty then none else
  match regexMatch ((strip raw).map lowerCh) with
  | none => none
  | some (base, n) => pyIntOf base n

/-! ### integer <-> bytes -/

/-- number of bytes of `v` (0 for 0) – the `while value != 0: value >>= 8` loop -/
def byteLenF : Nat → Nat → Nat
  | 0, _ => 0
  | f + 1, v => if v = 0 then 0 else 1 + byteLenF f (v / 256)
/-- fuel `v` is always enough (`v / 256 < v`); structural so that `decide` can evaluate it -/
def byteLen (v : Nat) : Nat := byteLenF v v

/-- `get_bytes_cnt_of_int(value, align_to_2n, byte_cnt)` for `value ≥ 0`;
    `byte_cnt = 0` models both `None` and `0` (Python tests truthiness). -/
def getBytesCnt (v : Nat) (align2n : Bool) (byteCnt : Nat) : PyRes Nat :=
  if v = 0 then .ok (if byteCnt = 0 then 1 else byteCnt) else
  let c0 := byteLen v
  let c := if align2n && c0 > 2 then (c0 + 3) / 4 * 4 else c0
  if byteCnt ≠ 0 ∧ c > byteCnt then .error .spsdk else .ok (if byteCnt = 0 then c else byteCnt)

/-- big-endian encoding on exactly `n` bytes (value taken mod 256^n) -/
def beEnc : Nat → Nat → Bytes
  | 0, _ => []
  | n + 1, v => beEnc n (v / 256) ++ [UInt8.ofNat (v % 256)]

def beDec (b : Bytes) : Nat := b.foldl (fun acc x => acc * 256 + x.toNat) 0

def leEnc (n v : Nat) : Bytes := (beEnc n v).reverse
def leDec (b : Bytes) : Nat := beDec b.reverse

/-- `value_to_bytes(int, align_to_2n, byte_cnt, endianness)` for a non-negative integer -/
def valueToBytes (v : Nat) (align2n : Bool) (byteCnt : Nat) (little : Bool) : PyRes Bytes :=
  match getBytesCnt v align2n byteCnt with
  | .error e => .error e
  | .ok n => .ok (if little then leEnc n v else beEnc n v)

/-! ### byte-order helpers -/

def swap32 (x : Int) : PyRes Int :=
  if x < 0 ∨ x > 0xFFFFFFFF then .error .spsdk else .ok (Int.ofNat (leDec (beEnc 4 x.toNat)))

/-- `reverse_bits(x, bits_cnt)` for `x ≥ 0`: format as binary padded to `bits_cnt`, reverse the string. -/
def bitsOf : Nat → Nat → List Bool   -- little-endian bit list of length n
  | 0, _ => []
  | n + 1, x => (x % 2 == 1) :: bitsOf n (x / 2)

def ofBitsBE (l : List Bool) : Nat := l.foldl (fun acc b => acc * 2 + (if b then 1 else 0)) 0

def bitLenF : Nat → Nat → Nat
  | 0, _ => 0
  | f + 1, v => if v = 0 then 0 else 1 + bitLenF f (v / 2)
def bitLen (v : Nat) : Nat := bitLenF v v

def reverseBits (x bits : Nat) : Nat :=
  let n := max bits (max (bitLen x) 1)   -- `"{:0{n}b}"` never truncates; "0" for 0
  ofBitsBE (bitsOf n x)                  -- reversed big-endian string read as big-endian = LE bit list read BE

def chunk4 : Bytes → List Bytes
  | a :: b :: c :: d :: rest => [a, b, c, d] :: chunk4 rest
  | [] => []
  | l => [l]

def reverseBytesInLongs (b : Bytes) : PyRes Bytes :=
  if b.length % 4 ≠ 0 then .error .spsdk else .ok ((chunk4 b).map List.reverse).flatten

def changeEndianness (b : Bytes) : PyRes Bytes :=
  if b.length = 1 then .ok b
  else if b.length = 2 then .ok b.reverse
  else if b.length = 3 then .error .spsdk
  else reverseBytesInLongs b

/-- `swap_bytes`: pairwise swap; Python's extended-slice assignment raises `ValueError` on odd length. -/
def swapPairs : Bytes → Bytes
  | a :: b :: rest => b :: a :: swapPairs rest
  | l => l

def swapBytes (b : Bytes) : PyRes Bytes :=
  if b.length % 2 ≠ 0 then .error .other else .ok (swapPairs b)

/-! ### padding helpers -/

def alignNat (n a : Nat) : Nat := (n + (a - 1)) / a * a

/-- `align_block(data, alignment, padding)` with a byte padding value (`None`/`0` = zeros).
    `alignment < 0` is an SPSDK error, `alignment = 0` also (through `align`). -/
def alignBlock (d : Bytes) (a : Int) (pad : UInt8) : PyRes Bytes :=
  if a ≤ 0 then .error .spsdk
  else .ok (d ++ List.replicate (alignNat d.length a.toNat - d.length) pad)

def extendBlock (d : Bytes) (len : Int) (pad : UInt8) : PyRes Bytes :=
  if len < d.length then .error .spsdk else .ok (d ++ List.replicate (len.toNat - d.length) pad)

/-- `BinaryPattern(p).get_block(size)` for the deterministic patterns -/
inductive Pattern where
  | zeros | ones | inc
  | num (v : Nat)
  deriving Repr, DecidableEq

def cycleTake (p : Bytes) : Nat → Nat → Bytes
  | 0, _ => []
  | n + 1, i => p.getD (i % p.length) 0 :: cycleTake p n (i + 1)

def Pattern.block (p : Pattern) (size : Nat) : Bytes :=
  match p with
  | .zeros => List.replicate size 0
  | .ones => List.replicate size 0xFF
  | .inc => (List.range size).map (fun i => UInt8.ofNat (i % 256))
  | .num v => cycleTake (beEnc (max (byteLen v) 1) v) size 0

/-! ### `BcdVersion3` (spsdk/sbfile/misc.py) -/

def bcdDigitOk (n : Nat) : Bool :=
  n ≤ 0x9999 && (n % 16 ≤ 9) && (n / 16 % 16 ≤ 9) && (n / 256 % 16 ≤ 9) && (n / 4096 % 16 ≤ 9)

/-- `_num_from_str`: 1..4 decimal digits -> BCD number (Python: len 0..4; `int(c)` per char) -/
def bcdFromDigits (cs : List Char) : PyRes Nat :=
  if cs.length > 4 then .error .spsdk
  else if cs.all (fun c => '0' ≤ c && c ≤ '9') then
    .ok (cs.foldl (fun acc c => acc * 16 + (c.toNat - 48)) 0)
  else .error .other

def bcdToDigits (n : Nat) : List Char :=  -- `"%X" % n`
  let ds := [n / 4096 % 16, n / 256 % 16, n / 16 % 16, n % 16]
  let ds' := ds.dropWhile (· == 0)
  (if ds'.isEmpty then [0] else ds').map (fun d => Char.ofNat (48 + d))

end SpsdkVerif.Misc
