/-
C04 phase 2: executable model of SPSDK's OWN image-level parser — `ImageHeaderV2.parse`, `BootSectionV2.parse`,
`CertSectionV2.parse`, `BootImageV21.parse`, `BootImageV20.parse` (spsdk/sbfile/sb2/{headers,sections,images}.py) —
as the code is: the checks it makes, in its order, and the ones it does NOT make (V2.1: the header MAC is never
compared, the header version is ignored, the section tag is not looked at; V2.0: sections are read while
`index < image_blocks * 16`, duplicate section ids are refused by `add_boot_section`).
Python slices `data[a : a + n]` are `Rom.slice data a n` (shorter when the data ends early, like Python).

The certificate block is opaque here (C03): `CertBlockV1.parse(data[index:])` is a parameter `cp : CertParser`
returning the three things the image parser uses — `raw_size`, `signature_size`, `verify_data`.
Exception *classes* are kept (`.spsdk` / `.other`) but the correspondence compares accepted-vs-refused only.
Not modelled: `unpack_timestamp` raising for dates beyond year 9999; KEK lengths other than 16/24/32 are refused
(`cryptography` raises ValueError).
Tied to /repo by the `images_*` and `tamper` streams of harness/props/C04.py.  No Mathlib.
-/
import SpsdkVerif.Model.Sb2

namespace SpsdkVerif.Sb2.Parse
open SpsdkVerif SpsdkVerif.Sb2
open SpsdkVerif.Misc (Bytes beEnc beDec leEnc leDec bcdDigitOk)
open SpsdkVerif.Crypto (CryptoOps HashAlg xorBytes hmac kwUnwrap)
open SpsdkVerif.Generated
open SpsdkVerif.Sb2.Rom (slice splitW)

/-- what the image parser uses of a parsed `CertBlockV1` -/
structure CertInfo where
  rawSize : Nat
  sigSize : Nat
  /-- `cert_block.verify_data(signature, data)` -/
  verify : Bytes → Bytes → Bool

/-- `CertBlockV1.parse(bytes)`; `none` = it raised -/
abbrev CertParser := Bytes → Option CertInfo

/-- `ImageHeaderV2.parse(data)`: size, the two signatures, and `BcdVersion3` refuses version numbers with a digit > 9 -/
def decodeImageHdr (d : Bytes) : PyRes Rom.Hdr :=
  if d.length < Sb2Consts.imageHeaderFmtSize then .error .spsdk
  else match splitW (Sb2Consts.imageHeaderFmt.map (·.2)) d with
    | some [nonce, _, s1, mj, mn, fl, ib, fbt, fbs, oc, hb, kbb, kbc, mmc, s2, ts, p0, _, p1, _, p2, _, c0, _, c1, _, c2, _, bn, _] =>
      if s1 ≠ Sb2Consts.imageSignature1 then .error .spsdk
      else if s2 ≠ Sb2Consts.imageSignature2 then .error .spsdk
      else
        let pv : Version3 := ⟨swap16 (leDec p0), swap16 (leDec p1), swap16 (leDec p2)⟩
        let cv : Version3 := ⟨swap16 (leDec c0), swap16 (leDec c1), swap16 (leDec c2)⟩
        if !(bcdDigitOk pv.major && bcdDigitOk pv.minor && bcdDigitOk pv.service &&
             bcdDigitOk cv.major && bcdDigitOk cv.minor && bcdDigitOk cv.service) then .error .spsdk
        else .ok { nonce := nonce, major := leDec mj, minor := leDec mn, flags := leDec fl, imageBlocks := leDec ib,
                   firstBootTagBlock := leDec fbt, firstBootSectionId := leDec fbs, offsetToCert := leDec oc,
                   headerBlocks := leDec hb, keyBlobBlock := leDec kbb, keyBlobBlockCount := leDec kbc,
                   maxSectionMacCount := leDec mmc, timestamp := leDec ts, productVersion := pv, componentVersion := cv,
                   buildNumber := leDec bn }
    | _ => .error .other

/-- the `while cmd_offset < len(decrypted_commands)` loop of `BootSectionV2.parse` -/
def parseCmds : Nat → Bytes → PyRes (List Cmd)
  | 0, d => if d.isEmpty then .ok [] else .error .other
  | fuel + 1, d =>
    if d.isEmpty then .ok []
    else match decodeCmd d with
      | .error e => .error e
      | .ok (x, n) =>
        match parseCmds fuel (d.drop n) with
        | .error e => .error e
        | .ok xs => .ok (x :: xs)

/-- the MAC-table loop of `BootSectionV2.parse`: `hc - 1` entries over `bs` bytes each, the last over the remaining
    `rem` bytes, every block sliced from the whole `data` at the running offset -/
def checkTable (c : CryptoOps) (mac data : Bytes) : Nat → Nat → Nat → Nat → Bytes → Bool
  | 0, _, _, _, _ => true
  | 1, _, rem, off, tbl => tbl.take 32 == hmac c .sha256 mac (slice data off rem)
  | n + 2, bs, rem, off, tbl =>
    (tbl.take 32 == hmac c .sha256 mac (slice data off bs)) && checkTable c mac data (n + 1) bs (rem - bs) (off + bs) (tbl.drop 32)

/-- `BootSectionV2.parse(data, offset, dek=, mac=, counter=)` with the counter at `ctr`:
    the section object (uid, `hmac_count` argument = header word, commands) and the counter afterwards -/
def parseSection (c : CryptoOps) (dek mac nonce data : Bytes) (offset ctr : Nat) : PyRes (Section × Nat) :=
  let eh := slice data offset 16
  if slice data (offset + 16) 32 ≠ hmac c .sha256 mac eh then .error .spsdk
  else match decodeHdr (xorBytes eh (ksBlock c dek nonce ctr)) with
    | .error e => .error e
    | .ok h =>
      let ctr1 := ctr + 1 + (h.data + 1) * 2
      let tbl := slice data (offset + 48) (32 * h.data)
      let body := offset + 48 + 32 * h.data
      let enc := slice data body (h.count * 16)
      if h.data = 0 then .error .other                      -- `header.count // hmac_count`: ZeroDivisionError
      else if !checkTable c mac data h.data (h.count / h.data * 16) (h.count * 16) body tbl then .error .spsdk
      else
        let n := (enc.length + 15) / 16
        let dec := ctrBlocks c dek nonce n ctr1 enc
        match parseCmds (dec.length + 1) dec with
        | .error e => .error e
        | .ok cmds => .ok (⟨h.address, h.data, cmds⟩, ctr1 + n)

/-- the section loop of `BootImageV21.parse`: `while not boot_sections or index < image_end` -/
def parseSections21 (c : CryptoOps) (dek mac nonce data : Bytes) (imageEnd : Nat) : Nat → Bool → Nat → Nat → PyRes (List Section)
  | 0, _, _, _ => .error .other
  | fuel + 1, first, index, ctr =>
    if !first && index ≥ imageEnd then .ok []
    else match parseSection c dek mac nonce data index ctr with
      | .error e => .error e
      | .ok (s, ctr') =>
        match parseSections21 c dek mac nonce data imageEnd fuel false (index + s.rawSize) ctr' with
        | .error e => .error e
        | .ok ss => .ok (s :: ss)

/-- the section loop of `BootImageV20.parse`: `while index < image_size`, `add_boot_section` refuses a duplicate uid -/
def parseSections20 (c : CryptoOps) (dek mac nonce data : Bytes) (imageEnd : Nat) : Nat → List Nat → Nat → Nat → PyRes (List Section)
  | 0, _, _, _ => .error .other
  | fuel + 1, seen, index, ctr =>
    if index ≥ imageEnd then .ok []
    else match parseSection c dek mac nonce data index ctr with
      | .error e => .error e
      | .ok (s, ctr') =>
        if s.uid ∈ seen then .error .spsdk
        else match parseSections20 c dek mac nonce data imageEnd fuel (s.uid :: seen) (index + s.rawSize) ctr' with
          | .error e => .error e
          | .ok ss => .ok (s :: ss)

/-- what `parse` returns, as far as the property is concerned (fields of the re-created object) -/
structure Parsed where
  minor : Nat                 -- the object's class: 1 = BootImageV21, 0 = BootImageV20
  flags : Nat
  productVersion : Version3
  componentVersion : Version3
  buildNumber : Nat
  timestamp : Nat
  nonce : Bytes
  dek : Bytes
  mac : Bytes
  sections : List Section     -- uid, `_hmac_count`, parsed command objects (canonical constructor arguments)
  deriving DecidableEq, Repr, Inhabited

def kekLenOk (kek : Bytes) : Bool := kek.length = 16 || kek.length = 24 || kek.length = 32

/-- `key_blob = data[128:208]; aes_key_unwrap(kek, key_blob[:-8])` -/
def unwrapKeys (c : CryptoOps) (kek data : Bytes) : PyRes (Bytes × Bytes) :=
  if kek.isEmpty then .error .spsdk
  else if !kekLenOk kek then .error .other
  else
    let kb := slice data (Sb2Consts.imageHeaderFmtSize + Sb2Consts.v21HeaderMacSize) Sb2Consts.v21KeyBlobSize
    match kwUnwrap c kek (kb.take (kb.length - 8)) with
    | none => .error .other
    | some ku => .ok (ku.take 32, ku.drop 32)

/-- `BootImageV21.parse(data, kek=kek)` (offset 0, encrypted sections) -/
def parseV21 (c : CryptoOps) (cp : CertParser) (kek data : Bytes) : PyRes Parsed :=
  match unwrapKeys c kek data with
  | .error e => .error e
  | .ok (dek, mac) =>
    match decodeImageHdr (data.take Sb2Consts.imageHeaderFmtSize) with
    | .error e => .error e
    | .ok h =>
      if h.offsetToCert ≠ headerKeysLen then .error .spsdk
      else match cp (data.drop headerKeysLen) with
        | none => .error .spsdk
        | some ci =>
          let index := headerKeysLen + ci.rawSize
          let sha : Bool := h.flags &&& Sb2Consts.v21FlagsShaPresentBit ≠ 0
          let sigIdx := index + (if sha then Sb2Consts.v21Sha256Size else 0)
          if !ci.verify (slice data sigIdx ci.sigSize) (data.take sigIdx) then .error .spsdk
          else
            let start := sigIdx + ci.sigSize
            if start % 16 ≠ 0 then .error .spsdk        -- `SecBootBlckSize.to_num_blocks`
            else match parseSections21 c dek mac h.nonce data (h.imageBlocks * 16) (data.length + 2) true start
                (nonceCtr h.nonce + start / 16) with
              | .error e => .error e
              | .ok ss =>
                if sha && (slice data index Sb2Consts.v21Sha256Size != c.hash .sha256 (data.drop start)) then .error .spsdk
                else .ok { minor := 1, flags := h.flags, productVersion := h.productVersion,
                           componentVersion := h.componentVersion, buildNumber := h.buildNumber, timestamp := h.timestamp,
                           nonce := h.nonce, dek := dek, mac := mac, sections := ss }

/-- `CertSectionV2.parse(data, offset, dek=, mac=, counter=)`: the certificate info and the section's `raw_size` -/
def parseCertSection (c : CryptoOps) (cp : CertParser) (dek mac nonce data : Bytes) (offset ctr : Nat) : PyRes (CertInfo × Nat) :=
  let eh := slice data offset 16
  if slice data (offset + 16) 32 ≠ hmac c .sha256 mac eh then .error .spsdk
  else match decodeHdr (xorBytes eh (ksBlock c dek nonce ctr)) with
    | .error e => .error e
    | .ok h =>
      if h.tag ≠ Sb2Consts.tagTag then .error .spsdk
      else if h.flags ≠ certSectionFlags then .error .spsdk
      else if h.address ≠ Sb2Consts.certSectionMark then .error .spsdk
      else match cp (data.drop (offset + 80)) with
        | none => .error .spsdk
        | some ci =>
          if slice data (offset + 48) 32 ≠ hmac c .sha256 mac (slice data (offset + 80) ci.rawSize) then .error .spsdk
          else if (80 + ci.rawSize) % 16 ≠ 0 then .error .spsdk
          else .ok (ci, 80 + ci.rawSize)

/-- `BootImageV20.parse(data, kek=kek)` -/
def parseV20 (c : CryptoOps) (cp : CertParser) (kek data : Bytes) : PyRes Parsed :=
  match unwrapKeys c kek data with
  | .error e => .error e
  | .ok (dek, mac) =>
    let hraw := data.take Sb2Consts.imageHeaderFmtSize
    if slice data Sb2Consts.imageHeaderFmtSize Sb2Consts.v20HeaderMacSize ≠ hmac c .sha256 mac hraw then .error .spsdk
    else match decodeImageHdr hraw with
      | .error e => .error e
      | .ok h =>
        if h.major ≠ 2 ∨ h.minor ≠ 0 then .error .spsdk
        else
          let imageSize := h.imageBlocks * 16
          let ctr0 := nonceCtr h.nonce + headerKeysLen / 16
          let signed := h.flags = Sb2Consts.v20FlagsSigned
          let finish (index ctr : Nat) : PyRes Parsed :=
            match parseSections20 c dek mac h.nonce data imageSize (data.length + 2) [] index ctr with
            | .error e => .error e
            | .ok ss => .ok { minor := 0, flags := if signed then Sb2Consts.v20FlagsSigned else Sb2Consts.v20FlagsUnsigned,
                              productVersion := h.productVersion, componentVersion := h.componentVersion,
                              buildNumber := h.buildNumber, timestamp := h.timestamp, nonce := h.nonce, dek := dek, mac := mac,
                              sections := ss }
          if signed then
            match parseCertSection c cp dek mac h.nonce data headerKeysLen ctr0 with
            | .error e => .error e
            | .ok (ci, raw) =>
              if !ci.verify (data.drop imageSize) (data.take imageSize) then .error .spsdk
              else finish (headerKeysLen + raw) (ctr0 + raw / 16)
          else finish headerKeysLen ctr0

/-! ## what the parser must return for an image built from `cfg` -/

/-- the parsed section object: `_hmac_count` is the header word (the effective count), commands in canonical form -/
def parsedSection (s : Section) : Section := ⟨s.uid, s.effHmacCount, s.cmds.map Cmd.canon⟩

def parsedOf21 (cfg : Cfg) : Parsed :=
  { minor := 1, flags := cfg.flags, productVersion := cfg.productVersion, componentVersion := cfg.componentVersion,
    buildNumber := cfg.buildNumber, timestamp := cfg.timestamp, nonce := cfg.nonce, dek := cfg.dek, mac := cfg.mac,
    sections := cfg.sections.map parsedSection }

def parsedOf20 (cfg : Cfg) (signed : Bool) : Parsed :=
  { minor := 0, flags := if signed then 8 else 4, productVersion := cfg.productVersion, componentVersion := cfg.componentVersion,
    buildNumber := cfg.buildNumber, timestamp := cfg.timestamp, nonce := cfg.nonce, dek := cfg.dek, mac := cfg.mac,
    sections := cfg.sections.map parsedSection }

def bcdVersionOk (v : Version3) : Prop :=
  bcdDigitOk v.major = true ∧ bcdDigitOk v.minor = true ∧ bcdDigitOk v.service = true

end SpsdkVerif.Sb2.Parse
