/-
C07 — well-formedness predicates used as hypotheses of the C07 theorems (decidable where it matters; the harness
generates configurations inside them, `Properties/C07.lean` exhibits concrete inhabitants) and the small
specification vocabulary (covering / iterated re-signing).
-/
import SpsdkVerif.Model.Hab

namespace SpsdkVerif.Hab
open SpsdkVerif SpsdkVerif.Misc SpsdkVerif.Generated

/-- `CsfHabSegment.align_offset` in closed form: the next 16-byte boundary strictly behind `n`, rounded up to 4 KiB
    (`Proofs/HabBase.lean: alignOffset_nat` proves it equal to the translated source) -/
def csfAbs (n : Nat) : Nat := (n + (16 - n % 16) + 4095) / 4096 * 4096

/-- field ranges of a command (what the struct formats can hold) -/
def Cmd.WF : Cmd → Prop
  | .insKey fl cf alg src tgt loc => fl < 256 ∧ cf < 256 ∧ alg < 256 ∧ src < 256 ∧ tgt < 256 ∧ loc < 2 ^ 32
  | .autDat fl key sf eng cfg loc bl =>
    fl < 256 ∧ key < 256 ∧ sf < 256 ∧ eng < 256 ∧ cfg < 256 ∧ loc < 2 ^ 32 ∧ bl.length < 8000 ∧
      ∀ p ∈ bl, p.1 < 2 ^ 32 ∧ p.2 < 2 ^ 32
  | .set itm alg eng cfg => itm < 256 ∧ alg < 256 ∧ eng < 256 ∧ cfg < 256
  | .unlock e f uid => e < 256 ∧ f < 2 ^ 32 ∧ uid < 2 ^ 64 ∧ (needUid e f = false → uid = 0)
  | .nop p => p < 256

/-- a data block with a `Header` whose length field is the length of the block -/
def BlobWF (d : Bytes) : Prop :=
  d.length < 65536 ∧ ∃ t p body, t < 256 ∧ p < 256 ∧ d = hdr t d.length p ++ body

/-- a DCD segment: tag 0xD2, declared length = real length, and its parameter byte is not an XMCD tag/version byte -/
def DcdWF (d : Bytes) : Prop :=
  d.length < 65536 ∧ ∃ p body, p < 256 ∧ (p / 16 ≠ HabConsts.xmcdHeaderTag ∨ p % 16 ≠ 0) ∧ d = hdr Spec.tagDCD d.length p ++ body

/-- an exported XMCD segment: canonical header for (interface ≤ 1, instance < 16, type ≤ 1), size = real length < 4096 -/
def XmcdWF (x : Bytes) : Prop :=
  x.length < 4096 ∧ ∃ type iface inst body, type ≤ 1 ∧ iface ≤ 1 ∧ inst < 16 ∧
    x = [u8 (x.length % 256), u8 (type * 16 + x.length / 256), u8 (iface * 16 + inst), 0xC0] ++ body

/-- final command list of a CSF: field ranges, every referring command has a well-formed data block, the others none,
    and header + commands + data fit into CSF_SIZE -/
def CsfWF (version : Nat) (cmds : List CsfCmd) : Prop :=
  version < 256 ∧
  (∀ c ∈ cmds, c.cmd.WF ∧ (needsRef c.cmd = true → ∃ d, c.data = some d ∧ BlobWF d) ∧
      (needsRef c.cmd = false → c.data = none)) ∧
  (csfBase version cmds ++ encData cmds).length ≤ HabConsts.csfSize

/-- configurations the theorems speak about -/
structure Cfg.WF (c : Cfg) : Prop where
  flags : c.flags = 0 ∨ c.flags = 8 ∨ c.flags = 12
  csf : c.hasCsf = (c.flags != 0)
  ivtLe : c.ivtOff ≤ c.ils
  ils16 : c.ils % 16 = 0
  appOffKnown : c.ils - c.ivtOff ∈ HabConsts.knownAppOffsets
  notBoth : c.dcd = none ∨ c.xmcd = none
  dcdFits : ∀ d, c.dcd = some d → 64 + d.length ≤ c.ils - c.ivtOff
  xmcdFits : ∀ x, c.xmcd = some x → 64 + x.length ≤ c.ils - c.ivtOff
  addr : c.start + csfAbs (c.ils + c.app.length) + 0x2000 + 0x200 < 2 ^ 32
  entry : c.entry < 2 ^ 32
  nonzero : 0 < c.start + c.ivtOff

/-! ### when `HabContainer.parse` can find the application -/

/-- length of the exported image -/
def Cfg.imgLen (c : Cfg) : Nat :=
  if c.hasCsf then c.csfOff + HabConsts.csfSize else c.appOff + c.appBin.length

/-- decidable condition on the configuration (and the final application bytes `app`: the padded application, or its
    ciphertext) under which the reset-vector heuristic of `AppHabSegment.parse` returns the real application offset:
    the second word of the application passes the test and no earlier probed offset (they lie in the DCD / XMCD / zero
    fill in front of the application, which do not depend on the application) does -/
def AppVisible (c : Cfg) (app : Bytes) : Prop :=
  c.appOff ∈ HabConsts.knownAppOffsets ∧ 8 ≤ app.length ∧ vectorOk c.entry c.imgLen (leDec (slice app 4 4)) = true ∧
  ∀ o ∈ HabConsts.knownAppOffsets, o < c.appOff →
    vectorOk c.entry c.imgLen (leDec (slice (image c [] none) (o + 4) 4)) = false

instance (c : Cfg) (app : Bytes) : Decidable (AppVisible c app) := by unfold AppVisible; exact inferInstance

/-- DCD / XMCD end in front of the first probed word (offset 0x104): every earlier probe reads zero fill -/
def Cfg.FrontQuiet (c : Cfg) : Prop :=
  (∀ d, c.dcd = some d → d.length ≤ 0xC4) ∧ (∀ x, c.xmcd = some x → x.length ≤ 0xC4)

/-! ### covering -/
def Block.covers (b : Block) (off len : Nat) : Prop := b.start ≤ off ∧ off + len ≤ b.start + b.size

/-- every block written into an Authenticate Data / Decrypt Data command -/
def Cfg.allBlocks (c : Cfg) : List Block :=
  c.signedBlocks ++ (if isEnc c.flags then c.encryptedBlocks else [])

/-! ### re-sign loop, unrolled -/
/-- state after `k` unconditional re-sign steps starting with attempt number `i` -/
def signIter (s : Signer) (version : Nat) : Nat → Nat → List CsfCmd → List CsfCmd
  | 0, _, cmds => cmds
  | k + 1, i, cmds => signIter s version k (i + 1) (resign s version i cmds)

end SpsdkVerif.Hab
