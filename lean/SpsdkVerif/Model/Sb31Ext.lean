/-
C05 phase 3 — more of `SecureBinary31` inside the model (Mathlib-free; linked into the native driver):

* `exportOv`   : `SecureBinary31.export(cert_block=…)`: a non-empty override replaces the certificate block BYTES of the file, while
                 `sb_header.update(self.sb_commands, self.cert_block)` keeps taking the length from the OBJECT's own block.
* `validateSb` : the part of `SecureBinary31.validate()` that decides on inputs of the model: the signature provider's public key must
                 be the key the certificate block names (`try_to_verify_public_key`: ISK if present, else the used root key), and
                 `SecureBinary31Header.validate` (block size / image type / total length / description length).
* `exportFull` : `export()` = `validate()` + struct packing + the state transition.
* `Cmd.className`, `Cmd.tag` : class and tag of every command kind (for the mechanical "every `Cmd*` class is covered" theorem).
-/
import SpsdkVerif.Model.Sb31

namespace SpsdkVerif.Sb31
open SpsdkVerif SpsdkVerif.Misc SpsdkVerif.Crypto
open SpsdkVerif.Generated

/-- the object with another certificate block -/
def withCert (s : ObjState) (cert : Bytes) : ObjState := { s with cfg := { s.cfg with cert := cert } }

/-- the certificate block bytes `export(cert_block=ov)` writes: `if cert_block:` -- `None` and `b""` select the object's own block -/
def certData (s : ObjState) (ov : Option Bytes) : Bytes :=
  match ov with
  | some b => if b.isEmpty then s.cfg.cert else b
  | none => s.cfg.cert

/-- `SecureBinary31.export(cert_block=ov)` as a state transition (`exportSb` is the case `ov = none`) -/
def exportOv (c : CryptoOps) (s : ObjState) (ov : Option Bytes) (r : Rand) : ObjState × Bytes :=
  let h := s.cfg.hashLen
  let blocks := dataBlocks (cmdStream s.cmds)
  let chain := buildChain c s (Sb31Consts.chainStartHash s.finalHash h) 1 blocks
  let bc := blocks.length
  let total := Sb31Consts.updTotalLength s.totalLength h s.cfg.cert.length
  let signed := encHeader (headerOf s bc total) ++ chain.1 ++ certData s ov
  let sig := c.sign (sigAlgOf h) s.cfg.sk signed r
  ({ s with blockCount := bc, totalLength := total, finalHash := chain.1 }, signed ++ sig ++ chain.2.flatten)

/-- `SecureBinary31Header.validate()` on the members the model has (the `is None` tests cannot fire on a constructed object) -/
def validateHdr (s : ObjState) : Bool :=
  let bs := Sb31Consts.blockSize s.cfg.hashLen
  (bs == 292 || bs == 308) &&
  ((if s.cfg.isNxp then Sb31Consts.imageTypeNxp else Sb31Consts.imageTypeOem) == 6 ||
   (if s.cfg.isNxp then Sb31Consts.imageTypeNxp else Sb31Consts.imageTypeOem) == 7) &&
  decide (Sb31Consts.headerSize ≤ s.totalLength) && (adjustDesc s.cfg.description).length == 16

/-- `SecureBinary31.validate()`: `certSigner` is the public key the certificate block names (ISK if present, else the used root key);
    a signature provider holding another key is refused (`SPSDKKeysNotMatchingError`, an `SPSDKError`) -/
def validateSb (c : CryptoOps) (certSigner : Bytes) (s : ObjState) : PyRes Unit :=
  if c.pubOf s.cfg.sk = certSigner ∧ validateHdr s = true then .ok () else .error .spsdk

/-- `export(cert_block=ov)`: validate, then pack (struct.error for unpackable fields), then the state transition -/
def exportFull (c : CryptoOps) (certSigner : Bytes) (s : ObjState) (ov : Option Bytes) (r : Rand) : PyRes (ObjState × Bytes) :=
  match validateSb c certSigner s with
  | .error e => .error e
  | .ok () => if exportable s then .ok (exportOv c s ov r) else .error .other

/-- the class that exports a command kind -/
def Cmd.className : Cmd → String
  | .erase .. => "CmdErase" | .load .. => "CmdLoad" | .execute .. => "CmdExecute" | .call .. => "CmdCall"
  | .progFuses .. => "CmdProgFuses" | .progIfr .. => "CmdProgIfr" | .loadCmac .. => "CmdLoadCmac" | .copy .. => "CmdCopy"
  | .loadHashLocking .. => "CmdLoadHashLocking" | .loadKeyBlob .. => "CmdLoadKeyBlob"
  | .configureMemory .. => "CmdConfigureMemory" | .fillMemory .. => "CmdFillMemory"
  | .fwVersionCheck .. => "CmdFwVersionCheck" | .reset => "CmdReset"

/-- the tag word of an exported command: bytes 12..15, little endian -/
def tagWord (b : Bytes) : Nat := leDec ((b.drop 12).take 4)

/-- one command of every kind with all-zero fields and no data -/
def cmdKinds : List Cmd :=
  [.erase 0 0 0, .load 0 [] 0, .execute 0, .call 0, .progFuses 0 [], .progIfr 0 [], .loadCmac 0 [] 0, .copy 0 0 0 0 0,
   .loadHashLocking 0 [] 0, .loadKeyBlob 0 [] 0, .configureMemory 0 0, .fillMemory 0 0 0, .fwVersionCheck 0 0, .reset]

/-- the commands whose constructor + `export()` the generator EXECUTES (`Sb31Consts.cmdSamples`), in class-name order -/
def sampleCmds : List Cmd :=
  [.call 0xA1A2A3A4, .configureMemory 0xA1A2A3A4 0xB1B2B3B4, .copy 0xA1A2A3A4 0xB1B2B3B4 0xC1C2C3C4 0xD1D2D3D4 0xE1E2E3E4,
   .erase 0xA1A2A3A4 0xB1B2B3B4 0xC1C2C3C4, .execute 0xA1A2A3A4, .fillMemory 0xA1A2A3A4 0xB1B2B3B4 0xC1C2C3C4,
   .fwVersionCheck 0xA1A2A3A4 5, .load 0xA1A2A3A4 [1, 2, 3, 4, 5] 0xC1C2C3C4, .loadCmac 0xA1A2A3A4 [1, 2, 3, 4, 5] 0xC1C2C3C4,
   .loadHashLocking 0xA1A2A3A4 [1, 2, 3, 4, 5] 0xC1C2C3C4, .loadKeyBlob 0xA1A2 [1, 2, 3, 4, 5] 0xB1B2,
   .progFuses 0xA1A2A3A4 [1, 2, 3, 4, 5, 6, 7, 8], .progIfr 0xA1A2A3A4 [1, 2, 3, 4, 5], .reset]

end SpsdkVerif.Sb31
