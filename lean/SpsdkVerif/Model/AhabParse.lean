/-
Executable model of the AHAB *parser*: `ContainerSignature.parse`, `AhabBlob.parse`, `SignatureBlock[V2].parse`,
`AHABContainer.parse` (header, image array, image bytes, signature block) and `AHABImage.parse` (containers at their fixed
slots).  Tied to /repo by the `parse` comparison of harness/props/C06.py (dump of the parsed SPSDK objects vs this model on every
exported file).

Opaque blocks: the certificate and, for container version 2, the SRK table array are taken as raw blocks delimited by their own
header length field.  A sub-block that fails to parse makes the whole parse fail here (SPSDK maps `SPSDKParsingError` of a
sub-block to "block absent" and lets every other error propagate; on exported files neither happens).
-/
import SpsdkVerif.Model.Ahab

namespace SpsdkVerif.Ahab
open SpsdkVerif SpsdkVerif.Misc
open SpsdkVerif.Generated

/-- `ContainerSignature.parse(data)`: head check (tag, version, declared length available); data = `data[8:length]` -/
def parseSignature (b : Bytes) : Option Bytes :=
  if b.length < AhabConsts.signatureLayout.size then none else
  match unpackInts AhabConsts.signatureLayout.intWidths b with
  | some [ver, len, tag, _res] =>
    if tag ≠ AhabConsts.signatureTag ∨ ver ≠ AhabConsts.signatureVersion ∨ b.length < len then none
    else some ((b.take len).drop AhabConsts.signatureLayout.size)
  | _ => none

/-- `AhabBlob.parse(data)` (+ the key identifier the signature block header carries) -/
def parseBlob (b : Bytes) (keyId : Nat) : Option Blob :=
  if b.length < AhabConsts.blobLayout.size then none else
  match unpackInts AhabConsts.blobLayout.intWidths b with
  | some [ver, len, tag, flags, size, alg, mode] =>
    if tag ≠ AhabConsts.blobTag ∨ ver ≠ AhabConsts.blobVersion ∨ b.length < len then none
    else some ⟨flags, size * 8, alg, mode, len, (b.take len).drop AhabConsts.blobLayout.size, keyId⟩
  | _ => none

/-- a block with the common header `version, length (16 bit), tag`, taken raw: `data[:length]` -/
def parseRawBlock (tag : Nat) (b : Bytes) : Option Bytes :=
  if b.length < 4 then none else
  match unpackInts [1, 2, 1] b with
  | some [_ver, len, t] => if t ≠ tag ∨ b.length < len then none else some (b.take len)
  | _ => none

/-- SRK part of a parsed signature block: the decoded table (version 1) or the raw table array (version 2) -/
inductive PSrk where
  | none
  | table (t : SrkTable)
  | raw (b : Bytes)
  deriving Repr, DecidableEq

structure PSigBlock where
  length : Nat
  srkOff : Nat
  sigOff : Nat
  certOff : Nat
  blobOff : Nat
  srk : PSrk
  signature : Option Bytes       -- signature data
  cert : Option Bytes            -- raw
  blob : Option Blob
  deriving Repr, DecidableEq

/-- `SRKTable.parse` (version 1) / the SRK table array taken raw (version 2) -/
def parseSrkPart (v : Ver) (b : Bytes) : Option PSrk :=
  match v with
  | .v1 => (decodeSrkTable b).map PSrk.table
  | .v2 => (parseRawBlock AhabConsts.srkTableArrayTag b).map PSrk.raw

/-- `SignatureBlock.parse` / `SignatureBlockV2.parse` (without the second, PQC signature) -/
def parseSigBlock (v : Ver) (b : Bytes) : Option PSigBlock :=
  if b.length < (v.sbLayout).size then none else
  match unpackInts (v.sbLayout).intWidths b with
  | some [ver, len, tag, certOff, srkOff, sigOff, blobOff, keyId] =>
    if tag ≠ AhabConsts.sigBlockTag ∨ ver ≠ v.sigBlockVersion ∨ b.length < len then none else
    let srk : Option PSrk :=
      if srkOff = 0 then some .none
      else parseSrkPart v (b.drop srkOff)
    let cert : Option (Option Bytes) :=
      if certOff = 0 then some none else (parseRawBlock AhabConsts.certificateTag (b.drop certOff)).map some
    let sig : Option (Option Bytes) :=
      if sigOff = 0 then some none else (parseSignature (b.drop sigOff)).map some
    let blob : Option (Option Blob) :=
      if blobOff = 0 then some none else (parseBlob (b.drop blobOff) keyId).map some
    match srk, cert, sig, blob with
    | some s, some c, some g, some bl => some ⟨len, srkOff, sigOff, certOff, blobOff, s, g, c, bl⟩
    | _, _, _, _ => none
  | _ => none

structure PContainer where
  header : Header
  iaes : List Iae
  images : List Bytes
  sb : PSigBlock
  deriving Repr, DecidableEq

/-- the bytes of every entry: `data[_image_offset : min(_image_offset + image_size, len(data))]`, `data` starting at the container -/
def imageBytes (d : Bytes) (e : Iae) : Bytes := (d.drop e.imageOffset).take e.imageSize

/-- `AHABContainer.parse(data, ...)` with `data = binary[container offset:]` -/
def parseContainer (v : Ver) (d : Bytes) : Option PContainer :=
  match decodeHeader v d with
  | none => none
  | some h =>
    match parseSigBlock v (d.drop h.sbOffset), decodeIaes v.iaeLayout d h.nImages (v.hdrLayout).size with
    | some sb, some es => some ⟨h, es, es.map (imageBytes d), sb⟩
    | _, _ => none

/-- `AHABImage.parse(binary)`: every slot `k < containers_max_cnt` whose head check passes is parsed (a failure inside is an error) -/
def parseSlots (v : Ver) (bin : Bytes) : Nat → Nat → Option (List PContainer)
  | 0, _ => some []
  | fuel + 1, k =>
    let d := bin.drop (k * v.containerSize)
    match decodeHeader v d with
    | none => parseSlots v bin fuel (k + 1)
    | some _ =>
      match parseContainer v d, parseSlots v bin fuel (k + 1) with
      | some c, some cs => some (c :: cs)
      | _, _ => none

def parseFile (v : Ver) (maxContainers : Nat) (bin : Bytes) : Option (List PContainer) :=
  match parseSlots v bin maxContainers 0 with
  | some [] => none          -- "No AHAB Container has been found in binary data."
  | r => r

end SpsdkVerif.Ahab
