/-
C07 — the commands of `spsdk/image/commands.py` that `Model/Hab.lean` does not carry (Write Data, Check Data,
Initialize), the dispatcher `parse_command` over ALL command classes, and the DCD segment (`SegDCD.export` /
`SegDCD.parse`, `spsdk/image/segments.py`).  Install Key / Authenticate Data / Set / Unlock / NOP are the
existing `Hab.Cmd` (wrapped by `DCmd.other`).

Modelled as the code is, quirks included:
* Write Data / Check Data: the parameter byte is `(ops & 3) << 3 | (width & 7)`; `parse` keeps only those five bits and
  refuses a width outside {1, 2, 4}; Write Data constructs the object (width test) BEFORE it reads the pairs, Check Data
  reads address / mask / count first.
* Check Data: the header length counts the poll count whenever it is exported (`4 if count is not None else 0`, fixed by
  8656d83; before, `count = 0` was exported as 16 bytes under a header that said 12 (`DCmd.encode` 16 bytes)); see `checkData_zero_count_roundtrip` in `Proofs/HabDcd.lean`.
* Initialize: the object is the one built with `append` (header length maintained); `append` refuses 0xFFFFFFFF
  (`value >= 0xFFFFFFFF`), so does `parse`; the loop of `parse` tests `index >= len(data)` before reading a word.
  (`CmdInitialize(engine, data)` with a non-empty list leaves the header length at 4 — not represented.)
* NOP: `parse` ignores the header length.
* `SegDCD.parse` advances by the size of the RE-BUILT command, not by the length field it read; a command outside
  `SegDCD._COMMANDS` (Write / Check / NOP / Unlock) is refused by `append`.
Error classes: `.other` = struct.error / IndexError, `.spsdk` = SPSDKError (and subclasses).  For the commands of
`Hab.Cmd` other than NOP the error class of a malformed command is approximate (`Cmd.decode` has no classes).
No Mathlib.  Tied to /repo by stream `dcd_commands` of harness/props/C07.py (driver ops `dcmd`, `dcd`).
-/
import SpsdkVerif.Model.Hab
import SpsdkVerif.Model.HabWF

namespace SpsdkVerif.HabDcd
open SpsdkVerif SpsdkVerif.Hab
open SpsdkVerif.Misc (beEnc beDec leEnc leDec)

/-! ## constants the model is written against (compared with `Generated/HabConsts.lean` in the property file) -/
namespace Spec
def cmdWRT_DAT : Nat := 0xCC
def cmdCHK_DAT : Nat := 0xCF
def cmdINIT : Nat := 0xB4
/-- `CmdTag.tags()` -/
def cmdTags : List Nat := [0xB1, 0xBE, 0xCA, 0xCC, 0xCF, 0xC0, 0xB4, 0xB2]
/-- `EnumEngine` tags -/
def engineTags : List Nat := [0x00, 0x03, 0x05, 0x06, 0x0A, 0x0C, 0x1B, 0x1D, 0x1E, 0x21, 0x22, 0x24, 0x36, 0xFF]
/-- byte widths Write Data / Check Data accept -/
def widths : List Nat := [1, 2, 4]
/-- first value `CmdInitialize.append` refuses -/
def initLimit : Nat := 0xFFFFFFFF
/-- tags `SegDCD.append` accepts (`SegDCD._COMMANDS`) -/
def dcdCommands : List Nat := [0xCC, 0xCF, 0xC0, 0xB2]
end Spec

/-- a command as `parse_command` returns it -/
inductive DCmd where
  | writeData (width ops : Nat) (data : List (Nat × Nat))
  | checkData (width ops addr mask : Nat) (count : Option Nat)
  | init (eng : Nat) (data : List Nat)
  | other (c : Cmd)
  deriving Repr, DecidableEq

/-- `((ops.tag & 3) << 3) | (numbytes & 7)` -/
def parByte (width ops : Nat) : Nat := (ops % 4) * 8 + width % 8

def encWords : List Nat → Bytes
  | [] => []
  | v :: r => be32 v ++ encWords r

/-- `4 if count is not None else 0` (8656d83; was `4 if count else 0`) -/
def countLen : Option Nat → Nat
  | some _ => 4
  | none => 0

/-- `CmdBase.size` = the header length the object maintains -/
def DCmd.size : DCmd → Nat
  | .writeData _ _ data => 4 + 8 * data.length
  | .checkData _ _ _ _ count => 12 + countLen count
  | .init _ data => 4 + 4 * data.length
  | .other c => c.size

/-- `export()` -/
def DCmd.encode : DCmd → Bytes
  | .writeData w o data => hdr Spec.cmdWRT_DAT (4 + 8 * data.length) (parByte w o) ++ encBlocks data
  | .checkData w o a m count =>
    hdr Spec.cmdCHK_DAT (12 + countLen count) (parByte w o) ++ be32 a ++ be32 m ++
      (match count with | some c => be32 c | none => [])
  | .init e data => hdr Spec.cmdINIT (4 + 4 * data.length) e ++ encWords data
  | .other c => c.encode

/-- the `while index < header.length` loop of `CmdInitialize.parse` -/
def decWords : Nat → Bytes → PyRes (List Nat)
  | 0, _ => .ok []
  | n + 1, d =>
    if d.isEmpty then .error .spsdk else
    match rdBE d 0 4 with
    | none => .error .other
    | some v =>
      if Spec.initLimit ≤ v then .error .spsdk else
      match decWords n (d.drop 4) with
      | .ok r => .ok (v :: r)
      | .error e => .error e

/-- the class-specific `parse` behind `parse_command`, given the header fields `CmdHeader.parse` read -/
def DCmd.decodeBody (d : Bytes) (tag len par : Nat) : PyRes DCmd :=
  if len < 4 then .error .spsdk else
  if tag = Spec.cmdWRT_DAT then
    if ¬ par % 8 ∈ Spec.widths then .error .spsdk else
    match decBlocks ((len - 4 + 7) / 8) (d.drop 4) with
    | some data => .ok (.writeData (par % 8) (par / 8 % 4) data)
    | none => .error .other
  else if tag = Spec.cmdCHK_DAT then
    match rdBE d 4 4, rdBE d 8 4 with
    | some a, some m =>
      if len - 4 > 8 then
        match rdBE d 12 4 with
        | some c => if ¬ par % 8 ∈ Spec.widths then .error .spsdk else .ok (.checkData (par % 8) (par / 8 % 4) a m (some c))
        | none => .error .other
      else if ¬ par % 8 ∈ Spec.widths then .error .spsdk else .ok (.checkData (par % 8) (par / 8 % 4) a m none)
    | _, _ => .error .other
  else if tag = Spec.cmdINIT then
    if ¬ par ∈ Spec.engineTags then .error .spsdk else
    match decWords ((len - 4 + 3) / 4) (d.drop 4) with
    | .ok data => .ok (.init par data)
    | .error e => .error e
  else if tag = Hab.Spec.cmdNOP then .ok (.other (.nop par))
  else
    match Cmd.decode d with
    | some c => .ok (.other c)
    | none => .error .other

/-- `parse_command` with error classes: `data[0]` (IndexError), `CmdTag.from_tag`, `CmdHeader.parse`, the class -/
def DCmd.decodeR (d : Bytes) : PyRes DCmd :=
  match d with
  | [] => .error .other
  | t :: _ =>
    if ¬ t.toNat ∈ Spec.cmdTags then .error .spsdk else
    match parseHdr d with
    | none => .error .other
    | some (tag, len, par) => DCmd.decodeBody d tag len par

/-- `parse_command`, error class dropped -/
def DCmd.decode (d : Bytes) : Option DCmd :=
  match DCmd.decodeR d with
  | .ok c => some c
  | .error _ => none

def DCmd.tag : DCmd → Nat
  | .writeData .. => Spec.cmdWRT_DAT
  | .checkData .. => Spec.cmdCHK_DAT
  | .init .. => Spec.cmdINIT
  | .other (.insKey ..) => Hab.Spec.cmdINS_KEY
  | .other (.autDat ..) => Hab.Spec.cmdAUT_DAT
  | .other (.set ..) => Hab.Spec.cmdSET
  | .other (.unlock ..) => Hab.Spec.cmdUNLK
  | .other (.nop _) => Hab.Spec.cmdNOP

/-- `cmd.tag in SegDCD._COMMANDS` -/
def DCmd.inDcd (c : DCmd) : Bool := decide (c.tag ∈ Spec.dcdCommands)

/-- field ranges: what the struct formats hold and what the constructors / `append` accept, and the header length
    stays a 16-bit value.  `count = some 0` is included since 8656d83 -/
def DCmd.WF : DCmd → Prop
  | .writeData w o data =>
    w ∈ Spec.widths ∧ o < 4 ∧ 4 + 8 * data.length < 65536 ∧ ∀ p ∈ data, p.1 < 2 ^ 32 ∧ p.2 < 2 ^ 32
  | .checkData w o a m count =>
    w ∈ Spec.widths ∧ o < 4 ∧ a < 2 ^ 32 ∧ m < 2 ^ 32 ∧ ∀ c, count = some c → c < 2 ^ 32
  | .init e data => e ∈ Spec.engineTags ∧ 4 + 4 * data.length < 65536 ∧ ∀ v ∈ data, v < Spec.initLimit
  | .other c => c.WF ∧ c.size < 65536

/-! ## DCD segment -/
def dcmdsSize : List DCmd → Nat
  | [] => 0
  | c :: r => c.size + dcmdsSize r

def encDcmds : List DCmd → Bytes
  | [] => []
  | c :: r => c.encode ++ encDcmds r

/-- `SegDCD._header.length` as maintained by `append` -/
def dcdLen (cmds : List DCmd) : Nat := 4 + dcmdsSize cmds

/-- `SegDCD.export()` of an enabled segment without padding -/
def dcdEncode (param : Nat) (cmds : List DCmd) : Bytes :=
  hdr Hab.Spec.tagDCD (dcdLen cmds) param ++ encDcmds cmds

/-- the `while index < header.length` loop of `SegDCD.parse`; `remaining` = header length − index -/
def dcdCmds : Nat → Bytes → Nat → PyRes (List DCmd)
  | 0, _, _ => .ok []
  | fuel + 1, d, remaining =>
    if remaining = 0 then .ok [] else
    match DCmd.decodeR d with
    | .error e => .error e
    | .ok c =>
      if ¬ c.inDcd then .error .spsdk else
      match dcdCmds fuel (d.drop c.size) (remaining - c.size) with
      | .ok r => .ok (c :: r)
      | .error e => .error e

/-- `SegDCD.parse`: `(param, commands)` -/
def dcdParse (d : Bytes) : PyRes (Nat × List DCmd) :=
  match parseHdr d with
  | none => .error .other
  | some (tag, len, par) =>
    if tag ≠ Hab.Spec.tagDCD then .error .spsdk else
    if len < 4 then .error .spsdk else
    match dcdCmds len (d.drop 4) (len - 4) with
    | .ok cmds => .ok (par, cmds)
    | .error e => .error e

/-! ## boot data (`SegBDT.export` / `SegBDT.parse`) -/
/-- `pack("<3L", app_start, app_length, plugin)` -/
def bdtEncode (start len plugin : Nat) : Bytes := le32 start ++ le32 len ++ le32 plugin

/-- `SegBDT.parse`: three little-endian words, the plugin setter refuses a value above 2 -/
def bdtParse (d : Bytes) : PyRes (Nat × Nat × Nat) :=
  match rdLE d 0 4, rdLE d 4 4, rdLE d 8 4 with
  | some s, some l, some p => if p ≤ 2 then .ok (s, l, p) else .error .spsdk
  | _, _, _ => .error .other

end SpsdkVerif.HabDcd
