/-
Hand-written executable model for the SDP part of property C10 (thin layer): `spsdk/sdp/commands.py`
(`CmdPacket.to_bytes`), `spsdk/sdp/protocol/serial_protocol.py` (`SDPSerialProtocol`) and `spsdk/sdp/sdp.py`
(`_process_cmd/_read_status/_read_data/_send_data`, read / write / write_file / write_dcd / write_csf / skip_dcd /
jump_and_run / read_status), plus a small reference i.MX ROM written from the protocol description.
Tied to /repo by harness/props/C10.py (streams `sdp_*`).  SDP over USB-HID and SDPS are not modelled.
-/
import SpsdkVerif.Base.Py

namespace SpsdkVerif.Sdp
open SpsdkVerif

abbrev Bytes := List UInt8

namespace Spec
abbrev cReadRegister : Nat := 0x0101
abbrev cWriteRegister : Nat := 0x0202
abbrev cWriteFile : Nat := 0x0404
abbrev cErrorStatus : Nat := 0x0505
abbrev cWriteCsf : Nat := 0x0606
abbrev cWriteDcd : Nat := 0x0A0A
abbrev cJumpAddress : Nat := 0x0B0B
abbrev cSkipDcdHeader : Nat := 0x0C0C
abbrev rWriteDataOk : Nat := 0x128A8A12
abbrev rWriteFileOk : Nat := 0x88888888
abbrev rSkipDcdHeaderOk : Nat := 0x900DD009
abbrev rLocked : Nat := 0x12343412
abbrev rUnlocked : Nat := 0x56787856
abbrev stSuccess : Nat := 0
abbrev stHabIsLocked : Nat := 2
abbrev stWriteRegisterFailure : Nat := 11
abbrev stWriteImageFailure : Nat := 12
abbrev stWriteDcdFailure : Nat := 13
abbrev stWriteCsfFailure : Nat := 14
abbrev stSkipDcdHeaderFailure : Nat := 15
abbrev maxRead : Nat := 64
abbrev ridCmd : Nat := 1
abbrev ridData : Nat := 2
abbrev ridHab : Nat := 3
abbrev ridRet : Nat := 4
abbrev defaultPackSize : Nat := 1024
abbrev retSize : Nat := 64
abbrev cbwSignature : Nat := 0x43544C42
abbrev cbwFwDownload : Nat := 2
end Spec

/-- `v.to_bytes(n, "big")` (truncating) -/
def be : Nat → Nat → Bytes
  | 0, _ => []
  | n + 1, v => UInt8.ofNat (v / 256 ^ n % 256) :: be n v

/-- `int.from_bytes(b, "big")` -/
def fromBe (b : Bytes) : Nat := b.foldl (fun acc x => acc * 256 + x.toNat) 0

def leBytes : Nat → Nat → Bytes
  | 0, _ => []
  | n + 1, v => UInt8.ofNat (v % 256) :: leBytes n (v / 256)

structure Cmd where
  tag : Nat
  address : Nat
  format : Nat
  count : Nat
  value : Nat := 0
  deriving DecidableEq, Repr

/-- `struct.pack(">HIB2IB", tag, address, format, count, value, 0)` accepts the fields -/
def Cmd.fits (c : Cmd) : Prop :=
  c.tag < 65536 ∧ c.address < 4294967296 ∧ c.format < 256 ∧ c.count < 4294967296 ∧ c.value < 4294967296

instance (c : Cmd) : Decidable c.fits := by unfold Cmd.fits; infer_instance

def Cmd.encode (c : Cmd) : Bytes :=
  be 2 c.tag ++ be 4 c.address ++ be 1 c.format ++ be 4 c.count ++ be 4 c.value ++ [0]

/-- the ROM's decoder of the 16-byte command -/
def parseCmd (w : Bytes) : Option Cmd :=
  if w.length = 16 then
    some { tag := fromBe (w.take 2), address := fromBe ((w.drop 2).take 4), format := fromBe ((w.drop 6).take 1),
           count := fromBe ((w.drop 7).take 4), value := fromBe ((w.drop 11).take 4) }
  else none

/-! ## reference ROM -/

structure Rom where
  mem : Bytes
  locked : Bool := false
  errStatus : Nat := 0xF0F0F0F0
  /-- pending data phase: command tag, address, byte count -/
  recv : Option (Nat × Nat × Nat) := none
  ncmd : Nat := 0
  /-- forced status words: (command index, value sent instead of the OK value) -/
  forced : List (Nat × Nat) := []
  jumped : Option Nat := none
  deriving DecidableEq, Repr

def splice (mem : Bytes) (a : Nat) (d : Bytes) : Bytes := mem.take a ++ d ++ mem.drop (a + d.length)

def Rom.hab (r : Rom) : Bytes := be 4 (if r.locked then Spec.rLocked else Spec.rUnlocked)

def okValue (tag : Nat) : Nat :=
  if tag = Spec.cWriteFile then Spec.rWriteFileOk else Spec.rWriteDataOk

/-- one host write in, the bytes the ROM sends in reaction out -/
def Rom.step (r : Rom) (w : Bytes) : Rom × Bytes :=
  match r.recv with
  | some (tag, a, n) =>
    let idx := r.ncmd - 1
    let r0 := { r with recv := none }
    if w.length = n then
      match r.forced.lookup idx with
      | some v => (r0, r.hab ++ be 4 v)
      | none =>
        if tag = Spec.cWriteFile then
          if a + n ≤ r.mem.length then ({ r0 with mem := splice r.mem a w }, r.hab ++ be 4 Spec.rWriteFileOk)
          else (r0, r.hab ++ be 4 0)                 -- address range refused
        else (r0, r.hab ++ be 4 (okValue tag))
    else (r0, [])
  | none =>
    match parseCmd w with
    | none => (r, [])
    | some c =>
      let idx := r.ncmd
      let r1 := { r with ncmd := r.ncmd + 1 }
      let forced := r.forced.lookup idx
      if c.tag = Spec.cReadRegister then
        if c.address + c.count ≤ r.mem.length then (r1, r.hab ++ (r.mem.drop c.address).take c.count)
        else (r1, r.hab)
      else if c.tag = Spec.cWriteRegister then
        let nb := c.format / 8
        match forced with
        | some v => (r1, r.hab ++ be 4 v)
        | none =>
          if (c.format = 8 ∨ c.format = 16 ∨ c.format = 32) ∧ c.address + nb ≤ r.mem.length then
            ({ r1 with mem := splice r.mem c.address (leBytes nb c.value) }, r.hab ++ be 4 Spec.rWriteDataOk)
          else (r1, r.hab ++ be 4 0)
      else if c.tag = Spec.cWriteFile ∨ c.tag = Spec.cWriteDcd ∨ c.tag = Spec.cWriteCsf then
        if c.count = 0 then
          -- nothing to wait for: answer at once
          match forced with
          | some v => (r1, r.hab ++ be 4 v)
          | none =>
            if c.tag = Spec.cWriteFile ∧ r.mem.length < c.address then (r1, r.hab ++ be 4 0)
            else (r1, r.hab ++ be 4 (okValue c.tag))
        else ({ r1 with recv := some (c.tag, c.address, c.count) }, [])
      else if c.tag = Spec.cErrorStatus then (r1, r.hab ++ be 4 (forced.getD r.errStatus))
      else if c.tag = Spec.cSkipDcdHeader then (r1, r.hab ++ be 4 (forced.getD Spec.rSkipDcdHeaderOk))
      else if c.tag = Spec.cJumpAddress then ({ r1 with jumped := some c.address }, r.hab)
      else (r1, r.hab)

/-! ### the ROM behind USB-HID reports -/

def padTo (n : Nat) (b : Bytes) : Bytes := b ++ List.replicate (n - b.length) 0

/-- device→host reports: HAB status word (id 3), data / status in 64-byte RET reports (id 4) -/
def habReport (b : Bytes) : Bytes := UInt8.ofNat Spec.ridHab :: b
def retReports : Nat → Bytes → List Bytes
  | 0, _ => []
  | f + 1, b => if b.isEmpty then [] else (UInt8.ofNat Spec.ridRet :: padTo Spec.retSize (b.take Spec.retSize)) :: retReports f (b.drop Spec.retSize)

/-- serial answer `hab(4) ++ rest` as reports -/
def toReports (out : Bytes) : List Bytes :=
  if out.isEmpty then [] else habReport (out.take 4) :: retReports (out.length) (out.drop 4)

/-- one host report in, the reports the ROM sends in reaction out.  A data phase collects the payloads of DATA
    reports (id 2) until `count` bytes arrived (padding ignored); the data is then handed to the serial ROM logic. -/
structure HidRom where
  rom : Rom
  buf : Bytes := []
  deriving DecidableEq, Repr

def HidRom.step (x : HidRom) (w : Bytes) : HidRom × List Bytes :=
  match w with
  | [] => (x, [])
  | rid :: payload =>
    match x.rom.recv with
    | some (_, _, n) =>
      if rid.toNat = Spec.ridData then
        let buf := x.buf ++ payload.take (n - x.buf.length)
        if buf.length = n then
          let (r', out) := x.rom.step buf
          ({ rom := r', buf := [] }, toReports out)
        else ({ x with buf := buf }, [])
      else (x, [])
    | none =>
      if rid.toNat = Spec.ridCmd then
        let (r', out) := x.rom.step (payload.take 16)
        ({ rom := r', buf := [] }, toReports out)
      else (x, [])

/-! ## host -/

inductive SErr where
  | conn              -- SdpConnectionError
  | cmd (v : Nat)     -- SdpCommandError(error_value)
  | other
  | fuel
  deriving DecidableEq, Repr

inductive Tr where
  | serial | hid
  deriving DecidableEq, Repr

inductive Peer where
  /-- replay: the i-th host write releases the i-th chunk (serial: concatenated, HID: its reports) -/
  | script (chunks : List (List Bytes))
  | live (r : Rom)
  | liveHid (r : HidRom)
  deriving DecidableEq

structure Host where
  ce : Bool := false
  status : Nat := 0
  hab : Nat := 0
  cmdStatus : Nat := 0
  expectStatus : Bool := true
  opened : Bool := true
  rx : Bytes := []
  rxR : List Bytes := []
  txRev : List Bytes := []
  relRev : List (List Bytes) := []
  peer : Peer := .script []
  tr : Tr := .serial
  /-- `HID_REPORT["CMD"/"DATA"]` size: a module-level table that `SDPS.write_file` reconfigures (and that stays so) -/
  packSize : Nat := Spec.defaultPackSize
  fuelHint : Nat := 0
  deriving DecidableEq

/-- `device.write(w)` (does not touch `expect_status`) -/
def Host.devWrite (h : Host) (w : Bytes) : Host :=
  let (peer', out) : Peer × List Bytes :=
    match h.peer with
    | .script [] => (.script [], [])
    | .script (c :: cs) => (.script cs, c)
    | .live r => let (r', o) := r.step w; (.live r', [o])
    | .liveHid r => let (r', o) := r.step w; (.liveHid r', o)
  match h.tr with
  | .serial => { h with txRev := w :: h.txRev, relRev := out :: h.relRev, peer := peer', rx := h.rx ++ out.flatten }
  | .hid => { h with txRev := w :: h.txRev, relRev := out :: h.relRev, peer := peer', rxR := h.rxR ++ out }

/-- serial `_send_frame(w)`: sets `expect_status` and writes -/
def Host.write (h : Host) (w : Bytes) : Host := { h.devWrite w with expectStatus := true }

def S (α : Type) : Type := Host → Except SErr α × Host

namespace S
@[inline] protected def pure {α} (a : α) : S α := fun s => (.ok a, s)
@[inline] protected def bind {α β} (m : S α) (f : α → S β) : S β := fun s =>
  match m s with
  | (.ok a, s') => f a s'
  | (.error e, s') => (.error e, s')
instance : Monad S where
  pure := S.pure
  bind := S.bind
@[inline] def fail {α} (e : SErr) : S α := fun s => (.error e, s)
@[inline] def get : S Host := fun s => (.ok s, s)
@[inline] def modify (f : Host → Host) : S Unit := fun s => (.ok (), f s)
/-- `try: … except Exception as exc: raise SdpConnectionError` -/
@[inline] def guardConn {α} (m : S α) : S α := fun s =>
  match m s with
  | (.ok a, s') => (.ok a, s')
  | (.error _, s') => (.error .conn, s')
end S
open S

/-- `SDPBulkProtocol._create_frames`: report id, a chunk of at most `size` bytes, zero padding to `size` -/
def framesOf (rid size : Nat) : Nat → Bytes → List Bytes
  | 0, _ => []
  | f + 1, b =>
    if b.isEmpty then []
    else (UInt8.ofNat rid :: padTo size (b.take size)) :: framesOf rid size f (b.drop size)

def hidFrames (rid size : Nat) (b : Bytes) : List Bytes := framesOf rid size b.length b

/-- `write_command` / `write_data` of the protocol in use -/
def sendFrame (rid : Nat) (w : Bytes) : S Unit := fun h =>
  match h.tr with
  | .serial => (.ok (), h.write w)
  | .hid =>
    if h.packSize = 0 ∧ ¬ w.isEmpty then (.error .other, h)     -- the frame loop would not advance; never configured so
    else (.ok (), (hidFrames rid h.packSize w).foldl (fun x f => x.devWrite f) h)

/-- `protocol.read(length)`: serial: exactly `length or 4` bytes or a timeout; HID: the next report, `hab` = its id is 3 -/
def protoRead (length : Nat) : S (Bool × Bytes) := fun h =>
  match h.tr with
  | .serial =>
    let n := if length = 0 then 4 else length
    if n ≤ h.rx.length ∧ ¬ h.rx.isEmpty then (.ok (h.expectStatus, h.rx.take n), { h with rx := h.rx.drop n })
    else (.error .other, { h with rx := [] })
  | .hid =>
    match h.rxR with
    | [] => (.error .other, h)
    | r :: rs =>
      match r with
      | [] => (.error .other, { h with rxR := rs })
      | rid :: payload => (.ok (rid.toNat = Spec.ridHab, payload), { h with rxR := rs })

/-- `CmdResponse.value`: `unpack_from(">I", raw_data)` -/
def respValue (raw : Bytes) : Except SErr Nat := if raw.length < 4 then .error .other else .ok (fromBe (raw.take 4))

def writeCommand (c : Cmd) : S Unit :=
  if c.fits then sendFrame Spec.ridCmd c.encode else fail .other      -- struct.error

/-- `_process_cmd` -/
def processCmd (c : Cmd) : S Bool := do
  let h ← get
  if ¬ h.opened then fail .conn
  else do
    modify (fun h => { h with status := Spec.stSuccess })
    let (hab, raw) ← guardConn (do writeCommand c; protoRead 0)
    match respValue raw with               -- `str(response)` in the log line, outside the try block
    | .error e => fail e
    | .ok v =>
      if hab then
        modify (fun h => { h with hab := v, status := if v ≠ Spec.rUnlocked then Spec.stHabIsLocked else h.status })
      pure true

/-- `_read_status` -/
def readStatus : S Nat := guardConn (do
  let (_, raw) ← protoRead 0
  match respValue raw with
  | .error e => fail e
  | .ok v => pure v)

/-- `_read_data(length)` -/
def readDataLoop (length : Nat) : Nat → Bytes → S Bytes
  | 0, _ => fail .fuel
  | f + 1, acc =>
    if acc.length < length then do
      modify (fun h => { h with expectStatus := false })
      let (hab, raw) ← guardConn (protoRead (min (length - acc.length) Spec.maxRead))
      if ¬ hab then readDataLoop length f (acc ++ raw)
      else
        match respValue raw with
        | .error e => fail e
        | .ok v => do
          modify (fun h => { h with hab := v, status := if v = Spec.rLocked then Spec.stHabIsLocked else h.status })
          readDataLoop length f acc
    else pure (acc.take length)

def readData (length : Nat) : S Bytes := fun h => readDataLoop length (length + h.rxR.length + h.fuelHint + 1) [] h

/-- `_send_data(cmd_packet, data)` -/
def sendData (c : Cmd) (data : Bytes) : S Bool := do
  let h ← get
  if ¬ h.opened then fail .conn
  else do
    modify (fun h => { h with status := Spec.stSuccess })
    let ok ← guardConn (do
      writeCommand c
      sendFrame Spec.ridData data
      let (_, habRaw) ← protoRead 0
      let hv ← (fun h => (respValue habRaw, h) : S Nat)
      modify (fun h => { h with hab := if hv ≠ Spec.rUnlocked then Spec.stHabIsLocked else hv })
      let (_, stRaw) ← protoRead 0
      let sv ← (fun h => (respValue stRaw, h) : S Nat)
      modify (fun h => { h with cmdStatus := sv })
      if c.tag = Spec.cWriteDcd ∧ sv ≠ Spec.rWriteDataOk then do
        modify (fun h => { h with status := Spec.stWriteDcdFailure }); pure false
      else if c.tag = Spec.cWriteCsf ∧ sv ≠ Spec.rWriteDataOk then do
        modify (fun h => { h with status := Spec.stWriteCsfFailure }); pure false
      else if c.tag = Spec.cWriteFile ∧ sv ≠ Spec.rWriteFileOk then do
        modify (fun h => { h with status := Spec.stWriteImageFailure }); pure false
      else pure true)
    let h ← get
    if ¬ ok ∧ h.ce then fail (.cmd h.status) else pure ok

inductive Val where
  | none
  | bool (b : Bool)
  | bytes (b : Bytes)
  | int (n : Nat)
  deriving DecidableEq, Repr

inductive Op where
  | read (address length format : Nat)
  | write (address value count format : Nat)
  | writeFile (address : Nat) (data : Bytes)
  | writeDcd (address : Nat) (data : Bytes)
  | writeCsf (address : Nat) (data : Bytes)
  | skipDcd
  | jumpAndRun (address : Nat)
  | readStatus
  /-- `SDPS(interface, family).write_file(data)` on the same interface; `noCmd`, `packSize` = the family's ROM parameters -/
  | sdpsWriteFile (noCmd : Bool) (packSize : Nat) (data : Bytes)
  deriving DecidableEq, Repr

/-- SDPS command block wrapper: `pack("<3IB2xbI11x", signature, tag=1, length, flags=0, command=2, swap32(length))` -/
def cbw (length : Nat) : Bytes :=
  leBytes 4 Spec.cbwSignature ++ leBytes 4 1 ++ leBytes 4 length ++ [0, 0, 0] ++ [UInt8.ofNat Spec.cbwFwDownload] ++ be 4 length ++
    List.replicate 11 0

/-- `SDPS.write_file(data)`: reconfigure the report size, optional command block, data; nothing is read -/
def sdpsWriteFile (noCmd : Bool) (packSize : Nat) (data : Bytes) : S Val := guardConn (do
  modify (fun h => { h with packSize := packSize })
  if ¬ noCmd then
    if 4294967296 ≤ data.length then fail .other else sendFrame Spec.ridCmd (cbw data.length)
  sendFrame Spec.ridData data
  pure .none)

/-- the `status != OK -> status_code, raise / return False` tail shared by `write` and `skip_dcd` -/
def statusTail (status okv failSt : Nat) : S Val := do
  if status ≠ okv then do
    modify (fun h => { h with status := failSt })
    let h ← get
    if h.ce then fail (.cmd failSt) else pure (.bool false)
  else pure (.bool true)

def runOp : Op → S Val
  | .read a n f => do
    let _ ← processCmd ⟨Spec.cReadRegister, a, f, n, 0⟩
    let d ← readData n
    pure (.bytes d)
  | .write a v c f => do
    let _ ← processCmd ⟨Spec.cWriteRegister, a, f, c, v⟩
    let st ← readStatus
    statusTail st Spec.rWriteDataOk Spec.stWriteRegisterFailure
  | .writeFile a d => do let ok ← sendData ⟨Spec.cWriteFile, a, 0, d.length, 0⟩ d; pure (.bool ok)
  | .writeDcd a d => do let ok ← sendData ⟨Spec.cWriteDcd, a, 0, d.length, 0⟩ d; pure (.bool ok)
  | .writeCsf a d => do let ok ← sendData ⟨Spec.cWriteCsf, a, 0, d.length, 0⟩ d; pure (.bool ok)
  | .skipDcd => do
    let _ ← processCmd ⟨Spec.cSkipDcdHeader, 0, 0, 0, 0⟩
    let st ← readStatus
    statusTail st Spec.rSkipDcdHeaderOk Spec.stSkipDcdHeaderFailure
  | .jumpAndRun a => do let ok ← processCmd ⟨Spec.cJumpAddress, a, 0, 0, 0⟩; pure (.bool ok)
  | .readStatus => do
    let _ ← processCmd ⟨Spec.cErrorStatus, 0, 0, 0, 0⟩
    let st ← readStatus
    pure (.int st)
  | .sdpsWriteFile nc ps d => sdpsWriteFile nc ps d

/-! ## specification vocabulary (used by Properties/C10.lean) -/

/-- host and live ROM are in step: nothing in flight, no data phase pending, interface open -/
structure Synced (h : Host) (r : Rom) : Prop where
  peer : (h.tr = .serial ∧ h.peer = .live r) ∨ (h.tr = .hid ∧ h.peer = .liveHid { rom := r, buf := [] })
  recv : r.recv = none
  rx : h.rx = []
  rxR : h.rxR = []
  opened : h.opened = true
  pack : 16 ≤ h.packSize

/-- a well-formed ROM without forced status words -/
structure Rom.OK (r : Rom) : Prop where
  mem_lt : r.mem.length < 4294967296
  noforce : r.forced = []
  err_lt : r.errStatus < 4294967296

def habWord (r : Rom) : Nat := if r.locked then Spec.rLocked else Spec.rUnlocked

/-- What the SDP protocol defines as the effect of one operation on the ROM, its result, `status_code` and `hab_status`
    (no link faults; `ce` = cmd_exception).  `none`: not covered (out-of-range read: the ROM sends no data and the host
    times out; SDPS). -/
def specOp (ce : Bool) (r : Rom) : Op → Option (Rom × Except SErr Val × Nat × Nat)
  | .read a n _ =>
    if a + n ≤ r.mem.length then
      some ({ r with ncmd := r.ncmd + 1 }, .ok (.bytes ((r.mem.drop a).take n)), (if r.locked then Spec.stHabIsLocked else Spec.stSuccess), habWord r)
    else none
  | .write a v _ f =>
    let r1 := { r with ncmd := r.ncmd + 1 }
    if (f = 8 ∨ f = 16 ∨ f = 32) ∧ a + f / 8 ≤ r.mem.length then
      some ({ r1 with mem := splice r.mem a (leBytes (f / 8) v) }, .ok (.bool true),
            (if r.locked then Spec.stHabIsLocked else Spec.stSuccess), habWord r)
    else some (r1, (if ce then .error (.cmd Spec.stWriteRegisterFailure) else .ok (.bool false)), Spec.stWriteRegisterFailure, habWord r)
  | .writeFile a d =>
    let r1 := { r with ncmd := r.ncmd + 1 }
    let hab := if r.locked then Spec.stHabIsLocked else Spec.rUnlocked
    if a + d.length ≤ r.mem.length then some ({ r1 with mem := splice r.mem a d }, .ok (.bool true), Spec.stSuccess, hab)
    else some (r1, (if ce then .error (.cmd Spec.stWriteImageFailure) else .ok (.bool false)), Spec.stWriteImageFailure, hab)
  | .writeDcd _ _ =>
    some ({ r with ncmd := r.ncmd + 1 }, .ok (.bool true), Spec.stSuccess, if r.locked then Spec.stHabIsLocked else Spec.rUnlocked)
  | .writeCsf _ _ =>
    some ({ r with ncmd := r.ncmd + 1 }, .ok (.bool true), Spec.stSuccess, if r.locked then Spec.stHabIsLocked else Spec.rUnlocked)
  | .skipDcd =>
    some ({ r with ncmd := r.ncmd + 1 }, .ok (.bool true), (if r.locked then Spec.stHabIsLocked else Spec.stSuccess), habWord r)
  | .jumpAndRun a =>
    some ({ r with ncmd := r.ncmd + 1, jumped := some a }, .ok (.bool true), (if r.locked then Spec.stHabIsLocked else Spec.stSuccess), habWord r)
  | .readStatus =>
    some ({ r with ncmd := r.ncmd + 1 }, .ok (.int r.errStatus), (if r.locked then Spec.stHabIsLocked else Spec.stSuccess), habWord r)
  | .sdpsWriteFile _ _ _ => none

def Op.argsOK : Op → Prop
  | .read a n f => a < 4294967296 ∧ n < 4294967296 ∧ f < 256
  | .write a v c f => a < 4294967296 ∧ v < 4294967296 ∧ c < 4294967296 ∧ f < 256
  | .writeFile a d => a < 4294967296 ∧ d.length < 4294967296
  | .writeDcd a d => a < 4294967296 ∧ d.length < 4294967296
  | .writeCsf a d => a < 4294967296 ∧ d.length < 4294967296
  | .jumpAndRun a => a < 4294967296
  | _ => True

/-- run a list of operations; result, `status_code` and `hab_status` after each one -/
def runOps : List Op → Host → List (Except SErr Val × Nat × Nat) × Host
  | [], h => ([], h)
  | op :: ops, h =>
    let x := runOp op h
    let y := runOps ops x.2
    ((x.1, x.2.status, x.2.hab) :: y.1, y.2)

def specOps (ce : Bool) : List Op → Rom → Option (List (Except SErr Val × Nat × Nat) × Rom)
  | [], r => some ([], r)
  | op :: ops, r =>
    match specOp ce r op with
    | none => none
    | some (r1, res, st, hab) =>
      match specOps ce ops r1 with
      | none => none
      | some (rs, r2) => some ((res, st, hab) :: rs, r2)

end SpsdkVerif.Sdp
