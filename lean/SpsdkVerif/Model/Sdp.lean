/-
Hand-written executable model for the SDP part of property C10 (thin layer): `spsdk/sdp/commands.py`
(`CmdPacket.to_bytes`), `spsdk/sdp/protocol/serial_protocol.py` (`SDPSerialProtocol`) and `spsdk/sdp/sdp.py`
(`_process_cmd/_read_status/_read_data/_send_data`, read / write / write_file / write_dcd / write_csf / skip_dcd /
jump_and_run / read_status), plus a small reference i.MX ROM written from the protocol description.
Tied to /repo by harness/props/C10.py (streams `sdp_*`).  SDP over USB-HID and SDPS are not modelled.
-/
import SpsdkVerif.Base.Py

namespace SpsdkVerif.Sdp
open SpsdkVerif

abbrev Bytes := List UInt8

namespace Spec
abbrev cReadRegister : Nat := 0x0101
abbrev cWriteRegister : Nat := 0x0202
abbrev cWriteFile : Nat := 0x0404
abbrev cErrorStatus : Nat := 0x0505
abbrev cWriteCsf : Nat := 0x0606
abbrev cWriteDcd : Nat := 0x0A0A
abbrev cJumpAddress : Nat := 0x0B0B
abbrev cSkipDcdHeader : Nat := 0x0C0C
abbrev rWriteDataOk : Nat := 0x128A8A12
abbrev rWriteFileOk : Nat := 0x88888888
abbrev rSkipDcdHeaderOk : Nat := 0x900DD009
abbrev rLocked : Nat := 0x12343412
abbrev rUnlocked : Nat := 0x56787856
abbrev stSuccess : Nat := 0
abbrev stHabIsLocked : Nat := 2
abbrev stWriteRegisterFailure : Nat := 11
abbrev stWriteImageFailure : Nat := 12
abbrev stWriteDcdFailure : Nat := 13
abbrev stWriteCsfFailure : Nat := 14
abbrev stSkipDcdHeaderFailure : Nat := 15
abbrev maxRead : Nat := 64
end Spec

/-- `v.to_bytes(n, "big")` (truncating) -/
def be : Nat → Nat → Bytes
  | 0, _ => []
  | n + 1, v => UInt8.ofNat (v / 256 ^ n % 256) :: be n v

/-- `int.from_bytes(b, "big")` -/
def fromBe (b : Bytes) : Nat := b.foldl (fun acc x => acc * 256 + x.toNat) 0

def leBytes : Nat → Nat → Bytes
  | 0, _ => []
  | n + 1, v => UInt8.ofNat (v % 256) :: leBytes n (v / 256)

structure Cmd where
  tag : Nat
  address : Nat
  format : Nat
  count : Nat
  value : Nat := 0
  deriving DecidableEq, Repr

/-- `struct.pack(">HIB2IB", tag, address, format, count, value, 0)` accepts the fields -/
def Cmd.fits (c : Cmd) : Prop :=
  c.tag < 65536 ∧ c.address < 4294967296 ∧ c.format < 256 ∧ c.count < 4294967296 ∧ c.value < 4294967296

instance (c : Cmd) : Decidable c.fits := by unfold Cmd.fits; infer_instance

def Cmd.encode (c : Cmd) : Bytes :=
  be 2 c.tag ++ be 4 c.address ++ be 1 c.format ++ be 4 c.count ++ be 4 c.value ++ [0]

/-- the ROM's decoder of the 16-byte command -/
def parseCmd (w : Bytes) : Option Cmd :=
  if w.length = 16 then
    some { tag := fromBe (w.take 2), address := fromBe ((w.drop 2).take 4), format := fromBe ((w.drop 6).take 1),
           count := fromBe ((w.drop 7).take 4), value := fromBe ((w.drop 11).take 4) }
  else none

/-! ## reference ROM -/

structure Rom where
  mem : Bytes
  locked : Bool := false
  errStatus : Nat := 0xF0F0F0F0
  /-- pending data phase: command tag, address, byte count -/
  recv : Option (Nat × Nat × Nat) := none
  ncmd : Nat := 0
  /-- forced status words: (command index, value sent instead of the OK value) -/
  forced : List (Nat × Nat) := []
  jumped : Option Nat := none
  deriving DecidableEq, Repr

def splice (mem : Bytes) (a : Nat) (d : Bytes) : Bytes := mem.take a ++ d ++ mem.drop (a + d.length)

def Rom.hab (r : Rom) : Bytes := be 4 (if r.locked then Spec.rLocked else Spec.rUnlocked)

def okValue (tag : Nat) : Nat :=
  if tag = Spec.cWriteFile then Spec.rWriteFileOk else Spec.rWriteDataOk

/-- one host write in, the bytes the ROM sends in reaction out -/
def Rom.step (r : Rom) (w : Bytes) : Rom × Bytes :=
  match r.recv with
  | some (tag, a, n) =>
    let idx := r.ncmd - 1
    let r0 := { r with recv := none }
    if w.length = n then
      match r.forced.lookup idx with
      | some v => (r0, r.hab ++ be 4 v)
      | none =>
        if tag = Spec.cWriteFile then
          if a + n ≤ r.mem.length then ({ r0 with mem := splice r.mem a w }, r.hab ++ be 4 Spec.rWriteFileOk)
          else (r0, r.hab ++ be 4 0)                 -- address range refused
        else (r0, r.hab ++ be 4 (okValue tag))
    else (r0, [])
  | none =>
    match parseCmd w with
    | none => (r, [])
    | some c =>
      let idx := r.ncmd
      let r1 := { r with ncmd := r.ncmd + 1 }
      let forced := r.forced.lookup idx
      if c.tag = Spec.cReadRegister then
        if c.address + c.count ≤ r.mem.length then (r1, r.hab ++ (r.mem.drop c.address).take c.count)
        else (r1, r.hab)
      else if c.tag = Spec.cWriteRegister then
        let nb := c.format / 8
        match forced with
        | some v => (r1, r.hab ++ be 4 v)
        | none =>
          if (c.format = 8 ∨ c.format = 16 ∨ c.format = 32) ∧ c.address + nb ≤ r.mem.length then
            ({ r1 with mem := splice r.mem c.address (leBytes nb c.value) }, r.hab ++ be 4 Spec.rWriteDataOk)
          else (r1, r.hab ++ be 4 0)
      else if c.tag = Spec.cWriteFile ∨ c.tag = Spec.cWriteDcd ∨ c.tag = Spec.cWriteCsf then
        ({ r1 with recv := some (c.tag, c.address, c.count) }, [])
      else if c.tag = Spec.cErrorStatus then (r1, r.hab ++ be 4 (forced.getD r.errStatus))
      else if c.tag = Spec.cSkipDcdHeader then (r1, r.hab ++ be 4 (forced.getD Spec.rSkipDcdHeaderOk))
      else if c.tag = Spec.cJumpAddress then ({ r1 with jumped := some c.address }, r.hab)
      else (r1, r.hab)

/-! ## host -/

inductive SErr where
  | conn              -- SdpConnectionError
  | cmd (v : Nat)     -- SdpCommandError(error_value)
  | other
  | fuel
  deriving DecidableEq, Repr

inductive Peer where
  | script (chunks : List Bytes)
  | live (r : Rom)
  deriving DecidableEq

structure Host where
  ce : Bool := false
  status : Nat := 0
  hab : Nat := 0
  cmdStatus : Nat := 0
  expectStatus : Bool := true
  opened : Bool := true
  rx : Bytes := []
  txRev : List Bytes := []
  relRev : List Bytes := []
  peer : Peer := .script []
  deriving DecidableEq

def Host.write (h : Host) (w : Bytes) : Host :=
  let (peer', out) : Peer × Bytes :=
    match h.peer with
    | .script [] => (.script [], [])
    | .script (c :: cs) => (.script cs, c)
    | .live r => let (r', o) := r.step w; (.live r', o)
  { h with txRev := w :: h.txRev, relRev := out :: h.relRev, peer := peer', rx := h.rx ++ out, expectStatus := true }

def S (α : Type) : Type := Host → Except SErr α × Host

namespace S
@[inline] protected def pure {α} (a : α) : S α := fun s => (.ok a, s)
@[inline] protected def bind {α β} (m : S α) (f : α → S β) : S β := fun s =>
  match m s with
  | (.ok a, s') => f a s'
  | (.error e, s') => (.error e, s')
instance : Monad S where
  pure := S.pure
  bind := S.bind
@[inline] def fail {α} (e : SErr) : S α := fun s => (.error e, s)
@[inline] def get : S Host := fun s => (.ok s, s)
@[inline] def modify (f : Host → Host) : S Unit := fun s => (.ok (), f s)
/-- `try: … except Exception as exc: raise SdpConnectionError` -/
@[inline] def guardConn {α} (m : S α) : S α := fun s =>
  match m s with
  | (.ok a, s') => (.ok a, s')
  | (.error _, s') => (.error .conn, s')
end S
open S

/-- `_send_frame(data)`: sets `expect_status` and writes -/
def sendFrame (w : Bytes) : S Unit := modify (·.write w)

/-- `SDPSerialProtocol.read(length)`: exactly `length or 4` bytes, or a timeout (any exception) -/
def protoRead (length : Nat) : S (Bool × Bytes) := fun h =>
  let n := if length = 0 then 4 else length
  if n ≤ h.rx.length ∧ ¬ h.rx.isEmpty then (.ok (h.expectStatus, h.rx.take n), { h with rx := h.rx.drop n })
  else (.error .other, { h with rx := [] })

def writeCommand (c : Cmd) : S Unit :=
  if c.fits then sendFrame c.encode else fail .other      -- struct.error

/-- `_process_cmd` -/
def processCmd (c : Cmd) : S Bool := do
  let h ← get
  if ¬ h.opened then fail .conn
  else do
    modify (fun h => { h with status := Spec.stSuccess })
    let (hab, raw) ← guardConn (do writeCommand c; protoRead 0)
    if hab then
      let v := fromBe raw
      modify (fun h => { h with hab := v, status := if v ≠ Spec.rUnlocked then Spec.stHabIsLocked else h.status })
    pure true

/-- `_read_status` -/
def readStatus : S Nat := do
  let (_, raw) ← guardConn (protoRead 0)
  pure (fromBe raw)

/-- `_read_data(length)` -/
def readDataLoop (length : Nat) : Nat → Bytes → S Bytes
  | 0, _ => fail .fuel
  | f + 1, acc =>
    if acc.length < length then do
      modify (fun h => { h with expectStatus := false })
      let (_, raw) ← guardConn (protoRead (min (length - acc.length) Spec.maxRead))
      readDataLoop length f (acc ++ raw)
    else pure (acc.take length)

def readData (length : Nat) : S Bytes := readDataLoop length (length + 1) []

/-- `_send_data(cmd_packet, data)` -/
def sendData (c : Cmd) (data : Bytes) : S Bool := do
  let h ← get
  if ¬ h.opened then fail .conn
  else do
    modify (fun h => { h with status := Spec.stSuccess })
    let ok ← guardConn (do
      writeCommand c
      sendFrame data
      let (_, habRaw) ← protoRead 0
      let hv := fromBe habRaw
      modify (fun h => { h with hab := if hv ≠ Spec.rUnlocked then Spec.stHabIsLocked else hv })
      let (_, stRaw) ← protoRead 0
      let sv := fromBe stRaw
      modify (fun h => { h with cmdStatus := sv })
      if c.tag = Spec.cWriteDcd ∧ sv ≠ Spec.rWriteDataOk then do
        modify (fun h => { h with status := Spec.stWriteDcdFailure }); pure false
      else if c.tag = Spec.cWriteCsf ∧ sv ≠ Spec.rWriteDataOk then do
        modify (fun h => { h with status := Spec.stWriteCsfFailure }); pure false
      else if c.tag = Spec.cWriteFile ∧ sv ≠ Spec.rWriteFileOk then do
        modify (fun h => { h with status := Spec.stWriteImageFailure }); pure false
      else pure true)
    let h ← get
    if ¬ ok ∧ h.ce then fail (.cmd h.status) else pure ok

inductive Val where
  | none
  | bool (b : Bool)
  | bytes (b : Bytes)
  | int (n : Nat)
  deriving DecidableEq, Repr

inductive Op where
  | read (address length format : Nat)
  | write (address value count format : Nat)
  | writeFile (address : Nat) (data : Bytes)
  | writeDcd (address : Nat) (data : Bytes)
  | writeCsf (address : Nat) (data : Bytes)
  | skipDcd
  | jumpAndRun (address : Nat)
  | readStatus
  deriving DecidableEq, Repr

/-- the `status != OK -> status_code, raise / return False` tail shared by `write` and `skip_dcd` -/
def statusTail (status okv failSt : Nat) : S Val := do
  if status ≠ okv then do
    modify (fun h => { h with status := failSt })
    let h ← get
    if h.ce then fail (.cmd failSt) else pure (.bool false)
  else pure (.bool true)

def runOp : Op → S Val
  | .read a n f => do
    let _ ← processCmd ⟨Spec.cReadRegister, a, f, n, 0⟩
    let d ← readData n
    pure (.bytes d)
  | .write a v c f => do
    let _ ← processCmd ⟨Spec.cWriteRegister, a, f, c, v⟩
    let st ← readStatus
    statusTail st Spec.rWriteDataOk Spec.stWriteRegisterFailure
  | .writeFile a d => do let ok ← sendData ⟨Spec.cWriteFile, a, 0, d.length, 0⟩ d; pure (.bool ok)
  | .writeDcd a d => do let ok ← sendData ⟨Spec.cWriteDcd, a, 0, d.length, 0⟩ d; pure (.bool ok)
  | .writeCsf a d => do let ok ← sendData ⟨Spec.cWriteCsf, a, 0, d.length, 0⟩ d; pure (.bool ok)
  | .skipDcd => do
    let _ ← processCmd ⟨Spec.cSkipDcdHeader, 0, 0, 0, 0⟩
    let st ← readStatus
    statusTail st Spec.rSkipDcdHeaderOk Spec.stSkipDcdHeaderFailure
  | .jumpAndRun a => do let ok ← processCmd ⟨Spec.cJumpAddress, a, 0, 0, 0⟩; pure (.bool ok)
  | .readStatus => do
    let _ ← processCmd ⟨Spec.cErrorStatus, 0, 0, 0, 0⟩
    let st ← readStatus
    pure (.int st)

end SpsdkVerif.Sdp
