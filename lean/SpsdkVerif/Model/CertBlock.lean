/-
Hand-written executable model of the certificate-block codecs of `spsdk/utils/crypto/cert_blocks.py` (property C03):

  CertBlockHeader (v1, "<4s2H6I")  export / parse
  CertBlockV1                      export / parse        (certificates = opaque DER byte strings)
  CertificateBlockHeader (v2.1, "<4s2HL") export / parse
  RootKeyRecord                    export / parse  (flags: CA bit, used root index, key count, curve nibble)
  IskCertificate                   export / parse / to-be-signed data
  CertBlockV21                     export / parse

What belongs to `cryptography` is a parameter:
  * `certOk : Bytes → Bool`   – the bytes parse as an X.509 v3 certificate that `add_certificate` accepts
                                (self-signed root, chain validates);
  * `semOk : Bool`            – the export-time checks of CertBlockV1 on certificate *content*
                                (root key hash present in the RKH table, CA flags of the chain);
  * `pointOk : Bytes → Bool`  – the ISK public key bytes are a point on the curve (`convert_to_ecc_key`);
  * the ISK signature is a byte string handed in (signing = `c.sign`, see `iskSign`).
`CertBlockV1.parse` is modelled WITH the proposed fix C03-1 (image_length restored from the header).
Struct errors (`struct.error`), `KeyError`, `IndexError` are `.other`; `SPSDKError` is `.spsdk`.  No Mathlib.
-/
import SpsdkVerif.Base.Py
import SpsdkVerif.Crypto.Iface
import SpsdkVerif.Model.Rkht

namespace SpsdkVerif.CertBlock
open SpsdkVerif
open SpsdkVerif.Misc (beEnc beDec leEnc leDec alignNat)
open SpsdkVerif.Crypto (HashAlg CryptoOps Bytes SigAlg)
open SpsdkVerif.Rkht (RootKeyRecord exportV1 exportV21 rkhtV1Init rkhtInit rkrHashAlgorithm)

namespace G
export SpsdkVerif.Generated.RotTypes (cbV1HeaderFormat cbV1HeaderWidths cbV1Signature cbV1Alignment
  cbV21HeaderFormat cbV21HeaderWidths cbV21Magic
  rkrParseCaMask rkrParseUsedMask rkrParseUsedShift rkrParseCountMask rkrParseCountShift rkrParseHashLen rkrParseCurveMask
  iskUserDataBit iskCurveBits iskNoOffsetMagic iskNoOffsetSigOffset iskParseUserDataMask iskParseKeyLen rkhV1Size rkhtV1Slots)
end G

/-- `struct.pack` of one unsigned little-endian field of `w` bytes: `struct.error` when out of range -/
def packLE (w v : Nat) : PyRes Bytes := if v < 256 ^ w then .ok (leEnc w v) else .error .other

/-- `struct.unpack_from` of one unsigned little-endian field: `struct.error` when the buffer is too short -/
def unpackLE (w : Nat) (b : Bytes) : PyRes (Nat × Bytes) :=
  if b.length < w then .error .other else .ok (leDec (b.take w), b.drop w)

/-! ### certificate block v1 -/

structure CertBlockV1 where
  major : Nat
  minor : Nat
  flags : Nat
  buildNumber : Nat
  imageLength : Nat
  certs : List Bytes
  rkh : List Bytes
  alignment : Nat
  deriving Repr, DecidableEq

def headerSizeV1 : Nat := 32

def certTableLength (certs : List Bytes) : Nat := (certs.map (fun c => c.length + 4)).sum

/-- `CertBlockHeader.export` -/
def headerV1Export (cb : CertBlockV1) : PyRes Bytes := do
  let f1 ← packLE 2 cb.major
  let f2 ← packLE 2 cb.minor
  let f3 ← packLE 4 headerSizeV1
  let f4 ← packLE 4 cb.flags
  let f5 ← packLE 4 cb.buildNumber
  let f6 ← packLE 4 cb.imageLength
  let f7 ← packLE 4 cb.certs.length
  let f8 ← packLE 4 (certTableLength cb.certs)
  pure (G.cbV1Signature ++ f1 ++ f2 ++ f3 ++ f4 ++ f5 ++ f6 ++ f7 ++ f8)

def certsExport : List Bytes → PyRes Bytes
  | [] => .ok []
  | c :: rest => do
    let l ← packLE 4 c.length
    let r ← certsExport rest
    pure (l ++ c ++ r)

/-- `CertBlockV1.export` -/
def exportV1Block (semOk : Bool) (cb : CertBlockV1) : PyRes Bytes := do
  if cb.certs.isEmpty then throw .spsdk
  if !semOk then throw .spsdk
  let h ← headerV1Export cb
  let cs ← certsExport cb.certs
  let t ← exportV1 cb.rkh
  if cb.alignment = 0 then throw .spsdk
  let data := h ++ cs ++ t
  let data := data ++ List.replicate (alignNat data.length cb.alignment - data.length) 0
  let rawSize := alignNat (headerSizeV1 + certTableLength cb.certs + G.rkhV1Size * G.rkhtV1Slots) cb.alignment
  if data.length ≠ rawSize then throw .spsdk
  pure data

structure HeaderV1 where
  major : Nat
  minor : Nat
  flags : Nat
  buildNumber : Nat
  imageLength : Nat
  certCount : Nat
  certTableLength : Nat
  deriving Repr, DecidableEq

/-- `CertBlockHeader.parse` -/
def headerV1Parse (data : Bytes) : PyRes HeaderV1 := do
  if headerSizeV1 > data.length then throw .spsdk
  let sig := data.take 4
  let (major, r) ← unpackLE 2 (data.drop 4)
  let (minor, r) ← unpackLE 2 r
  let (len, r) ← unpackLE 4 r
  let (flags, r) ← unpackLE 4 r
  let (build, r) ← unpackLE 4 r
  let (imgLen, r) ← unpackLE 4 r
  let (cnt, r) ← unpackLE 4 r
  let (ctl, _) ← unpackLE 4 r
  if sig ≠ G.cbV1Signature then throw .spsdk
  if len ≠ headerSizeV1 then throw .spsdk
  pure { major := major, minor := minor, flags := flags, buildNumber := build, imageLength := imgLen,
         certCount := cnt, certTableLength := ctl }

/-- the certificate loop of `CertBlockV1.parse`: consumes `count` length-prefixed entries -/
def certsParse (certOk : Bytes → Bool) : Nat → Bytes → PyRes (List Bytes × Bytes)
  | 0, rest => .ok ([], rest)
  | n + 1, rest => do
    let (len, r) ← unpackLE 4 rest
    let cert := r.take len
    if !certOk cert then throw .spsdk
    let (cs, r') ← certsParse certOk n (r.drop len)
    pure (cert :: cs, r')

/-- `RKHTv1.parse`: four pieces of `len // 4` bytes -/
def rkhtV1Parse (t : Bytes) : PyRes (List Bytes) :=
  let l := t.length / 4
  rkhtV1Init [t.take l, (t.drop l).take l, (t.drop (2 * l)).take l, (t.drop (3 * l)).take l]

/-- `CertBlockV1.parse` (with fix C03-1: `image_length` copied from the parsed header) -/
def parseV1Block (certOk : Bytes → Bool) (data : Bytes) : PyRes CertBlockV1 := do
  let h ← headerV1Parse data
  if data.length < h.certTableLength + G.rkhtV1Slots * G.rkhV1Size then throw .spsdk
  let (certs, rest) ← certsParse certOk h.certCount (data.drop headerSizeV1)
  let rkh ← rkhtV1Parse (rest.take (G.rkhV1Size * G.rkhtV1Slots))
  pure { major := h.major, minor := h.minor, flags := h.flags, buildNumber := h.buildNumber,
         imageLength := h.imageLength, certs := certs, rkh := rkh, alignment := G.cbV1Alignment }

/-! ### certificate block v2.1 -/

def headerSizeV21 : Nat := 12

/-- `CertificateBlockHeader.export`: magic, minor, major, size -/
def headerV21Export (major minor size : Nat) : PyRes Bytes := do
  let f1 ← packLE 2 minor
  let f2 ← packLE 2 major
  let f3 ← packLE 4 size
  pure (G.cbV21Magic ++ f1 ++ f2 ++ f3)

/-- `CertificateBlockHeader.parse` → (major, minor, cert_block_size) -/
def headerV21Parse (data : Bytes) : PyRes (Nat × Nat × Nat) := do
  if headerSizeV21 > data.length then throw .spsdk
  let magic := data.take 4
  let (minor, r) ← unpackLE 2 (data.drop 4)
  let (major, r) ← unpackLE 2 r
  let (size, _) ← unpackLE 4 r
  if magic ≠ G.cbV21Magic then throw .spsdk
  pure (major, minor, size)

/-- `RootKeyRecord.export` -/
def rkrExport (r : RootKeyRecord) : PyRes Bytes := do
  let f ← packLE 4 r.flags
  pure (f ++ exportV21 r.rkh ++ r.rootPublicKey)

def lookupOr {β} (t : List (Nat × β)) (k : Nat) : PyRes β :=
  match t.lookup k with
  | some v => .ok v
  | none => .error .other      -- KeyError

def splitN (n : Nat) : Nat → Bytes → List Bytes
  | 0, _ => []
  | k + 1, b => b.take n :: splitN n k (b.drop n)

/-- `RKHTv21.parse(rkht, hash_algorithm)` -/
def rkhtV21Parse (t : Bytes) (a : HashAlg) : PyRes (List Bytes) :=
  if t.length % a.size ≠ 0 then .error .spsdk
  else rkhtInit (splitN a.size (t.length / a.size) t)

/-- fields read back from the flags word by `RootKeyRecord.parse` -/
def rkrCa (flags : Nat) : Bool := flags &&& G.rkrParseCaMask ≠ 0
def rkrUsed (flags : Nat) : Nat := (flags &&& G.rkrParseUsedMask) >>> G.rkrParseUsedShift
def rkrCount (flags : Nat) : Nat := (flags &&& G.rkrParseCountMask) >>> G.rkrParseCountShift
def rkrCurve (flags : Nat) : Nat := flags &&& G.rkrParseCurveMask

/-- `RootKeyRecord.parse` → (record, number of bytes it occupies = `expected_size`) -/
def rkrParse (c : CryptoOps) (data : Bytes) : PyRes (RootKeyRecord × Nat) := do
  let (flags, rest) ← unpackLE 4 data
  let n := rkrCount flags
  let hl ← lookupOr G.rkrParseHashLen (rkrCurve flags)
  let table := if n > 1 then rest.take (hl * n) else []
  let rest := if n > 1 then rest.drop (hl * n) else rest
  let pk := rest.take (hl * 2)
  let a ← rkrHashAlgorithm flags
  let rkh ← if n > 1 then rkhtV21Parse table a else rkhtInit [c.hash a pk]
  let r : RootKeyRecord := { flags := flags, rkh := rkh, rootPublicKey := pk }
  pure (r, 4 + (exportV21 rkh).length + pk.length)

structure IskCert where
  offsetPresent : Bool
  constraints : Nat
  flags : Nat
  pubKey : Bytes        -- `isk_public_key_data` = X ‖ Y
  userData : Bytes
  signature : Bytes
  deriving Repr, DecidableEq

/-- curve bit of `IskCertificate._calculate_flags` from the raw key length (64 → secp256r1, 96 → secp384r1,
    132 → secp521r1: no bit) -/
def iskCurveBit (pubLen : Nat) : Nat :=
  let name := if pubLen = 64 then "secp256r1" else if pubLen = 96 then "secp384r1" else "secp521r1"
  (G.iskCurveBits.filter (fun p => p.2 == name)).foldl (fun acc p => acc ||| (1 <<< p.1)) 0

/-- `IskCertificate._calculate_flags` -/
def iskCalcFlags (userData : Bytes) (pubLen : Nat) : Nat :=
  (if userData.isEmpty then 0 else 1 <<< G.iskUserDataBit) ||| iskCurveBit pubLen

/-- `IskCertificate.signature_offset` -/
def iskSigOffset (i : IskCert) : Nat := (if i.offsetPresent then 12 else 8) + i.userData.length + i.pubKey.length

/-- the header words of the ISK certificate: `pack("<3L", signature_offset, constraints, flags)` / `pack("<2L", …)` -/
def iskHeader (i : IskCert) : PyRes Bytes := do
  let c ← packLE 4 i.constraints
  let f ← packLE 4 i.flags
  if i.offsetPresent then do
    let o ← packLE 4 (iskSigOffset i)
    pure (o ++ c ++ f)
  else pure (c ++ f)

/-- the data handed to the signature provider by `IskCertificate.create_isk_signature(key_record_data)` -/
def iskDataToSign (keyRecordData : Bytes) (i : IskCert) : PyRes Bytes := do
  let h ← iskHeader i
  pure (keyRecordData ++ h ++ i.pubKey ++ i.userData)

/-- `create_isk_signature`: an existing signature is kept; otherwise the provider signs the data above -/
def iskSign (c : CryptoOps) (alg : SigAlg) (sk rand : Bytes) (keyRecordData : Bytes) (i : IskCert) : PyRes IskCert :=
  if !i.signature.isEmpty then .ok i
  else do
    let d ← iskDataToSign keyRecordData i
    pure { i with signature := c.sign alg sk d rand }

/-- `IskCertificate.export` -/
def iskExport (i : IskCert) : PyRes Bytes := do
  if i.signature.isEmpty then throw .spsdk
  let h ← iskHeader i
  pure (h ++ i.pubKey ++ i.userData ++ i.signature)

/-- `IskCertificate.parse(data, signature_size)` -/
def iskParse (pointOk : Bytes → Bool) (data : Bytes) (sigSize : Nat) : PyRes IskCert := do
  let (w0, r) ← unpackLE 4 data
  let (w1, r) ← unpackLE 4 r
  let (w2, _) ← unpackLE 4 r
  let noOffset := w0 % 65536 = G.iskNoOffsetMagic
  let sigOff := if noOffset then G.iskNoOffsetSigOffset else w0
  let constraints := if noOffset then w0 else w1
  let flags := if noOffset then w1 else w2
  let hdr := if noOffset then 8 else 12
  let userFlag := flags &&& G.iskParseUserDataMask ≠ 0
  let kl ← lookupOr G.iskParseKeyLen (flags % 16)
  let pk := (data.drop hdr).take (kl * 2)
  let off := hdr + kl * 2
  let ud := if userFlag then (data.drop off).take (sigOff - off) else []
  let sig := (data.drop sigOff).take sigSize
  -- constructor: `isk_cert = convert_to_ecc_key(pk) if pk else None`; `_calculate_flags` needs a key
  if pk.isEmpty then throw .spsdk
  if !pointOk pk then throw .spsdk
  pure { offsetPresent := !noOffset, constraints := constraints, flags := iskCalcFlags ud pk.length,
         pubKey := pk, userData := ud, signature := sig }

structure CertBlockV21 where
  major : Nat
  minor : Nat
  rkr : RootKeyRecord
  isk : Option IskCert
  deriving Repr, DecidableEq

/-- `CertBlockV21.export` for a block whose ISK certificate (if any) already carries its signature -/
def exportV21Block (cb : CertBlockV21) : PyRes Bytes := do
  let krd ← rkrExport cb.rkr
  let iskData ← match cb.isk with
    | some i => iskExport i
    | none => pure []
  let h ← headerV21Export cb.major cb.minor (headerSizeV21 + krd.length + iskData.length)
  pure (h ++ krd ++ iskData)

/-- `CertBlockV21.parse` -/
def parseV21Block (c : CryptoOps) (pointOk : Bytes → Bool) (data : Bytes) : PyRes CertBlockV21 := do
  let (major, minor, _) ← headerV21Parse data
  let (rkr, size) ← rkrParse c (data.drop headerSizeV21)
  let isk ← if rkrCa rkr.flags then pure none
    else do
      let i ← iskParse pointOk (data.drop (headerSizeV21 + size)) rkr.rootPublicKey.length
      pure (some i)
  pure { major := major, minor := minor, rkr := rkr, isk := isk }


/-! ### ISK certificate "lite" / certificate block Vx (MC56F8xxxx): `magic 0x4D43 | version 1 | constraints | X‖Y (64) | signature (64)`
    (added in phase 2; nothing above is changed) -/

namespace GL
export SpsdkVerif.Generated.RotTypes (liteMagic liteVersion liteHeaderFormat liteHeaderWidths litePubKeyLength liteSignatureSize
  liteSignatureOffset vxCertHashLength)
end GL

structure IskLite where
  constraints : Nat
  pubKey : Bytes
  signature : Bytes
  deriving Repr, DecidableEq

/-- `IskCertificateLite.get_tbs_data` -/
def liteTbs (i : IskLite) : PyRes Bytes := do
  let m ← packLE 2 GL.liteMagic
  let v ← packLE 2 GL.liteVersion
  let c ← packLE 4 i.constraints
  if i.pubKey.length ≠ GL.litePubKeyLength then throw .spsdk
  let data := m ++ v ++ c ++ i.pubKey
  if data.length ≠ GL.liteSignatureOffset then throw .spsdk
  pure data

/-- `IskCertificateLite.export` -/
def liteExport (i : IskLite) : PyRes Bytes := do
  if i.signature.isEmpty then throw .spsdk
  let t ← liteTbs i
  let data := t ++ i.signature
  if data.length ≠ 4 + 4 + GL.litePubKeyLength + GL.liteSignatureSize then throw .spsdk
  pure data

/-- `IskCertificateLite.parse`: magic and version are not looked at; the key must be a P-256 point (`pointOk`) -/
def liteParse (pointOk : Bytes → Bool) (data : Bytes) : PyRes IskLite := do
  let (_, r) ← unpackLE 2 data
  let (_, r) ← unpackLE 2 r
  let (cons, _) ← unpackLE 4 r
  let pk := (data.drop 8).take GL.litePubKeyLength
  let sig := (data.drop (8 + GL.litePubKeyLength)).take GL.liteSignatureSize
  if !pointOk pk then throw .spsdk
  pure { constraints := cons, pubKey := pk, signature := sig }

/-- `CertBlockVx.parse`: the constraints word is reduced to self-signed yes / no -/
def vxParse (pointOk : Bytes → Bool) (data : Bytes) : PyRes IskLite := do
  let i ← liteParse pointOk data
  pure { i with constraints := if i.constraints = 0 then 0 else 1 }

/-- `CertBlockVx.cert_hash`: first 16 bytes of SHA-256 of the exported certificate -/
def vxCertHash (c : CryptoOps) (i : IskLite) : PyRes Bytes := do
  let e ← liteExport i
  pure ((c.hash .sha256 e).take GL.vxCertHashLength)

/-- the fuse words of `CertBlockVx.get_otp_script`: `change_endianness(cert_hash)` split in 4-byte groups
    = each group of the hash byte-reversed -/
def vxFuseWords (h : Bytes) : List Bytes :=
  [(h.take 4).reverse, ((h.drop 4).take 4).reverse, ((h.drop 8).take 4).reverse, ((h.drop 12).take 4).reverse]

end SpsdkVerif.CertBlock
