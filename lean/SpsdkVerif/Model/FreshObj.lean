/-
C17 (phase 2) — secrets kept in a builder object that is used for more than one artifact.

`Model/Fresh.lean` lets an artifact obtain a value only by evaluating a drawing site during its own build.  Real builder
objects *store* the self-chosen secret in an attribute (`self._ctr_init_vector`, `self._dek_key`, …) and offer methods
that re-specify it on an existing instance (property setters, `load_from_config` / `mix_load_from_config`, `parse`).
Whether a second artifact made with the same object gets a new value depends on one thing only: does the
re-specification path (re)set the attribute on EVERY path, or only when the user supplied a value (`if cfg_value:`)?

This file models exactly that: objects with identity, one secret slot per object, and histories of
  * `new o`              a new builder object (slot empty; the value is drawn when first needed — constructor or lazy getter),
  * `respec o p sup`     the user re-specifies object `o` through path `p` of the path table, supplying `sup` (or nothing),
  * `emit o`             an artifact is produced from `o` (drawing the value now if the slot is empty).
Every `new`/`respec` starts a new *build* (epoch) of the object; artifacts emitted in the same build of the same object
are the same construction exported again (they share the value by design — e.g. a `BootImageV2x` object exported twice).

The path table (`Generated.secretSlots`, from the AST) tells for each path whether it resets on every path.
-/
import SpsdkVerif.Model.Fresh

namespace SpsdkVerif.Fresh

/-- what a method does with an attribute that holds a self-chosen secret -/
inductive Role where
  | init     -- `__init__` / `__new__` / `__post_init__`: the object is new
  | getter   -- property getter that draws lazily when the attribute is empty
  | lazy     -- other method that draws only when the attribute is empty (`if self.x is None: self.x = draw()`)
  | respec   -- public re-specification entry point: property setter, `*load*config*`, `*parse*`
  | other    -- any other method that writes the attribute
  deriving DecidableEq, Repr, Inhabited

/-- one (class, secret attribute, writing method) of /repo/spsdk -/
structure SlotPath where
  kind : Kind
  cls : String
  slot : String
  method : String
  role : Role
  /-- every normal (non-raising) path through the method assigns the attribute, and not from its own old value -/
  resets : Bool
  /-- the attribute receives the result of a draw made in this class itself (not an object of another artifact class) -/
  direct : Bool
  loc : String
  deriving Repr, Inhabited

/-- value of a slot: given by the user (identified by a number) or chosen by SPSDK (a token of the RNG oracle) -/
inductive OVal where
  | user (u : Nat)
  | chosen (t : Token)
  deriving DecidableEq, Repr, Inhabited

structure Cell where
  val : Option OVal := none
  /-- build counter of the object: incremented by every `new` / `respec` -/
  epoch : Nat := 0
  /-- did the user supply the value in the current build -/
  supplied : Bool := false
  deriving DecidableEq, Repr, Inhabited

abbrev Store := Nat → Cell

def Store.set (s : Store) (o : Nat) (c : Cell) : Store := fun x => if x = o then c else s x

inductive Step where
  | new (o : Nat)
  | respec (o : Nat) (p : Nat) (sup : Option Nat)
  | emit (o : Nat)
  deriving DecidableEq, Repr, Inhabited

/-- an artifact: which build of which object produced it, whether the user supplied the secret for that build, the value used -/
structure Art where
  obj : Nat
  epoch : Nat
  supplied : Bool
  val : OVal
  deriving DecidableEq, Repr, Inhabited

structure OSt where
  store : Store := fun _ => {}
  next : Nat := 0
  arts : List Art := []

/-- `T[p]` = "path p resets the slot on every path" -/
def ostep (T : List Bool) (s : OSt) : Step → OSt
  | .new o =>
    { s with store := s.store.set o { val := none, epoch := (s.store o).epoch + 1, supplied := false } }
  | .respec o p sup =>
    match T[p]? with
    | none => s                                     -- not a path of this program
    | some r =>
      let c := s.store o
      match sup with
      | some u => { s with store := s.store.set o { val := some (.user u), epoch := c.epoch + 1, supplied := true } }
      | none =>
        if r then { s with store := s.store.set o { val := none, epoch := c.epoch + 1, supplied := false } }
        else { s with store := s.store.set o { val := c.val, epoch := c.epoch + 1, supplied := false } }   -- old value kept
  | .emit o =>
    let c := s.store o
    match c.val with
    | some v => { s with arts := ⟨o, c.epoch, c.supplied, v⟩ :: s.arts }
    | none =>
      let d := draw s.next
      { store := s.store.set o { c with val := some (.chosen d.1) }, next := d.2,
        arts := ⟨o, c.epoch, c.supplied, .chosen d.1⟩ :: s.arts }

def orun (T : List Bool) (h : List Step) : OSt := h.foldl (ostep T) {}

/-- artifacts of a history, latest first -/
def runObj (T : List Bool) (h : List Step) : List Art := (orun T h).arts

def SameBuild (a b : Art) : Prop := a.obj = b.obj ∧ a.epoch = b.epoch

/-- The property for histories with re-used builder objects:
    (1) an artifact for whose build the user supplied nothing carries a value SPSDK chose (never a value left over from
        an earlier build's user input),
    (2) a self-chosen value occurs in two artifacts only if they are the same build of the same object. -/
def Safe (arts : List Art) : Prop :=
  (∀ a ∈ arts, a.supplied = false → ∃ t, a.val = .chosen t) ∧
  (∀ a ∈ arts, ∀ b ∈ arts, ∀ t, a.val = .chosen t → b.val = .chosen t → SameBuild a b)

end SpsdkVerif.Fresh
