/-
Hand-written executable model of the two text formats `BinaryImage.save_binary_image` /
`load_binary_image` (spsdk/utils/images.py) write and read through the third-party `bincopy` 20.1.1:
Intel-HEX (`BinFile.as_ihex()` / `add_ihex`) and Motorola S-record (`as_srec()` / `add_srec`), with the
parameters SPSDK uses (defaults: 32 data bytes per record, 32-bit addresses, `word_size_bytes = 1`,
no header).  Tied to the real code by the `hexfmt_model` stream of harness/props/C16.py (emitted TEXT
compared byte for byte, decoded segments, accept/refuse on malformed text).

Text is a list of bytes (the files are ASCII).  Quirks that are modelled as they are:
  * `as_ihex`: an extended-linear-address record (04) is emitted only when the upper 16 address bits
    of a chunk are *larger* than the current ones; a chunk may cross a 64 KiB boundary (the reader
    continues linearly); `address > 0xffffffff` is checked for the chunk start only.
  * `as_srec`: S3 data records, then S5 (≤ 0xffff records) or S6 (≤ 0xffffff) or an error, then S7
    when an execution start address is set.
  * `unpack_srec` slices without looking at the declared width: a record shorter than its address
    field is accepted with a truncated address and no data.
  * `add_ihex`: 02/04/03/05 records take *all* their data bytes as one big-endian number (an empty one
    is a `ValueError`); records after the EOF record are still processed.
  * `Segments.add` (reader, `overwrite=False`): fast path for data adjacent to the current segment,
    linear insert otherwise, then the loop that merges / silently deletes following segments.
Not modelled (the model refuses, the harness does not generate it): non-ASCII text; white space inside
a record (`bytearray.fromhex` tolerates it, `binascii.unhexlify` in the crc computation or the size
check then refuses it, so the record is refused either way); TI-TXT and Verilog VMEM (tried by
`BinFile.add` after SREC and IHEX); header (S0) emission (`BinFile()._header` is `None` in SPSDK).
-/
import SpsdkVerif.Base.Py

namespace SpsdkVerif.HexFmt

abbrev Bytes := List UInt8

/-- a run of bytes at an absolute address (`bincopy.Segment` with `word_size_bytes = 1`;
    `maximum_address` is always `minimum_address + len(data)`) -/
structure Seg where
  addr : Nat
  data : Bytes
  deriving DecidableEq, Repr

def Seg.max (s : Seg) : Nat := s.addr + s.data.length

/-- classes of refusal: `bincopy.Error` (incl. `AddDataError`) / `ValueError` from `fromhex`, `int('',16)` -/
inductive HErr where
  | fmt
  | value
  deriving DecidableEq, Repr

/-! ## hex text -/

/-- upper-case hex digit (`:02X`, `hexlify(..).upper()`) -/
def hexDigit (n : Nat) : UInt8 := if n < 10 then UInt8.ofNat (48 + n) else UInt8.ofNat (55 + n)

def hexBytes : Bytes → Bytes
  | [] => []
  | b :: bs => hexDigit (b.toNat / 16) :: hexDigit (b.toNat % 16) :: hexBytes bs

def hexVal (c : UInt8) : Option Nat :=
  if 48 ≤ c.toNat ∧ c.toNat ≤ 57 then some (c.toNat - 48)
  else if 65 ≤ c.toNat ∧ c.toNat ≤ 70 then some (c.toNat - 55)
  else if 97 ≤ c.toNat ∧ c.toNat ≤ 102 then some (c.toNat - 87)
  else none

/-- strict hex decoding (either case); `none` = `ValueError` -/
def unhex : Bytes → Option Bytes
  | [] => some []
  | [_] => none
  | a :: b :: rest =>
    match hexVal a, hexVal b, unhex rest with
    | some x, some y, some r => some (UInt8.ofNat (x * 16 + y) :: r)
    | _, _, _ => none

def sumBytes : Bytes → Nat
  | [] => 0
  | b :: bs => b.toNat + sumBytes bs

/-- `crc_ihex`: two's complement of the byte sum -/
def crcIhex (bs : Bytes) : UInt8 := UInt8.ofNat ((256 - sumBytes bs % 256) % 256)

/-- `crc_srec`: one's complement of the byte sum -/
def crcSrec (bs : Bytes) : UInt8 := UInt8.ofNat (255 - sumBytes bs % 256)

/-- big-endian number of all bytes (`int.from_bytes(.., 'big')`, `int(hexlify(data), 16)`) -/
def beNat : Bytes → Nat
  | [] => 0
  | b :: bs => b.toNat * 256 ^ bs.length + beNat bs

/-- `w` big-endian bytes of `n` (`f'{n:0{2w}X}'` for `n < 256^w`) -/
def beBytes : Nat → Nat → Bytes
  | 0, _ => []
  | w + 1, n => UInt8.ofNat (n / 256 ^ w) :: beBytes w (n % 256 ^ w)

/-! ## records -/

/-- `pack_ihex(type_, address, len(data), data)` for `type_ < 256`, `address < 65536`, `len(data) < 256` -/
def packIhex (type addr : Nat) (data : Bytes) : Bytes :=
  let body : Bytes := UInt8.ofNat data.length :: (beBytes 2 addr ++ UInt8.ofNat type :: data)
  58 :: hexBytes (body ++ [crcIhex body])

/-- `unpack_ihex(record)` -> (type, address, data) -/
def unpackIhex (r : Bytes) : Except HErr (Nat × Nat × Bytes) :=
  if r.length < 11 then .error .fmt
  else match r with
    | [] => .error .fmt
    | c :: rest =>
      if c ≠ 58 then .error .fmt
      else match unhex rest with
        | none => .error .value
        | some value =>
          match value with
          | size :: ah :: al :: t :: tail =>
            if size.toNat + 5 ≠ value.length then .error .fmt
            else if tail.getLast? ≠ some (crcIhex value.dropLast) then .error .fmt
            else .ok (t.toNat, beNat [ah, al], tail.dropLast)
          | _ => .error .fmt

/-- address width of an S-record type character (`'0159'` 2, `'268'` 3, `'37'` 4) -/
def srecWidth (t : UInt8) : Option Nat :=
  if t = 48 ∨ t = 49 ∨ t = 53 ∨ t = 57 then some 2
  else if t = 50 ∨ t = 54 ∨ t = 56 then some 3
  else if t = 51 ∨ t = 55 then some 4
  else none

/-- `pack_srec(type_, address, len(data), data)` for `address < 256^width`, `len(data) + width + 1 < 256`;
    `t` is the type *character* -/
def packSrec (t : UInt8) (width addr : Nat) (data : Bytes) : Bytes :=
  let body : Bytes := UInt8.ofNat (data.length + width + 1) :: (beBytes width addr ++ data)
  83 :: t :: hexBytes (body ++ [crcSrec body])

/-- `unpack_srec(record)` -> (type character, address, data); Python slice semantics -/
def unpackSrec (r : Bytes) : Except HErr (UInt8 × Nat × Bytes) :=
  if r.length < 6 then .error .fmt
  else match r with
    | c :: t :: rest =>
      if c ≠ 83 then .error .fmt
      else match unhex rest with
        | none => .error .value
        | some value =>
          match value with
          | [] => .error .fmt
          | size :: _ =>
            if size.toNat + 1 ≠ value.length then .error .fmt
            else match srecWidth t with
              | none => .error .fmt
              | some w =>
                if value.getLast? ≠ some (crcSrec value.dropLast) then .error .fmt
                else .ok (t, beNat ((value.take (1 + w)).drop 1), value.dropLast.drop (1 + w))
    | _ => .error .fmt

/-! ## `Segments.add` as the readers use it (`overwrite=False`) -/

structure SegList where
  list : List Seg
  /-- index of `_current_segment` (meaningless while the list is empty) -/
  cur : Nat
  deriving Repr, DecidableEq

/-- the loop after an insertion: following segments wholly below the end of the current one are deleted,
    one reaching beyond it is appended (its covered beginning dropped) -/
def absorb (c : Seg) : List Seg → Seg × List Seg
  | [] => (c, [])
  | s :: rest =>
    if c.max ≥ s.max then absorb c rest
    else if c.max ≥ s.addr then (⟨c.addr, c.data ++ s.data.drop (c.max - s.addr)⟩, rest)
    else (c, s :: rest)

def finishAdd (pre : List Seg) (c : Seg) (post : List Seg) : SegList :=
  let r := absorb c post
  ⟨pre ++ r.1 :: r.2, pre.length⟩

def SegList.add (st : SegList) (seg : Seg) : Except HErr SegList :=
  if st.list.isEmpty then .ok ⟨[seg], 0⟩
  else match st.list[st.cur]? with
    | none => .error .fmt   -- unreachable
    | some c =>
      if seg.addr = c.max then
        -- fast path: adjacent to the current segment
        .ok (finishAdd (st.list.take st.cur) ⟨c.addr, c.data ++ seg.data⟩ (st.list.drop (st.cur + 1)))
      else match st.list.findIdx? (fun s => seg.addr ≤ s.max) with
        | none => .ok ⟨st.list ++ [seg], st.list.length⟩      -- after everything
        | some i =>
          match st.list[i]? with
          | none => .error .fmt   -- unreachable
          | some s =>
            let pre := st.list.take i
            let post := st.list.drop (i + 1)
            if seg.max < s.addr then .ok (finishAdd pre seg (s :: post))
            else if seg.addr = s.max then .ok (finishAdd pre ⟨s.addr, s.data ++ seg.data⟩ post)
            else if seg.max = s.addr then .ok (finishAdd pre ⟨seg.addr, seg.data ++ s.data⟩ post)
            else .error .fmt      -- AddDataError

/-! ## lines -/

def isNL (c : UInt8) : Bool := c == 10 || c == 13

/-- `str.isspace` on ASCII -/
def isSpace (c : UInt8) : Bool := c == 32 || (9 ≤ c.toNat && c.toNat ≤ 13) || (28 ≤ c.toNat && c.toNat ≤ 31)

/-- universal-newline reading followed by `for record in StringIO(records)` -/
def splitLines : Bytes → List Bytes
  | [] => [[]]
  | c :: cs =>
    if isNL c then [] :: splitLines cs
    else match splitLines cs with
      | l :: ls => (c :: l) :: ls
      | [] => [[c]]

def rstrip (l : Bytes) : Bytes := (l.reverse.dropWhile isSpace).reverse
def strip (l : Bytes) : Bytes := rstrip (l.dropWhile isSpace)

/-- stripped, non-blank lines -/
def cleanLines (text : Bytes) : List Bytes := ((splitLines text).map strip).filter (fun l => !l.isEmpty)

def joinLines : List Bytes → Bytes
  | [] => []
  | r :: rs => r ++ 10 :: joinLines rs

/-! ## readers -/

structure DecState where
  segs : SegList := ⟨[], 0⟩
  esa : Nat := 0
  ela : Nat := 0
  exec : Option Nat := none
  header : Option Bytes := none
  deriving Repr, DecidableEq

/-- one iteration of the `add_ihex` loop -/
def ihexStep (st : DecState) (line : Bytes) : Except HErr DecState :=
  match unpackIhex line with
  | .error e => .error e
  | .ok (t, a, d) =>
    if t = 0 then
      match st.segs.add ⟨a + st.esa + st.ela, d⟩ with
      | .error e => .error e
      | .ok sl => .ok { st with segs := sl }
    else if t = 1 then .ok st
    else if t = 2 then (if d.isEmpty then .error .value else .ok { st with esa := beNat d * 16 })
    else if t = 4 then (if d.isEmpty then .error .value else .ok { st with ela := beNat d * 65536 })
    else if t = 3 ∨ t = 5 then (if d.isEmpty then .error .value else .ok { st with exec := some (beNat d) })
    else .error .fmt

/-- one iteration of the `add_srec` loop -/
def srecStep (st : DecState) (line : Bytes) : Except HErr DecState :=
  match unpackSrec line with
  | .error e => .error e
  | .ok (t, a, d) =>
    if t = 48 then .ok { st with header := some d }
    else if t = 49 ∨ t = 50 ∨ t = 51 then
      match st.segs.add ⟨a, d⟩ with
      | .error e => .error e
      | .ok sl => .ok { st with segs := sl }
    else if t = 55 ∨ t = 56 ∨ t = 57 then .ok { st with exec := some a }
    else .ok st

def runLines (step : DecState → Bytes → Except HErr DecState) : DecState → List Bytes → Except HErr DecState
  | st, [] => .ok st
  | st, l :: ls =>
    match step st l with
    | .error e => .error e
    | .ok st' => runLines step st' ls

/-- what SPSDK takes from the `BinFile`: the segments and the execution start address -/
structure Image where
  segs : List Seg
  exec : Option Nat
  deriving Repr, DecidableEq

def DecState.image (st : DecState) : Image := ⟨st.segs.list, st.exec⟩

/-- `BinFile.add_ihex(text)` on a fresh `BinFile` -/
def ihexDecode (text : Bytes) : Except HErr Image :=
  match runLines ihexStep {} (cleanLines text) with
  | .error e => .error e
  | .ok st => .ok st.image

/-- `BinFile.add_srec(text)` on a fresh `BinFile` -/
def srecDecode (text : Bytes) : Except HErr Image :=
  match runLines srecStep {} (cleanLines text) with
  | .error e => .error e
  | .ok st => .ok st.image

/-- `records.partition('\n')[0].rstrip()` -/
def firstLine (text : Bytes) : Bytes := rstrip (text.takeWhile (fun c => !isNL c))

/-- `load_binary_image` of a text file, as far as HEX / SREC are concerned: format sniffing on the first
    line (`is_srec`, then `is_ihex`), the reader, and SPSDK's refusal of a file without segments.
    Everything else (a `ValueError` escaping the sniffers, TI-TXT / VMEM / unsupported, the raw-BIN
    fall-back) is "refused as HEX/SREC". -/
def loadText (text : Bytes) : Except HErr Image :=
  if text.any (fun c => c.toNat ≥ 128) then .error .fmt
  else
    let dec : Except HErr Image :=
      match unpackSrec (firstLine text) with
      | .ok _ => srecDecode text
      | .error .value => .error .value
      | .error .fmt =>
        match unpackIhex (firstLine text) with
        | .ok _ => ihexDecode text
        | .error e => .error e
    match dec with
    | .error e => .error e
    | .ok img => if img.segs.isEmpty then .error .fmt else .ok img

/-! ## writers -/

/-- `Segment.chunks(32)` (alignment 1, no padding); `fuel ≥ data.length` -/
def chunksAux : Nat → Nat → Bytes → List Seg
  | 0, _, _ => []
  | f + 1, a, d => if d.isEmpty then [] else ⟨a, d.take 32⟩ :: chunksAux f (a + 32) (d.drop 32)

def Seg.chunks (s : Seg) : List Seg := chunksAux s.data.length s.addr s.data

/-- adding a segment behind everything already there: merged into the last one when adjacent -/
def addSorted : List Seg → Seg → List Seg
  | [], s => [s]
  | [l], s => if s.addr = l.max then [⟨l.addr, l.data ++ s.data⟩] else [l, s]
  | x :: y :: rest, s => x :: addSorted (y :: rest) s

/-- the segment list `add_binary` builds from ascending, non-overlapping, non-empty segments -/
def normalize (segs : List Seg) : List Seg := segs.foldl addSorted []

/-- data / extended-linear-address records of `as_ihex` (`ela` = current upper 16 bits) -/
def ihexRecs : Nat → List Seg → List Bytes
  | _, [] => []
  | ela, c :: cs =>
    let up := c.addr / 65536
    if up > ela then packIhex 4 0 (beBytes 2 up) :: packIhex 0 (c.addr % 65536) c.data :: ihexRecs up cs
    else packIhex 0 (c.addr % 65536) c.data :: ihexRecs ela cs

def ihexFooter (exec : Option Nat) : List Bytes :=
  (match exec with | some e => [packIhex 5 0 (beBytes 4 e)] | none => []) ++ [packIhex 1 0 []]

/-- `BinFile.as_ihex()` after `add_binary` of `segs`; `exec` = `execution_start_address` (`< 2^32`) -/
def ihexEncode (exec : Option Nat) (segs : List Seg) : Except HErr Bytes :=
  let cs := (normalize segs).flatMap Seg.chunks
  if cs.any (fun c => c.addr > 0xffffffff) then .error .fmt
  else .ok (joinLines (ihexRecs 0 cs ++ ihexFooter exec))

/-- S7 record when an execution start address is set -/
def srecTail (exec : Option Nat) : List Bytes :=
  match exec with
  | some e => [packSrec 55 4 e []]
  | none => []

/-- record count (S5 / S6 / too many) and execution start address -/
def srecFooter (n : Nat) (exec : Option Nat) : Except HErr (List Bytes) :=
  if n ≤ 0xffff then .ok (packSrec 53 2 n [] :: srecTail exec)
  else if n ≤ 0xffffff then .ok (packSrec 54 3 n [] :: srecTail exec)
  else .error .fmt

/-- `BinFile.as_srec()` after `add_binary` of `segs` (addresses `< 2^32`) -/
def srecEncode (exec : Option Nat) (segs : List Seg) : Except HErr Bytes :=
  let cs := (normalize segs).flatMap Seg.chunks
  match srecFooter cs.length exec with
  | .error e => .error e
  | .ok footer => .ok (joinLines (cs.map (fun c => packSrec 51 4 c.addr c.data) ++ footer))

end SpsdkVerif.HexFmt
