/-
C19 — model of the SB2.1 command-file (BD) expression language as implemented by
`spsdk/sbfile/sb2/sly_bd_lexer.py` + `sly_bd_parser.py`:

  * `lex`        : hand model of the sly lexer (rule priority = definition order; operator tokens and keywords
                   come from `Generated.BdGrammar.tokenText/reserved`),
  * `Expr/BExpr` : abstract syntax of `expr` and `bool_expr` (the documented two-level grammar),
  * `pr/prB`     : pretty-printer with minimal parentheses for a level table,
  * `parseExpr/parseB` : the *reference* precedence-climbing parser for a level table (fuel = recursion depth),
                   `genLevels` = the table computed from `Generated.BdGrammar.precedence` with yacc's rule
                   "a rule has the precedence of its last terminal" (so unary ± sits at the additive level and the
                   int-size suffix `. b/h/w`, whose tokens have no declared precedence, binds loosest),
  * `eval/evalB` : evaluation whose per-operator actions are the *generated* translations of the rule bodies.

That sly's LALR(1) tables realise exactly this parser is not proved (third party); the C19 correspondence streams test it.
No Mathlib here (linked into the native driver).
-/
import SpsdkVerif.Generated.BdGrammar
namespace SpsdkVerif.Bd
open SpsdkVerif
open SpsdkVerif.Generated

/-! ### Operators -/

inductive BinOp where
  | add | sub | mul | div | mod | shl | shr | band | bor | bxor
  deriving DecidableEq, Repr, Inhabited

inductive CmpOp where
  | lt | le | gt | ge | eq | ne | land | lor
  deriving DecidableEq, Repr, Inhabited

inductive IntSz where
  | b | h | w
  deriving DecidableEq, Repr, Inhabited

def BinOp.all : List BinOp := [.add, .sub, .mul, .div, .mod, .shl, .shr, .band, .bor, .bxor]
def CmpOp.all : List CmpOp := [.lt, .le, .gt, .ge, .eq, .ne, .land, .lor]
def IntSz.all : List IntSz := [.b, .h, .w]

/-- lexer/parser token name of an operator -/
def BinOp.tokName : BinOp → String
  | .add => "PLUS" | .sub => "MINUS" | .mul => "TIMES" | .div => "DIVIDE" | .mod => "MOD"
  | .shl => "LSHIFT" | .shr => "RSHIFT" | .band => "AND" | .bor => "OR" | .bxor => "XOR"

def CmpOp.tokName : CmpOp → String
  | .lt => "LT" | .le => "LE" | .gt => "GT" | .ge => "GE" | .eq => "EQ" | .ne => "NE" | .land => "LAND" | .lor => "LOR"

def IntSz.letter : IntSz → String
  | .b => "b" | .h => "h" | .w => "w"

/-- text of a lexer token (from the generated table of the lexer's literal regexes) -/
def tokText (name : String) : String :=
  match BdGrammar.tokenText.find? (fun p => p.1 == name) with
  | some p => p.2
  | none => ""

def BinOp.text (o : BinOp) : String := tokText o.tokName
def CmpOp.text (o : CmpOp) : String := tokText o.tokName

/-! ### Precedence levels -/

structure Levels where
  bin : BinOp → Nat
  cmp : CmpOp → Nat
  /-- level of the rule `MINUS expr` / `PLUS expr` (yacc: precedence of the rule's last terminal) -/
  neg : Nat
  pos : Nat
  lnot : Nat

/-- 1-based index of the row of a precedence table that lists `tok` (0 = no declared precedence) -/
def levelIn (table : List (String × List String)) (tok : String) : Nat :=
  match table.findIdx? (fun row => row.2.contains tok) with
  | some i => i + 1
  | none => 0

def levelsOf (table : List (String × List String)) : Levels where
  bin := fun o => levelIn table o.tokName
  cmp := fun o => levelIn table o.tokName
  neg := levelIn table "MINUS"
  pos := levelIn table "PLUS"
  lnot := levelIn table "LNOT"

/-- the levels the implementation's `precedence` tuple declares -/
def genLevels : Levels := levelsOf BdGrammar.precedence

/-- associativity a precedence table declares for a token ("" = none) -/
def assocIn (table : List (String × List String)) (tok : String) : String :=
  match table.find? (fun row => row.2.contains tok) with
  | some row => row.1
  | none => ""

/-- Two level tables order the operators of each grammar level in the same way.  The reference parser (and yacc's
    conflict resolution) only ever compares levels of operators that can meet: arithmetic/bitwise operators and unary ±
    among themselves, comparison/logical operators and `!` among themselves — the two-level grammar keeps the groups apart. -/
def Levels.sameOrder (A B : Levels) : Bool :=
  let ex (L : Levels) : List Nat := BinOp.all.map L.bin ++ [L.neg, L.pos]
  let bo (L : Levels) : List Nat := CmpOp.all.map L.cmp ++ [L.lnot]
  let same (xs ys : List Nat) : Bool :=
    (List.range xs.length).all (fun i => (List.range xs.length).all (fun j =>
      (decide (xs.getD i 0 < xs.getD j 0) == decide (ys.getD i 0 < ys.getD j 0)) &&
      (decide (0 < xs.getD i 0) == decide (0 < ys.getD i 0))))
  same (ex A) (ex B) && same (bo A) (bo B)

/-! ### Tokens and lexer -/

inductive Tok where
  | num (n : Nat)
  | ident (s : String)
  | source (s : String)      -- identifier defined in a `sources` block (SOURCE_NAME)
  | kw (s : String)          -- reserved word other than true/yes/false/no (token name)
  | op (o : BinOp)
  | cmp (o : CmpOp)
  | lnot
  | defined                  -- keyword `defined`
  | lparen
  | rparen
  | dot
  | isize (s : IntSz)
  | str (s : String)         -- STRING_LITERAL (content without the quotes)
  | secname (s : String)     -- SECTION_NAME (the whole text, `$` included)
  | blob (s : String)        -- BINARY_BLOB (the hexadecimal digits, blanks removed)
  | other (name : String)    -- any other token (`~`, `?`, `:`, `;`, `{`, …, ERROR)
  deriving DecidableEq, Repr, Inhabited

def isIdStart (c : Char) : Bool := c == '_' || c.isAlpha
def isIdChar (c : Char) : Bool := c == '_' || c.isAlphanum
def isHexDigit (c : Char) : Bool := c.isDigit || ('a' ≤ c && c ≤ 'f') || ('A' ≤ c && c ≤ 'F')
def hexDigitVal (c : Char) : Nat :=
  if c.isDigit then c.toNat - 48 else if 'a' ≤ c && c ≤ 'f' then c.toNat - 87 else c.toNat - 55

def isPrefixOfL : List Char → List Char → Bool
  | [], _ => true
  | _ :: _, [] => false
  | a :: as, b :: bs => a == b && isPrefixOfL as bs

/-- split at the first occurrence of `pat` (returns the part before and the part after `pat`) -/
def splitAt? (pat : List Char) : List Char → Option (List Char × List Char)
  | [] => if pat.isEmpty then some ([], []) else none
  | c :: cs =>
    if isPrefixOfL pat (c :: cs) then some ([], (c :: cs).drop pat.length)
    else match splitAt? pat cs with
      | some (a, b) => some (c :: a, b)
      | none => none

def decVal (ds : List Char) : Nat := ds.foldl (fun acc c => acc * 10 + (c.toNat - 48)) 0
def hexVal (ds : List Char) : Nat := ds.foldl (fun acc c => acc * 16 + hexDigitVal c) 0

inductive LexErr where
  | value      -- the token rule raised (e.g. `int("08", 0)`): a non-SPSDK exception
  deriving DecidableEq, Repr

/-- the INT_LITERAL rule at `cs` (which starts with a digit): `\b([0-9]+[K]?|0[xX][0-9a-fA-F]+)\b`.
    Returns none if the regex does not match here (the lexer then produces an ERROR token). -/
def lexNumber (cs : List Char) : Option (Except LexErr Nat × List Char) :=
  let ds := cs.takeWhile Char.isDigit
  let r1 := cs.dropWhile Char.isDigit
  -- alternative 1: digits, optional K, word boundary
  let alt1 : Option (Except LexErr Nat × List Char) :=
    let (isK, r2) := match r1 with
      | 'K' :: r => if (match r with | c :: _ => isIdChar c | [] => false) then (false, r1) else (true, r)
      | _ => (false, r1)
    if (match r2 with | c :: _ => isIdChar c | [] => false) then none
    else
      -- Python int(text, 0): a decimal literal with a leading zero must be all zeros
      let v : Except LexErr Nat :=
        if ds.length > 1 && ds.head? == some '0' && ds.any (· != '0') then .error .value else .ok (decVal ds)
      some (v.map (fun n => if isK then n * 1024 else n), r2)
  match alt1 with
  | some r => some r
  | none =>
    match cs with
    | '0' :: x :: r =>
      if x == 'x' || x == 'X' then
        let hs := r.takeWhile isHexDigit
        let r3 := r.dropWhile isHexDigit
        if hs.isEmpty || (match r3 with | c :: _ => isIdChar c | [] => false) then none
        else some (.ok (hexVal hs), r3)
      else none
    | _ => none

/-- Lexer state: remaining characters, previous two characters (for the INT_SIZE look-behind). -/
def simpleTok (name : String) : Tok :=
  match BinOp.all.find? (fun o => o.tokName == name) with
  | some o => .op o
  | none =>
    match CmpOp.all.find? (fun o => o.tokName == name) with
    | some o => .cmp o
    | none =>
      if name == "LNOT" then .lnot else if name == "LPAREN" then .lparen else if name == "RPAREN" then .rparen
      else if name == "PERIOD" then .dot else .other name

/-- first literal token (in lexer priority order) that is a prefix of the input -/
def matchSimple (cs : List Char) : Option (String × Nat) :=
  match BdGrammar.tokenText.find? (fun p => p.2 != "" && isPrefixOfL p.2.toList cs) with
  | some p => some (p.1, p.2.length)
  | none => none

def nonGreedyQuotes : Bool := BdGrammar.stringLiteralNonGreedy
def nonGreedyChars : Bool := BdGrammar.charLiteralNonGreedy

/-- content of a quoted literal starting after the opening quote: up to the first (non-greedy) or last (greedy)
    closing quote on the same line -/
def quoted (q : Char) (greedy : Bool) (cs : List Char) : Option (List Char × List Char) :=
  let line := cs.takeWhile (· != '\n')
  let idxs := (List.range line.length).filter (fun i => line[i]? == some q)
  let pick := if greedy then idxs.getLast? else idxs.head?
  match pick with
  | some i => some (cs.take i, cs.drop (i + 1))
  | none => none

/-- blank, tab, newline: skipped between tokens -/
def isWs (c : Char) : Bool := c == ' ' || c == '\t' || c == '\n'
/-- `#…` and `//…` comments -/
def isLineComment (c : Char) (cs : List Char) : Bool := c == '#' || (c == '/' && cs.head? == some '/')
/-- a terminated `/* … */` comment -/
def isBlockComment (c : Char) (cs : List Char) : Bool :=
  c == '/' && cs.head? == some '*' && (splitAt? ['*', '/'] (cs.drop 1)).isSome
/-- INT_SIZE: one of w/h/b with the look-behind `(\d|[0-9a-fA-F])\.` (p1 = previous character, p2 = the one before) -/
def isSizeAt (c : Char) (p1 p2 : Option Char) : Bool :=
  (c == 'w' || c == 'h' || c == 'b') && p1 == some '.' && (match p2 with | some d => isHexDigit d | none => false)
def sizeOfChar (c : Char) : IntSz := if c == 'w' then .w else if c == 'h' then .h else .b
def isSectionNameChar (d : Char) : Bool := isIdChar d || ".*?-^[]".toList.contains d
/-- BINARY_BLOB `\{\{([0-9a-fA-F]{2}| )+\}\}` after the opening `{{`: pairs of hexadecimal digits and blanks (at least one item)
    up to `}}`; returns the digits and the text after the blob.  The alternatives of the group start with different characters,
    so the regex engine never backtracks into another reading. -/
def scanBlobBody : List Char → List Char → Bool → Option (List Char × List Char)
  | ' ' :: cs, acc, _ => scanBlobBody cs acc true
  | '}' :: '}' :: cs, acc, any => if any then some (acc.reverse, cs) else none
  | a :: b :: cs, acc, _ => if isHexDigit a && isHexDigit b then scanBlobBody cs (b :: a :: acc) true else none
  | _, _, _ => none
/-- the BINARY_BLOB rule at `c :: cs` -/
def scanBlob (c : Char) (cs : List Char) : Option (List Char × List Char) :=
  if c == '{' && cs.head? == some '{' then scanBlobBody (cs.drop 1) [] false else none
/-- previous two characters after `consumed` has been read -/
def prevAfter (consumed : List Char) (p1 p2 : Option Char) : Option Char × Option Char :=
  let l := consumed.length
  (if l ≥ 1 then consumed[l - 1]? else p1,
   if l ≥ 2 then consumed[l - 2]? else if l == 1 then p1 else p2)
/-- token of an identifier-shaped word -/
def wordTok (sources : List String) (w : String) : Tok :=
  match BdGrammar.reserved.find? (fun p => p.1 == w) with
  | some p =>
    if p.2 == "TRUE" || p.2 == "YES" then .num 1
    else if p.2 == "FALSE" || p.2 == "NO" then .num 0
    else if p.2 == "DEFINED" then .defined
    else .kw p.2
  | none => if sources.contains w then .source w else .ident w

/-- value of a character literal `'body'`: the UTF-8 bytes of the body read as one big-endian number (`'dude'` = 0x64756465) -/
def utf8Bytes (c : Char) : List Nat :=
  let n := c.toNat
  if n < 0x80 then [n]
  else if n < 0x800 then [0xC0 + n / 64, 0x80 + n % 64]
  else if n < 0x10000 then [0xE0 + n / 4096, 0x80 + n / 64 % 64, 0x80 + n % 64]
  else [0xF0 + n / 262144, 0x80 + n / 4096 % 64, 0x80 + n / 64 % 64, 0x80 + n % 64]
def charLitVal (body : List Char) : Nat := (body.flatMap utf8Bytes).foldl (fun acc b => acc * 256 + b) 0

def lexAux (sources : List String) : Nat → List Char → Option Char → Option Char → List Tok → Except LexErr (List Tok)
  | 0, _, _, _, acc => .ok acc.reverse
  | _, [], _, _, acc => .ok acc.reverse
  | fuel + 1, c :: cs, p1, p2, acc =>
    -- p1 = previous character, p2 = the one before
    if isWs c then lexAux sources fuel cs (some c) p1 acc
    -- COMMENT
    else if isLineComment c cs then
      let body := (c :: cs).takeWhile (· != '\n')
      lexAux sources fuel ((c :: cs).drop body.length) (prevAfter body p1 p2).1 (prevAfter body p1 p2).2 acc
    else if isBlockComment c cs then
      match splitAt? ['*', '/'] (cs.drop 1) with
      | some (a, b) =>
        lexAux sources fuel b (prevAfter (c :: '*' :: a ++ ['*', '/']) p1 p2).1 (prevAfter (c :: '*' :: a ++ ['*', '/']) p1 p2).2 acc
      | none => .ok acc.reverse
    -- INT_SIZE: look-behind `(\d|[0-9a-fA-F])\.` then one of w/h/b
    else if isSizeAt c p1 p2 then lexAux sources fuel cs (some c) p1 (.isize (sizeOfChar c) :: acc)
    -- IDENT / keywords / source names
    else if isIdStart c then
      let word := (c :: cs).takeWhile isIdChar
      lexAux sources fuel ((c :: cs).drop word.length) (prevAfter word p1 p2).1 (prevAfter word p1 p2).2
        (wordTok sources (String.ofList word) :: acc)
    -- INT_LITERAL
    else if c.isDigit then
      -- `\b` before the number: the previous character must not be a word character
      if (match p1 with | some d => isIdChar d | none => false) then lexAux sources fuel cs (some c) p1 (.other "ERROR" :: acc)
      else match lexNumber (c :: cs) with
        | some (.ok n, rest) =>
          lexAux sources fuel rest (prevAfter ((c :: cs).take ((c :: cs).length - rest.length)) p1 p2).1
            (prevAfter ((c :: cs).take ((c :: cs).length - rest.length)) p1 p2).2 (.num n :: acc)
        | some (.error e, _) => .error e
        | none => lexAux sources fuel cs (some c) p1 (.other "ERROR" :: acc)
    else if c == '\'' then
      match quoted '\'' (!nonGreedyChars) cs with
      | some (body, rest) =>
        if body.isEmpty then .error .value
        else
          lexAux sources fuel rest (prevAfter ('\'' :: body ++ ['\'']) p1 p2).1 (prevAfter ('\'' :: body ++ ['\'']) p1 p2).2
            (.num (charLitVal body) :: acc)
      | none => lexAux sources fuel cs (some c) p1 (.other "ERROR" :: acc)
    -- SECTION_NAME `\$[\w\.\*\?\-\^\[\]]+`
    else if c == '$' && (match cs with | d :: _ => isSectionNameChar d | [] => false) then
      let body := cs.takeWhile isSectionNameChar
      lexAux sources fuel (cs.drop body.length) (prevAfter (c :: body) p1 p2).1 (prevAfter (c :: body) p1 p2).2
        (.secname (String.ofList (c :: body)) :: acc)
    -- BINARY_BLOB `\{\{([0-9a-fA-F]{2}| )+\}\}` (before LBRACE in the lexer's priority order)
    else if (scanBlob c cs).isSome then
      match scanBlob c cs with
      | some (hex, rest) => lexAux sources fuel rest (some '}') (some '}') (.blob (String.ofList hex) :: acc)
      | none => .ok acc.reverse
    else if c == '"' then
      match quoted '"' (!nonGreedyQuotes) cs with
      | some (body, rest) =>
        lexAux sources fuel rest (prevAfter ('"' :: body ++ ['"']) p1 p2).1 (prevAfter ('"' :: body ++ ['"']) p1 p2).2
          (.str (String.ofList body) :: acc)
      | none => lexAux sources fuel cs (some c) p1 (.other "ERROR" :: acc)
    else match matchSimple (c :: cs) with
      | some (name, len) =>
        lexAux sources fuel ((c :: cs).drop len) (prevAfter ((c :: cs).take len) p1 p2).1 (prevAfter ((c :: cs).take len) p1 p2).2
          (simpleTok name :: acc)
      | none =>
        -- `literals` of the lexer (single characters that are their own token type), else the error rule
        if BdGrammar.literals.contains (String.singleton c) then lexAux sources fuel cs (some c) p1 (.other (String.singleton c) :: acc)
        else lexAux sources fuel cs (some c) p1 (.other "ERROR" :: acc)

/-! #### the single rules, as the lexer above applies them (compared with the CURRENT regexes on generated probe texts) -/

/-- length the named rule matches at the start of `cs` (the expressions are those of the branches of `lexAux`) -/
def ruleLen (rule : String) (cs : List Char) : Option Nat :=
  match cs with
  | [] => none
  | c :: r =>
    if rule == "COMMENT" then
      if isLineComment c r then some ((c :: r).takeWhile (· != '\n')).length
      else if isBlockComment c r then (splitAt? ['*', '/'] (r.drop 1)).map (fun ab => ab.1.length + 4)
      else none
    else if rule == "IDENT" then (if isIdStart c then some ((c :: r).takeWhile isIdChar).length else none)
    else if rule == "SECTION_NAME" then
      (if c == '$' && (match r with | d :: _ => isSectionNameChar d | [] => false) then some ((r.takeWhile isSectionNameChar).length + 1)
       else none)
    else if rule == "newline" then (if c == '\n' then some 1 else none)
    else none

/-- INT_LITERAL at the start of `cs`: matched length and value (`none` inside = the rule's action raises) -/
def intLiteralAt (cs : List Char) : Option (Nat × Option Nat) :=
  match cs with
  | [] => none
  | c :: r =>
    if c.isDigit then
      match lexNumber (c :: r) with
      | some (.ok n, rest) => some ((c :: r).length - rest.length, some n)
      | some (.error _, rest) => some ((c :: r).length - rest.length, none)
      | none => none
    else if c == '\'' then
      match quoted '\'' (!nonGreedyChars) r with
      | some (body, _) => some (body.length + 2, if body.isEmpty then none else some (charLitVal body))
      | none => none
    else none

/-- BINARY_BLOB at the start of `cs`: matched length and token value -/
def blobAt (cs : List Char) : Option (Nat × String) :=
  match cs with
  | [] => none
  | c :: r => (scanBlob c r).map (fun hr => ((c :: r).length - hr.2.length, String.ofList hr.1))

/-- INT_SIZE tried at the third character of a three-character text -/
def intSizeAt (cs : List Char) : Bool :=
  match cs with
  | [p2, p1, c] => isSizeAt c (some p1) (some p2)
  | _ => false

/-- tokens of an expression text; `sources` = identifiers defined in `sources` blocks so far -/
def lex (sources : List String) (s : String) : Except LexErr (List Tok) :=
  lexAux sources (s.length + 1) s.toList none none []

/-! ### Abstract syntax (the documented two-level grammar) -/

inductive Expr where
  | lit (n : Nat)
  | var (name : String)
  | bin (o : BinOp) (l r : Expr)
  | neg (e : Expr)
  | pos (e : Expr)
  | size (s : IntSz) (e : Expr)
  deriving DecidableEq, Repr, Inhabited

inductive BExpr where
  | atom (e : Expr)
  | bin (o : CmpOp) (l r : BExpr)
  | lnot (b : BExpr)
  | defined (name : String)
  deriving DecidableEq, Repr, Inhabited

/-! ### Pretty-printer (minimal parentheses for a level table) -/

def paren (ts : List Tok) : List Tok := .lparen :: ts ++ [.rparen]

/-- `pr L m e`: tokens of `e` for a context that requires level ≥ `m` -/
def pr (L : Levels) : Nat → Expr → List Tok
  | _, .lit n => [.num n]
  | _, .var x => [.ident x]
  | m, .bin o l r =>
    let body := pr L (L.bin o) l ++ .op o :: pr L (L.bin o + 1) r
    if m ≤ L.bin o then body else paren body
  | m, .neg e =>
    let body := .op .sub :: pr L (L.neg + 1) e
    if m ≤ L.neg then body else paren body
  | m, .pos e =>
    let body := .op .add :: pr L (L.pos + 1) e
    if m ≤ L.pos then body else paren body
  | m, .size s e =>
    let body := pr L 0 e ++ [.dot, .isize s]
    if m = 0 then body else paren body

/-- operand of `!`: a primary of the bool level -/
def BExpr.isPrimary : BExpr → Bool
  | .bin _ _ _ => false
  | _ => true

def prB (L : Levels) : Nat → BExpr → List Tok
  | _, .atom e => pr L 0 e
  | m, .bin o l r =>
    let body := prB L (L.cmp o) l ++ .cmp o :: prB L (L.cmp o + 1) r
    if m ≤ L.cmp o then body else paren body
  | _, .lnot b =>
    -- the operand is a primary of the bool level (`!` is the tightest operator of that level)
    .lnot :: (match b with
      | .bin o l r => paren (prB L 0 (.bin o l r))
      | b' => prB L 0 b')
  | _, .defined x => [.defined, .lparen, .ident x, .rparen]

/-! ### Reference parser (precedence climbing; `fuel` bounds the recursion depth) -/

mutual
def parsePrimary (L : Levels) : Nat → List Tok → Option (Expr × List Tok)
  | 0, _ => none
  | f + 1, ts =>
    match ts with
    | .num n :: ts' => some (.lit n, ts')
    | .ident x :: ts' => some (.var x, ts')
    | .lparen :: ts' =>
      (match parseExpr L f 0 ts' with
       | some (e, .rparen :: ts'') => some (e, ts'')
       | _ => none)
    | .op .sub :: ts' =>
      (match parseExpr L f (L.neg + 1) ts' with
       | some (e, ts'') => some (.neg e, ts'')
       | none => none)
    | .op .add :: ts' =>
      (match parseExpr L f (L.pos + 1) ts' with
       | some (e, ts'') => some (.pos e, ts'')
       | none => none)
    | _ => none

def parseExpr (L : Levels) : Nat → Nat → List Tok → Option (Expr × List Tok)
  | 0, _, _ => none
  | f + 1, m, ts =>
    match parsePrimary L f ts with
    | some (l, ts') => parseLoop L f m l ts'
    | none => none

def parseLoop (L : Levels) : Nat → Nat → Expr → List Tok → Option (Expr × List Tok)
  | 0, _, _, _ => none
  | f + 1, m, l, ts =>
    match ts with
    | .op o :: ts' =>
      if m ≤ L.bin o then
        (match parseExpr L f (L.bin o + 1) ts' with
         | some (r, ts'') => parseLoop L f m (.bin o l r) ts''
         | none => none)
      else some (l, ts)
    | .dot :: .isize s :: ts' =>
      if m = 0 then parseLoop L f m (.size s l) ts' else some (l, ts)
    | _ => some (l, ts)
end

mutual
def parsePrimaryB (L : Levels) : Nat → List Tok → Option (BExpr × List Tok)
  | 0, _ => none
  | f + 1, ts =>
    match ts with
    | .lnot :: ts' =>
      (match parsePrimaryB L f ts' with
       | some (b, ts'') => some (.lnot b, ts'')
       | none => none)
    | .defined :: ts' =>
      (match ts' with
       | .lparen :: .ident x :: .rparen :: ts'' => some (.defined x, ts'')
       | _ => none)
    | .lparen :: ts' =>
      -- `( bool_expr )`; when the content is a plain `expr` the parenthesis is an `expr` primary and the
      -- expression may continue (`(1+2)*3 < 4`)
      (match parseB L f 0 ts' with
       | some (b, .rparen :: ts'') =>
         (match b with
          | .atom e =>
            (match parseLoop L f 0 e ts'' with
             | some (e', ts3) => some (.atom e', ts3)
             | none => none)
          | _ => some (b, ts''))
       | _ => none)
    | _ =>
      (match parseExpr L f 0 ts with
       | some (e, ts') => some (.atom e, ts')
       | none => none)

def parseB (L : Levels) : Nat → Nat → List Tok → Option (BExpr × List Tok)
  | 0, _, _ => none
  | f + 1, m, ts =>
    match parsePrimaryB L f ts with
    | some (l, ts') => parseLoopB L f m l ts'
    | none => none

def parseLoopB (L : Levels) : Nat → Nat → BExpr → List Tok → Option (BExpr × List Tok)
  | 0, _, _, _ => none
  | f + 1, m, l, ts =>
    match ts with
    | .cmp o :: ts' =>
      if m ≤ L.cmp o then
        (match parseB L f (L.cmp o + 1) ts' with
         | some (r, ts'') => parseLoopB L f m (.bin o l r) ts''
         | none => none)
      else some (l, ts)
    | _ => some (l, ts)
end

/-- fuel that always suffices (Proofs/Bd.lean: `parseExpr_fuel`) -/
def fuelFor (ts : List Tok) : Nat := 3 * ts.length + 4

inductive ParseErr where
  | syntax
  deriving DecidableEq, Repr

/-- `int_const_expr`: the whole token list must be one `expr` -/
def refParse (L : Levels) (ts : List Tok) : Except ParseErr Expr :=
  match parseExpr L (fuelFor ts) 0 ts with
  | some (e, []) => .ok e
  | _ => .error .syntax

/-- `bool_expr`: the whole token list must be one `bool_expr` -/
def refParseB (L : Levels) (ts : List Tok) : Except ParseErr BExpr :=
  match parseB L (fuelFor ts) 0 ts with
  | some (b, []) => .ok b
  | _ => .error .syntax

/-! ### Evaluation with the generated rule actions -/

/-- value of a BD expression in the implementation: a Python int (bools as 0/1) or, for an undefined identifier,
    the identifier itself (a `str`) -/
inductive Val where
  | int (i : Int)
  | sym (s : String)
  deriving DecidableEq, Repr, Inhabited

/-- `_variables`: (name, value) in definition order -/
abbrev Vars := List (String × Val)

def lookupVar (vars : Vars) (x : String) : Val :=
  let hit := if BdGrammar.lookupFirstWins then vars.find? (fun p => p.1 == x) else vars.reverse.find? (fun p => p.1 == x)
  match hit with
  | some p => p.2
  | none => .sym x

def opAction (o : BinOp) (a b : Int) : PyRes Int := BdGrammar.exprRule o.text a b a ""
def sizeAction (s : IntSz) (a : Int) : PyRes Int := BdGrammar.exprRule (tokText "PERIOD") a 0 a s.letter
def negAction (a : Int) : PyRes Int := BdGrammar.unaryRule (tokText "MINUS") a
def posAction (a : Int) : PyRes Int := BdGrammar.unaryRule (tokText "PLUS") a
def cmpAction (o : CmpOp) (a b : Int) : PyRes Int := BdGrammar.boolRule o.text a b
def lnotAction (a : Int) : PyRes Int := BdGrammar.lnotRule a

/-! Operands that are Python `str`s (an undefined identifier evaluates to its own name, a string option to its text):
    hand model of Python's operators on them.  `+` concatenates two strs, `*` repeats a str, `&&`/`||`/`!` use truthiness
    (non-empty), `==`/`!=` compare any two values, `<`… compare two strs by code points; everything else raises TypeError.
    Not modelled: `%` with a str on the left that contains `%` (string formatting), repetition counts above 2^16 or results
    longer than 2^20 characters. -/

def asInt : Val → PyRes Int
  | .int i => .ok i
  | .sym _ => .error .other

def truthyV : Val → Bool
  | .int i => i != 0
  | .sym s => s != ""

def strRepeat (s : String) (n : Int) : String := String.join (List.replicate n.toNat s)

def binVal (o : BinOp) : Val → Val → PyRes Val
  | .int x, .int y => match opAction o x y with | .ok z => .ok (.int z) | .error e => .error e
  | .sym a, .sym b => match o with | .add => .ok (.sym (a ++ b)) | _ => .error .other
  | .sym a, .int n => match o with
    | .mul => if n > 65536 || (a.length : Int) * n > 1048576 then .error .other else .ok (.sym (strRepeat a n))
    | _ => .error .other
  | .int n, .sym a => match o with
    | .mul => if n > 65536 || (a.length : Int) * n > 1048576 then .error .other else .ok (.sym (strRepeat a n))
    | _ => .error .other

def cmpVal (o : CmpOp) : Val → Val → PyRes Val
  | .int x, .int y => match cmpAction o x y with | .ok z => .ok (.int z) | .error e => .error e
  | a, b =>
    match o with
    | .land => .ok (if truthyV a then b else a)
    | .lor => .ok (if truthyV a then a else b)
    | .eq => .ok (.int (pyBoolInt (a == b)))
    | .ne => .ok (.int (pyBoolInt (a != b)))
    | _ =>
      match a, b with
      | .sym x, .sym y =>
        .ok (.int (pyBoolInt (match o with
          | .lt => decide (x < y) | .le => decide (x ≤ y) | .gt => decide (y < x) | _ => decide (y ≤ x))))
      | _, _ => .error .other

def unaryVal (neg : Bool) : Val → PyRes Val
  | .int x => match (if neg then negAction x else posAction x) with | .ok z => .ok (.int z) | .error e => .error e
  -- `-'s'` raises TypeError; for `+` the rule returns its operand untouched (no operator is applied)
  | .sym s => if neg then .error .other else .ok (.sym s)

def sizeVal (s : IntSz) : Val → PyRes Val
  | .int x => match sizeAction s x with | .ok z => .ok (.int z) | .error e => .error e
  | .sym _ => .error .other

def lnotVal : Val → PyRes Val
  | .int x => match lnotAction x with | .ok z => .ok (.int z) | .error e => .error e
  | .sym s => .ok (.int (pyBoolInt (s == "")))

def eval (vars : Vars) : Expr → PyRes Val
  | .lit n => .ok (.int n)
  | .var x => .ok (lookupVar vars x)
  | .bin o l r =>
    match eval vars l, eval vars r with
    | .ok a, .ok b => binVal o a b
    | .error e, _ => .error e
    | _, .error e => .error e
  | .neg e => match eval vars e with
    | .ok a => unaryVal true a
    | .error e => .error e
  | .pos e => match eval vars e with
    | .ok a => unaryVal false a
    | .error e => .error e
  | .size s e => match eval vars e with
    | .ok a => sizeVal s a
    | .error e => .error e

def evalB (vars : Vars) : BExpr → PyRes Val
  | .atom e => eval vars e
  | .bin o l r =>
    match evalB vars l, evalB vars r with
    | .ok a, .ok b => cmpVal o a b
    | .error e, _ => .error e
    | _, .error e => .error e
  | .lnot b => match evalB vars b with
    | .ok a => lnotVal a
    | .error e => .error e
  | .defined x => .ok (.int (pyBoolInt (BdGrammar.definedRule (vars.map (·.1)) x)))

/-- result classes of evaluating an expression text -/
inductive EvalErr where
  | syntax     -- refused by lexer/parser (SPSDKError)
  | py (e : PyErr)
  deriving DecidableEq, Repr

def liftPy {α} : PyRes α → Except EvalErr α
  | .ok v => .ok v
  | .error e => .error (.py e)

/-- `bool_expr` text → value (lexer, reference parser with the generated levels, generated actions) -/
def evalBoolText (sources : List String) (vars : Vars) (text : String) : Except EvalErr Val :=
  match lex sources text with
  | .error _ => .error (.py .other)
  | .ok ts =>
    match refParseB genLevels ts with
    | .error _ => .error .syntax
    | .ok b => liftPy (evalB vars b)

/-- `const_expr` text → value: a single STRING_LITERAL, or a `bool_expr` -/
def evalConstText (sources : List String) (vars : Vars) (text : String) : Except EvalErr Val :=
  match lex sources text with
  | .error _ => .error (.py .other)
  | .ok [.str s] => .ok (.sym s)
  | .ok ts =>
    match refParseB genLevels ts with
    | .error _ => .error .syntax
    | .ok b => liftPy (evalB vars b)

/-- `int_const_expr` text → value -/
def evalIntText (sources : List String) (vars : Vars) (text : String) : Except EvalErr Val :=
  match lex sources text with
  | .error _ => .error (.py .other)
  | .ok ts =>
    match refParse genLevels ts with
    | .error _ => .error .syntax
    | .ok e => liftPy (eval vars e)

end SpsdkVerif.Bd
