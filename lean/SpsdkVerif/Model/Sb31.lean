/-
C05 — Secure Binary 3.1.

Two INDEPENDENT halves:

* `SpsdkVerif.Sb31` (first half): hand-written executable model of what SPSDK's export path computes
  (`spsdk/sbfile/sb31/{commands,images,functions}.py`): the 14 command encoders, the section header, the
  256-byte chunking, `_process_block` / the reversed hash chain, the header, the CMAC counter-mode KDF and
  `SecureBinary31.export()` as a STATE TRANSITION of the Python object (`block_count`,
  `image_total_length`, `final_hash` persist between calls).  Every constant, tag and small integer
  function comes from `Generated/Sb31Consts.lean`, which is re-extracted from the current source on each
  run.  Tied to /repo by the byte-for-byte correspondence of harness/props/C05.py.

* `SpsdkVerif.Sb31.Rom` (second half): a ROM-side loader written from the FORMAT DESCRIPTION only
  (hand-written constants, forward hash-chain walk, per-block KDF + CBC decryption, section header,
  command parser, certificate block v2.1 walk).  It never refers to the first half or to `Generated`.
  SPSDK has no SB3.1 parser, so this loader (compiled) is the property's oracle on SPSDK's bytes, and
  `Properties/C05.lean` proves that it accepts every export of the model, for every export history.

The certificate block is an opaque byte string for the export model (supplied by the caller; its own
structure is property C03); the ROM half parses it.  Signatures are abstract (`CryptoOps.sign/verify`);
the native driver instantiates `verify := true` and prints the verification obligations, which the
harness discharges with `cryptography` directly.

No Mathlib imports (the native driver links this module).
-/
import SpsdkVerif.Base.Py
import SpsdkVerif.Model.Misc
import SpsdkVerif.Crypto.Modes
import SpsdkVerif.Generated.Sb31Consts

namespace SpsdkVerif.Sb31
open SpsdkVerif SpsdkVerif.Misc SpsdkVerif.Crypto
open SpsdkVerif.Generated

abbrev Bytes := SpsdkVerif.Misc.Bytes

/-! ## Commands (spsdk/sbfile/sb31/commands.py) -/

inductive Cmd where
  | erase (addr len memId : Nat)
  | load (addr : Nat) (data : Bytes) (memId : Nat)
  | execute (addr : Nat)
  | call (addr : Nat)
  | progFuses (addr : Nat) (data : Bytes)
  | progIfr (addr : Nat) (data : Bytes)
  | loadCmac (addr : Nat) (data : Bytes) (memId : Nat)
  | copy (addr len dst memFrom memTo : Nat)
  | loadHashLocking (addr : Nat) (data : Bytes) (memId : Nat)
  | loadKeyBlob (offset : Nat) (data : Bytes) (keyWrapId : Nat)
  | configureMemory (addr memId : Nat)
  | fillMemory (addr len pattern : Nat)
  | fwVersionCheck (value counterId : Nat)
  | reset
  deriving DecidableEq, Repr, Inhabited

def u16 (v : Nat) : Bytes := leEnc 2 v
def u32 (v : Nat) : Bytes := leEnc 4 v
def u64 (v : Nat) : Bytes := leEnc 8 v

/-- `pack(BaseCmd.FORMAT, TAG, a, b, cmd_tag)` -/
def baseHdr (a b tag : Nat) : Bytes := u32 Sb31Consts.cmdMagic ++ u32 a ++ u32 b ++ u32 tag
/-- `pack("<4L", a, b, c, d)` -/
def words4 (a b c d : Nat) : Bytes := u32 a ++ u32 b ++ u32 c ++ u32 d

/-- `CmdLoadBase.export`: header, optional memory-id block, data, all aligned to 16 with zeros -/
def loadLike (tag addr len : Nat) (memBlock : Option Nat) (data : Bytes) : Bytes :=
  zeroPad Sb31Consts.loadAlign
    (baseHdr addr len tag ++ (match memBlock with | some m => words4 m 0 0 0 | none => []) ++ data)

/-- `cmd.export()` for every command class -/
def encCmd : Cmd → Bytes
  | .erase a l m => baseHdr a l Sb31Consts.tagErase ++ words4 m 0 0 0
  | .load a d m => loadLike Sb31Consts.tagLoad a d.length (some m) d
  | .execute a => baseHdr a 0 Sb31Consts.tagExecute
  | .call a => baseHdr a 0 Sb31Consts.tagCall
  | .progFuses a d => loadLike Sb31Consts.tagProgFuses a (d.length / Sb31Consts.fuseWordSize) none d
  | .progIfr a d => loadLike Sb31Consts.tagProgIfr a d.length none d
  | .loadCmac a d m => loadLike Sb31Consts.tagLoadCmac a d.length (some m) d
  | .copy a l dst mf mt => baseHdr a l Sb31Consts.tagCopy ++ words4 dst mf mt 0
  | .loadHashLocking a d m =>
      loadLike Sb31Consts.tagLoadHashLocking a d.length (some m) d ++ zeros Sb31Consts.hashLockTail
  | .loadKeyBlob off d kw =>
      zeroPad Sb31Consts.keyBlobAlign
        (u32 Sb31Consts.cmdMagic ++ u16 off ++ u16 kw ++ u32 d.length ++ u32 Sb31Consts.tagLoadKeyBlob ++ d)
  | .configureMemory a m => baseHdr m a Sb31Consts.tagConfigureMemory
  | .fillMemory a l p => baseHdr a l Sb31Consts.tagFillMemory ++ words4 p 0 0 0
  | .fwVersionCheck v cid => baseHdr v cid Sb31Consts.tagFwVersionCheck
  | .reset => baseHdr 0 0 Sb31Consts.tagReset

def isU16 (v : Nat) : Bool := decide (v < 65536)
def isU32 (v : Nat) : Bool := decide (v < 4294967296)
def isU64 (v : Nat) : Bool := decide (v < 18446744073709551616)

/-- every packed field fits its struct code (otherwise `struct.error`) -/
def Cmd.inRange : Cmd → Bool
  | .erase a l m => isU32 a && isU32 l && isU32 m
  | .load a d m => isU32 a && isU32 d.length && isU32 m
  | .execute a => isU32 a
  | .call a => isU32 a
  | .progFuses a d => isU32 a && isU32 d.length
  | .progIfr a d => isU32 a && isU32 d.length
  | .loadCmac a d m => isU32 a && isU32 d.length && isU32 m
  | .copy a l dst mf mt => isU32 a && isU32 l && isU32 dst && isU32 mf && isU32 mt
  | .loadHashLocking a d m => isU32 a && isU32 d.length && isU32 m
  | .loadKeyBlob off d kw => isU16 off && isU16 kw && isU32 d.length
  | .configureMemory a m => isU32 a && isU32 m
  | .fillMemory a l p => isU32 a && isU32 l && isU32 p
  | .fwVersionCheck v cid => isU32 v && isU32 cid
  | .reset => true

/-- the domain of the property: fields in range, and fuse data is a whole number of 32-bit words
    (`CmdProgFuses` stores `len(data) // 4` in the length field) -/
def Cmd.wf (c : Cmd) : Bool :=
  c.inRange && (match c with | .progFuses _ d => d.length % 4 == 0 | _ => true)

/-- the command constructors: `CmdProgFuses.__init__` refuses data that is not a whole number of fuse words
    (`SPSDKError`); every other constructor accepts its arguments as they are -/
def newCmd (c : Cmd) : PyRes Cmd :=
  match c with
  | .progFuses _ d =>
    if Sb31Consts.fuseDataGuard ≠ 0 ∧ d.length % Sb31Consts.fuseDataGuard ≠ 0 then .error .spsdk else .ok c
  | _ => .ok c

/-! ## Section header, chunking, data blocks (images.py: SecureBinary31Commands) -/

/-- `CmdSectionHeader(length).export()` -/
def sectionHdr (len : Nat) : Bytes :=
  u32 Sb31Consts.sectionUid ++ u32 Sb31Consts.sectionType ++ u32 len ++ u32 0

def cmdBytes (cmds : List Cmd) : Bytes := (cmds.map encCmd).flatten

/-- `section_header.export() + commands_bytes` -/
def cmdStream (cmds : List Cmd) : Bytes :=
  sectionHdr (cmdBytes cmds).length ++ cmdBytes cmds

def splitBlocks (sz : Nat) : Nat → Bytes → List Bytes
  | 0, _ => []
  | n + 1, b => b.take sz :: splitBlocks sz n (b.drop sz)

/-- `get_cmd_blocks_to_export`: pieces of DATA_CHUNK_LENGTH bytes, the last one zero padded.
    (The stream is never empty — it starts with the section header — so padding the stream first and
    cutting afterwards is the same list.) -/
def dataBlocks (total : Bytes) : List Bytes :=
  let p := zeroPad Sb31Consts.chunkLen total
  splitBlocks Sb31Consts.chunkLen (p.length / Sb31Consts.chunkLen) p

/-! ## Key derivation (functions.py) -/

/-- `_derive_key`: CMAC in counter mode -- the CMACs of the derivation data for the iterations the code performs for
    this key length (generated by executing `_derive_key`: `[1]` for 128-bit, `[1, 2]` for 256-bit keys), concatenated -/
def deriveKey (c : CryptoOps) (key : Bytes) (const rights mode keyLen : Nat) : Bytes :=
  (((Sb31Consts.kdfIterationsFor.find? (fun p => p.1 == keyLen)).map (·.2)).getD []).flatMap
    (fun i => cmac c key (Sb31Consts.kdfData const rights mode keyLen i))

def lookup (t : List (Nat × Nat)) (k : Nat) : Option Nat := (t.find? (fun p => p.1 == k)).map (·.2)

def hashAlgOf (hashLen : Nat) : HashAlg := if hashLen = 48 then .sha384 else .sha256

/-! ## The container object -/

/-- constructor arguments / members that no method changes -/
structure Cfg where
  hashLen : Nat          -- 32 | 48, from `signature_provider.signature_length`
  fwVersion : Nat
  flags : Nat
  timestamp : Nat
  description : Bytes    -- ASCII bytes of the description argument (any length; `[]` = None / "")
  isNxp : Bool
  encrypted : Bool
  pck : Bytes
  rights : Nat
  cert : Bytes           -- `cert_block.export()` (opaque here); `expected_size` = its length
  sk : PrivKey           -- the signature provider's key (abstract)
  deriving Repr

/-- what persists in the Python objects between method calls -/
structure ObjState where
  cfg : Cfg
  cmds : List Cmd        -- sb_commands.commands
  keyLen : Nat           -- key_derivator.key_length
  kdk : Bytes            -- key_derivator.kdk (empty when not encrypted)
  blockCount : Nat       -- sb_header.block_count / sb_commands.block_count
  totalLength : Nat      -- sb_header.image_total_length
  finalHash : Bytes      -- sb_commands.final_hash
  deriving Repr

/-- `_adjust_description` -/
def adjustDesc (d : Bytes) : Bytes :=
  let t := d.take Sb31Consts.descLen
  t ++ zeros (Sb31Consts.descLen - t.length)

/-- `SecureBinary31.__init__` (+ `KeyDerivator.__init__`, which derives the KDK at once) -/
def newObj (c : CryptoOps) (cfg : Cfg) : PyRes ObjState :=
  match lookup Sb31Consts.keyLenOfHash cfg.hashLen with
  | none => .error .other
  | some keyLen =>
    if cfg.encrypted && !(Sb31Consts.kdfRights.contains cfg.rights) then .error .spsdk
    else .ok { cfg := cfg, cmds := [], keyLen := keyLen,
               kdk := if cfg.encrypted then deriveKey c cfg.pck cfg.timestamp cfg.rights Sb31Consts.kdfModeKdk keyLen else [],
               blockCount := 0, totalLength := Sb31Consts.initTotalLength, finalHash := zeros cfg.hashLen }

def addCmd (s : ObjState) (cmd : Cmd) : ObjState := { s with cmds := s.cmds ++ [cmd] }

/-- `KeyDerivator.get_block_key` -/
def blockKey (c : CryptoOps) (s : ObjState) (n : Nat) : Bytes :=
  deriveKey c s.kdk n s.cfg.rights Sb31Consts.kdfModeBlk s.keyLen

/-- payload of `_process_block`: AES-CBC with the all-zero IV (`aes_cbc_encrypt` zero-pads to 16), or plain -/
def encPayload (c : CryptoOps) (s : ObjState) (n : Nat) (chunk : Bytes) : Bytes :=
  if s.cfg.encrypted then cbcEnc c (blockKey c s n) (zeros 16) (zeroPad16 chunk) else chunk

/-- `pack("<L{h}s{n}s", number, final_hash, payload)` -/
def fullBlock (n : Nat) (nextHash payload : Bytes) : Bytes := u32 n ++ nextHash ++ payload

/-- `process_cmd_blocks_to_export`: the blocks are processed from the last one backwards, each embedding the
    running `final_hash`; returns (`final_hash` afterwards = hash of the first block, the processed blocks in
    file order).  `start` is the value of `final_hash` when the last block is processed. -/
def buildChain (c : CryptoOps) (s : ObjState) (start : Bytes) : Nat → List Bytes → Bytes × List Bytes
  | _, [] => (start, [])
  | n, b :: bs =>
    let r := buildChain c s start (n + 1) bs
    let full := fullBlock n r.1 (encPayload c s n b)
    (c.hash (hashAlgOf s.cfg.hashLen) full, full :: r.2)

structure Header where
  flags : Nat
  blockCount : Nat
  blockSize : Nat
  timestamp : Nat
  fwVersion : Nat
  totalLength : Nat
  imageType : Nat
  certOffset : Nat
  description : Bytes
  deriving DecidableEq, Repr

/-- `SecureBinary31Header.export` -/
def encHeader (h : Header) : Bytes :=
  Sb31Consts.hdrMagic ++ u16 Sb31Consts.hdrVersionMinor ++ u16 Sb31Consts.hdrVersionMajor ++
  u32 h.flags ++ u32 h.blockCount ++ u32 h.blockSize ++ u64 h.timestamp ++ u32 h.fwVersion ++
  u32 h.totalLength ++ u32 h.imageType ++ u32 h.certOffset ++ h.description

/-- the header `export()` writes, given the (new) block count and total length -/
def headerOf (s : ObjState) (blockCount totalLength : Nat) : Header :=
  { flags := s.cfg.flags, blockCount := blockCount, blockSize := Sb31Consts.blockSize s.cfg.hashLen,
    timestamp := s.cfg.timestamp, fwVersion := s.cfg.fwVersion, totalLength := totalLength,
    imageType := if s.cfg.isNxp then Sb31Consts.imageTypeNxp else Sb31Consts.imageTypeOem,
    certOffset := Sb31Consts.certBlockOffset s.cfg.hashLen, description := adjustDesc s.cfg.description }

def sigAlgOf (hashLen : Nat) : SigAlg := .ecdsa (hashAlgOf hashLen)

/-- `SecureBinary31.export()` as a state transition.  `r` is the randomness of this call's signature. -/
def exportSb (c : CryptoOps) (s : ObjState) (r : Rand) : ObjState × Bytes :=
  let h := s.cfg.hashLen
  let blocks := dataBlocks (cmdStream s.cmds)
  let chain := buildChain c s (Sb31Consts.chainStartHash s.finalHash h) 1 blocks
  let bc := blocks.length
  let total := Sb31Consts.updTotalLength s.totalLength h s.cfg.cert.length
  let signed := encHeader (headerOf s bc total) ++ chain.1 ++ s.cfg.cert
  let sig := c.sign (sigAlgOf h) s.cfg.sk signed r
  ({ s with blockCount := bc, totalLength := total, finalHash := chain.1 }, signed ++ sig ++ chain.2.flatten)

/-- the fields `pack` refuses (struct.error) -/
def exportable (s : ObjState) : Bool :=
  s.cmds.all Cmd.inRange && isU32 s.cfg.flags && isU32 s.cfg.fwVersion && isU64 s.cfg.timestamp &&
  isU32 (cmdBytes s.cmds).length

/-- `export()` with Python's failure mode for unpackable fields -/
def exportRes (c : CryptoOps) (s : ObjState) (r : Rand) : PyRes (ObjState × Bytes) :=
  if exportable s then .ok (exportSb c s r) else .error .other

/-- a history of calls on one object -/
inductive Op where
  | add (cmd : Cmd)
  | exp (r : Rand)

def step (c : CryptoOps) (s : ObjState) : Op → ObjState
  | .add cmd => addCmd s cmd
  | .exp r => (exportSb c s r).1

def run (c : CryptoOps) (s : ObjState) (ops : List Op) : ObjState := ops.foldl (step c) s

/-! # ROM side: written from the format description, independent of everything above -/

namespace Rom

inductive RomErr where
  | truncated | magic | version | blockSize | certOffset | imageType | blockCount | totalLength
  | certMagic | certVersion | certSize | certCurve | certRootCount | certRootHash | certRotkh | certIsk | certTrailing
  | iskSignature | curveMismatch | signature | fileLength
  | blockHash (i : Nat) | blockNumber (i : Nat) | lastHashNotZero
  | sectionHeader | sectionLength | padding | cmdMagic | cmdTag | cmdReserved | cmdPadding | fuel
  deriving DecidableEq, Repr

def RomErr.name : RomErr → String
  | .truncated => "truncated" | .magic => "magic" | .version => "version" | .blockSize => "blockSize"
  | .certOffset => "certOffset" | .imageType => "imageType" | .blockCount => "blockCount" | .totalLength => "totalLength"
  | .certMagic => "certMagic" | .certVersion => "certVersion" | .certSize => "certSize" | .certCurve => "certCurve"
  | .certRootCount => "certRootCount" | .certRootHash => "certRootHash" | .certRotkh => "certRotkh" | .certIsk => "certIsk"
  | .certTrailing => "certTrailing" | .iskSignature => "iskSignature" | .curveMismatch => "curveMismatch"
  | .signature => "signature" | .fileLength => "fileLength" | .blockHash i => s!"blockHash{i}"
  | .blockNumber i => s!"blockNumber{i}" | .lastHashNotZero => "lastHashNotZero" | .sectionHeader => "sectionHeader"
  | .sectionLength => "sectionLength" | .padding => "padding" | .cmdMagic => "cmdMagic" | .cmdTag => "cmdTag"
  | .cmdReserved => "cmdReserved" | .cmdPadding => "cmdPadding" | .fuel => "fuel"

abbrev R := Except RomErr

def check (b : Bool) (e : RomErr) : R Unit := if b then .ok () else .error e

/-- take `n` raw bytes -/
def takeB (n : Nat) (b : Bytes) : R (Bytes × Bytes) :=
  if n ≤ b.length then .ok (b.take n, b.drop n) else .error .truncated

/-- take an `n`-byte little-endian unsigned integer -/
def takeU (n : Nat) (b : Bytes) : R (Nat × Bytes) :=
  if n ≤ b.length then .ok (leDec (b.take n), b.drop n) else .error .truncated

def allZero (b : Bytes) : Bool := b.all (· == 0)

/-- number of zero bytes that pad `n` bytes to a multiple of 16 -/
def pad16 (n : Nat) : Nat := (16 - n % 16) % 16

/-! ### commands: 16-byte header `55AAAA55 | word1 | word2 | tag`, then a tag-specific tail -/

/-- `len` data bytes followed by zero padding to a 16-byte boundary -/
def takeData (len : Nat) (b : Bytes) : R (Bytes × Bytes) := do
  let (d, b) ← takeB len b
  let (p, b) ← takeB (pad16 len) b
  check (allZero p) .cmdPadding
  pure (d, b)

/-- one word followed by three reserved zero words -/
def takeWordRes3 (b : Bytes) : R (Nat × Bytes) := do
  let (w, b) ← takeU 4 b
  let (r, b) ← takeB 12 b
  check (allZero r) .cmdReserved
  pure (w, b)

def parseCmd (b : Bytes) : R (Cmd × Bytes) := do
  let (magic, b) ← takeU 4 b
  check (magic == 0x55AAAA55) .cmdMagic
  let (w1, b) ← takeU 4 b
  let (w2, b) ← takeU 4 b
  let (tag, b) ← takeU 4 b
  if tag == 1 then
    let (m, b) ← takeWordRes3 b
    pure (.erase w1 w2 m, b)
  else if tag == 2 then
    let (m, b) ← takeWordRes3 b
    let (d, b) ← takeData w2 b
    pure (.load w1 d m, b)
  else if tag == 3 then
    check (w2 == 0) .cmdReserved
    pure (.execute w1, b)
  else if tag == 4 then
    check (w2 == 0) .cmdReserved
    pure (.call w1, b)
  else if tag == 5 then
    -- PROGRAM_FUSES: the length counts 32-bit words
    let (d, b) ← takeData (4 * w2) b
    pure (.progFuses w1 d, b)
  else if tag == 6 then
    let (d, b) ← takeData w2 b
    pure (.progIfr w1 d, b)
  else if tag == 7 then
    let (m, b) ← takeWordRes3 b
    let (d, b) ← takeData w2 b
    pure (.loadCmac w1 d m, b)
  else if tag == 8 then
    let (dst, b) ← takeU 4 b
    let (mf, b) ← takeU 4 b
    let (mt, b) ← takeU 4 b
    let (r, b) ← takeU 4 b
    check (r == 0) .cmdReserved
    pure (.copy w1 w2 dst mf mt, b)
  else if tag == 9 then
    -- LOAD_HASH_LOCKING: a load followed by 64 reserved bytes (the device fills in the hash)
    let (m, b) ← takeWordRes3 b
    let (d, b) ← takeData w2 b
    let (r, b) ← takeB 64 b
    check (allZero r) .cmdReserved
    pure (.loadHashLocking w1 d m, b)
  else if tag == 10 then
    -- LOAD_KEY_BLOB: word1 = 16-bit offset | 16-bit key wrap id << 16, word2 = length
    let (d, b) ← takeData w2 b
    pure (.loadKeyBlob (w1 % 65536) d (w1 / 65536), b)
  else if tag == 11 then
    -- CONFIGURE_MEMORY: word1 = memory id, word2 = address of the configuration
    pure (.configureMemory w2 w1, b)
  else if tag == 12 then
    let (p, b) ← takeWordRes3 b
    pure (.fillMemory w1 w2 p, b)
  else if tag == 13 then
    pure (.fwVersionCheck w1 w2, b)
  else if tag == 14 then
    check (w1 == 0 && w2 == 0) .cmdReserved
    pure (.reset, b)
  else throw .cmdTag

def parseCmds : Nat → Bytes → R (List Cmd)
  | 0, b => if b.isEmpty then pure [] else throw .fuel
  | f + 1, b =>
    if b.isEmpty then pure [] else do
      let (cmd, rest) ← parseCmd b
      let more ← parseCmds f rest
      pure (cmd :: more)

/-! ### key derivation: NIST SP 800-108 counter mode with CMAC, fixed input
    `label(12, LE derivation constant) | context(12) | length(4, BE bits) | counter(4, BE)` where
    context = 8 zero bytes | access rights << 6 | 0x01 (KDK) / 0x10 (block key) | 0 | 0x20 (128 bit) / 0x21 (256 bit) -/

def kdfInput (const rights : Nat) (blockKey : Bool) (keyBits counter : Nat) : Bytes :=
  leEnc 12 const ++ zeros 8 ++ [UInt8.ofNat (rights * 64), (if blockKey then 0x10 else 0x01), 0,
    (if keyBits = 256 then 0x21 else 0x20)] ++ beEnc 4 keyBits ++ beEnc 4 counter

def kdf (c : CryptoOps) (key : Bytes) (const rights : Nat) (blockKey : Bool) (keyBits : Nat) : Bytes :=
  cmac c key (kdfInput const rights blockKey keyBits 1) ++
  (if keyBits = 256 then cmac c key (kdfInput const rights blockKey keyBits 2) else [])

/-! ### certificate block v2.1 -/

structure CertInfo where
  signPub : Bytes     -- public key (x ‖ y) that signs the container: the ISK if present, else the root key
  coord : Nat         -- its coordinate length (32: P-256, 48: P-384)
  deriving DecidableEq, Repr

/-- a signature check the loader performs: `verify alg pub msg sig` -/
structure SigOb where
  coord : Nat
  pub : Bytes
  msg : Bytes
  sig : Bytes
  deriving DecidableEq, Repr

def coordOfCurve (nibble : Nat) : R Nat :=
  if nibble = 1 then pure 32 else if nibble = 2 then pure 48 else throw .certCurve

def algOfCoord (coord : Nat) : HashAlg := if coord = 48 then .sha384 else .sha256

/-- walk `chdr | minor | major | size | root key record | [ISK certificate]`; check the root key against the
    root-of-trust hash `rotkh` fused in the device and the ISK certificate against the root key -/
def romCert (c : CryptoOps) (rotkh : Bytes) (cert : Bytes) : R (CertInfo × List SigOb) := do
  let (magic, b) ← takeB 4 cert
  check (magic == [0x63, 0x68, 0x64, 0x72]) .certMagic
  let (minor, b) ← takeU 2 b
  let (major, b) ← takeU 2 b
  check (major == 2 && minor == 1) .certVersion
  let (size, b) ← takeU 4 b
  check (size == cert.length) .certSize
  -- root key record
  let (flags, b) ← takeU 4 b
  let coordR ← coordOfCurve (flags % 16)
  let n := flags / 16 % 16
  let used := flags / 256 % 16
  let ca := flags / 2147483648 % 2 == 1
  check (1 ≤ n && n ≤ 4 && used < n) .certRootCount
  let algR := algOfCoord coordR
  let (table, b) ← takeB (if n > 1 then n * coordR else 0) b
  let (rootPub, b) ← takeB (2 * coordR) b
  let keyHash := c.hash algR rootPub
  if n > 1 then
    check ((table.drop (used * coordR)).take coordR == keyHash) .certRootHash
    check (c.hash algR table == rotkh) .certRotkh
  else
    check (keyHash == rotkh) .certRotkh
  if ca then
    check b.isEmpty .certTrailing
    pure (⟨rootPub, coordR⟩, [])
  else
    let record := (cert.drop 12).take (4 + table.length + 2 * coordR)
    let (sigOff, b1) ← takeU 4 b
    let (_, b1) ← takeU 4 b1           -- constraints
    let (iflags, b1) ← takeU 4 b1
    let coordI ← coordOfCurve (iflags % 16)
    check (12 + 2 * coordI ≤ sigOff) .certIsk
    let (iskPub, b1) ← takeB (2 * coordI) b1
    let (userData, b1) ← takeB (sigOff - 12 - 2 * coordI) b1
    check ((iflags / 2147483648 % 2 == 1) == !userData.isEmpty) .certIsk
    let (iskSig, b1) ← takeB (2 * coordR) b1
    check b1.isEmpty .certTrailing
    let msg := record ++ b.take sigOff
    check (c.verify (.ecdsa algR) rootPub msg iskSig) .iskSignature
    pure (⟨iskPub, coordI⟩, [⟨coordR, rootPub, msg, iskSig⟩])

/-! ### the container -/

/-- device-side configuration: part common key, KDK access rights, whether the command blocks are
    encrypted (plain containers are a test mode), root-of-trust key hash -/
structure Dev where
  pck : Bytes
  rights : Nat
  encrypted : Bool
  rotkh : Bytes
  deriving Repr

def parseHeader (b : Bytes) : R (Header × Bytes) := do
  let (magic, b) ← takeB 4 b
  check (magic == [0x73, 0x62, 0x76, 0x33]) .magic
  let (minor, b) ← takeU 2 b
  let (major, b) ← takeU 2 b
  check (major == 3 && minor == 1) .version
  let (flags, b) ← takeU 4 b
  let (blockCount, b) ← takeU 4 b
  let (blockSize, b) ← takeU 4 b
  let (timestamp, b) ← takeU 8 b
  let (fwVersion, b) ← takeU 4 b
  let (totalLength, b) ← takeU 4 b
  let (imageType, b) ← takeU 4 b
  let (certOffset, b) ← takeU 4 b
  let (description, b) ← takeB 16 b
  pure (⟨flags, blockCount, blockSize, timestamp, fwVersion, totalLength, imageType, certOffset, description⟩, b)

/-- follow the hash chain: block `i` must hash to `expected`, carries its number, the hash of block `i+1`
    and 256 payload bytes; after the last block the carried hash must be all zero and nothing may follow -/
def walk (c : CryptoOps) (alg : HashAlg) (hl : Nat) (dec : Nat → Bytes → Bytes) :
    Nat → Nat → Bytes → Bytes → R Bytes
  | 0, _, expected, rest => do
    check (expected == zeros hl) .lastHashNotZero
    check rest.isEmpty .fileLength
    pure []
  | k + 1, i, expected, rest => do
    let (blk, rest) ← takeB (4 + hl + 256) rest
    check (c.hash alg blk == expected) (.blockHash i)
    let (num, b) ← takeU 4 blk
    check (num == i) (.blockNumber i)
    let (next, payload) ← takeB hl b
    let more ← walk c alg hl dec k (i + 1) next rest
    pure (dec i payload ++ more)

structure RomOk where
  hdr : Header
  cmds : List Cmd
  obligations : List SigOb
  deriving DecidableEq, Repr

/-- what block 0 (header | hash of block 1 | certificate block | signature) yields -/
structure Block0 where
  hdr : Header
  hl : Nat            -- hash length = coordinate length of the signing key
  h1 : Bytes          -- expected hash of data block 1
  obs : List SigOb
  rest : Bytes        -- the data blocks
  deriving DecidableEq, Repr

/-- block size = 4 (number) + hash length + 256 (payload); SHA-256 or SHA-384 -/
def hashLenOfBlockSize (bs : Nat) : R Nat :=
  if bs = 292 then pure 32 else if bs = 308 then pure 48 else throw .blockSize

def parseBlock0 (c : CryptoOps) (rotkh : Bytes) (file : Bytes) : R Block0 := do
  let (hdr, b) ← parseHeader file
  let hl ← hashLenOfBlockSize hdr.blockSize
  check (hdr.certOffset == 60 + hl) .certOffset
  check (hdr.imageType == 6 || hdr.imageType == 7) .imageType
  check (1 ≤ hdr.blockCount) .blockCount
  -- block 0 = header | hash of block 1 | certificate block | signature ; its length is `totalLength`
  let (h1, b) ← takeB hl b
  check (60 + hl + 2 * hl ≤ hdr.totalLength) .totalLength
  let signedLen := hdr.totalLength - 2 * hl
  let (cert, b) ← takeB (signedLen - (60 + hl)) b
  let (sig, b) ← takeB (2 * hl) b
  let (ci, obs) ← romCert c rotkh cert
  check (ci.coord == hl) .curveMismatch
  let signed := file.take signedLen
  check (c.verify (.ecdsa (algOfCoord hl)) ci.signPub signed sig) .signature
  check (b.length == hdr.blockCount * hdr.blockSize) .fileLength
  pure ⟨hdr, hl, h1, obs ++ [⟨hl, ci.signPub, signed, sig⟩], b⟩

def keyBitsOf (hl : Nat) : Nat := if hl = 48 then 256 else 128

/-- payload decryption of block `i`: AES-CBC, zero IV, key derived from the KDK and the block number -/
def decFn (c : CryptoOps) (dev : Dev) (timestamp hl : Nat) : Nat → Bytes → Bytes :=
  let kdk := kdf c dev.pck timestamp dev.rights false (keyBitsOf hl)
  fun i p => if dev.encrypted then cbcDec c (kdf c kdk i dev.rights true (keyBitsOf hl)) (zeros 16) p else p

/-- section header | commands | zero padding (less than one block) -/
def parseStream (stream : Bytes) : R (List Cmd) := do
  let (uid, s) ← takeU 4 stream
  let (typ, s) ← takeU 4 s
  let (len, s) ← takeU 4 s
  let (res, s) ← takeU 4 s
  check (uid == 1 && typ == 1 && res == 0) .sectionHeader
  let (body, pad) ← takeB len s
  check (allZero pad && pad.length < 256) .padding
  parseCmds body.length body

def romLoad (c : CryptoOps) (dev : Dev) (file : Bytes) : R RomOk := do
  let b0 ← parseBlock0 c dev.rotkh file
  let stream ← walk c (algOfCoord b0.hl) b0.hl (decFn c dev b0.hdr.timestamp b0.hl) b0.hdr.blockCount 1 b0.h1 b0.rest
  let cmds ← parseStream stream
  pure ⟨b0.hdr, cmds, b0.obs⟩

/-- byte ranges `(start, length)` of the file that `romLoad` authenticates, in file order: the signed range,
    the signature itself, then every data block (block 1 by the hash in the signed range, block i+1 by the
    hash carried in block i) -/
def coverage (hdr : Header) (hl : Nat) : List (Nat × Nat) :=
  (0, hdr.totalLength - 2 * hl) :: (hdr.totalLength - 2 * hl, 2 * hl) ::
  (List.range hdr.blockCount).map (fun i => (hdr.totalLength + i * hdr.blockSize, hdr.blockSize))

/-- length of `n` bytes padded to a 16-byte boundary -/
def a16 (n : Nat) : Nat := n + pad16 n

/-- size of a command in the stream, from the format description -/
def cmdSize : Cmd → Nat
  | .erase .. => 32
  | .load _ d _ => 32 + a16 d.length
  | .execute _ => 16
  | .call _ => 16
  | .progFuses _ d => 16 + a16 d.length
  | .progIfr _ d => 16 + a16 d.length
  | .loadCmac _ d _ => 32 + a16 d.length
  | .copy .. => 32
  | .loadHashLocking _ d _ => 32 + a16 d.length + 64
  | .loadKeyBlob _ d _ => 16 + a16 d.length
  | .configureMemory .. => 16
  | .fillMemory .. => 32
  | .fwVersionCheck .. => 16
  | .reset => 16

/-- length of the plaintext stream: 16-byte section header + commands -/
def streamLen (cmds : List Cmd) : Nat := 16 + (cmds.map cmdSize).sum

end Rom

/-! # Specification vocabulary (used by Proofs/Sb31.lean and Properties/C05.lean; Props only, nothing executable) -/

namespace Spec
open Rom

/-- the header a container must carry, in the constants of the format description -/
def hdrSpec (s : ObjState) : Header :=
  { flags := s.cfg.flags, blockCount := (streamLen s.cmds + 255) / 256, blockSize := 260 + s.cfg.hashLen,
    timestamp := s.cfg.timestamp, fwVersion := s.cfg.fwVersion,
    totalLength := 60 + s.cfg.hashLen + s.cfg.cert.length + 2 * s.cfg.hashLen,
    imageType := if s.cfg.isNxp then 7 else 6, certOffset := 60 + s.cfg.hashLen,
    description := adjustDesc s.cfg.description }

/-- (hash of data block 1, the data blocks) of an export whose chain starts from the all-zero hash -/
def chainOf (c : CryptoOps) (s : ObjState) : Bytes × List Bytes :=
  buildChain c s (zeros s.cfg.hashLen) 1 (dataBlocks (cmdStream s.cmds))

/-- the signed range: header | hash of block 1 | certificate block -/
def signedOf (c : CryptoOps) (s : ObjState) : Bytes := encHeader (hdrSpec s) ++ ((chainOf c s).1 ++ s.cfg.cert)

def sigOf (c : CryptoOps) (s : ObjState) (r : Rand) : Bytes :=
  c.sign (sigAlgOf s.cfg.hashLen) s.cfg.sk (signedOf c s) r

/-- invariants of an object built by `newObj` (kept by every method) -/
structure Good (c : CryptoOps) (s : ObjState) : Prop where
  hl : s.cfg.hashLen = 32 ∨ s.cfg.hashLen = 48
  keyLen : s.keyLen = keyBitsOf s.cfg.hashLen
  rights : s.cfg.encrypted = true → s.cfg.rights < 4
  kdk : s.cfg.encrypted = true →
    s.kdk = deriveKey c s.cfg.pck s.cfg.timestamp s.cfg.rights Generated.Sb31Consts.kdfModeKdk s.keyLen

/-- every header field fits its struct code -/
structure HeaderWF (h : Header) : Prop where
  flags : h.flags < 4294967296
  blockCount : h.blockCount < 4294967296
  blockSize : h.blockSize < 4294967296
  timestamp : h.timestamp < 18446744073709551616
  fwVersion : h.fwVersion < 4294967296
  totalLength : h.totalLength < 4294967296
  imageType : h.imageType < 4294967296
  certOffset : h.certOffset < 4294967296
  description : h.description.length = 16

/-- what the property assumes about the inputs: fields that fit the format, commands in the domain,
    signatures of the curve's fixed length (r ‖ s) -/
structure StateWF (c : CryptoOps) (s : ObjState) : Prop where
  cmds : ∀ cmd ∈ s.cmds, cmd.wf = true
  size : (cmdBytes s.cmds).length < 4294967296
  flags : s.cfg.flags < 4294967296
  fwVersion : s.cfg.fwVersion < 4294967296
  timestamp : s.cfg.timestamp < 18446744073709551616
  cert : s.cfg.cert.length < 4294967000
  sigLen : ∀ m r, (c.sign (sigAlgOf s.cfg.hashLen) s.cfg.sk m r).length = 2 * s.cfg.hashLen

/-- the device is provisioned for this container: same part common key, access rights and mode; the certificate
    block is accepted against the fused root-of-trust hash and names the container's signing key -/
structure DevOK (c : CryptoOps) (dev : Dev) (s : ObjState) (obs : List SigOb) : Prop where
  pck : dev.pck = s.cfg.pck
  rights : dev.rights = s.cfg.rights
  encrypted : dev.encrypted = s.cfg.encrypted
  cert : romCert c dev.rotkh s.cfg.cert = .ok (⟨c.pubOf s.cfg.sk, s.cfg.hashLen⟩, obs)

/-- block `i` carries its number, the hash of block `i+1` (all zero in the last block) and 256 payload bytes;
    `Chained i h blocks`: `h` is the hash of the first block of `blocks` (numbered `i`), or zero if there is none -/
inductive Chained (c : CryptoOps) (alg : HashAlg) (hl : Nat) : Nat → Bytes → List Bytes → Prop where
  | last (i : Nat) : Chained c alg hl i (zeros hl) []
  | block (i : Nat) (next payload : Bytes) (rest : List Bytes) :
      next.length = hl → payload.length = 256 → Chained c alg hl (i + 1) next rest →
      Chained c alg hl i (c.hash alg (u32 i ++ (next ++ payload))) ((u32 i ++ (next ++ payload)) :: rest)

/-- consecutive ranges `(start, length)` from `a` to `b` -/
def Tiles : Nat → List (Nat × Nat) → Nat → Prop
  | a, [], b => a = b
  | a, p :: rest, b => p.1 = a ∧ Tiles (a + p.2) rest b

/-- the commands a history has added -/
def addsOf : List Op → List Cmd
  | [] => []
  | .add cmd :: ops => cmd :: addsOf ops
  | .exp _ :: ops => addsOf ops

end Spec

end SpsdkVerif.Sb31
