/-
C05 — Secure Binary 3.1.

Two INDEPENDENT halves:

* `SpsdkVerif.Sb31` (first half): hand-written executable model of what SPSDK's export path computes
  (`spsdk/sbfile/sb31/{commands,images,functions}.py`): the 14 command encoders, the section header, the
  256-byte chunking, `_process_block` / the reversed hash chain, the header, the CMAC counter-mode KDF and
  `SecureBinary31.export()` as a STATE TRANSITION of the Python object (`block_count`,
  `image_total_length`, `final_hash` persist between calls).  Every constant, tag and small integer
  function comes from `Generated/Sb31Consts.lean`, which is re-extracted from the current source on each
  run.  Tied to /repo by the byte-for-byte correspondence of harness/props/C05.py.

* `SpsdkVerif.Sb31.Rom` (second half, now in Spec/Sb31Rom.lean): a ROM-side loader written from the FORMAT DESCRIPTION only
  (hand-written constants, forward hash-chain walk, per-block KDF + CBC decryption, section header,
  command parser, certificate block v2.1 walk).  It never refers to the first half or to `Generated`.
  SPSDK has no SB3.1 parser, so this loader (compiled) is the property's oracle on SPSDK's bytes, and
  `Properties/C05.lean` proves that it accepts every export of the model, for every export history.

The certificate block is an opaque byte string for the export model (supplied by the caller; its own
structure is property C03); the ROM half parses it.  Signatures are abstract (`CryptoOps.sign/verify`);
the native driver instantiates `verify := true` and prints the verification obligations, which the
harness discharges with `cryptography` directly.

No Mathlib imports (the native driver links this module).
-/
import SpsdkVerif.Base.Py
import SpsdkVerif.Model.Misc
import SpsdkVerif.Crypto.Modes
import SpsdkVerif.Generated.Sb31Consts
import SpsdkVerif.Spec.Sb31Rom

namespace SpsdkVerif.Sb31
open SpsdkVerif SpsdkVerif.Misc SpsdkVerif.Crypto
open SpsdkVerif.Generated

/-! ## Commands (spsdk/sbfile/sb31/commands.py); the type `Cmd` is shared with the loader: Spec/Sb31Rom.lean -/

def u16 (v : Nat) : Bytes := leEnc 2 v
def u32 (v : Nat) : Bytes := leEnc 4 v
def u64 (v : Nat) : Bytes := leEnc 8 v

/-- `pack(BaseCmd.FORMAT, TAG, a, b, cmd_tag)` -/
def baseHdr (a b tag : Nat) : Bytes := u32 Sb31Consts.cmdMagic ++ u32 a ++ u32 b ++ u32 tag
/-- `pack("<4L", a, b, c, d)` -/
def words4 (a b c d : Nat) : Bytes := u32 a ++ u32 b ++ u32 c ++ u32 d

/-- `CmdLoadBase.export`: header, optional memory-id block, data, all aligned to 16 with zeros -/
def loadLike (tag addr len : Nat) (memBlock : Option Nat) (data : Bytes) : Bytes :=
  zeroPad Sb31Consts.loadAlign
    (baseHdr addr len tag ++ (match memBlock with | some m => words4 m 0 0 0 | none => []) ++ data)

/-- `cmd.export()` for every command class -/
def encCmd : Cmd → Bytes
  | .erase a l m => baseHdr a l Sb31Consts.tagErase ++ words4 m 0 0 0
  | .load a d m => loadLike Sb31Consts.tagLoad a d.length (some m) d
  | .execute a => baseHdr a 0 Sb31Consts.tagExecute
  | .call a => baseHdr a 0 Sb31Consts.tagCall
  | .progFuses a d => loadLike Sb31Consts.tagProgFuses a (d.length / Sb31Consts.fuseWordSize) none d
  | .progIfr a d => loadLike Sb31Consts.tagProgIfr a d.length none d
  | .loadCmac a d m => loadLike Sb31Consts.tagLoadCmac a d.length (some m) d
  | .copy a l dst mf mt => baseHdr a l Sb31Consts.tagCopy ++ words4 dst mf mt 0
  | .loadHashLocking a d m =>
      loadLike Sb31Consts.tagLoadHashLocking a d.length (some m) d ++ zeros Sb31Consts.hashLockTail
  | .loadKeyBlob off d kw =>
      zeroPad Sb31Consts.keyBlobAlign
        (u32 Sb31Consts.cmdMagic ++ u16 off ++ u16 kw ++ u32 d.length ++ u32 Sb31Consts.tagLoadKeyBlob ++ d)
  | .configureMemory a m => baseHdr m a Sb31Consts.tagConfigureMemory
  | .fillMemory a l p => baseHdr a l Sb31Consts.tagFillMemory ++ words4 p 0 0 0
  | .fwVersionCheck v cid => baseHdr v cid Sb31Consts.tagFwVersionCheck
  | .reset => baseHdr 0 0 Sb31Consts.tagReset

def isU16 (v : Nat) : Bool := decide (v < 65536)
def isU32 (v : Nat) : Bool := decide (v < 4294967296)
def isU64 (v : Nat) : Bool := decide (v < 18446744073709551616)

/-- every packed field fits its struct code (otherwise `struct.error`) -/
def Cmd.inRange : Cmd → Bool
  | .erase a l m => isU32 a && isU32 l && isU32 m
  | .load a d m => isU32 a && isU32 d.length && isU32 m
  | .execute a => isU32 a
  | .call a => isU32 a
  | .progFuses a d => isU32 a && isU32 d.length
  | .progIfr a d => isU32 a && isU32 d.length
  | .loadCmac a d m => isU32 a && isU32 d.length && isU32 m
  | .copy a l dst mf mt => isU32 a && isU32 l && isU32 dst && isU32 mf && isU32 mt
  | .loadHashLocking a d m => isU32 a && isU32 d.length && isU32 m
  | .loadKeyBlob off d kw => isU16 off && isU16 kw && isU32 d.length
  | .configureMemory a m => isU32 a && isU32 m
  | .fillMemory a l p => isU32 a && isU32 l && isU32 p
  | .fwVersionCheck v cid => isU32 v && isU32 cid
  | .reset => true

/-- the domain of the property: fields in range, and fuse data is a whole number of 32-bit words
    (`CmdProgFuses` stores `len(data) // 4` in the length field) -/
def Cmd.wf (c : Cmd) : Bool :=
  c.inRange && (match c with | .progFuses _ d => d.length % 4 == 0 | _ => true)

/-- the command constructors: `CmdProgFuses.__init__` refuses data that is not a whole number of fuse words
    (`SPSDKError`); every other constructor accepts its arguments as they are -/
def newCmd (c : Cmd) : PyRes Cmd :=
  match c with
  | .progFuses _ d =>
    if Sb31Consts.fuseDataGuard ≠ 0 ∧ d.length % Sb31Consts.fuseDataGuard ≠ 0 then .error .spsdk else .ok c
  | _ => .ok c

/-! ## Section header, chunking, data blocks (images.py: SecureBinary31Commands) -/

/-- `CmdSectionHeader(length).export()` -/
def sectionHdr (len : Nat) : Bytes :=
  u32 Sb31Consts.sectionUid ++ u32 Sb31Consts.sectionType ++ u32 len ++ u32 0

def cmdBytes (cmds : List Cmd) : Bytes := (cmds.map encCmd).flatten

/-- `section_header.export() + commands_bytes` -/
def cmdStream (cmds : List Cmd) : Bytes :=
  sectionHdr (cmdBytes cmds).length ++ cmdBytes cmds

def splitBlocks (sz : Nat) : Nat → Bytes → List Bytes
  | 0, _ => []
  | n + 1, b => b.take sz :: splitBlocks sz n (b.drop sz)

/-- `get_cmd_blocks_to_export`: pieces of DATA_CHUNK_LENGTH bytes, the last one zero padded.
    (The stream is never empty — it starts with the section header — so padding the stream first and
    cutting afterwards is the same list.) -/
def dataBlocks (total : Bytes) : List Bytes :=
  let p := zeroPad Sb31Consts.chunkLen total
  splitBlocks Sb31Consts.chunkLen (p.length / Sb31Consts.chunkLen) p

/-! ## Key derivation (functions.py) -/

/-- `_derive_key`: CMAC in counter mode -- the CMACs of the derivation data for the iterations the code performs for
    this key length (generated by executing `_derive_key`: `[1]` for 128-bit, `[1, 2]` for 256-bit keys), concatenated -/
def deriveKey (c : CryptoOps) (key : Bytes) (const rights mode keyLen : Nat) : Bytes :=
  (((Sb31Consts.kdfIterationsFor.find? (fun p => p.1 == keyLen)).map (·.2)).getD []).flatMap
    (fun i => cmac c key (Sb31Consts.kdfData const rights mode keyLen i))

/-- `_derive_key` applied to what a call site of `KeyDerivator` passes: `Sb31Consts.kdkCall` / `blkCall` are generated by
    EXECUTING `KeyDerivator.__init__` / `get_block_key` (CMAC key, derivation constant, access rights, mode, key length) -/
def deriveVia (c : CryptoOps) (a : Bytes × Nat × Nat × Nat × Nat) : Bytes :=
  deriveKey c a.1 a.2.1 a.2.2.1 a.2.2.2.1 a.2.2.2.2

def lookup (t : List (Nat × Nat)) (k : Nat) : Option Nat := (t.find? (fun p => p.1 == k)).map (·.2)

def hashAlgOf (hashLen : Nat) : HashAlg := if hashLen = 48 then .sha384 else .sha256

/-! ## The container object -/

/-- constructor arguments / members that no method changes -/
structure Cfg where
  hashLen : Nat          -- 32 | 48, from `signature_provider.signature_length`
  fwVersion : Nat
  flags : Nat
  timestamp : Nat
  description : Bytes    -- ASCII bytes of the description argument (any length; `[]` = None / "")
  isNxp : Bool
  encrypted : Bool
  pck : Bytes
  rights : Nat
  cert : Bytes           -- `cert_block.export()` (opaque here); `expected_size` = its length
  sk : PrivKey           -- the signature provider's key (abstract)
  deriving Repr

/-- what persists in the Python objects between method calls -/
structure ObjState where
  cfg : Cfg
  cmds : List Cmd        -- sb_commands.commands
  keyLen : Nat           -- key_derivator.key_length
  kdk : Bytes            -- key_derivator.kdk (empty when not encrypted)
  blockCount : Nat       -- sb_header.block_count / sb_commands.block_count
  totalLength : Nat      -- sb_header.image_total_length
  finalHash : Bytes      -- sb_commands.final_hash
  deriving Repr

/-- `_adjust_description` -/
def adjustDesc (d : Bytes) : Bytes :=
  let t := d.take Sb31Consts.descLen
  t ++ zeros (Sb31Consts.descLen - t.length)

/-- `SecureBinary31.__init__` (+ `KeyDerivator.__init__`, which derives the KDK at once) -/
def newObj (c : CryptoOps) (cfg : Cfg) : PyRes ObjState :=
  match lookup Sb31Consts.keyLenOfHash cfg.hashLen with
  | none => .error .other
  | some keyLen =>
    if cfg.encrypted && !(Sb31Consts.kdfRights.contains cfg.rights) then .error .spsdk
    else .ok { cfg := cfg, cmds := [], keyLen := keyLen,
               kdk := if cfg.encrypted then deriveVia c (Sb31Consts.kdkCall cfg.pck cfg.timestamp keyLen cfg.rights) else [],
               blockCount := 0, totalLength := Sb31Consts.initTotalLength, finalHash := zeros cfg.hashLen }

def addCmd (s : ObjState) (cmd : Cmd) : ObjState := { s with cmds := s.cmds ++ [cmd] }

/-- `KeyDerivator.get_block_key` -/
def blockKey (c : CryptoOps) (s : ObjState) (n : Nat) : Bytes :=
  deriveVia c (Sb31Consts.blkCall s.kdk n s.keyLen s.cfg.rights)

/-- payload of `_process_block`: AES-CBC with the all-zero IV (`aes_cbc_encrypt` zero-pads to 16), or plain -/
def encPayload (c : CryptoOps) (s : ObjState) (n : Nat) (chunk : Bytes) : Bytes :=
  if s.cfg.encrypted then cbcEnc c (blockKey c s n) (zeros 16) (zeroPad16 chunk) else chunk

/-- `pack("<L{h}s{n}s", number, final_hash, payload)` -/
def fullBlock (n : Nat) (nextHash payload : Bytes) : Bytes := u32 n ++ nextHash ++ payload

/-- `process_cmd_blocks_to_export`: the blocks are processed from the last one backwards, each embedding the
    running `final_hash`; returns (`final_hash` afterwards = hash of the first block, the processed blocks in
    file order).  `start` is the value of `final_hash` when the last block is processed. -/
def buildChain (c : CryptoOps) (s : ObjState) (start : Bytes) : Nat → List Bytes → Bytes × List Bytes
  | _, [] => (start, [])
  | n, b :: bs =>
    let r := buildChain c s start (n + 1) bs
    let full := fullBlock n r.1 (encPayload c s n b)
    (c.hash (hashAlgOf s.cfg.hashLen) full, full :: r.2)

/-- `SecureBinary31Header.export` -/
def encHeader (h : Header) : Bytes :=
  Sb31Consts.hdrMagic ++ u16 Sb31Consts.hdrVersionMinor ++ u16 Sb31Consts.hdrVersionMajor ++
  u32 h.flags ++ u32 h.blockCount ++ u32 h.blockSize ++ u64 h.timestamp ++ u32 h.fwVersion ++
  u32 h.totalLength ++ u32 h.imageType ++ u32 h.certOffset ++ h.description

/-- the header `export()` writes, given the (new) block count and total length -/
def headerOf (s : ObjState) (blockCount totalLength : Nat) : Header :=
  { flags := s.cfg.flags, blockCount := blockCount, blockSize := Sb31Consts.blockSize s.cfg.hashLen,
    timestamp := s.cfg.timestamp, fwVersion := s.cfg.fwVersion, totalLength := totalLength,
    imageType := if s.cfg.isNxp then Sb31Consts.imageTypeNxp else Sb31Consts.imageTypeOem,
    certOffset := Sb31Consts.certBlockOffset s.cfg.hashLen, description := adjustDesc s.cfg.description }

def sigAlgOf (hashLen : Nat) : SigAlg := .ecdsa (hashAlgOf hashLen)

/-- `SecureBinary31.export()` as a state transition.  `r` is the randomness of this call's signature. -/
def exportSb (c : CryptoOps) (s : ObjState) (r : Rand) : ObjState × Bytes :=
  let h := s.cfg.hashLen
  let blocks := dataBlocks (cmdStream s.cmds)
  let chain := buildChain c s (Sb31Consts.chainStartHash s.finalHash h) 1 blocks
  let bc := blocks.length
  let total := Sb31Consts.updTotalLength s.totalLength h s.cfg.cert.length
  let signed := encHeader (headerOf s bc total) ++ chain.1 ++ s.cfg.cert
  let sig := c.sign (sigAlgOf h) s.cfg.sk signed r
  ({ s with blockCount := bc, totalLength := total, finalHash := chain.1 }, signed ++ sig ++ chain.2.flatten)

/-- the fields `pack` refuses (struct.error) -/
def exportable (s : ObjState) : Bool :=
  s.cmds.all Cmd.inRange && isU32 s.cfg.flags && isU32 s.cfg.fwVersion && isU64 s.cfg.timestamp &&
  isU32 (cmdBytes s.cmds).length

/-- `export()` with Python's failure mode for unpackable fields -/
def exportRes (c : CryptoOps) (s : ObjState) (r : Rand) : PyRes (ObjState × Bytes) :=
  if exportable s then .ok (exportSb c s r) else .error .other

/-- a history of calls on one object -/
inductive Op where
  | add (cmd : Cmd)
  | exp (r : Rand)

def step (c : CryptoOps) (s : ObjState) : Op → ObjState
  | .add cmd => addCmd s cmd
  | .exp r => (exportSb c s r).1

def run (c : CryptoOps) (s : ObjState) (ops : List Op) : ObjState := ops.foldl (step c) s

/-! # ROM side: `Spec/Sb31Rom.lean` (namespace `Rom`), written from the format description, independent of everything above -/


/-! # Specification vocabulary (used by Proofs/Sb31.lean and Properties/C05.lean; Props only, nothing executable) -/

namespace Spec
open Rom

/-- the header a container must carry, in the constants of the format description -/
def hdrSpec (s : ObjState) : Header :=
  { flags := s.cfg.flags, blockCount := (streamLen s.cmds + 255) / 256, blockSize := 260 + s.cfg.hashLen,
    timestamp := s.cfg.timestamp, fwVersion := s.cfg.fwVersion,
    totalLength := 60 + s.cfg.hashLen + s.cfg.cert.length + 2 * s.cfg.hashLen,
    imageType := if s.cfg.isNxp then 7 else 6, certOffset := 60 + s.cfg.hashLen,
    description := adjustDesc s.cfg.description }

/-- (hash of data block 1, the data blocks) of an export whose chain starts from the all-zero hash -/
def chainOf (c : CryptoOps) (s : ObjState) : Bytes × List Bytes :=
  buildChain c s (zeros s.cfg.hashLen) 1 (dataBlocks (cmdStream s.cmds))

/-- the signed range: header | hash of block 1 | certificate block -/
def signedOf (c : CryptoOps) (s : ObjState) : Bytes := encHeader (hdrSpec s) ++ ((chainOf c s).1 ++ s.cfg.cert)

def sigOf (c : CryptoOps) (s : ObjState) (r : Rand) : Bytes :=
  c.sign (sigAlgOf s.cfg.hashLen) s.cfg.sk (signedOf c s) r

/-- invariants of an object built by `newObj` (kept by every method) -/
structure Good (c : CryptoOps) (s : ObjState) : Prop where
  hl : s.cfg.hashLen = 32 ∨ s.cfg.hashLen = 48
  keyLen : s.keyLen = keyBitsOf s.cfg.hashLen
  rights : s.cfg.encrypted = true → s.cfg.rights < 4
  kdk : s.cfg.encrypted = true →
    s.kdk = deriveKey c s.cfg.pck s.cfg.timestamp s.cfg.rights Generated.Sb31Consts.kdfModeKdk s.keyLen

/-- every header field fits its struct code -/
structure HeaderWF (h : Header) : Prop where
  flags : h.flags < 4294967296
  blockCount : h.blockCount < 4294967296
  blockSize : h.blockSize < 4294967296
  timestamp : h.timestamp < 18446744073709551616
  fwVersion : h.fwVersion < 4294967296
  totalLength : h.totalLength < 4294967296
  imageType : h.imageType < 4294967296
  certOffset : h.certOffset < 4294967296
  description : h.description.length = 16

/-- what the property assumes about the inputs: fields that fit the format, commands in the domain,
    signatures of the curve's fixed length (r ‖ s) -/
structure StateWF (c : CryptoOps) (s : ObjState) : Prop where
  cmds : ∀ cmd ∈ s.cmds, cmd.wf = true
  size : (cmdBytes s.cmds).length < 4294967296
  flags : s.cfg.flags < 4294967296
  fwVersion : s.cfg.fwVersion < 4294967296
  timestamp : s.cfg.timestamp < 18446744073709551616
  cert : s.cfg.cert.length < 4294967000
  sigLen : ∀ m r, (c.sign (sigAlgOf s.cfg.hashLen) s.cfg.sk m r).length = 2 * s.cfg.hashLen

/-- the device is provisioned for this container: same part common key, access rights and mode; the certificate
    block is accepted against the fused root-of-trust hash and names the container's signing key -/
structure DevOK (c : CryptoOps) (dev : Dev) (s : ObjState) (obs : List SigOb) : Prop where
  pck : dev.pck = s.cfg.pck
  rights : dev.rights = s.cfg.rights
  encrypted : dev.encrypted = s.cfg.encrypted
  cert : romCert c dev.rotkh s.cfg.cert = .ok (⟨c.pubOf s.cfg.sk, s.cfg.hashLen⟩, obs)

/-- block `i` carries its number, the hash of block `i+1` (all zero in the last block) and 256 payload bytes;
    `Chained i h blocks`: `h` is the hash of the first block of `blocks` (numbered `i`), or zero if there is none -/
inductive Chained (c : CryptoOps) (alg : HashAlg) (hl : Nat) : Nat → Bytes → List Bytes → Prop where
  | last (i : Nat) : Chained c alg hl i (zeros hl) []
  | block (i : Nat) (next payload : Bytes) (rest : List Bytes) :
      next.length = hl → payload.length = 256 → Chained c alg hl (i + 1) next rest →
      Chained c alg hl i (c.hash alg (u32 i ++ (next ++ payload))) ((u32 i ++ (next ++ payload)) :: rest)

/-- consecutive ranges `(start, length)` from `a` to `b` -/
def Tiles : Nat → List (Nat × Nat) → Nat → Prop
  | a, [], b => a = b
  | a, p :: rest, b => p.1 = a ∧ Tiles (a + p.2) rest b

/-- the commands a history has added -/
def addsOf : List Op → List Cmd
  | [] => []
  | .add cmd :: ops => cmd :: addsOf ops
  | .exp _ :: ops => addsOf ops

end Spec

end SpsdkVerif.Sb31
