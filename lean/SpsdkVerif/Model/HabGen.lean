/-
C07 — general shape of a CSF command list the ROM accepts (hypothesis of `Properties/C07.lean: rom_accepts_general`):

* the mandatory commands, either the standard chain (Install SRK, Install CSFK, Authenticate CSF, Install Key,
  Authenticate Data [, Install Secret Key, Decrypt Data]) or HAB4 FAST AUTHENTICATION (`Install NOCAK` in the
  configuration: no certificate is installed, the CSF is authenticated with key index 1 and the data with index 0 = the
  SRK itself: Install SRK, Authenticate CSF, Authenticate Data [, Install Secret Key, Decrypt Data]),
* with ANY number of Set / Unlock / NOP commands in EVERY gap — in front of the first mandatory command, between any
  two of them, behind the last one (`weave`): every order of the configuration's sections that keeps the mandatory
  commands in their order.

`Model/HabStd.lean: StdCsf.list` is the special case "standard chain, extras only between Authenticate CSF and
Install Key".
-/
import SpsdkVerif.Model.HabStd

namespace SpsdkVerif.Hab
open SpsdkVerif SpsdkVerif.Misc SpsdkVerif.Generated

/-- a command without data block -/
abbrev bare (c : Cmd) : CsfCmd := ⟨c, none⟩

/-- `gaps[0]`, `main[0]`, `gaps[1]`, `main[1]`, …; gaps that are not given are empty, a gap behind the last mandatory
    command is kept -/
def weave : List (List Cmd) → List CsfCmd → List CsfCmd
  | [], ms => ms
  | g :: gs, ms => g.map bare ++ (match ms with | [] => [] | m :: ms' => m :: weave gs ms')

/-- the standard chain without extras -/
def StdCsf.core (s : StdCsf) : StdCsf := { s with extras := [] }

def mainStd (s : StdCsf) (L : Nat → Nat) (sigC : Bytes) (blocksD : List (Nat × Nat)) (sigD : Bytes) (enc : Option EncPart) :
    List CsfCmd := s.core.list L sigC blocksD sigD enc

/-- fast authentication: the SRK (slot 0) is the only key; fields `csfkAlg`, `csfCert`, `imgAlg`, `imgSlot`, `imgCert`
    of `s` are not used -/
def mainFast (s : StdCsf) (L : Nat → Nat) (sigC : Bytes) (blocksD : List (Nat × Nat)) (sigD : Bytes) (enc : Option EncPart) :
    List CsfCmd :=
  [⟨.insKey 0 3 s.srkAlg s.srkSrc 0 (L 1), some s.srkBlob⟩,
   ⟨.autDat 0 1 0xC5 s.engCsf s.cfgCsf (L 3) [], some sigC⟩,
   ⟨.autDat 0 0 0xC5 s.engDat s.cfgDat (L 5) blocksD, some sigD⟩] ++
  (match enc with
   | some e => [⟨.insKey 1 0xBB s.skAlg s.kek s.keySlot e.loc, none⟩,
                ⟨.autDat 0 s.keySlot 0xA3 s.engDec s.cfgDec (L 6) e.blocks, e.mac⟩]
   | none => [])

def mainList (fast : Bool) (s : StdCsf) (L : Nat → Nat) (sigC : Bytes) (blocksD : List (Nat × Nat)) (sigD : Bytes)
    (enc : Option EncPart) : List CsfCmd :=
  if fast then mainFast s L sigC blocksD sigD enc else mainStd s L sigC blocksD sigD enc

/-- the configuration's command list (as loaded: signatures empty, no blocks, no MAC yet) is the standard or the
    fast-authentication chain with Set / Unlock / NOP commands woven into the gaps -/
structure GenCfg (c : Cfg) (s : StdCsf) (fast : Bool) (gaps : List (List Cmd)) : Prop where
  cmds : c.cmds = weave gaps (mainList fast s (fun _ => 0) (sigBlob c.version []) [] (sigBlob c.version [])
            (if isEnc c.flags then some ⟨secretKeyLocN c.ils c.app.length c.start, [], none⟩ else none))
  gaps : ∀ g ∈ gaps, ∀ e ∈ g, isExtra e = true
  srkSrc : s.srkSrc ≤ 3
  imgSlot : 2 ≤ s.imgSlot ∧ s.imgSlot ≤ 5
  kek : s.kek ≤ 3
  keySlot : s.keySlot ≤ 3
  srkBlob : CrtBlob s.srkBlob
  csfCert : CrtBlob s.csfCert
  imgCert : CrtBlob s.imgCert

end SpsdkVerif.Hab
