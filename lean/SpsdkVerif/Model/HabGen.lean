/-
C07 — general shape of a CSF command list the ROM accepts (hypothesis of `Properties/C07.lean: rom_accepts_general`):

* the mandatory commands, either the standard chain (Install SRK, Install CSFK, Authenticate CSF, Install Key,
  Authenticate Data [, Install Secret Key, Decrypt Data]) or HAB4 FAST AUTHENTICATION (`Install NOCAK` in the
  configuration: no certificate is installed, the CSF is authenticated with key index 1 and the data with index 0 = the
  SRK itself: Install SRK, Authenticate CSF, Authenticate Data [, Install Secret Key, Decrypt Data]),
* with ANY number of Set / Unlock / NOP commands in EVERY gap — in front of the first mandatory command, between any
  two of them, behind the last one (`weave`): every order of the configuration's sections that keeps the mandatory
  commands in their order.

`Model/HabStd.lean: StdCsf.list` is the special case "standard chain, extras only between Authenticate CSF and
Install Key".
-/
import SpsdkVerif.Model.HabStd

namespace SpsdkVerif.Hab
open SpsdkVerif SpsdkVerif.Misc SpsdkVerif.Generated

/-- a command without data block -/
abbrev bare (c : Cmd) : CsfCmd := ⟨c, none⟩

/-- `gaps[0]`, `main[0]`, `gaps[1]`, `main[1]`, …; gaps that are not given are empty, a gap behind the last mandatory
    command is kept -/
def weave : List (List Cmd) → List CsfCmd → List CsfCmd
  | [], ms => ms
  | g :: gs, ms => g.map bare ++ (match ms with | [] => [] | m :: ms' => m :: weave gs ms')

/-- the standard chain without extras -/
def StdCsf.core (s : StdCsf) : StdCsf := { s with extras := [] }

def mainStd (s : StdCsf) (L : Nat → Nat) (sigC : Bytes) (blocksD : List (Nat × Nat)) (sigD : Bytes) (enc : Option EncPart) :
    List CsfCmd := s.core.list L sigC blocksD sigD enc

/-- fast authentication: the SRK (slot 0) is the only key; fields `csfkAlg`, `csfCert`, `imgAlg`, `imgSlot`, `imgCert`
    of `s` are not used -/
def mainFast (s : StdCsf) (L : Nat → Nat) (sigC : Bytes) (blocksD : List (Nat × Nat)) (sigD : Bytes) (enc : Option EncPart) :
    List CsfCmd :=
  [⟨.insKey 0 3 s.srkAlg s.srkSrc 0 (L 1), some s.srkBlob⟩,
   ⟨.autDat 0 1 0xC5 s.engCsf s.cfgCsf (L 3) [], some sigC⟩,
   ⟨.autDat 0 0 0xC5 s.engDat s.cfgDat (L 5) blocksD, some sigD⟩] ++
  (match enc with
   | some e => [⟨.insKey 1 0xBB s.skAlg s.kek s.keySlot e.loc, none⟩,
                ⟨.autDat 0 s.keySlot 0xA3 s.engDec s.cfgDec (L 6) e.blocks, e.mac⟩]
   | none => [])

def mainList (fast : Bool) (s : StdCsf) (L : Nat → Nat) (sigC : Bytes) (blocksD : List (Nat × Nat)) (sigD : Bytes)
    (enc : Option EncPart) : List CsfCmd :=
  if fast then mainFast s L sigC blocksD sigD enc else mainStd s L sigC blocksD sigD enc

/-- the configuration's command list (as loaded: signatures empty, no blocks, no MAC yet; ANY data references `L0` —
    `load_from_config` leaves the ones of its last `update`, the builder re-assigns them) is the standard or the
    fast-authentication chain with Set / Unlock / NOP commands woven into the gaps -/
structure GenCfg (c : Cfg) (s : StdCsf) (fast : Bool) (gaps : List (List Cmd)) (L0 : Nat → Nat) : Prop where
  cmds : c.cmds = weave gaps (mainList fast s L0 (sigBlob c.version []) [] (sigBlob c.version [])
            (if isEnc c.flags then some ⟨secretKeyLocN c.ils c.app.length c.start, [], none⟩ else none))
  gaps : ∀ g ∈ gaps, ∀ e ∈ g, isExtra e = true
  srkSrc : s.srkSrc ≤ 3
  imgSlot : 2 ≤ s.imgSlot ∧ s.imgSlot ≤ 5
  kek : s.kek ≤ 3
  keySlot : s.keySlot ≤ 3
  srkBlob : CrtBlob s.srkBlob
  csfCert : CrtBlob s.csfCert
  imgCert : CrtBlob s.imgCert

/-! ### executable recogniser of the shape (run by the driver on every configuration the harness generates; soundness:
    `Proofs/HabRomGen.lean: genShape_sound`) -/

def splitExtras : List CsfCmd → List Cmd × List CsfCmd
  | [] => ([], [])
  | x :: r =>
    if isExtra x.cmd && x.data.isNone then
      let (g, rest) := splitExtras r
      (x.cmd :: g, rest)
    else ([], x :: r)

/-- candidate gaps and mandatory commands (fuel = length of the list) -/
def unweave : Nat → List CsfCmd → List (List Cmd) × List CsfCmd
  | 0, _ => ([], [])
  | f + 1, l =>
    match splitExtras l with
    | (g, []) => ([g], [])
    | (g, m :: r) =>
      let (gs, ms) := unweave f r
      (g :: gs, m :: ms)

def Cmd.fields : Cmd → List Nat
  | .insKey a b c d e f => [a, b, c, d, e, f]
  | .autDat a b c d e f _ => [a, b, c, d, e, f]
  | _ => []

def fld (m : List CsfCmd) (i j : Nat) : Nat := ((m[i]?.map (·.cmd.fields)).getD [])[j]?.getD 0
def dat (m : List CsfCmd) (i : Nat) : Bytes := ((m[i]?).bind (·.data)).getD []

/-- the parameters read off the mandatory commands (unused ones of the fast chain: harmless defaults) -/
def guessCsf (fast : Bool) (m : List CsfCmd) : StdCsf :=
  if fast then
    { srkAlg := fld m 0 2, srkSrc := fld m 0 3, srkBlob := dat m 0, csfkAlg := 0, csfCert := hdr Spec.tagCRT 4 0,
      engCsf := fld m 1 3, cfgCsf := fld m 1 4, extras := [], imgAlg := 0, imgSlot := 2, imgCert := hdr Spec.tagCRT 4 0,
      engDat := fld m 2 3, cfgDat := fld m 2 4, skAlg := fld m 3 2, kek := fld m 3 3, keySlot := fld m 3 4,
      engDec := fld m 4 3, cfgDec := fld m 4 4 }
  else
    { srkAlg := fld m 0 2, srkSrc := fld m 0 3, srkBlob := dat m 0, csfkAlg := fld m 1 2, csfCert := dat m 1,
      engCsf := fld m 2 3, cfgCsf := fld m 2 4, extras := [], imgAlg := fld m 3 2, imgSlot := fld m 3 4, imgCert := dat m 3,
      engDat := fld m 4 3, cfgDat := fld m 4 4, skAlg := fld m 5 2, kek := fld m 5 3, keySlot := fld m 5 4,
      engDec := fld m 6 3, cfgDec := fld m 6 4 }

def crtBlobB (d : Bytes) : Bool :=
  match d with
  | _ :: _ :: _ :: p :: body => d == hdr Spec.tagCRT d.length p.toNat ++ body
  | _ => false

def shapeOk (c : Cfg) (s : StdCsf) (fast : Bool) (gaps : List (List Cmd)) (L0 : Nat → Nat) : Bool :=
  decide (c.cmds = weave gaps (mainList fast s L0 (sigBlob c.version []) [] (sigBlob c.version [])
            (if isEnc c.flags then some ⟨secretKeyLocN c.ils c.app.length c.start, [], none⟩ else none))) &&
  gaps.all (fun g => g.all isExtra) && decide (s.srkSrc ≤ 3) && decide (2 ≤ s.imgSlot) && decide (s.imgSlot ≤ 5) &&
  decide (s.kek ≤ 3) && decide (s.keySlot ≤ 3) && crtBlobB s.srkBlob && crtBlobB s.csfCert && crtBlobB s.imgCert

/-- the data references as loaded, read off the mandatory commands -/
def guessLocs (fast : Bool) (m : List CsfCmd) : Nat → Nat := fun k =>
  if fast then (if k = 1 then fld m 0 5 else if k = 3 then fld m 1 5 else if k = 5 then fld m 2 5 else fld m 4 5)
  else (if k = 1 then fld m 0 5 else if k = 2 then fld m 1 5 else if k = 3 then fld m 2 5 else if k = 4 then fld m 3 5
        else if k = 5 then fld m 4 5 else fld m 6 5)

/-- `some (s, fast, gaps, L0)`: the command list of the configuration is `GenCfg c s fast gaps L0` -/
def genShape (c : Cfg) : Option (StdCsf × Bool × List (List Cmd) × (Nat → Nat)) :=
  let u := unweave (c.cmds.length + 1) c.cmds
  if shapeOk c (guessCsf false u.2) false u.1 (guessLocs false u.2) then
    some (guessCsf false u.2, false, u.1, guessLocs false u.2)
  else if shapeOk c (guessCsf true u.2) true u.1 (guessLocs true u.2) then
    some (guessCsf true u.2, true, u.1, guessLocs true u.2)
  else none

end SpsdkVerif.Hab
