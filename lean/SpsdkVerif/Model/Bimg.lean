/-
Hand-written executable model of `spsdk/image/bootable_image/bimg.py::BootableImage`
(init-offset selection, `excluded`, `get_segment_offset`, `__len__`, `image_info`/`export` through the
`BinaryImage` model, `_parse` walk and the `_parse_all` trial order) and of the generic parts of
`spsdk/image/bootable_image/segments.py::Segment*.parse_binary`.

The per-device segment tables and the per-class constants come from `Generated/BimgTables.lean`
(regenerated from the database YAML files and the class bodies on every run); `resolve` turns a generated
layout into the `Seg` list the model works on.

External container parsers (`MasterBootImage.parse`, `HabContainer.parse`, `AHABImage.parse`,
`find_offset_of_ahab`, SB2.1/SB3.1 header validation, `FCB.parse`, `XMCD.parse`) are the abstract
interface `Ext`.  Lengths of segments are the lengths of their raw blocks (segments loaded from binary
files; `len(segment)` of a parsed container object is assumed equal to the length of the bytes it was
parsed from - checked by the harness).

Tied to /repo by harness/props/C14.py (every database row, model vs real offsets / export / parse).
-/
import SpsdkVerif.Base.Py
import SpsdkVerif.Model.Misc
import SpsdkVerif.Model.BinImage
import SpsdkVerif.Generated.BimgTables

namespace SpsdkVerif.Bimg
open SpsdkVerif SpsdkVerif.Misc SpsdkVerif.BinImg
open SpsdkVerif.Generated

/-- which `parse_binary` applies to a segment kind (the class in the MRO that defines it) -/
inductive Parser where
  | raw            -- Segment.parse_binary
  | imageVersion   -- SegmentImageVersion
  | imageVersionAp -- SegmentImageVersionAntiPole
  | fcb            -- SegmentFcb (also SegmentFcbXspi)
  | xmcd           -- SegmentXmcd
  | greedy         -- SegmentMbi / SegmentHab: the container parser must accept, raw block := whole rest
  | ahab           -- SegmentAhab: raw block := first `len(ahab)` bytes
  | sb             -- SegmentSB21 / SegmentSB31: header validation, then Segment.parse_binary (SIZE = -1: whole rest)
  | unknown        -- a class the model does not know (every theorem about the table fails on it)
  deriving Repr, DecidableEq

def parserOf (cls : String) : Parser :=
  if cls == "Segment" then .raw
  else if cls == "SegmentImageVersion" then .imageVersion
  else if cls == "SegmentImageVersionAntiPole" then .imageVersionAp
  else if cls == "SegmentFcb" then .fcb
  else if cls == "SegmentXmcd" then .xmcd
  else if cls == "SegmentMbi" || cls == "SegmentHab" then .greedy
  else if cls == "SegmentAhab" then .ahab
  else if cls == "SegmentSB21" || cls == "SegmentSB31" then .sb
  else .unknown

/-- one segment of a memory-type description with its class constants resolved -/
structure Seg where
  kind : Nat              -- index into `BimgTables.kinds`
  size : Int              -- SIZE (-1: variable)
  align : Nat             -- OFFSET_ALIGNMENT
  initSeg : Bool          -- INIT_SEGMENT
  bootHeader : Bool       -- BOOT_HEADER
  parser : Parser
  extFind : Bool          -- find_segment_offset overridden (SegmentAhab) - otherwise it returns 0
  ownLen : Bool           -- `__len__` overridden (length of the parsed container object)
  patterns : List Pattern -- IMAGE_PATTERNS
  pos : Option Nat        -- `full_image_offset`: `some (align(_offset, OFFSET_ALIGNMENT))`, `none` = dynamic (< 0)
  deriving Repr, DecidableEq

def patOf (s : String) : Option Pattern :=
  if s == "zeros" then some .zeros else if s == "ones" then some .ones else if s == "inc" then some .inc else none

def resolveSeg (e : Nat × Int) : Option Seg :=
  match BimgTables.kinds[e.1]? with
  | none => none
  | some k =>
    if k.align ≤ 0 then none else
    let pats := k.patterns.filterMap patOf
    if pats.length ≠ k.patterns.length then none else
    some { kind := e.1, size := k.size, align := k.align.toNat, initSeg := k.initSegment, bootHeader := k.bootHeader,
           parser := parserOf k.parser, extFind := k.finder != "Segment", ownLen := k.lener != "Segment", patterns := pats,
           pos := if e.2 < 0 then none else some (alignNat e.2.toNat k.align.toNat) }

def resolveSegs : List (Nat × Int) → Option (List Seg)
  | [] => some []
  | e :: es => match resolveSeg e, resolveSegs es with
    | some s, some ss => some (s :: ss)
    | _, _ => none

/-- a resolved memory-type description -/
structure Desc where
  segs : List Seg
  pattern : Pattern
  deriving Repr

def resolve (l : BimgTables.Layout) : Option Desc :=
  match resolveSegs l.segs, patOf l.pattern with
  | some ss, some p => some ⟨ss, p⟩
  | _, _ => none

/-! ### init offset, exclusion -/

def statics (segs : List Seg) : List Nat := segs.filterMap (·.pos)

def minList : List Nat → Option Nat
  | [] => none
  | x :: xs => match minList xs with
    | none => some x
    | some m => some (min x m)

/-- `BootableImage.init_offset` setter with an integer: negative -> SPSDKValueError, 0 -> 0, else the closest
    static segment offset at or above the request (none -> SPSDKValueError). -/
def setInit (segs : List Seg) (req : Int) : PyRes Nat :=
  if req < 0 then .error .spsdk
  else if req = 0 then .ok 0
  else match minList ((statics segs).filter (fun o => req.toNat ≤ o)) with
    | none => .error .spsdk
    | some m => .ok m

/-- `set_init_offset(BootableImageSegment)`: the named segment's `full_image_offset` goes through the setter
    (a dynamic segment has -1 there and is refused; an unknown name is refused). -/
def setInitByKind (segs : List Seg) (kind : Nat) : PyRes Nat :=
  match segs.find? (fun s => s.kind == kind) with
  | none => .error .spsdk
  | some s => match s.pos with
    | none => .error .spsdk
    | some o => setInit segs o

/-- `_update_segments`: `excluded = (full - init < 0 <= full)` -/
def excluded (init : Nat) (s : Seg) : Bool :=
  match s.pos with
  | some o => decide (o < init)
  | none => false

/-! ### segment state, offsets, length -/

/-- a segment together with its raw block (`none`/empty = not supplied) -/
structure Slot where
  seg : Seg
  raw : Option Bytes
  deriving Repr, DecidableEq

def Slot.len (s : Slot) : Nat := binLen s.raw

/-- the bytes of the raw block (empty when not supplied) -/
def Slot.bytes (s : Slot) : Bytes := s.raw.getD []

/-- table entries paired with their (optional) raw blocks -/
def mkSlots (d : List Seg) (raws : List (Option Bytes)) : List Slot := (d.zip raws).map (fun p => Slot.mk p.1 p.2)

/-- `Segment.is_present`: not excluded and a non-empty export -/
def Slot.present (init : Nat) (s : Slot) : Bool := !excluded init s.seg && decide (0 < s.len)

/-- `_get_segment_offset` for every segment, left to right (offsets inside the *full* image):
    static -> its table offset; dynamic -> `align(offset(prev) + len(prev), OFFSET_ALIGNMENT)` where `prev` is the
    previous entry of the table (supplied or not); a dynamic first segment has no offset (SPSDKError). -/
def absOffsets : Option (Option Nat × Nat) → List Slot → List (Option Nat)
  | _, [] => []
  | prev, s :: rest =>
    let o : Option Nat := match s.seg.pos with
      | some p => some p
      | none => match prev with
        | some (some po, pl) => some (alignNat (po + pl) s.seg.align)
        | _ => none
    o :: absOffsets (some (o, s.len)) rest

/-- `get_segment_offset(segment)` of the i-th segment: excluded -> SPSDKError, else offset in the full image − init -/
def segOffset (init : Nat) (slots : List Slot) (i : Nat) : PyRes Int :=
  match slots[i]?, (absOffsets none slots)[i]? with
  | some s, some (some a) => if excluded init s.seg then .error .spsdk else .ok ((a : Int) - init)
  | _, _ => .error .spsdk

/-- (offset, slot) of every present segment, in table order; `none` when an offset cannot be computed or is negative -/
def presentAt (init : Nat) : List Slot → List (Option Nat) → Option (List (Nat × Slot))
  | [], _ => some []
  | _ :: _, [] => none
  | s :: ss, o :: os =>
    if s.present init then
      match o, presentAt init ss os with
      | some a, some r => if init ≤ a then some ((a - init, s) :: r) else none
      | _, _ => none
    else presentAt init ss os

def placedSegs (init : Nat) (slots : List Slot) : Option (List (Nat × Slot)) :=
  presentAt init slots (absOffsets none slots)

/-- `len(bimg)`: offset + length of the last present segment (`IndexError` when there is none) -/
def imageLen (init : Nat) (slots : List Slot) : PyRes Nat :=
  match placedSegs init slots with
  | none => .error .spsdk
  | some l => match l.getLast? with
    | none => .error .other
    | some (o, s) => .ok (o + s.len)

/-- `Segment.image_info()` of a raw segment, moved to its offset -/
def segImg (o : Nat) (s : Slot) : Img := .mk s.len o 1 s.raw none []

/-- `image_info()`: pattern-filled parent of `len(self)` bytes, one sub-image per present segment (`add_image`) -/
def imageInfo (d : Desc) (init : Nat) (raws : List (Option Bytes)) : PyRes Img :=
  let slots := mkSlots d.segs raws
  match imageLen init slots, placedSegs init slots with
  | .ok n, some l => .ok (l.foldl (fun p os => p.addImage (segImg os.1 os.2)) (Img.mk n 0 1 none (some d.pattern) []))
  | .error e, _ => .error e
  | _, none => .error .spsdk

/-- `BootableImage.export()` -/
def exportImg (d : Desc) (init : Nat) (raws : List (Option Bytes)) : PyRes Bytes :=
  match imageInfo d init raws with
  | .error e => .error e
  | .ok img => img.export

/-! ### parsing -/

/-- the external parsers the bootable image relies on -/
structure Ext where
  /-- container parser of a kind (`MasterBootImage.parse`+`validate`, `HabContainer.parse`, `AHABImage.parse`,
      `validate_header` of SB2.1/SB3.1): `none` = SPSDKError, `some n` = accepted, the container object reports `n` bytes -/
  app : Nat → Bytes → Option Nat
  /-- `find_segment_offset` of the kinds that override it (`AHABImage.find_offset_of_ahab`); `none` = SPSDKError -/
  find : Nat → Bytes → Option Nat
  /-- `FCB.parse` accepts the block -/
  fcbOk : Bytes → Bool
  /-- `XMCD.parse(data).export()`; `none` = SPSDKError -/
  xmcd : Bytes → Option Bytes

/-- result of `parse_binary` -/
inductive PR where
  | err                      -- SPSDKError other than "not present"
  | absent                   -- SPSDKSegmentNotPresent
  | present (raw : Bytes)
  deriving Repr, DecidableEq

/-- `Segment._is_padding` -/
def isPadding (s : Seg) (data : Bytes) : Bool :=
  decide (0 < s.size) && s.patterns.any (fun p => data.take s.size.toNat == p.block s.size.toNat)

/-- `Segment.parse_binary` -/
def parseRaw (s : Seg) (data : Bytes) : PR :=
  if 0 < s.size ∧ (data.length : Int) < s.size then .err
  else if isPadding s data then .absent
  else .present (if 0 < s.size then data.take s.size.toNat else data)

/-- `parse_binary` of a segment of family `fcbSup` (is the family one the FCB class supports) -/
def parseSeg (ext : Ext) (fcbSup : Bool) (s : Seg) (data : Bytes) : PR :=
  match s.parser with
  | .raw => parseRaw s data
  | .imageVersion => .present (if 0 < s.size then data.take s.size.toNat else data)
  | .imageVersionAp => if (data.length : Int) < s.size then .err else .present (data.take 4)
  | .fcb =>
    if (data.length : Int) < s.size then .err
    else if data.take 4 == BimgTables.fcbTag || data.take 4 == BimgTables.fcbTagSwapped then
      if fcbSup then (if ext.fcbOk (data.take s.size.toNat) then .present (data.take s.size.toNat) else .err)
      else parseRaw s data
    else if isPadding s data then .absent else .err
  | .xmcd =>
    if (data.length : Int) < s.size then .err
    else if isPadding s data then .absent
    else match ext.xmcd data with
      | some r => .present r
      | none => .err
  | .greedy =>
    if data.isEmpty then .err else match ext.app s.kind data with
      | some _ => .present data
      | none => .err
  | .ahab =>
    if data.isEmpty then .err else match ext.app s.kind data with
      | some n => .present (data.take n)
      | none => .err
  | .sb => match ext.app s.kind data with
      | some _ => parseRaw s data
      | none => .err
  | .unknown => .err

/-- what the walk found for one table entry: `none` = excluded / not present, `some (offset, raw)` -/
abbrev Found := Option (Nat × Bytes)

/-- one table entry of `BootableImage._parse`: `none` = SPSDKError (the whole parse fails), otherwise what was found
    for the entry and the updated (`prev_offset`, `prev_size`).  `first` tells that no table entry precedes (a dynamic
    first segment makes `get_segment_offset` raise). -/
def stepSeg (ext : Ext) (fcbSup : Bool) (init : Nat) (bin : Bytes) (s : Seg) (first : Bool) (prevOff prevSize : Nat) :
    Option (Found × Nat × Nat) :=
  if excluded init s then some (none, prevOff, prevSize)
  else
    -- where the segment is looked for: `none` = error, `some none` = skipped (`continue`), `some (some offset)`
    let loc : Option (Option Nat) :=
      match s.pos with
      | some p => some (some (p - init))
      | none =>
        if first then none
        else
          let start := alignNat (prevOff + prevSize) s.align
          if bin.length ≤ start then some none
          else if s.extFind then
            match ext.find s.kind (bin.drop start) with
            | none => none
            | some d => some (some (start + d))
          else some (some start)
    match loc with
    | none => none
    | some none => some (none, prevOff, prevSize)
    | some (some offset) =>
      if bin.length ≤ offset ∧ s.bootHeader then none
      else match parseSeg ext fcbSup s (bin.drop offset) with
        | .err => none
        | .absent => some (none, prevOff, prevSize)
        | .present raw => some (if raw.isEmpty then none else some (offset, raw), offset, raw.length)

/-- `BootableImage._parse`: walk over the table entries -/
def walkGo (ext : Ext) (fcbSup : Bool) (init : Nat) (bin : Bytes) :
    List Seg → Bool → Nat → Nat → PyRes (List Found)
  | [], _, _, _ => .ok []
  | s :: rest, first, prevOff, prevSize =>
    match stepSeg ext fcbSup init bin s first prevOff prevSize with
    | none => .error .spsdk
    | some (f, po, ps) =>
      match walkGo ext fcbSup init bin rest false po ps with
      | .ok r => .ok (f :: r)
      | .error e => .error e

def walk (ext : Ext) (fcbSup : Bool) (init : Nat) (segs : List Seg) (bin : Bytes) : PyRes (List Found) :=
  walkGo ext fcbSup init bin segs true 0 0

/-- `header_len` exists: some found segment is not a boot header (otherwise `verify()` raises and the trial is dropped) -/
def hasApp : List Seg → List Found → Bool
  | s :: ss, f :: fs => (f.isSome && !s.bootHeader) || hasApp ss fs
  | _, _ => false

/-- one trial of `_parse_all`: construct with the init offset, walk, `verify().validate()` (modelled: an application
    segment was found; the segment verifiers are assumed to accept what their parsers accepted) -/
def trial (ext : Ext) (fcbSup : Bool) (segs : List Seg) (bin : Bytes) (req : Int) : Option (Nat × List Found) :=
  match setInit segs req with
  | .error _ => none
  | .ok init => match walk ext fcbSup init segs bin with
    | .error _ => none
    | .ok f => if hasApp segs f then some (init, f) else none

/-- init offsets tried after the full-image trial: `full_image_offset` of every INIT_SEGMENT, in table order
    (a dynamic one contributes -1, which the constructor refuses) -/
def initCandidates (segs : List Seg) : List Int :=
  (segs.filter (·.initSeg)).map (fun s => match s.pos with | some p => (p : Int) | none => -1)

def firstSome {α β} (f : α → Option β) : List α → Option β
  | [] => none
  | x :: xs => match f x with
    | some y => some y
    | none => firstSome f xs

/-- `BootableImage.parse(binary, family, mem_type, revision)`: the full image first, then every init candidate;
    the first accepted trial wins, none -> SPSDKError -/
def parseAll (ext : Ext) (fcbSup : Bool) (segs : List Seg) (bin : Bytes) : PyRes (Nat × List Found) :=
  match trial ext fcbSup segs bin 0 with
  | some r => .ok r
  | none => match firstSome (trial ext fcbSup segs bin) (initCandidates segs) with
    | some r => .ok r
    | none => .error .spsdk

/-! ### parse without an explicit memory type (`_parse_all` with `mem_type=None`) -/

/-- first element (with its index) on which `f` answers -/
def firstSomeIdx {α β} (f : α → Option β) : List α → Nat → Option (Nat × β)
  | [], _ => none
  | x :: xs, i => match f x with
    | some y => some (i, y)
    | none => firstSomeIdx f xs (i + 1)

/-- `BootableImage.parse(binary, family, revision=…)`: the memory types of the family in database order.  First loop: the
    full-image trial of every memory type (all accepted ones are collected, the first one is returned); only when none
    accepts, second loop: every memory type's init candidates in table order.  Result: (index of the memory type, init
    offset, what was found). -/
def parseAny (ext : Ext) (fcbSup : Bool) (descs : List (List Seg)) (bin : Bytes) : PyRes (Nat × Nat × List Found) :=
  match firstSomeIdx (fun segs => trial ext fcbSup segs bin 0) descs 0 with
  | some (i, r) => .ok (i, r.1, r.2)
  | none =>
    match firstSomeIdx (fun segs => firstSome (trial ext fcbSup segs bin) (initCandidates segs)) descs 0 with
    | some (i, r) => .ok (i, r.1, r.2)
    | none => .error .spsdk

/-! ### one object, many init-offset assignments (state machine) -/

/-- the part of a `BootableImage` object the init-offset setter touches: `_init_offset` and every segment's `excluded` flag -/
structure ObjState where
  init : Nat
  excl : List Bool
  deriving Repr, DecidableEq

/-- `bimg.init_offset = v` / `set_init_offset(int)`, and `set_init_offset(BootableImageSegment)` -/
inductive InitOp where
  | byInt (v : Int)
  | byKind (k : Nat)
  deriving Repr, DecidableEq

/-- `_update_segments()` -/
def updateSegments (segs : List Seg) (init : Nat) : List Bool := segs.map (excluded init)

/-- a freshly constructed object (`Segment.__init__`: `excluded = False`; constructor: `_init_offset = 0`) -/
def freshObj (segs : List Seg) : ObjState := ⟨0, segs.map (fun _ => false)⟩

/-- the setter: a refused request leaves the object untouched (the exceptions are raised before any assignment); otherwise
    `_init_offset` is stored and `_update_segments()` runs on the paths on which the SOURCE calls it
    (`BimgTables.setterUpdatesOnZero` / `setterUpdatesOnNonZero`, read from the setter's AST on every run) -/
def applySet (segs : List Seg) (s : ObjState) (req : Int) : ObjState :=
  match setInit segs req with
  | .error _ => s
  | .ok m =>
    let upd := if req = 0 then BimgTables.setterUpdatesOnZero else BimgTables.setterUpdatesOnNonZero
    ⟨m, if upd then updateSegments segs m else s.excl⟩

def stepOp (segs : List Seg) (s : ObjState) : InitOp → ObjState
  | .byInt v => applySet segs s v
  | .byKind k =>
    match segs.find? (fun x => x.kind == k) with
    | none => s
    | some sg => match sg.pos with
      | none => s                       -- full_image_offset = -1: "Offset cannot be a negative number"
      | some o => applySet segs s o

def runOps (segs : List Seg) (s : ObjState) (ops : List InitOp) : ObjState := ops.foldl (stepOp segs) s

end SpsdkVerif.Bimg
