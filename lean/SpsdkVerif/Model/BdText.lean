/-
C19 — text level of the BD expression language: a canonical rendering of token lists as characters, the class of token
lists that have a concrete syntax (`Lexable`), and parsing / printing of syntax trees at text level.

`render` writes every token followed by one blank, except that an int-size suffix `. b/h/w` is attached directly to the
token before it (the lexer's INT_SIZE rule has a look-behind `(\d|[0-9a-fA-F])\.`): numbers in decimal, identifiers as
they are, operators with the spelling read from the lexer source (`Generated.BdGrammar.tokenText`).
Proofs/BdLex.lean proves `lex (render ts) = ts` for every lexable `ts`, hence (with `parse_print`)
`parseTextB (printTextB b) = b` for every syntax tree whose printed token list is lexable.
-/
import SpsdkVerif.Model.Bd
namespace SpsdkVerif.Bd
open SpsdkVerif
open SpsdkVerif.Generated

def digitChar : Nat → Char
  | 0 => '0' | 1 => '1' | 2 => '2' | 3 => '3' | 4 => '4' | 5 => '5' | 6 => '6' | 7 => '7' | 8 => '8' | _ => '9'

/-- decimal digits of `n`, most significant first (`fuel` ≥ `n` suffices) -/
def decDigitsF : Nat → Nat → List Char
  | 0, _ => ['0']
  | f + 1, n => if n < 10 then [digitChar n] else decDigitsF f (n / 10) ++ [digitChar (n % 10)]

def decDigits (n : Nat) : List Char := decDigitsF n n

/-- characters of a token the printers emit ([] for the others) -/
def tokChars : Tok → List Char
  | .num n => decDigits n
  | .ident x => x.toList
  | .op o => o.text.toList
  | .cmp o => o.text.toList
  | .lnot => (tokText "LNOT").toList
  | .defined => "defined".toList
  | .lparen => (tokText "LPAREN").toList
  | .rparen => (tokText "RPAREN").toList
  | .dot => (tokText "PERIOD").toList
  | .isize s => s.letter.toList
  | _ => []

/-- canonical text of a token list -/
def render : List Tok → List Char
  | [] => []
  | t :: .dot :: .isize s :: rest => tokChars t ++ (tokChars .dot ++ (tokChars (.isize s) ++ ' ' :: render rest))
  | t :: rest => tokChars t ++ ' ' :: render rest

/-- an identifier of the language that is neither a keyword nor (currently) a source name -/
def validIdent (srcs : List String) (x : String) : Bool :=
  (match x.toList with
   | [] => false
   | c :: cs => isIdStart c && cs.all isIdChar) &&
  (BdGrammar.reserved.find? (fun p => p.1 == x)).isNone && !srcs.contains x

/-- tokens that stand alone (followed by a blank) -/
def simpleTokOk (srcs : List String) : Tok → Bool
  | .num _ => true
  | .ident x => validIdent srcs x
  | .op _ => true
  | .cmp _ => true
  | .lnot => true
  | .defined => true
  | .lparen => true
  | .rparen => true
  | _ => false

/-- tokens an int-size suffix can be attached to: their text ends in a hexadecimal digit -/
def suffixHostOk (srcs : List String) : Tok → Bool
  | .num _ => true
  | .ident x => validIdent srcs x && (match x.toList.getLast? with | some c => isHexDigit c | none => false)
  | _ => false

/-- token lists with a concrete syntax -/
def Lexable (srcs : List String) : List Tok → Bool
  | [] => true
  | t :: .dot :: .isize s :: rest => suffixHostOk srcs t && Lexable srcs rest
  | t :: rest => simpleTokOk srcs t && Lexable srcs rest


/-! ### Concrete tokens: the spellings the lexer knows, beyond the canonical one -/

def hexDigitChar : Nat → Char
  | 0 => '0' | 1 => '1' | 2 => '2' | 3 => '3' | 4 => '4' | 5 => '5' | 6 => '6' | 7 => '7' | 8 => '8' | 9 => '9'
  | 10 => 'a' | 11 => 'b' | 12 => 'c' | 13 => 'd' | 14 => 'e' | _ => 'f'

/-- hexadecimal digits of `n`, most significant first (`fuel` ≥ `n` suffices) -/
def hexDigitsF : Nat → Nat → List Char
  | 0, _ => ['0']
  | f + 1, n => if n < 16 then [hexDigitChar n] else hexDigitsF f (n / 16) ++ [hexDigitChar (n % 16)]

def hexDigits (n : Nat) : List Char := hexDigitsF n n

/-- text of a fixed-spelling token given by its lexer name (`tokenText` row), or of a one-character literal -/
def punctChars (name : String) : List Char :=
  if BdGrammar.literals.contains name then name.toList else (tokText name).toList

/-- token of a fixed-spelling lexer rule -/
def punctTok (name : String) : Tok :=
  if BdGrammar.literals.contains name then .other name else simpleTok name

/-- the fixed-spelling tokens a text can contain on their own (all rows of `tokenText`, and the literals) -/
def punctNames : List String :=
  ["PLUS", "MINUS", "TIMES", "DIVIDE", "MOD", "NOT", "XOR", "LSHIFT", "RSHIFT", "LOR", "OR", "LAND", "AND", "LE", "LT", "GE", "GT",
   "EQ", "NE", "LNOT", "RANGE", "ASSIGN", "LPAREN", "RPAREN", "LBRACE", "RBRACE", "COMMA", "PERIOD", "SEMI", "COLON",
   "QUESTIONMARK", "DOLLAR", "@"]

/-- a piece of concrete syntax: one spelling of a token (or a comment, which denotes no token) -/
inductive CTok where
  | tok (t : Tok)                          -- canonical spelling (decimal number, identifier, operator, `!`, `defined`, parentheses)
  | sized (t : Tok) (s : IntSz)            -- `t.b` / `t.h` / `t.w`: host token, `.`, int size
  | word (w : String)                      -- identifier-shaped word: identifier, keyword, source name, `true/false/yes/no`
  | dec (ds : List Char)                   -- decimal literal, any digits Python's `int(_, 0)` accepts
  | kilo (ds : List Char)                  -- `<digits>K`
  | hex (upperX : Bool) (ds : List Char)   -- `0x<digits>` / `0X<digits>`, digits in either case
  | chr (body : List Char)                 -- character literal `'body'`
  | str (body : List Char)                 -- string literal `"body"`
  | secname (body : List Char)             -- `$body` (section name glob)
  | punct (name : String)                  -- any fixed-spelling token by its lexer name, or the literal `@`
  | lineComment (hash : Bool) (body : List Char)   -- `#body⏎` or `//body⏎`
  deriving Repr

/-- decimal digit strings `int(text, 0)` accepts: not empty, no leading zero unless all digits are zero -/
def decOk (ds : List Char) : Bool := !ds.isEmpty && ds.all Char.isDigit && (ds.head? != some '0' || ds.all (· == '0'))

def isWordS (w : String) : Bool :=
  match w.toList with
  | [] => false
  | c :: cs => isIdStart c && cs.all isIdChar

/-- which pieces have the stated meaning (side conditions of the spelling) -/
def CTok.ok (srcs : List String) : CTok → Bool
  | .tok t => simpleTokOk srcs t
  | .sized t _ => suffixHostOk srcs t
  | .word w => isWordS w
  | .dec ds => decOk ds
  | .kilo ds => decOk ds
  | .hex _ ds => !ds.isEmpty && ds.all isHexDigit
  | .chr body => !body.isEmpty && body.all (fun c => c != '\'' && c != '\n')
  | .str body => body.all (fun c => c != '"' && c != '\n')
  | .secname body => !body.isEmpty && body.all isSectionNameChar
  | .punct name => punctNames.contains name
  | .lineComment _ body => body.all (· != '\n')

/-- the characters of a piece -/
def CTok.chars : CTok → List Char
  | .tok t => tokChars t
  | .sized t s => tokChars t ++ (tokChars .dot ++ tokChars (.isize s))
  | .word w => w.toList
  | .dec ds => ds
  | .kilo ds => ds ++ ['K']
  | .hex u ds => '0' :: (if u then 'X' else 'x') :: ds
  | .chr body => '\'' :: body ++ ['\'']
  | .str body => '"' :: body ++ ['"']
  | .secname body => '$' :: body
  | .punct name => punctChars name
  | .lineComment h body => (if h then ['#'] else ['/', '/']) ++ body ++ ['\n']

/-- the tokens a piece denotes -/
def CTok.toks (srcs : List String) : CTok → List Tok
  | .tok t => [t]
  | .sized t s => [t, .dot, .isize s]
  | .word w => [wordTok srcs w]
  | .dec ds => [.num (decVal ds)]
  | .kilo ds => [.num (decVal ds * 1024)]
  | .hex _ ds => [.num (hexVal ds)]
  | .chr body => [.num (charLitVal body)]
  | .str body => [.str (String.ofList body)]
  | .secname body => [.secname (String.ofList ('$' :: body))]
  | .punct name => [punctTok name]
  | .lineComment _ _ => []

/-- separator rule: every piece is followed by exactly one blank (a line comment ends with its newline, then the blank) -/
def renderC : List CTok → List Char
  | [] => []
  | ct :: rest => ct.chars ++ ' ' :: renderC rest

def tokensC (srcs : List String) : List CTok → List Tok
  | [] => []
  | ct :: rest => ct.toks srcs ++ tokensC srcs rest

def allOkC (srcs : List String) : List CTok → Bool
  | [] => true
  | ct :: rest => ct.ok srcs && allOkC srcs rest

/-- text of a `bool_expr` / `expr` syntax tree (levels of the implementation) -/
def printTextB (b : BExpr) : String := String.ofList (render (prB genLevels 0 b))
def printTextE (e : Expr) : String := String.ofList (render (pr genLevels 0 e))

/-- text → `bool_expr` syntax tree: lexer model, then reference parser -/
def parseTextB (srcs : List String) (text : String) : Option BExpr :=
  match lex srcs text with
  | .ok ts => (match refParseB genLevels ts with | .ok b => some b | .error _ => none)
  | .error _ => none

def parseTextE (srcs : List String) (text : String) : Option Expr :=
  match lex srcs text with
  | .ok ts => (match refParse genLevels ts with | .ok e => some e | .error _ => none)
  | .error _ => none

end SpsdkVerif.Bd
