/-
C19 — text level of the BD expression language: a canonical rendering of token lists as characters, the class of token
lists that have a concrete syntax (`Lexable`), and parsing / printing of syntax trees at text level.

`render` writes every token followed by one blank, except that an int-size suffix `. b/h/w` is attached directly to the
token before it (the lexer's INT_SIZE rule has a look-behind `(\d|[0-9a-fA-F])\.`): numbers in decimal, identifiers as
they are, operators with the spelling read from the lexer source (`Generated.BdGrammar.tokenText`).
Proofs/BdLex.lean proves `lex (render ts) = ts` for every lexable `ts`, hence (with `parse_print`)
`parseTextB (printTextB b) = b` for every syntax tree whose printed token list is lexable.
-/
import SpsdkVerif.Model.Bd
namespace SpsdkVerif.Bd
open SpsdkVerif
open SpsdkVerif.Generated

def digitChar : Nat → Char
  | 0 => '0' | 1 => '1' | 2 => '2' | 3 => '3' | 4 => '4' | 5 => '5' | 6 => '6' | 7 => '7' | 8 => '8' | _ => '9'

/-- decimal digits of `n`, most significant first (`fuel` ≥ `n` suffices) -/
def decDigitsF : Nat → Nat → List Char
  | 0, _ => ['0']
  | f + 1, n => if n < 10 then [digitChar n] else decDigitsF f (n / 10) ++ [digitChar (n % 10)]

def decDigits (n : Nat) : List Char := decDigitsF n n

/-- characters of a token the printers emit ([] for the others) -/
def tokChars : Tok → List Char
  | .num n => decDigits n
  | .ident x => x.toList
  | .op o => o.text.toList
  | .cmp o => o.text.toList
  | .lnot => (tokText "LNOT").toList
  | .defined => "defined".toList
  | .lparen => (tokText "LPAREN").toList
  | .rparen => (tokText "RPAREN").toList
  | .dot => (tokText "PERIOD").toList
  | .isize s => s.letter.toList
  | _ => []

/-- canonical text of a token list -/
def render : List Tok → List Char
  | [] => []
  | t :: .dot :: .isize s :: rest => tokChars t ++ (tokChars .dot ++ (tokChars (.isize s) ++ ' ' :: render rest))
  | t :: rest => tokChars t ++ ' ' :: render rest

/-- an identifier of the language that is neither a keyword nor (currently) a source name -/
def validIdent (srcs : List String) (x : String) : Bool :=
  (match x.toList with
   | [] => false
   | c :: cs => isIdStart c && cs.all isIdChar) &&
  (BdGrammar.reserved.find? (fun p => p.1 == x)).isNone && !srcs.contains x

/-- tokens that stand alone (followed by a blank) -/
def simpleTokOk (srcs : List String) : Tok → Bool
  | .num _ => true
  | .ident x => validIdent srcs x
  | .op _ => true
  | .cmp _ => true
  | .lnot => true
  | .defined => true
  | .lparen => true
  | .rparen => true
  | _ => false

/-- tokens an int-size suffix can be attached to: their text ends in a hexadecimal digit -/
def suffixHostOk (srcs : List String) : Tok → Bool
  | .num _ => true
  | .ident x => validIdent srcs x && (match x.toList.getLast? with | some c => isHexDigit c | none => false)
  | _ => false

/-- token lists with a concrete syntax -/
def Lexable (srcs : List String) : List Tok → Bool
  | [] => true
  | t :: .dot :: .isize s :: rest => suffixHostOk srcs t && Lexable srcs rest
  | t :: rest => simpleTokOk srcs t && Lexable srcs rest

/-- text of a `bool_expr` / `expr` syntax tree (levels of the implementation) -/
def printTextB (b : BExpr) : String := String.ofList (render (prB genLevels 0 b))
def printTextE (e : Expr) : String := String.ofList (render (pr genLevels 0 e))

/-- text → `bool_expr` syntax tree: lexer model, then reference parser -/
def parseTextB (srcs : List String) (text : String) : Option BExpr :=
  match lex srcs text with
  | .ok ts => (match refParseB genLevels ts with | .ok b => some b | .error _ => none)
  | .error _ => none

def parseTextE (srcs : List String) (text : String) : Option Expr :=
  match lex srcs text with
  | .ok ts => (match refParse genLevels ts with | .ok e => some e | .error _ => none)
  | .error _ => none

end SpsdkVerif.Bd
