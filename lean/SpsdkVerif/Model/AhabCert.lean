/-
Executable model of the AHAB certificate (`spsdk/image/ahab/ahab_certificate.py`, one key / one signature):
`AhabCertificate.get_signature_data`, `update_fields` (length, signature offset), `export`, `parse`.

  header  <BHBHBB 12s BBH 16s  (version, length, tag, signature offset, ~permissions & 0xFF, permissions, permission data,
                                fuse version, reserved, reserved, UUID)
  ‖ SRK record (version 2: the hash of the SRK data block, zero-extended to 64 bytes) ‖ SRK data (the public key)
  ‖ signature container

The signature covers everything before the signature container; the key that signs it is the used SRK of the container, the
key inside the certificate signs the container when the certificate carries the "container" permission.
Tied to /repo by the `cert` stream of harness/props/C06.py (export bytes, signed part, parsed object of real certificates) and by
every exported container with a certificate (export / tamper streams; the certificate bytes are an input of the container model).
-/
import SpsdkVerif.Model.AhabParse

namespace SpsdkVerif.Ahab
open SpsdkVerif SpsdkVerif.Misc
open SpsdkVerif.Generated
open SpsdkVerif.Crypto (CryptoOps)

structure Cert where
  perms : Nat
  permData : Bytes
  fuse : Nat
  uuid : Bytes             -- empty = not used
  key : SrkV2
  srkId : Nat              -- `srk_id` of the SRK data block
  signature : Bytes
  deriving Repr, DecidableEq

/-- the integer fields in front of the permission data, and between permission data and UUID -/
def certIntsA : List Nat := [1, 2, 1, 2, 1, 1]
def certIntsB : List Nat := [1, 1, 2]
def certPermDataLen : Nat := 12
def certUuidLen : Nat := 16

/-- exported SRK record and SRK data of the certificate's key -/
def certKeyBytes (c : CryptoOps) (ct : Cert) : PyRes (Bytes × Bytes) :=
  match srkRecordOfV2 c ct.srkId ct.key with
  | .error e => .error e
  | .ok rec =>
    match encodeSrkRecord rec, encodeSrkData ct.srkId ct.key.keyData with
    | .ok rb, .ok db => .ok (rb, db)
    | .error e, _ => .error e
    | _, .error e => .error e

/-- `signature_offset` after `update_fields` -/
def certSigOffset (rb db : Bytes) : Nat := AhabConsts.certificateLayout.size + rb.length + db.length

/-- the 40-byte header -/
def certHeader (len sigOff : Nat) (ct : Cert) : PyRes Bytes :=
  if certPermDataLen < ct.permData.length ∨ certUuidLen < ct.uuid.length then .error .spsdk else     -- extend_block
  match packChecked certIntsA [AhabConsts.certificateVersion, len, AhabConsts.certificateTag, sigOff, 255 - ct.perms % 256, ct.perms],
        packChecked certIntsB [ct.fuse, AhabConsts.reserved, AhabConsts.reserved] with
  | .ok a, .ok b => .ok (a ++ extendTo certPermDataLen ct.permData ++ b ++ extendTo certUuidLen ct.uuid)
  | .error e, _ => .error e
  | _, .error e => .error e

/-- `get_signature_data()` after `update_fields()`: header ‖ record ‖ SRK data -/
def encodeCertSigned (c : CryptoOps) (ct : Cert) : PyRes Bytes :=
  match certKeyBytes c ct with
  | .error e => .error e
  | .ok (rb, db) =>
    match certHeader (certSigOffset rb db + signatureLen ct.signature) (certSigOffset rb db) ct with
    | .ok h => .ok (h ++ rb ++ db)
    | .error e => .error e

/-- `export()` -/
def encodeCert (c : CryptoOps) (ct : Cert) : PyRes Bytes :=
  match encodeCertSigned c ct, encodeSignature ct.signature with
  | .ok s, .ok g => .ok (s ++ g)
  | .error e, _ => .error e
  | _, .error e => .error e

/-- `SRKRecordV2.parse`: crypto parameters have the fixed length 64 -/
def decodeSrkRecordV2 (b : Bytes) : Option SrkRecord :=
  let fl := AhabConsts.srkRecordLayout.size
  if b.length < fl then none else
  match unpackInts AhabConsts.srkRecordLayout.intWidths b with
  | some [tag, len, alg, hsh, ks, _res, fl8] =>
    if tag ≠ AhabConsts.srkRecordTag ∨ !(AhabConsts.srkRecordVersions.contains alg) ∨ b.length < len then none else
    if AhabConsts.srkRecordV2ParamsLen + fl > len then none else
    if !(AhabConsts.signAlgV2.any (fun t => t.2.1 == alg)) ∨ !(AhabConsts.hashAlgV2.any (fun t => t.2.1 == hsh)) then none else
    some ⟨alg, hsh, ks, fl8, len, (b.drop fl).take AhabConsts.srkRecordV2ParamsLen⟩
  | _ => none

/-- `SRKData.parse`: (srk id, length, key data) -/
def parseSrkData (b : Bytes) : Option (Nat × Nat × Bytes) :=
  if b.length < AhabConsts.srkDataLayout.size then none else
  match unpackInts AhabConsts.srkDataLayout.intWidths b with
  | some [ver, len, tag, sid, _r1, _r2] =>
    if tag ≠ AhabConsts.srkDataTag ∨ ver ≠ AhabConsts.srkDataVersion ∨ b.length < len then none
    else some (sid, len, (b.take len).drop AhabConsts.srkDataLayout.size)
  | _ => none

structure PCert where
  length : Nat
  sigOff : Nat
  perms : Nat
  permData : Bytes
  fuse : Nat
  uuid : Bytes
  record : SrkRecord
  srkId : Nat
  keyData : Bytes
  signature : Bytes
  deriving Repr, DecidableEq

/-- tail of `AhabCertificate.parse` once the record is known -/
def parseCertKey (b : Bytes) (len so perm fuse : Nat) (rec : SrkRecord) : Option PCert :=
  match parseSrkData (b.drop (AhabConsts.certificateLayout.size + rec.length)) with
  | none => none
  | some (sid, dlen, data) =>
    -- a second key / signature (PQC) is outside the model
    if AhabConsts.certificateLayout.size + rec.length + dlen < so then none else
    match parseSignature (b.drop so) with
    | none => none
    | some sig =>
      -- the declared length is the signature offset + the signature container (commit adb6379)
      if len ≠ so + signatureLen sig then none else
      some ⟨len, so, perm, (b.drop 8).take certPermDataLen, fuse, (b.drop 24).take certUuidLen, rec, sid, data, sig⟩

/-- `AhabCertificate.parse(data)` -/
def parseCert (b : Bytes) : Option PCert :=
  if b.length < AhabConsts.certificateLayout.size then none else
  match unpackInts certIntsA b, unpackInts certIntsB (b.drop 20) with
  | some [ver, len, tag, so, inv, perm], some [fuse, _r1, _r2] =>
    if tag ≠ AhabConsts.certificateTag ∨ ver ≠ AhabConsts.certificateVersion ∨ b.length < len then none else
    if inv ≠ 255 - perm % 256 then none else
    match decodeSrkRecordV2 (b.drop AhabConsts.certificateLayout.size) with
    | none => none
    | some rec => parseCertKey b len so perm fuse rec
  | _, _ => none

/-- `create_permissions`: OR of the named bits -/
def certPermissions (bits : List Nat) : Nat := bits.foldl (· ||| ·) 0

/-- `permission_to_sign_container` -/
def Cert.maySignContainer (perms : Nat) : Bool := perms % 2 == 1

end SpsdkVerif.Ahab
