/-
Phase 3 (C06): the RE-SIGN flow - `AHABImage.update_fields()` called a second time on an already updated image
(what `nxpimage ahab re-sign` / `sign` and every `export()` after a manual `update_fields()` do).

After the first call every container is LOCKED (`chip_config.locked = True`): the offset loop keeps every image offset.  The
per-container `update_fields()` runs again: images flagged encrypted are not encrypted twice (`already_encrypted_image`),
`ImageArrayEntry.update_fields()` recomputes the size from the stored image, keeps a non-empty hash and keeps the IV unless it
is all zero on an encrypted entry (then SHA-256 of the plain image again).
-/
import SpsdkVerif.Model.Ahab

namespace SpsdkVerif.Ahab
open SpsdkVerif SpsdkVerif.Misc
open SpsdkVerif.Generated
open SpsdkVerif.Crypto (CryptoOps)

/-- `ImageArrayEntry.update_fields()` on an entry that was updated before -/
def reReady (c : CryptoOps) (ch : Chip) (v : Ver) (e : Entry) (r : Ready) : PyRes Ready :=
  let size := validSize ch v e.flags e.sizeAlign r.image
  let iv : Bytes := if r.iv.all (· == 0) && Iae.isEncrypted v e.flags then c.hash .sha256 (storedImage ch e.data) else r.iv
  if r.hash.isEmpty then
    match hashAlgOfTag (Iae.hashTag v e.flags) with
    | none => .error .spsdk
    | some a => .ok ⟨r.image, size, extendTo AhabConsts.iaeHashLen (c.hash a (extendTo size r.image)), iv⟩
  else .ok ⟨r.image, size, r.hash, iv⟩

/-- the offset loop on a locked container: `offset = image.image_offset` for every image -/
def rePlaced (c : CryptoOps) (ch : Chip) (v : Ver) (base : Nat) : List Placed → PyRes (List Placed)
  | [] => .ok []
  | p :: ps =>
    match reReady c ch v p.entry p.ready, rePlaced c ch v base ps with
    | .ok r, .ok rest => .ok (⟨p.entry, r, p.offset, mkIae base p.offset p.entry r⟩ :: rest)
    | .error e, _ => .error e
    | _, .error e => .error e

def reupdateAll (c : CryptoOps) (ch : Chip) (v : Ver) : List UContainer → PyRes (List UContainer)
  | [] => .ok []
  | u :: us =>
    match rePlaced c ch v u.base u.placed, reupdateAll c ch v us with
    | .ok pl, .ok rest => .ok (⟨u.index, u.base, u.cont, pl⟩ :: rest)
    | .error e, _ => .error e
    | _, .error e => .error e

/-- `update_fields(); update_fields()` -/
def Image.update2 (c : CryptoOps) (img : Image) : PyRes (List UContainer) :=
  match img.update c with
  | .error e => .error e
  | .ok us => reupdateAll c img.chip img.ver us

end SpsdkVerif.Ahab
