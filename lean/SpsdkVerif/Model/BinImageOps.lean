/-
Further `BinaryImage` tree operations (spsdk/utils/images.py): `join_images`, `get_image_by_absolute_address`,
`update_offsets` / `min_offset`, `find_sub_image`, and the pattern-erasure used to state that lengths and
validation do not depend on fill patterns (the `rand` pattern has no deterministic model).

Core Lean only.  Helper lemmas and theorems: Proofs/BinImageOps.lean.
-/
import SpsdkVerif.Model.BinImage

namespace SpsdkVerif.BinImg
open SpsdkVerif SpsdkVerif.Misc

/-! ### `join_images` -/

/-- `binary = self.export(); self.sub_images.clear(); self.binary = binary` (an exception of `export()` leaves the
    object untouched and propagates) -/
def Img.joinImages : Img → PyRes Img
  | .mk s o a bin p ch =>
    match (Img.mk s o a bin p ch).export with
    | .error e => .error e
    | .ok b => .ok (.mk s o a (some b) p [])

/-! ### `get_image_by_absolute_address`

The children are tried first, in list order, each with `address - self.offset`; an `SPSDKValueError` of a child
means "try the next one"; then `if address < self.offset or address >= self.offset + len(self): raise`, else `self`
(`>=` since commit e6ec992; before that `>`, which accepted the end address - kept below as `getByAddrLax`, the
pre-fix search, to state exactly what the repair changed).

Offsets and addresses are naturals here.  Python would call the children with a negative number when
`address < self.offset`; every image then refuses: a child's own test `address' < child.offset` is true because
offsets are non-negative, and its children are called with an even smaller number, so by induction nothing below
accepts, and finally the image's own test `address < self.offset` raises.  Hence the leading
`if addr < o then error` is equivalent.

The result is the path (child indices from the root), the offset of the found image inside the root's buffer
(sum of the child offsets along the path, root's own offset NOT included) and the found image. -/

/-! the search as it was before e6ec992 (end address accepted) -/
mutual
def Img.getByAddrLax : Img → Nat → PyRes (List Nat × Nat × Img)
  | .mk s o a b p ch, addr =>
    if addr < o then .error .spsdk
    else match getByAddrLaxChildren ch (addr - o) 0 with
      | some r => .ok r
      | none =>
        if addr > o + (Img.mk s o a b p ch).len then .error .spsdk
        else .ok ([], 0, .mk s o a b p ch)
def getByAddrLaxChildren : List Img → Nat → Nat → Option (List Nat × Nat × Img)
  | [], _, _ => none
  | c :: cs, addr, idx =>
    match c.getByAddrLax addr with
    | .ok (path, off, d) => some (idx :: path, c.offset + off, d)
    | .error _ => getByAddrLaxChildren cs addr (idx + 1)
end

/-! the search as it is now (end address excluded): "the image that contains the address" -/
mutual
def Img.getByAddr : Img → Nat → PyRes (List Nat × Nat × Img)
  | .mk s o a b p ch, addr =>
    if addr < o then .error .spsdk
    else match getByAddrChildren ch (addr - o) 0 with
      | some r => .ok r
      | none =>
        if addr ≥ o + (Img.mk s o a b p ch).len then .error .spsdk
        else .ok ([], 0, .mk s o a b p ch)
def getByAddrChildren : List Img → Nat → Nat → Option (List Nat × Nat × Img)
  | [], _, _ => none
  | c :: cs, addr, idx =>
    match c.getByAddr addr with
    | .ok (path, off, d) => some (idx :: path, c.offset + off, d)
    | .error _ => getByAddrChildren cs addr (idx + 1)
end

/-- follow a path of child indices -/
def atPath : List Nat → Img → Option Img
  | [], i => some i
  | k :: ks, i =>
    match i.children[k]? with
    | some c => atPath ks c
    | none => none

/-- sum of the child offsets along a path (0 when the path leaves the tree) -/
def pathOffset : List Nat → Img → Nat
  | [], _ => 0
  | k :: ks, i =>
    match i.children[k]? with
    | some c => c.offset + pathOffset ks c
    | none => 0

/-- `d` is a descendant of `i` (or `i` itself) whose buffer starts `o` bytes into the buffer of `i` -/
inductive SubAt : Img → Nat → Img → Prop
  | self (i : Img) : SubAt i 0 i
  | step (i c d : Img) (o : Nat) : c ∈ i.children → SubAt c o d → SubAt i (c.offset + o) d

/-! ### `update_offsets` / `min_offset` -/

/-- `min(offsets)`; `none` stands for the `ValueError` of `min([])` -/
def minOffset : List Img → Option Nat
  | [] => none
  | c :: cs =>
    match minOffset cs with
    | none => some c.offset
    | some m => some (min c.offset m)

/-- every child offset decreased by the least one, the own offset increased by it -/
def Img.updateOffsets : Img → PyRes Img
  | .mk s o a b p ch =>
    match minOffset ch with
    | none => .error .other
    | some m => .ok (.mk s (o + m) a b p (ch.map (fun c => c.withOffset (c.offset - m))))

/-! ### the `size` setter -/

/-- `image.size = n`: `self._size = align(value, self.alignment)` - the same rounding as in the constructor -/
def Img.setSize : Img → Nat → Img
  | .mk _ o a b p ch, n => .mk (alignNat n a) o a b p ch

/-- apply `f` to the node reached by a path of child indices (nothing happens when the path leaves the tree) -/
def mapAt : List Nat → (Img → Img) → Img → Img
  | [], f, i => f i
  | k :: ks, f, i =>
    match i with
    | .mk s o a b p ch => .mk s o a b p (ch.mapIdx (fun j c => if j = k then mapAt ks f c else c))

/-! ### `find_sub_image` (over the list of the children's names) -/

/-- index of the first child called `name`; `none` stands for the `SPSDKValueError` -/
def findSub : List String → String → Option Nat
  | [], _ => none
  | n :: ns, name => if name = n then some 0 else (findSub ns name).map (· + 1)

/-! ### forgetting the fill patterns -/

mutual
def Img.erasePat : Img → Img
  | .mk s o a b _ ch => .mk s o a b none (erasePatList ch)
def erasePatList : List Img → List Img
  | [] => []
  | c :: cs => c.erasePat :: erasePatList cs
end

/-- the number of bytes `export()` returns when it succeeds, computed without any pattern -/
def Img.expLen : Img → Nat
  | .mk s o a bin p ch =>
    let L := (Img.mk s o a bin p ch).len
    match bin, ch with
    | some b, [] => if !b.isEmpty && L == b.length then b.length else alignNat (max L b.length) a
    | bin, _ => alignNat (max L (binLen bin)) a

end SpsdkVerif.BinImg
