/-
C11, phase 3 — additions to the hand-written model of `spsdk/utils/registers.py` (only NEW definitions; nothing in
Model/Registers.lean changes):

* `getConfigD diff` : `_RegistersBase.get_config(diff)`; `diff = false` is the older `getConfig`.
* `findReg` / `getRegByUid` / `findBitfield` : look-up by name, alias, uid, with and without group members.
* `imageLen` / `exportAt` / `parseAt` : `image_info().export()` / `parse()` for registers at arbitrary byte offsets (gaps are
  filled with the pattern byte, the image is as long as the furthest register end).

Tied to the code by the streams `diff_config`, `lookup`, `sparse_export` of harness/props/C11.py.
-/
import SpsdkVerif.Model.Registers

namespace SpsdkVerif.Regs
open SpsdkVerif SpsdkVerif.Misc

/-! ## `get_config(diff)` -/

/-- the bit-field part of `get_config(diff)`: a bit-field at its reset value is left out when it is hidden or `diff` is set -/
def fieldsConfigD (diff : Bool) (r : Reg) (rm : RegMeta) : List Field → Nat → PyRes (List (Nat × CfgVal))
  | [], _ => .ok []
  | f :: fs, j =>
    match fieldGet r f with
    | .error e => .error e
    | .ok v =>
      if (diff || (rm.field j).hidden) && v == f.reset then fieldsConfigD diff r rm fs (j + 1)
      else match enumValueOf r f (rm.field j), fieldsConfigD diff r rm fs (j + 1) with
        | .error e, _ => .error e
        | _, .error e => .error e
        | .ok c, .ok rest => .ok ((j, c) :: rest)

def regConfigD (diff : Bool) (r : Reg) (rm : RegMeta) : PyRes RegCfg :=
  if r.fields.isEmpty then
    match r.getAlt rm.alts false with
    | .error e => .error e
    | .ok v => .ok (.value v)
  else
    match fieldsConfigD diff r rm r.fields 0 with
    | .error e => .error e
    | .ok l => .ok (.fields l)

/-- `reg.get_value(raw=True) == reg.get_reset_value()` (the raw view never fails) -/
def regAtReset (r : Reg) (rm : RegMeta) : Bool :=
  match r.getAlt rm.alts true with
  | .ok v => v == r.resetValue
  | .error _ => false

def getConfigDFrom (diff : Bool) (m : Meta) : RegFile → Nat → PyRes Cfg
  | [], _ => .ok []
  | r :: rs, i =>
    if diff && regAtReset r (m.reg i) then getConfigDFrom diff m rs (i + 1)
    else
      match regConfigD diff r (m.reg i), getConfigDFrom diff m rs (i + 1) with
      | .error e, _ => .error e
      | _, .error e => .error e
      | .ok c, .ok rest => .ok ((.top i, c) :: rest)

/-- `_RegistersBase.get_config(diff)` -/
def getConfigD (diff : Bool) (m : Meta) (rf : RegFile) : PyRes Cfg := getConfigDFrom diff m rf 0

/-- the meta data in which every bit-field `j < n` counts as hidden (names of enum entries unchanged) -/
def hideAll (rm : RegMeta) (n : Nat) : RegMeta :=
  { rm with fields := (List.range (max n rm.fields.length)).map (fun j => { rm.field j with hidden := true }) }

/-! ## look-up by name / alias / uid

Names are abstract ids (`Nat`); one register: its name, alias names, uid and the same for its group members. -/

structure RegName where
  name : Nat
  aliases : List Nat := []
  uid : Nat
  subs : List (Nat × List Nat × Nat) := []     -- (name, aliases, uid) of every group member
  deriving Repr, DecidableEq

def nameHit (x : Nat) (name : Nat) (aliases : List Nat) (uid : Nat) : Bool :=
  x == name || aliases.contains x || x == uid

def subHit (x : Nat) (subs : List (Nat × List Nat × Nat)) (k : Nat) : Bool :=
  match subs[k]? with
  | some (n, a, u) => nameHit x n a u
  | none => false

def subUidHit (x : Nat) (subs : List (Nat × List Nat × Nat)) (k : Nat) : Bool :=
  match subs[k]? with
  | some (_, _, u) => x == u
  | none => false

/-- `find_reg(name, include_group_regs)`: first register (in `_registers` order) hit by name, alias or uid; with
    `include_group_regs` the members of a group are tried right after the group itself -/
def findRegFrom (x : Nat) (incl : Bool) : List RegName → Nat → Option RegRef
  | [], _ => none
  | r :: rs, i =>
    if nameHit x r.name r.aliases r.uid then some (.top i)
    else
      match (if incl then (List.range r.subs.length).find? (subHit x r.subs) else none) with
      | some k => some (.sub i k)
      | none => findRegFrom x incl rs (i + 1)

def findReg (names : List RegName) (x : Nat) (incl : Bool) : Option RegRef := findRegFrom x incl names 0

/-- `get_reg(uid)`: by uid only, group members always included -/
def getRegByUidFrom (x : Nat) : List RegName → Nat → Option RegRef
  | [], _ => none
  | r :: rs, i =>
    if x == r.uid then some (.top i)
    else
      match (List.range r.subs.length).find? (subUidHit x r.subs) with
      | some k => some (.sub i k)
      | none => getRegByUidFrom x rs (i + 1)

def getRegByUid (names : List RegName) (x : Nat) : Option RegRef := getRegByUidFrom x names 0

/-- `Register.find_bitfield(name)`: first bit-field whose name or uid is `x`; entries are `(name, uid)` -/
def findBitfield (fs : List (Nat × Nat)) (x : Nat) : Option Nat :=
  (List.range fs.length).find? (fun j => match fs[j]? with
    | some (n, u) => x == n || x == u
    | none => false)

/-! ## export / parse with byte offsets and gaps -/

/-- length of `image_info()` with `size = 0`: the furthest end of a register -/
def imageLen (offs : List Nat) (rf : RegFile) : Nat :=
  (List.zip offs rf).foldl (fun acc (o, r) => max acc (o + r.width / 8)) 0

/-- overwrite `b[o .. o + d.length)` with `d` (the buffer is long enough in every use) -/
def blit (b : Bytes) (o : Nat) (d : Bytes) : Bytes := b.take o ++ d ++ b.drop (o + d.length)

/-- `Registers.export()` for registers at byte offsets `offs` (non-overlapping): a buffer of `imageLen` pattern bytes with
    every register's raw bytes (base endianness, full width) written at its offset -/
def exportAt (offs : List Nat) (rf : RegFile) (little : Bool) (fill : UInt8) : PyRes Bytes :=
  (List.zip offs rf).foldl (fun acc (o, r) =>
    match acc, r.get true with
    | .error e, _ => .error e
    | _, .error e => .error e
    | .ok b, .ok v =>
      if v ≥ 256 ^ (r.width / 8) ∧ v ≠ 0 then .error .spsdk
      else .ok (blit b o (if little then leEnc (r.width / 8) v else beEnc (r.width / 8) v)))
    (.ok (List.replicate (imageLen offs rf) fill))

/-- `Registers.parse(binary)`: every register takes the bytes at its offset; the loop stops at the first register
    that the binary does not reach -/
def parseAt : List Nat → RegFile → Bytes → Bool → PyRes RegFile
  | o :: os, r :: rs, b, little =>
    if b.length < o + r.width / 8 then .ok (r :: rs)
    else
      let chunk := (b.drop o).take (r.width / 8)
      let v := if little then leDec chunk else beDec chunk
      match r.set v true with
      | .error e => .error e
      | .ok r' => match parseAt os rs b little with
        | .error e => .error e
        | .ok rs' => .ok (r' :: rs')
  | _, rs, _, _ => .ok rs

/-! ## `ConfigProcessor.from_spec`: the configuration string `<NAME>:<KEY>=<int>,…;DESC=<text>` -/

/-- Python `s.split(c)` for a one-character separator -/
def splitCh (c : Char) : List Char → List (List Char)
  | [] => [[]]
  | x :: xs =>
    if x == c then [] :: splitCh c xs
    else match splitCh c xs with
      | [] => [[x]]
      | h :: t => (x :: h) :: t

/-- `d[k] = v` on an insertion-ordered dictionary -/
def dictSet {α : Type} (d : List (List Char × α)) (k : List Char) (v : α) : List (List Char × α) :=
  if d.any (fun e => e.1 == k) then d.map (fun e => if e.1 == k then (k, v) else e) else d ++ [(k, v)]

def dictGet {α : Type} (d : List (List Char × α)) (k : List Char) : Option α :=
  (d.find? (fun e => e.1 == k)).map (·.2)

/-- `ConfigProcessor.get_params`: text up to the first ';', second ':'-part, ','-separated `key=value` pairs (exactly one
    '=' each), keys lower-cased, values through `value_to_int` -/
def procParams (spec : List Char) : PyRes (List (List Char × Nat)) :=
  let parts := splitCh ':' ((splitCh ';' spec).headD [])
  match parts with
  | [_] => .ok []
  | _ :: p :: _ =>
    let pairs := (splitCh ',' p).map (splitCh '=')
    if pairs.all (fun q => q.length == 2) then
      let d1 := pairs.foldl (fun d q => dictSet d (q.headD []) (q.getD 1 [])) ([] : List (List Char × List Char))
      if d1.all (fun e => (valueToInt e.2).isSome) then
        .ok (d1.foldl (fun d e => dictSet d (e.1.map lowerCh) ((valueToInt e.2).getD 0)) [])
      else .error .spsdk
    else .error .spsdk
  | [] => .ok []

/-- `ConfigProcessor.from_spec(spec)` over a table `(NAME, parameter keys)` of the subclasses: `none` = no processor (the
    bit-field then gets the base class), otherwise the NAME and the parameter values in key order; a missing key is an error -/
def procFromSpec (table : List (String × List String)) (spec : List Char) : PyRes (Option (String × List Nat)) :=
  let nm := String.ofList ((splitCh ':' spec).headD [])
  match table.find? (fun e => e.1 == nm) with
  | none => .ok none
  | some (n, keys) =>
    match procParams spec with
    | .error e => .error e
    | .ok d =>
      if keys.all (fun k => (dictGet d k.toList).isSome) then
        .ok (some (n, keys.map (fun k => (dictGet d k.toList).getD 0)))
      else .error .spsdk

end SpsdkVerif.Regs
