/-
C17 (phase 2) — a self-chosen secret that is also written to a file (HAB DEK: `SecretKey_Name`), and builds that are
repeated INTO THE SAME DIRECTORY, in one process or after a restart (the file survives both).

`CsfHabSegment.get_dek_from_config` has two sources for the DEK: a fresh draw (which it writes to the file) and the file.
What decides between them is all that matters:
  * `flag`        the explicit request of the user (`SecretKey_ReuseDek = 1`),
  * `fileExists`  something that probes the file system (`find_file(.., raise_exc=False)`, `os.path.exists`, …): then the
                  file written by build k silently becomes the DEK of build k+1.
`Generated.secretSources` lists, for every draw of /repo/spsdk that is one of several alternative sources of a variable,
which of the two its guard is (AST: does the guard expression, through local definitions, call a file-system probe).

The file system state is part of the model (it is what persists across interpreter restarts, so the theorem covers the
restart clause for this site without any assumption on the process).
-/
import SpsdkVerif.Model.FreshObj

namespace SpsdkVerif.Fresh

inductive Guard where
  | flag
  | fileExists
  deriving DecidableEq, Repr, Inhabited

structure SourceChoice where
  kind : Kind
  scope : String
  var : String
  loc : String
  guard : Guard
  /-- the alternative source reads a file -/
  altFile : Bool
  /-- source text of the guard, for the reader -/
  test : String
  deriving Repr, Inhabited

inductive FStep where
  | build (reuse : Bool)     -- one artifact built into the directory; `reuse` = the user set the reuse flag
  | place (u : Nat)          -- the user puts an own key file there
  | remove                   -- the user cleans the directory
  deriving DecidableEq, Repr, Inhabited

/-- outcome of a build: the reuse flag it was run with and the secret it used -/
structure FArt where
  reuse : Bool
  val : OVal
  deriving DecidableEq, Repr, Inhabited

structure FSt where
  file : Option OVal := none
  next : Nat := 0
  arts : List FArt := []
  deriving Repr

def fstep (g : Guard) (s : FSt) : FStep → FSt
  | .place u => { s with file := some (.user u) }
  | .remove => { s with file := none }
  | .build reuse =>
    let useFile := match g with
      | .flag => reuse
      | .fileExists => reuse || s.file.isSome
    if useFile then
      match s.file with
      | some v => { s with arts := ⟨reuse, v⟩ :: s.arts }
      | none => s                                  -- reuse requested but no file: the build fails, no artifact
    else
      let d := draw s.next
      { file := some (.chosen d.1), next := d.2, arts := ⟨reuse, .chosen d.1⟩ :: s.arts }

/-- `init` = what lies in the directory before the first build (nothing, or a file of the user) -/
def runF (g : Guard) (init : Option Nat) (h : List FStep) : List FArt :=
  (h.foldl (fstep g) { file := init.map .user }).arts

/-- The property for same-directory rebuilds: builds for which the user did not ask for reuse carry values SPSDK chose,
    pairwise different. -/
def SafeF (arts : List FArt) : Prop :=
  (∀ a ∈ arts, a.reuse = false → ∃ t, a.val = .chosen t) ∧
  (arts.filter (fun a => !a.reuse)).Pairwise (fun a b => a.val ≠ b.val)

end SpsdkVerif.Fresh
