/-
Phase-2 additions to the hand model of `spsdk/utils/misc.py` / `spsdk/utils/spsdk_enum.py`
(kept in a separate file: Model/Misc.lean is imported by many other properties and stays untouched).

  * `load_hex_string`, literal branch (bytes / int / hex-string literal, expected size)
  * `value_to_bool`
  * `BinaryPattern.__init__` acceptance and the `pattern` property
  * `split_data`
  * `SpsdkEnum` lookups over a member table `(tag, label, description)`

The string tables `binaryPatternSpecial` / `valueToBoolTrue` and two real enum tables are GENERATED from the source
(Generated/EnumTables.lean).  Tied to /repo by the C20 correspondence sweep (harness/props/C20.py).
-/
import SpsdkVerif.Model.Misc
import SpsdkVerif.Generated.EnumTables

namespace SpsdkVerif.Misc
open SpsdkVerif

/-! ### `load_hex_string(source, expected_size)` without the file branch -/

/-- the `source` argument -/
inductive HexSrc where
  | none
  | bytes (b : Bytes)
  | int (v : Int)
  | str (s : List Char)
  deriving Repr, DecidableEq

/-- `source.startswith(("0x", "0X"))` -/
def has0x : List Char → Bool
  | '0' :: 'x' :: _ => true
  | '0' :: 'X' :: _ => true
  | _ => false

def with0x (s : List Char) : List Char := if has0x s then s else '0' :: 'x' :: s

/-- `not source` -/
def HexSrc.falsy : HexSrc → Bool
  | .none => true
  | .bytes b => b.isEmpty
  | .int v => v == 0
  | .str s => s.isEmpty

/-- `load_hex_string` for a `source` that is not the name of an existing file.
    Result `none` = `random_bytes(expected_size)` (the value is not determined).
    A negative `int` source is refused with an SPSDK error (`get_bytes_cnt_of_int` raises since fix 55a6c57;
    before it the call never returned). -/
def loadHexString (src : HexSrc) (n : Int) : PyRes (Option Bytes) :=
  if src.falsy then (if n < 0 then .error .other else .ok none)
  else if n < 1 then .error .spsdk
  else match src with
    | .none => .ok none
    | .bytes b => if (b.length : Int) = n then .ok (some b) else .error .spsdk   -- unchanged, size enforced
    | .int v =>
      if v < 0 then .error .spsdk
      else (match valueToBytes v.toNat true n.toNat false with
            | .error e => .error e
            | .ok b => .ok (some b))
    | .str s =>
      match valueToInt (with0x s) with
      | none => .error .spsdk
      | some v =>
        (match valueToBytes v false n.toNat false with    -- `align_to_2n=False`: minimal width vs expected size
         | .error _ => .error .spsdk
         | .ok b => .ok (some b))

/-- width `value_to_bytes(v, align_to_2n=True)` needs (int sources only): minimal, from 3 on rounded up to a multiple of 4 (0 for 0) -/
def widthA (v : Nat) : Nat := if byteLen v > 2 then (byteLen v + 3) / 4 * 4 else byteLen v

/-- lower-case hex text of a byte string (`bytes.hex()`) -/
def hexCh (n : Nat) : Char := if n < 10 then Char.ofNat (48 + n) else Char.ofNat (87 + n)
def hexOf : Bytes → List Char
  | [] => []
  | x :: r => hexCh (x.toNat / 16) :: hexCh (x.toNat % 16) :: hexOf r

/-! ### `value_to_bool` -/

inductive BoolSrc where
  | none
  | bool (b : Bool)
  | int (i : Int)
  | str (s : List Char)
  deriving Repr, DecidableEq

def valueToBool : BoolSrc → Bool
  | .none => false
  | .bool b => b
  | .int i => i != 0
  | .str s => Generated.EnumTables.valueToBoolTrue.contains s

/-! ### `BinaryPattern` -/

/-- `BinaryPattern(pattern)` is constructed (no `SPSDKValueError`) -/
def patternAccept (p : List Char) : Bool :=
  (valueToInt p).isSome || Generated.EnumTables.binaryPatternSpecial.contains p

/-- hex digits of `v`, most significant first, no leading zero (`"0"` for 0); fuel `v` always suffices -/
def hexDigitsF : Nat → Nat → List Char → List Char
  | 0, _, acc => acc
  | f + 1, v, acc => if v < 16 then hexCh v :: acc else hexDigitsF f (v / 16) (hexCh (v % 16) :: acc)
def hexDigits (v : Nat) : List Char := hexDigitsF (v + 1) v []

/-- Python `hex(v)` for `v ≥ 0` -/
def pyHex (v : Nat) : List Char := '0' :: 'x' :: hexDigits v

/-- the `pattern` property: `hex(value_to_int(p))` for a number, else the name itself -/
def patternProp (p : List Char) : List Char :=
  match valueToInt p with
  | some v => pyHex v
  | none => p

/-! ### `split_data(data, size)` (the generator drained into a list) -/

def chunksF : Nat → Nat → Bytes → List Bytes
  | 0, _, _ => []
  | f + 1, n, d => if d.isEmpty then [] else d.take n :: chunksF f n (d.drop n)

/-- `range(0, len, 0)` is a `ValueError`; a negative step gives the empty range: the data is dropped. -/
def splitData (d : Bytes) (size : Int) : PyRes (List Bytes) :=
  if size = 0 then .error .other
  else if size < 0 then .ok []
  else .ok (chunksF d.length size.toNat d)

/-! ### `SpsdkEnum` lookups over a member table -/

/-- `(tag, label, description)` in definition order -/
abbrev EnumRow := Int × List Char × Option (List Char)

def upperCh (c : Char) : Char :=
  if 'a' ≤ c ∧ c ≤ 'z' then Char.ofNat (c.toNat - 32) else c

/-- ASCII `str.upper()` -/
def upper (s : List Char) : List Char := s.map upperCh

/-- `from_tag`: the first member with that tag, else `SPSDKKeyError` -/
def fromTag (E : List EnumRow) (t : Int) : PyRes EnumRow :=
  match E.find? (fun m => m.1 == t) with
  | some m => .ok m
  | none => .error .spsdk

/-- `from_label`: the first member whose label equals the argument up to case, else `SPSDKKeyError` -/
def fromLabel (E : List EnumRow) (l : List Char) : PyRes EnumRow :=
  match E.find? (fun m => upper m.2.1 == upper l) with
  | some m => .ok m
  | none => .error .spsdk

def getTag (E : List EnumRow) (l : List Char) : PyRes Int :=
  match fromLabel E l with | .ok m => .ok m.1 | .error e => .error e

def getLabel (E : List EnumRow) (t : Int) : PyRes (List Char) :=
  match fromTag E t with | .ok m => .ok m.2.1 | .error e => .error e

/-- `get_description(tag, default)`: `value.description or default` (an empty description is falsy) -/
def getDescription (E : List EnumRow) (t : Int) (dflt : Option (List Char)) : PyRes (Option (List Char)) :=
  match fromTag E t with
  | .ok m => .ok (match m.2.2 with
                  | some d => if d.isEmpty then dflt else some d
                  | none => dflt)
  | .error e => .error e

/-- `contains(obj)` for an int / str argument -/
def containsTag (E : List EnumRow) (t : Int) : Bool := (E.find? (fun m => m.1 == t)).isSome
def containsLabel (E : List EnumRow) (l : List Char) : Bool := (E.find? (fun m => upper m.2.1 == upper l)).isSome

/-- well-formed table: tags pairwise distinct, labels pairwise distinct up to case -/
def enumWF (E : List EnumRow) : Bool :=
  (E.map (·.1)).Nodup && (E.map (fun m => upper m.2.1)).Nodup

end SpsdkVerif.Misc
