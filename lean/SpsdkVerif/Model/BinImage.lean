/-
Hand-written executable model of `spsdk/utils/images.py::BinaryImage` (len, export, validate,
add_image / append_image), tied to /repo by the C16 tree correspondence (harness/props/C16.py).

Offsets are natural numbers here; a negative offset is refused by `validate()` before anything
else and is covered by the oracle stream only.
-/
import SpsdkVerif.Base.Py
import SpsdkVerif.Model.Misc

namespace SpsdkVerif.BinImg
open SpsdkVerif SpsdkVerif.Misc

inductive Img where
  | mk (size : Nat) (offset : Nat) (alignment : Nat) (binary : Option Bytes)
       (pattern : Option Pattern) (children : List Img)
  deriving Repr

namespace Img
def size : Img → Nat | .mk s _ _ _ _ _ => s
def offset : Img → Nat | .mk _ o _ _ _ _ => o
def alignment : Img → Nat | .mk _ _ a _ _ _ => a
def binary : Img → Option Bytes | .mk _ _ _ b _ _ => b
def pattern : Img → Option Pattern | .mk _ _ _ _ p _ => p
def children : Img → List Img | .mk _ _ _ _ _ c => c
end Img

/-- `len(self.binary) if self.binary else 0` (an empty `bytes` is falsy) -/
def binLen : Option Bytes → Nat
  | some b => b.length
  | none => 0

def patBlock (p : Option Pattern) (n : Nat) : Bytes :=
  match p with
  | some p => p.block n
  | none => List.replicate n 0

mutual
/-- `BinaryImage.__len__` : explicit size, or the aligned extent of own binary and children -/
def Img.len : Img → Nat
  | .mk size _ al bin _ ch =>
    if size ≠ 0 then size else alignNat (max (binLen bin) (childrenEnd ch)) al
def childrenEnd : List Img → Nat
  | [] => 0
  | c :: cs => max (c.offset + c.len) (childrenEnd cs)
end

/-- overwrite `buf[off : off+d.length]` with `d` (memoryview slice assignment); a size mismatch
    (child sticking out of the buffer) is a `ValueError`. -/
def blit (buf : Bytes) (off : Nat) (d : Bytes) : PyRes Bytes :=
  if d.isEmpty then .ok buf
  else if off + d.length ≤ buf.length then .ok (buf.take off ++ d ++ buf.drop (off + d.length))
  else .error .other

/-- pattern-filled buffer with the own binary at 0 (`ret[:len(binary)] = binary` may *grow* the buffer) -/
def ownBuf (L : Nat) (bin : Option Bytes) (pat : Option Pattern) : Bytes :=
  let base := patBlock pat L
  match bin with
  | some b => if b.isEmpty then base else b ++ base.drop b.length
  | none => base

/-- final `align_block(ret, alignment, pattern)` -/
def finishExport (al : Nat) (pat : Option Pattern) (r : PyRes Bytes) : PyRes Bytes :=
  match r with
  | .error e => .error e
  | .ok buf =>
    if al = 0 then .error .spsdk
    else .ok (buf ++ patBlock pat (alignNat buf.length al - buf.length))

mutual
/-- `BinaryImage.export()` -/
def Img.export : Img → PyRes Bytes
  | .mk size off al bin pat ch =>
    let L := (Img.mk size off al bin pat ch).len
    match bin, ch with
    | some b, [] =>
      if !b.isEmpty && L == b.length then .ok b
      else finishExport al pat (.ok (ownBuf L (some b) pat))
    | bin, ch => finishExport al pat (placeChildren ch (ownBuf L bin pat))
def placeChildren : List Img → Bytes → PyRes Bytes
  | [], buf => .ok buf
  | c :: cs, buf =>
    match c.export with
    | .error e => .error e
    | .ok d => match blit buf c.offset d with
      | .error e => .error e
      | .ok buf' => placeChildren cs buf'
end

/-- sibling check of `validate()` for child `c` against the list `sibs` (identity `sibling != image`
    is modelled by position: the harness never shares one object twice) -/
def overlapsAny (cBegin cLen : Nat) : List (Nat × Nat) → Bool
  | [] => false
  | (sb, sl) :: rest =>
    -- Python: end = begin + len - 1 (may be begin-1 for empty); continue iff end < sb or begin > sibling_end
    let cEnd : Int := cBegin + cLen - 1
    let sEnd : Int := sb + sl - 1
    if cEnd < sb ∨ (cBegin : Int) > sEnd then overlapsAny cBegin cLen rest else true

/-- result of `validate()`: ok, or the class of the first error raised -/
inductive VErr where
  | sticksOut | overlap
  deriving Repr, DecidableEq

mutual
def Img.validate : Img → Except VErr Unit
  | .mk size off al bin pat ch =>
    if binLen bin > (Img.mk size off al bin pat ch).len then .error .sticksOut   -- own binary exceeds the size
    else validateChildren ((Img.mk size off al bin pat ch).len) ch [] ch
/-- iterate children in order: child.validate(), fit check, sibling check (against all other children) -/
def validateChildren (parentLen : Nat) (all : List Img) : List Img → List Img → Except VErr Unit
  | _, [] => .ok ()
  | before, c :: rest =>
    match c.validate with
    | .error e => .error e
    | .ok () =>
      let b := c.offset
      let l := c.len
      if (b : Int) + l - 1 ≥ parentLen then .error .sticksOut
      else if overlapsAny b l ((before ++ rest).map (fun s => (s.offset, s.len))) then .error .overlap
      else validateChildren parentLen all (before ++ [c]) rest
end

/-- `add_image`: insert before the first child with a larger offset (keeps children sorted, stable) -/
def insertSorted (c : Img) : List Img → List Img
  | [] => [c]
  | x :: xs => if c.offset < x.offset then c :: x :: xs else x :: insertSorted c xs

def Img.addImage (p c : Img) : Img :=
  match p with
  | .mk s o a b pt ch => .mk s o a b pt (insertSorted c ch)

def Img.withOffset (c : Img) (o : Nat) : Img :=
  match c with
  | .mk s _ a b pt ch => .mk s o a b pt ch

/-- `append_image`: offset := current length of the parent, then `add_image` -/
def Img.appendImage (p c : Img) : Img := p.addImage (c.withOffset p.len)

end SpsdkVerif.BinImg
