/-
EdgeLock-enclave v2 debug credential (`DebugCredentialEdgeLockEnclaveV2`): an AHAB certificate
(`spsdk/image/ahab/ahab_certificate.py`) whose permission data carries SoC class ‖ CC_SOCU ‖ beacon.

  certificate = head (40) ‖ SRK record 0 ‖ SRK data 0 ‖ signature container
  head        = version(2) length(LE16) tag(0xAF) signature_offset(LE16) ~perm perm permission_data(12) fuse_version 0 0(LE16) uuid(16)
  signature container = version(0) length(LE16) tag(0xD8) 0(LE32) ‖ signature
  signed data = everything before the signature container

Byte widths, tags and versions come from C06's `Generated/AhabConsts.lean` (read-only import); the argument order of the
`pack` call, the unpack targets of `parse`, the permission-data layout and the `socc=` argument of the wrapper's initializer
from `Generated/DatConsts.lean`.  The key block (SRK record v2 ‖ SRK data) is opaque and self-delimiting through a `KeyOracle`
(driver: `keyWalk`, a walker over the two container headers); a second key set (PQC) is outside the model: `parseCert`
answers `.ok none` when there is room for one.  Tied to /repo by the `ele_v2` stream of harness/props/C15.py.
-/
import SpsdkVerif.Model.Dat
import SpsdkVerif.Generated.AhabConsts

namespace SpsdkVerif.DatV2
open SpsdkVerif SpsdkVerif.Misc SpsdkVerif.Dat
open SpsdkVerif.Crypto (HashAlg SigAlg CryptoOps CryptoLaws PrivKey PubKey Rand)
open SpsdkVerif.Generated

/-- `AhabCertificate` with one key set -/
structure Cert where
  /-- `length` / `signature_offset`: set by `update_fields()` or taken from the parsed header -/
  length : Nat
  sigOffset : Nat
  permissions : Nat
  permData : Bytes
  fuseVersion : Nat
  uuid : Bytes
  /-- `public_key_0.export() ‖ public_key_0.srk_data.export()` -/
  key0 : Bytes
  /-- `signature_0.signature_data` -/
  sig0 : Bytes
  deriving DecidableEq, Repr, Inhabited

def headSize : Nat := AhabConsts.certificateLayout.size
def sigHeadSize : Nat := AhabConsts.signatureLayout.size

/-- `len(ContainerSignature)` -/
def sigContainerLen (s : Bytes) : Nat := if s.isEmpty then 0 else sigHeadSize + s.length

/-- `ContainerSignature.export()` (its `length` field is the one `update_fields`/`parse` left there: header + data) -/
def sigContainer (s : Bytes) : PyRes Bytes :=
  if s.isEmpty then .ok [] else
  if sigHeadSize + s.length < 65536 then
    .ok ([UInt8.ofNat AhabConsts.signatureVersion] ++ leEnc 2 (sigHeadSize + s.length) ++ [UInt8.ofNat AhabConsts.signatureTag] ++
      leEnc 4 AhabConsts.reserved ++ s)
  else .error .other

/-- the packed head: `pack(format(), version, length, tag, signature_offset, ~perm & 0xFF, perm, extend(permission_data, 12),
    fuse_version, 0, 0, extend(uuid, 16))` -/
def certHead (c : Cert) : PyRes Bytes :=
  if c.permData.length > DatConsts.certPermDataSize ∨ c.uuid.length > DatConsts.certUuidSize then .error .spsdk   -- extend_block
  else if c.length < 65536 ∧ c.sigOffset < 65536 ∧ c.permissions < 256 ∧ c.fuseVersion < 256 then
    .ok ([UInt8.ofNat AhabConsts.certificateVersion] ++ (leEnc 2 c.length ++ ([UInt8.ofNat AhabConsts.certificateTag] ++
      (leEnc 2 c.sigOffset ++ ([UInt8.ofNat (255 - c.permissions)] ++ ([UInt8.ofNat c.permissions] ++
      (fitS DatConsts.certPermDataSize c.permData ++ ([UInt8.ofNat c.fuseVersion] ++ ([0] ++ (leEnc 2 0 ++
      fitS DatConsts.certUuidSize c.uuid))))))))))
  else .error .other

/-- `get_signature_data()` -/
def signedData (c : Cert) : PyRes Bytes :=
  match certHead c with
  | .ok h => .ok (h ++ c.key0)
  | .error e => .error e

/-- `export()`: signed data ‖ signature container, refused when the stored `length` is not the real one -/
def exportCert (c : Cert) : PyRes Bytes :=
  match signedData c, sigContainer c.sig0 with
  | .ok d, .ok s => if c.length ≠ d.length + s.length then .error .spsdk else .ok (d ++ s)
  | .error e, _ => .error e
  | _, .error e => .error e

/-- `update_fields()` for a signature provider whose signatures have `sigLen` bytes: lengths first, then the signature
    over the signed data (which contains those lengths) -/
def updateLengths (sigLen : Nat) (c : Cert) : Cert :=
  { c with length := headSize + c.key0.length + (sigHeadSize + sigLen), sigOffset := headSize + c.key0.length }

def signCert (cr : CryptoOps) (a : SigAlg) (sk : PrivKey) (rnd : Rand) (sigLen : Nat) (c : Cert) : PyRes Cert :=
  let c' := updateLengths sigLen c
  match signedData c' with
  | .ok d => .ok { c' with sig0 := cr.sign a sk d rnd }
  | .error e => .error e

/-- length of the key block (SRK record v2 ‖ SRK data) at the head of a buffer; `none` = refused -/
abbrev KeyOracle := Bytes → Option Nat

/-- executable oracle: `E1 len16 …` record followed by `00 len16 5D …` SRK data -/
def keyWalk : KeyOracle := fun d =>
  if d.length < 4 then none else
  if (d.getD 0 0).toNat ≠ AhabConsts.srkRecordTag then none else
  let rl := leDec ((d.drop 1).take 2)
  if rl < AhabConsts.srkRecordV2Layout.size ∨ d.length < rl + 4 then none else
  let e := d.drop rl
  let dl := leDec ((e.drop 1).take 2)
  if (e.getD 0 0).toNat ≠ 0 ∨ (e.getD 3 0).toNat ≠ 93 ∨ dl < AhabConsts.srkDataLayout.size ∨ e.length < dl then none
  else some (rl + dl)

/-- `check_container_head`: enough bytes for the fixed part, tag, version, declared length available -/
def headOk (fixed tag version : Nat) (d : Bytes) : Bool :=
  decide (fixed ≤ d.length) && (d.getD 3 0).toNat == tag && (d.getD 0 0).toNat == version &&
    decide (leDec ((d.drop 1).take 2) ≤ d.length)

/-- `ContainerSignature.parse(data)` → signature data -/
def parseSigContainer (d : Bytes) : PyRes Bytes :=
  if !headOk sigHeadSize AhabConsts.signatureTag AhabConsts.signatureVersion d then .error .spsdk
  else .ok ((d.take (leDec ((d.drop 1).take 2))).drop sigHeadSize)

/-- the fields of the 40-byte head, read sequentially (`headOk` has established that they are there) -/
structure HeadFields where
  length : Nat
  sigOffset : Nat
  inv : Nat
  perm : Nat
  permData : Bytes
  fuse : Nat
  uuid : Bytes

def byteVal (b : Bytes) : Nat := (b.getD 0 0).toNat

def readHead (d : Bytes) : PyRes (HeadFields × Bytes) := do
  let (_, d) ← rd 1 d
  let (bLen, d) ← rd 2 d
  let (_, d) ← rd 1 d
  let (bSo, d) ← rd 2 d
  let (bInv, d) ← rd 1 d
  let (bPerm, d) ← rd 1 d
  let (permData, d) ← rd DatConsts.certPermDataSize d
  let (bFuse, d) ← rd 1 d
  let (_, d) ← rd 3 d
  let (uuid, d) ← rd DatConsts.certUuidSize d
  pure (⟨leDec bLen, leDec bSo, byteVal bInv, byteVal bPerm, permData, byteVal bFuse, uuid⟩, d)

/-- `AhabCertificate.parse(data)`; `.ok none` = a second key set follows (not modelled).
    The declared length is compared with signature offset + signature container. -/
def parseCert (ko : KeyOracle) (d : Bytes) : PyRes (Option Cert) :=
  if !headOk headSize AhabConsts.certificateTag AhabConsts.certificateVersion d then .error .spsdk else
  match readHead d with
  | .error _ => .error .spsdk
  | .ok (h, rest) =>
    if h.inv ≠ 255 - h.perm then .error .spsdk else
    match ko rest with
    | none => .error .spsdk
    | some kl =>
      if headSize + kl < h.sigOffset then .ok none else
      match parseSigContainer (d.drop h.sigOffset) with
      | .error e => .error e
      | .ok s =>
        -- the declared length must be signature offset + signature container
        if h.length ≠ h.sigOffset + sigContainerLen s then .error .spsdk else
        .ok (some { length := h.length, sigOffset := h.sigOffset, permissions := h.perm, permData := h.permData,
                    fuseVersion := h.fuse, uuid := h.uuid, key0 := rest.take kl, sig0 := s })

/-! ### the credential wrapper -/

def permSocc (p : Bytes) : Nat := leDec (p.take 4)
def permSocu (p : Bytes) : Nat := leDec ((p.drop 4).take 4)
def permBeacon (p : Bytes) : Nat := leDec ((p.drop 8).take 4)

/-- `pack("<LLL", socc, socu, beacon)` -/
def permPack (socc socu beacon : Nat) : Bytes := leEnc 4 socc ++ (leEnc 4 socu ++ leEnc 4 beacon)

/-- `DebugCredentialEdgeLockEnclaveV2(certificate)`: the base initializer assigns `self.socc = <socc argument>`, a property
    that rewrites the permission data as `pack("<LLL", value, self.socu, self.beacon)`; the argument follows the source. -/
def wrap (c : Cert) : PyRes Cert :=
  if c.permData.length < 12 then .error .other     -- struct.error in the `socu` / `beacon` getters
  else
    let arg : Option Nat :=
      if DatConsts.v2CtorKeepsSocc then some (permSocc c.permData)
      else if DatConsts.v2CtorZeroesSocc then some 0 else none
    match arg with
    | none => .error .other
    | some a => .ok { c with permData := permPack a (permSocu (c.permData.take 12)) (permBeacon (c.permData.take 12)) }

/-- `create_from_yaml_config`: permissions = debug, permission data = socc ‖ cc_socu ‖ 0 (for a SoC class whose low byte
    is not zero `value_to_bytes` keeps the 12 bytes — true for every EdgeLock v2 row, see `gen_v2_rows`) -/
def create (socc socu fuse : Nat) (uuid key0 : Bytes) : PyRes Cert :=
  wrap { length := 0, sigOffset := 0, permissions := DatConsts.certPermDebug, permData := permPack socc socu 0,
         fuseVersion := fuse, uuid, key0, sig0 := [] }

/-- `DebugCredentialCertificate.parse` for an EdgeLock v2 credential -/
def parseV2 (ko : KeyOracle) (d : Bytes) : PyRes (Option Cert) :=
  match parseCert ko d with
  | .ok (some c) => match wrap c with | .ok c' => .ok (some c') | .error e => .error e
  | .ok none => .ok none
  | .error e => .error e

/-- a signed one-key certificate as `update_fields()` leaves it -/
structure WFCert (ko : KeyOracle) (c : Cert) : Prop where
  perm : c.permissions < 256
  fuse : c.fuseVersion < 256
  permData : c.permData.length = 12
  uuid : c.uuid.length = 16
  sigNe : c.sig0 ≠ []
  sigOffset : c.sigOffset = headSize + c.key0.length
  length : c.length = headSize + c.key0.length + (sigHeadSize + c.sig0.length)
  small : c.length < 65536
  key : ∀ rest, ko (c.key0 ++ rest) = some c.key0.length

end SpsdkVerif.DatV2
