/-
C08 phase 2: hand-written executable model of the DECISION logic SPSDK wraps around `cryptography` objects
(spsdk/crypto/certificate.py, spsdk/crypto/utils.py, spsdk/crypto/signature_provider.py, nxpcrypto `reconstruct_key`):
attempt orders ("which failure falls through to which next attempt"), the trailing-zero stripping of `Certificate.parse`,
chain walking, the parameters `Certificate.validate` hands to `verify_signature`, key-index matching, the
`SignatureProvider.create` parameter filtering that decides whether `pss_padding` reaches `PlainFileSP`, and the
signature lengths announced by the providers.  Decoders / verifiers are parameters.
Tied to /repo by the `cert_layer`, `sigprovider_plumbing` and `cli_raw_keys` streams of harness/props/C08.py.
-/
import SpsdkVerif.Model.Keys

namespace SpsdkVerif.Keys
open SpsdkVerif SpsdkVerif.Misc
open SpsdkVerif.Generated

/-! ### attempt chains: `try: return A() except SPSDKError: pass; try: return B() …` -/

/-- outcome of one decoder: a value, an `SPSDKError` (falls through to the next attempt), any other exception (escapes) -/
inductive Try (α : Type) where
  | ok (a : α)
  | spsdk
  | other
  deriving DecidableEq, Repr

/-- the first decoder that accepts wins; a non-SPSDK exception escapes; if all refuse the result is an SPSDK error -/
def firstAccept {α : Type} : List (Try α) → PyRes α
  | [] => .error .spsdk
  | .ok a :: _ => .ok a
  | .other :: _ => .error .other
  | .spsdk :: rest => firstAccept rest

/-- `utils.extract_public_key_from_data`: certificate, then private key, then public key -/
def extractPublicKey {α : Type} (cert priv pub : Try α) : PyRes α := firstAccept [cert, priv, pub]

/-- `utils.get_matching_key_id` / `get_matching_key_id_from_signature`: index of the first key that matches -/
def firstTrueFrom : Nat → List Bool → PyRes Nat
  | _, [] => .error .spsdk
  | i, true :: _ => .ok i
  | i, false :: rest => firstTrueFrom (i + 1) rest

def matchingKeyId (ms : List Bool) : PyRes Nat := firstTrueFrom 0 ms

/-! ### `Certificate.parse` / `export(NXP)` -/

/-- `x509.load_der_x509_certificate(data)` as seen by SPSDK: a certificate, the `ExtraData` error, any other `ValueError` -/
inductive LoadRes (γ : Type) where
  | ok (c : γ)
  | extraData
  | fail
  deriving DecidableEq, Repr

/-- the `while True` loop of `load_der_certificate`: strip one trailing zero byte per `ExtraData` error (fuel = length) -/
def certLoadDerF {γ : Type} (load : Bytes → LoadRes γ) : Nat → Bytes → PyRes γ
  | fuel, data =>
    match load data with
    | .ok c => .ok c
    | .fail => .error .spsdk
    | .extraData =>
      if data.getLast? = some 0 then
        (match fuel with
         | 0 => .error .spsdk
         | f + 1 => certLoadDerF load f data.dropLast)
      else .error .spsdk

/-- the retry loop in the general form the generator can express (`Generated.KeysTables.certPad…`): one trailing byte out of `pad` is
    removed per failed attempt; `needsExtra = false` = the retry does not ask for the loader's `ExtraData` error kind (any `ValueError`) -/
def certLoadDerG {γ : Type} (needsExtra : Bool) (pad : List Nat) (load : Bytes → LoadRes γ) : Nat → Bytes → PyRes γ
  | fuel, data =>
    let retry : PyRes γ :=
      match data.getLast? with
      | some b =>
        if pad.contains b.toNat then
          (match fuel with
           | 0 => .error .spsdk
           | f + 1 => certLoadDerG needsExtra pad load f data.dropLast)
        else .error .spsdk
      | none => .error .spsdk
    match load data with
    | .ok c => .ok c
    | .fail => if needsExtra then .error .spsdk else retry
    | .extraData => retry

/-- `data.rstrip(pad)` -/
def rstripBytes (pad : List Nat) (data : Bytes) : Bytes :=
  (data.reverse.dropWhile (fun b => pad.contains b.toNat)).reverse

/-- the variant "strip every trailing pad byte, then load once" (NOT what the code does: generated mode 1) -/
def certLoadDerStrip {γ : Type} (pad : List Nat) (load : Bytes → LoadRes γ) (data : Bytes) : PyRes γ :=
  match load (rstripBytes pad data) with
  | .ok c => .ok c
  | _ => .error .spsdk

/-- `load_der_certificate(data)` of `Certificate.parse`, in the form the generator found in the source:
    mode 0 = the retry loop (pad byte and error-kind test as generated), mode 1 = unconditional strip. -/
def certLoadDer {γ : Type} (load : Bytes → LoadRes γ) (data : Bytes) : PyRes γ :=
  if KeysTables.certPadMode = 0 then
    certLoadDerG KeysTables.certPadNeedsExtraData KeysTables.certPadBytes load data.length data
  else certLoadDerStrip KeysTables.certPadBytes load data

/-! #### the DER loader as SPSDK sees it: the DECLARED length of the outer SEQUENCE decides between "too short", the element itself and
    `ExtraData` (rust-asn1 `parse_single`: read one element — tag, definite minimal length of at most four octets, content — then
    `ExtraData` if anything is left; checks made on the parsed certificate afterwards (`body`) are reached only without extra data) -/

/-- total length (header + content) the leading SEQUENCE header declares; `none` = not a SEQUENCE header the decoder reads -/
def derTotalLen : Bytes → Option Nat
  | [] => none
  | t :: rest =>
    if t ≠ 0x30 then none
    else match readLen rest with
      | none => none
      | some (l, rest') => some (1 + (rest.length - rest'.length) + l)

/-- what the decoder says about the CONTENT of one complete element: a Certificate structure, an `ExtraData` error raised INSIDE the
    element (a nested SEQUENCE whose fields end before its declared end — same error kind as trailing data), any other parse error -/
inductive SynRes where
  | ok | extra | bad
  deriving DecidableEq, Repr

/-- `x509.load_der_x509_certificate(data)`: `syn el` = the decoder's verdict on the element, `body el` = the certificate object
    (after the post-parse checks: version, …; reached only when nothing follows the element) -/
def derLoad {γ : Type} (syn : Bytes → SynRes) (body : Bytes → Option γ) (data : Bytes) : LoadRes γ :=
  match derTotalLen data with
  | none => .fail
  | some n =>
    if data.length < n then .fail
    else match syn (data.take n) with
      | .bad => .fail
      | .extra => .extraData
      | .ok =>
        if n < data.length then .extraData
        else match body data with
          | some c => .ok c
          | none => .fail

/-- `Certificate.parse(data)`: PEM loader for text containing `----`, else the stripping DER loader; `ValueError` → SPSDKError -/
def certParse {γ : Type} (loadPem : Bytes → Option γ) (load : Bytes → LoadRes γ) (data : Bytes) : PyRes γ :=
  if fileEncoding data = .pem then
    (match loadPem data with | some c => .ok c | none => .error .spsdk)
  else certLoadDer load data

/-- `Certificate.export(NXP)` = `align_block(DER, 4, "zeros")`; `raw_size` is its length -/
def certExportNxp (der : Bytes) : Bytes := der ++ List.replicate ((4 - der.length % 4) % 4) 0
def certRawSize (der : Bytes) : Nat := (certExportNxp der).length

/-! ### chains -/

/-- `validate_certificate_chain(chain)`: `chain[i].validate(chain[i+1])` for every adjacent pair (subject first, issuer next) -/
def validateChain {γ : Type} (valid : γ → γ → Bool) (chain : List γ) : PyRes (List Bool) :=
  if chain.length ≤ 1 then .error .spsdk else .ok (List.zipWith valid chain chain.tail)

/-- `validate_ca_flag_in_cert_chain(chain)` = `chain[0].ca` (`IndexError` on an empty list) -/
def chainCaFlag {γ : Type} (ca : γ → Bool) : List γ → PyRes Bool
  | [] => .error .other
  | c :: _ => .ok (ca c)

/-- signature algorithm of a certificate as far as SPSDK's verification parameters are concerned -/
inductive CertAlg where
  | rsaV15 | rsaPss | ecdsa
  deriving DecidableEq, Repr

/-- parameters of the `verify_signature` call made by `Certificate.validate` / `validate_subject` -/
structure VerifyCall where
  pss : Bool
  hash : String
  deriving DecidableEq, Repr

/-- the hash comes from the certificate and `pss_padding` is "the certificate's signature algorithm is RSASSA-PSS"
    (since commit 10a0142; before, `pss_padding` was never passed) -/
def certValidateCall (alg : CertAlg) (hash : String) : VerifyCall := ⟨alg == .rsaPss, hash⟩

/-- what the call should be for the signature to be checked "with the same parameters" -/
def certValidateSpec (alg : CertAlg) (hash : String) : VerifyCall := ⟨alg == .rsaPss, hash⟩

/-! ### signature provider plumbing -/

/-- a parameter value: a string (from the `k=v;…` configuration string) or a real boolean (from `**kwargs` of the caller) -/
inductive PVal where
  | str (s : String)
  | bool (b : Bool)
  deriving DecidableEq, Repr

/-- Python truthiness: every non-empty string is true — including `"False"` -/
def PVal.truthy : PVal → Bool
  | .str s => s != ""
  | .bool b => b

abbrev Params := List (String × PVal)

/-- `SignatureProvider.filter_params(klass, params)`: a key is deleted iff it is reserved and is not among
    `klass.__init__.__code__.co_varnames` -/
def filterParams (varnames reserved : List String) (params : Params) : Params :=
  params.filter (fun p => !(reserved.contains p.1 && !varnames.contains p.1))

/-- `co_varnames` of `PlainFileSP.__init__`: self, the named parameters, the `**kwargs` name (no further locals) -/
def plainFileVarnames : List String := "self" :: KeysTables.plainFileInitParams ++ [KeysTables.plainFileKwargsName]
def proxyVarnames : List String := "self" :: KeysTables.proxyInitParams ++ [KeysTables.proxyKwargsName]

/-- `utils.misc.value_to_bool`: a string is true iff it is one of "True", "true", "T", "1"; anything else by truthiness -/
def valueToBool : PVal → Bool
  | .str s => ["True", "true", "T", "1"].contains s
  | .bool b => b

/-- `PlainFileSP.__init__`: `sign_kwargs` = the keywords that are not named parameters, plus — when the named parameter
    `pss_padding` was given — `pss_padding = value_to_bool(…)` (appended last) -/
def plainFileInitKwargs (bound : Params) : Params :=
  bound.filter (fun p => !KeysTables.plainFileInitParams.contains p.1) ++
    (if KeysTables.plainFileInitParams.contains "pss_padding" then
       (match bound.lookup "pss_padding" with
        | some v => [("pss_padding", .bool (valueToBool v))]
        | none => [])
     else [])

/-- keyword arguments `PlainFileSP.sign` forwards to `private_key.sign` after `SignatureProvider.create(params)` -/
def plainFileSignKwargs (params : Params) : Params :=
  plainFileInitKwargs (filterParams plainFileVarnames KeysTables.spReservedKeys params)

/-- does a provider created through `get_signature_provider(sp_cfg=…, **kwargs)` sign with PSS?
    (`private_key.sign(pss_padding=…)` tests truthiness) -/
def createdUsesPss (params : Params) : Bool :=
  match (plainFileSignKwargs params).lookup "pss_padding" with
  | some v => v.truthy
  | none => false

/-- the `local_file_key=` path builds `InteractivePlainFileSP(file_path, **kwargs)` directly: nothing is filtered -/
def localFileUsesPss (kwargs : Params) : Bool :=
  match (plainFileInitKwargs kwargs).lookup "pss_padding" with
  | some v => v.truthy
  | none => false

/-- `signature_length` of `PlainFileSP` = `private_key.signature_size` -/
def rsaSigLen (keySize : Nat) : Nat := KeysTables.rsaSignatureSize keySize
def eccSigLen (c : Curve) : Nat := c.sigSize

/-! ### raw key files of the nxpcrypto CLI (`key convert -e RAW`, `reconstruct_key`) -/

inductive RawKey where
  | priv (c : Curve) (d : Nat)
  | pub (c : Curve) (x y : Nat)
  deriving DecidableEq, Repr

/-- `key convert -e RAW`: `d` resp. `x ‖ y` on `coordinate_size` bytes -/
def cliRawPrivate (c : Curve) (d : Nat) : PyRes Bytes := toBytes c.cl d
def cliRawPublic (c : Curve) (x y : Nat) : PyRes Bytes := rawPair c.cl x y

/-- the last stage of `reconstruct_key` (after `PrivateKey.parse` and `PublicKey.parse` refused): curve from the length,
    "everything under 49 bytes is a private key, and so are the 66 bytes of secp521r1", public keys of exactly 64 / 96 bytes,
    else SPSDKError.
    `privOk c d` = `ec.derive_private_key(d, curve)` succeeds (1 ≤ d < n; else `ValueError`, not converted);
    `onCurve` as in `Ext` (`PublicKeyEcc.recreate` converts the `ValueError`). -/
def reconstructRaw (privOk : Curve → Nat → Bool) (onCurve : Curve → Nat → Nat → Bool) (data : Bytes) : PyRes RawKey :=
  match (KeysTables.keyLenCurve data.length).bind Curve.ofName with
  | none => .error .spsdk
  | some c =>
    if data.length ≤ 48 ∨ data.length = 66 then
      (if privOk c (beDec data) then .ok (.priv c (beDec data)) else .error .other)
    else if data.length = 64 ∨ data.length = 96 then
      let h := data.length / 2
      (if onCurve c (beDec (data.take h)) (beDec (data.drop h)) then .ok (.pub c (beDec (data.take h)) (beDec (data.drop h)))
       else .error .spsdk)
    else .error .spsdk

/-- `reconstruct_key(data)`: `PrivateKey.parse`, `PublicKey.parse`, then the raw stage -/
def reconstructKey {α : Type} (privParse pubParse : Try α) (raw : PyRes α) : PyRes α :=
  match firstAccept [privParse, pubParse] with
  | .ok k => .ok k
  | .error .other => .error .other
  | .error .spsdk => raw

end SpsdkVerif.Keys
