/-
C18 — model of SPSDK's on-disk database caches (`spsdk/utils/database.py`).

Two cache files exist (quick-info cache, per-data-folder config cache).  Each is used by one *loader*
(`DatabaseManager._get_quick_info_db` / `Database.DatabaseData.__init__`) and one *writer* (the store at
the end of `_get_quick_info_db` / `DatabaseData.make_cache`).  Both pairs are instances of ONE protocol,
transcribed here as a small-step program over atomic actions on the shared file system; what differs
between the two (caught exception classes, what is inside `with FileLock`, whether stale files are
removed, whether the writer merges an existing file, …) is read from `Guards`, which
`Generated/CacheGuards.lean` fills from the AST of the current source.

    loader:  exists? → acquire → open('rb') → pickle.load → release → isinstance? → fingerprint compare
             → trusted | stale (→ remove) | exception (→ caught: handler [→ exists?] → remove | not caught: FATAL)
    queries: answer from memory; on a miss load the file from the data folder and run the writer
    writer:  acquire → [exists? → open('rb') → pickle.load → isinstance? → merge] → open('wb') → pickle.dump → release
             (every exception inside is caught by the writer's `try`)

External behaviour is a parameter (`Env`): `pickle`, `unpickle` (no assumption here; the theorems state
theirs), what a full load of a data file yields (`loadCfg`), and the fingerprint of the current data files.

A *crash* (SIGKILL) stops a process after any action; the OS then drops its lock; a process killed inside
`pickle.dump` leaves an arbitrary prefix.  A *schedule* is a list of labels `run i | crash i n`.
I/O errors (`Lbl.fail`): taking the lock, `open` and `pickle.dump` may raise a class of `ioExcs` at any time.
`Lbl.wipe`: a cache-disabled SPSDK process removes the whole cache folder (file and lock file unlinked).
Not modelled: directory state (a vanished folder shows up as `fail` steps), data files changing while
processes run, inode identity after a `wipe` (two writers on one inode: the model writes `garbage`).
-/
import SpsdkVerif.Base.CacheGuardTypes

namespace SpsdkVerif.DbCache
open SpsdkVerif

abbrev Bytes := List UInt8

/-- A pickled cache object: its class, the stored fingerprint (`db_hash`) and its entries
    (config cache: file ↦ parsed content; quick-info cache: one entry for the whole index). -/
structure Val where
  ty : Nat
  fp : Nat
  ents : List (Nat × Nat)
  deriving DecidableEq, Repr, Inhabited

inductive Outcome where
  | ok (v : Val)
  | raises (e : Exc)
  deriving DecidableEq, Repr, Inhabited

/-- Everything outside the modelled code. -/
structure Env where
  pickle : Val → Bytes
  unpickle : Bytes → Outcome
  /-- what loading data file `k` from the data folder yields *now* (the answer with the cache disabled) -/
  loadCfg : Nat → Nat
  /-- fingerprint (`hash_db_data` / `get_quick_info_hash`) of the *current* data files for a key list -/
  fpOf : List Nat → Nat
  /-- class id the loader's `isinstance` check expects -/
  expectedTy : Nat
  /-- unknown bytes: what an unsynchronised in-place write over somebody else's data leaves -/
  garbage : Bytes

structure Guards where
  l : LoaderGuards
  w : WriterGuards

/-- how a `with FileLock` block is left -/
inductive Cont where
  | normal
  | exc (e : Exc)
  deriving DecidableEq, Repr, Inhabited

inductive PC where
  | lExists | lAcquire | lOpen | lUnpickle | lRelease (c : Cont) | lRemoveStale | hExists | hRemove
  | wAcquire | wExists | wOpenR | wUnpickle | wTrunc | wWrite | wRelease (c : Cont)
  | done | fatal (e : Exc) | crashed
  deriving DecidableEq, Repr, Inhabited

structure Proc where
  pc : PC
  /-- the variable holding the unpickled object (`loaded_db` / `loaded_db_data`) -/
  loaded : Option Val := none
  /-- content of the file handle opened by `open('rb')` -/
  buf : Bytes := []
  /-- `cfg_cache` in memory -/
  mem : List (Nat × Nat) := []
  /-- `self.db_hash` (`none` = `b""`) -/
  selfFp : Option Nat := none
  /-- queries still to be answered -/
  todo : List Nat := []
  /-- answers given so far -/
  answers : List (Nat × Nat) := []
  /-- all queries of this process (constant) -/
  asked : List Nat := []
  deriving DecidableEq, Repr, Inhabited

/-- shared state: one cache file and its lock -/
structure Sh where
  file : Option Bytes
  lock : Option Nat
  deriving DecidableEq, Repr, Inhabited

def keys (m : List (Nat × Nat)) : List Nat := m.map Prod.fst

def PC.terminal : PC → Bool
  | .done | .fatal _ | .crashed => true
  | _ => false

/-! ### program text -/

def afterWAcquire (G : Guards) : PC :=
  if G.w.mergesExisting then (if G.w.mergeExistsGuard then .wExists else .wOpenR) else .wTrunc

def writerStart (G : Guards) : PC := if G.w.lockWrite then .wAcquire else afterWAcquire G

/-- `load_db_cfg_file` for the remaining queries: hits are answered from memory; the first miss loads
    the file, and starts `make_cache` unless the fingerprint is unchanged. -/
def runQueries (env : Env) (G : Guards) (p : Proc) : List Nat → Proc
  | [] => { p with pc := .done, todo := [] }
  | k :: rest =>
    match p.mem.lookup k with
    | some c => runQueries env G { p with answers := p.answers ++ [(k, c)] } rest
    | none =>
      let c := env.loadCfg k
      let mem := p.mem ++ [(k, c)]
      let fp := env.fpOf (keys mem)
      let p' := { p with mem := mem, answers := p.answers ++ [(k, c)] }
      if p.selfFp = some fp then runQueries env G p' rest
      else { p' with selfFp := some fp, todo := rest, pc := writerStart G }

/-- end of the loader: the in-memory cache is what the loaded-object variable holds -/
def finishLoader (env : Env) (G : Guards) (p : Proc) : Proc :=
  let mem := match p.loaded with | some v => v.ents | none => []
  runQueries env G { p with mem := mem, loaded := none, buf := [] } p.todo

/-- an exception of class `e` propagates out of the loader's `try` body (lock already released) -/
def loaderRaise (env : Env) (G : Guards) (p : Proc) (e : Exc) : Proc :=
  if Exc.caughtBy G.l.caught e then
    let p := if G.l.handlerClearsLoaded then { p with loaded := none } else p
    if G.l.handlerRemoves then { p with pc := if G.l.handlerExistsGuard then .hExists else .hRemove }
    else finishLoader env G p
  else { p with pc := .fatal e }

/-- after the lock is released normally: type check, fingerprint comparison -/
def loaderChecks (env : Env) (G : Guards) (p : Proc) : Proc :=
  match p.loaded with
  | none => finishLoader env G p
  | some v =>
    if G.l.typeChecked && v.ty != env.expectedTy then
      (if G.l.typeCheckInTry then loaderRaise env G p G.l.typeExc else { p with pc := .fatal G.l.typeExc })
    else if !G.l.fpChecked || env.fpOf (keys v.ents) == v.fp then
      finishLoader env G { p with selfFp := some v.fp }
    else
      let p := if G.l.staleClearsLoaded then { p with loaded := none } else p
      if G.l.removeStale then { p with pc := .lRemoveStale } else finishLoader env G p

def leaveRead (env : Env) (G : Guards) (p : Proc) (c : Cont) : Proc :=
  if G.l.lockRead then { p with pc := .lRelease c }
  else match c with
    | .normal => loaderChecks env G p
    | .exc e => loaderRaise env G p e

/-- an exception inside the writer -/
def writerRaise (env : Env) (G : Guards) (p : Proc) (e : Exc) : Proc :=
  if G.w.allInTry && Exc.caughtBy G.w.caught e then runQueries env G { p with selfFp := none } p.todo
  else { p with pc := .fatal e }

def leaveWrite (env : Env) (G : Guards) (p : Proc) (c : Cont) : Proc :=
  if G.w.lockWrite then { p with pc := .wRelease c }
  else match c with
    | .normal => runQueries env G p p.todo
    | .exc e => writerRaise env G p e

/-- the object `pickle.dump` writes -/
def written (env : Env) (p : Proc) : Val := { ty := env.expectedTy, fp := p.selfFp.getD 0, ents := p.mem }

/-- `make_cache`: entries of the file found on disk that are not in memory are taken over -/
def merged (p : Proc) (v : Val) : List (Nat × Nat) :=
  if some v.fp != p.selfFp then p.mem ++ v.ents.filter (fun e => (p.mem.lookup e.1).isNone) else p.mem

def initPC (G : Guards) : PC :=
  if G.l.existsGuard then .lExists else if G.l.lockRead then .lAcquire else .lOpen

def initProc (G : Guards) (qs : List Nat) : Proc := { pc := initPC G, todo := qs, asked := qs }

/-- One atomic action of process `i` (`none`: not enabled — blocked on the lock, or finished). -/
def pstep (env : Env) (G : Guards) (i : Nat) (sh : Sh) (p : Proc) : Option (Sh × Proc) :=
  match p.pc with
  | .lExists =>
    some (sh, if sh.file.isSome then { p with pc := if G.l.lockRead then .lAcquire else .lOpen } else finishLoader env G p)
  | .lAcquire => if sh.lock = none then some ({ sh with lock := some i }, { p with pc := .lOpen }) else none
  | .lOpen =>
    match sh.file with
    | none => some (sh, leaveRead env G p (.exc .FileNotFoundError))
    | some b => some (sh, { p with buf := b, pc := .lUnpickle })
  | .lUnpickle =>
    match env.unpickle p.buf with
    | .ok v => some (sh, leaveRead env G { p with loaded := some v } .normal)
    | .raises e => some (sh, leaveRead env G p (.exc e))
  | .lRelease c =>
    some ({ sh with lock := none }, match c with
      | .normal => loaderChecks env G p
      | .exc e => loaderRaise env G p e)
  | .lRemoveStale =>
    match sh.file with
    | some _ => some ({ sh with file := none }, finishLoader env G p)
    | none => some (sh, if G.l.removeStaleInTry then loaderRaise env G p .FileNotFoundError
                        else { p with pc := .fatal .FileNotFoundError })
  | .hExists => some (sh, if sh.file.isSome then { p with pc := .hRemove } else finishLoader env G p)
  | .hRemove =>
    match sh.file with
    | some _ => some ({ sh with file := none }, finishLoader env G p)
    | none => some (sh, if Exc.caughtBy G.l.handlerRemoveTolerates .FileNotFoundError then finishLoader env G p
                        else { p with pc := .fatal .FileNotFoundError })
  | .wAcquire => if sh.lock = none then some ({ sh with lock := some i }, { p with pc := afterWAcquire G }) else none
  | .wExists => some (sh, { p with pc := if sh.file.isSome then .wOpenR else .wTrunc })
  | .wOpenR =>
    match sh.file with
    | none => some (sh, leaveWrite env G p (.exc .FileNotFoundError))
    | some b => some (sh, { p with buf := b, pc := .wUnpickle })
  | .wUnpickle =>
    match env.unpickle p.buf with
    | .raises e => some (sh, leaveWrite env G p (.exc e))
    | .ok v =>
      if G.w.mergeTypeChecked && v.ty != env.expectedTy then some (sh, leaveWrite env G p (.exc G.w.mergeTypeExc))
      else
        let mem := merged p v
        some (sh, { p with mem := mem, selfFp := some (env.fpOf (keys mem)), buf := [], pc := .wTrunc })
  | .wTrunc => some (if G.w.atomicWrite then sh else { sh with file := some [] }, { p with pc := .wWrite })
  | .wWrite =>
    let data := env.pickle (written env p)
    let file' : Option Bytes :=
      if G.w.atomicWrite then some data
      else match sh.file with
        | none => none                 -- unlinked meanwhile: the data go to the orphaned inode
        | some [] => some data
        | some _ => some env.garbage   -- somebody else wrote in between (impossible under the lock discipline)
    some ({ sh with file := file' }, leaveWrite env G p .normal)
  | .wRelease c =>
    some ({ sh with lock := none }, match c with
      | .normal => runQueries env G p p.todo
      | .exc e => writerRaise env G p e)
  | .done | .fatal _ | .crashed => none

/-- SIGKILL of process `i`; inside `pickle.dump` the first `n` bytes have reached the file. -/
def crashStep (env : Env) (G : Guards) (i n : Nat) (sh : Sh) (p : Proc) : Option (Sh × Proc) :=
  if p.pc.terminal then none
  else
    let file' : Option Bytes :=
      if p.pc = .wWrite && !G.w.atomicWrite then
        (match sh.file with
         | some [] => some ((env.pickle (written env p)).take n)
         | f => f)
      else sh.file
    some ({ file := file', lock := if sh.lock = some i then none else sh.lock }, { p with pc := .crashed })

/-- I/O error classes that taking the lock, opening or writing the cache file may raise
    (read-only / full / vanished cache folder, lock time-out). -/
def ioExcs : List Exc :=
  [.OSError, .FileNotFoundError, .PermissionError, .FileExistsError, .NotADirectoryError, .IsADirectoryError,
   .TimeoutError, .LockTimeout]

/-- The next action of process `i` raises the I/O error `e`: `FileLock.acquire` (time-out, folder gone; also stands
    for `os.makedirs` in front of it), `open('rb')`, `open('wb')` (file untouched) or `pickle.dump`
    (disk full: the first `n` bytes have been written). -/
def failStep (env : Env) (G : Guards) (e : Exc) (n : Nat) (sh : Sh) (p : Proc) : Option (Sh × Proc) :=
  if !ioExcs.contains e then none
  else match p.pc with
    | .lAcquire => some (sh, loaderRaise env G p e)
    | .lOpen => some (sh, leaveRead env G p (.exc e))
    | .wAcquire => some (sh, writerRaise env G p e)
    | .wOpenR => some (sh, leaveWrite env G p (.exc e))
    | .wTrunc => some (sh, leaveWrite env G p (.exc e))
    | .wWrite =>
      let file' : Option Bytes :=
        if G.w.atomicWrite then sh.file
        else match sh.file with
          | some [] => some ((env.pickle (written env p)).take n)
          | f => f
      some ({ sh with file := file' }, leaveWrite env G p (.exc e))
    | _ => none

/-! ### N processes -/

structure St where
  sh : Sh
  procs : List Proc
  deriving DecidableEq, Repr, Inhabited

inductive Lbl where
  | run (i : Nat)
  | crash (i n : Nat)
  /-- the next action of process `i` fails with the I/O error `e` (inside `pickle.dump`: after `n` bytes) -/
  | fail (i : Nat) (e : Exc) (n : Nat)
  /-- somebody else (an SPSDK process with SPSDK_CACHE_DISABLED) `rmtree`s the cache folder:
      cache file and lock file are unlinked — a process inside the lock keeps its (orphaned) lock -/
  | wipe
  deriving DecidableEq, Repr, Inhabited

def Lbl.isWipe : Lbl → Bool
  | .wipe => true
  | _ => false

def gstep (env : Env) (G : Guards) (s : St) : Lbl → Option St
  | .run i =>
    match s.procs[i]? with
    | none => none
    | some p =>
      match pstep env G i s.sh p with
      | none => none
      | some (sh', p') => some { sh := sh', procs := s.procs.set i p' }
  | .crash i n =>
    match s.procs[i]? with
    | none => none
    | some p =>
      match crashStep env G i n s.sh p with
      | none => none
      | some (sh', p') => some { sh := sh', procs := s.procs.set i p' }
  | .fail i e n =>
    match s.procs[i]? with
    | none => none
    | some p =>
      match failStep env G e n s.sh p with
      | none => none
      | some (sh', p') => some { sh := sh', procs := s.procs.set i p' }
  | .wipe => some { s with sh := { file := none, lock := none } }

/-- run a schedule; `none` if some label is not enabled -/
def runSched (env : Env) (G : Guards) : St → List Lbl → Option St
  | s, [] => some s
  | s, l :: ls => match gstep env G s l with
    | none => none
    | some s' => runSched env G s' ls

/-- `queries[i]` = the queries process `i` will ask; all processes start at the same time on file `f0`. -/
def initSt (G : Guards) (f0 : Option Bytes) (queries : List (List Nat)) : St :=
  { sh := { file := f0, lock := none }, procs := queries.map (initProc G) }

/-- a single process run to completion (fuel = number of actions) -/
def runSeq (env : Env) (G : Guards) : Nat → Sh → Proc → Sh × Proc
  | 0, sh, p => (sh, p)
  | n + 1, sh, p => match pstep env G 0 sh p with
    | none => (sh, p)
    | some (sh', p') => runSeq env G n sh' p'

/-- what the process answers with the cache disabled: every query is a load from the data folder -/
def disabledAnswers (env : Env) (qs : List Nat) : List (Nat × Nat) := qs.map (fun k => (k, env.loadCfg k))

/-- bound on the number of actions a process can still take -/
def PC.rank : PC → Nat
  | .lExists => 20 | .lAcquire => 19 | .lOpen => 18 | .lUnpickle => 17 | .lRelease _ => 16
  | .lRemoveStale => 15 | .hExists => 14 | .hRemove => 13
  | .wAcquire => 8 | .wExists => 7 | .wOpenR => 6 | .wUnpickle => 5 | .wTrunc => 4 | .wWrite => 3 | .wRelease _ => 2
  | .done | .fatal _ | .crashed => 0

def Proc.measure (p : Proc) : Nat := p.todo.length * 32 + p.pc.rank

/-- the observable action a program counter stands for (trace correspondence) -/
def PC.action : PC → String
  | .lExists | .hExists | .wExists => "exists"
  | .lAcquire | .wAcquire => "acquire"
  | .lOpen | .wOpenR => "open_r"
  | .lUnpickle | .wUnpickle => "load"
  | .lRelease _ | .wRelease _ => "release"
  | .lRemoveStale | .hRemove => "remove"
  | .wTrunc => "open_w"
  | .wWrite => "dump"
  | .done => "done" | .fatal _ => "fatal" | .crashed => "crashed"

end SpsdkVerif.DbCache
