/-
Secure Binary 2.0 / 2.1 (C04): executable model of SPSDK's builder
(`spsdk/sbfile/sb2/{commands,sections,headers,images}.py`) and — written independently, from the file
format — a model of the boot ROM that consumes such a file.

Part 1  builder side = the Python code as it is (quirks included); uses the constants *generated* from
        the current sources (`Generated/Sb2Consts.lean`): command header + checksum, the 13 command
        classes (constructor checks, `export`, `parse_command`), `BootSectionV2.export`,
        `CertSectionV2.export`, `ImageHeaderV2.export`, `BootImageV21.export`, `BootImageV20.export`.
Part 2  ROM side (`namespace Rom`): written with its own constants (`Rom.Spec`), reads the file the way a
        loader does — header fields locate key blob / certificate block / first boot tag, the block
        counter of a ciphertext block is `nonce counter + file offset / 16`, every MAC / checksum / CRC /
        SHA-256 is checked before the content is returned.  Signature *verification* is not done here:
        the ROM returns the obligation `(signedLen, signature, certBlock)` and the harness discharges it
        with `cryptography` directly.

Everything is over an abstract `c : CryptoOps`; the driver instantiates `execOps`.
Tied to /repo by the C04 correspondence streams (harness/props/C04.py).  No Mathlib.
-/
import SpsdkVerif.Model.Misc
import SpsdkVerif.Crypto.Modes
import SpsdkVerif.Crypto.Crc
import SpsdkVerif.Generated.Sb2Consts
import SpsdkVerif.Spec.Sb2Rom

namespace SpsdkVerif.Sb2
open SpsdkVerif
open SpsdkVerif.Misc (Bytes beEnc beDec leEnc leDec bitLen)
open SpsdkVerif.Crypto (CryptoOps HashAlg xorBytes zeroPad16 zeros hmac kwWrap kwUnwrap)
open SpsdkVerif.Generated

def u8 (n : Nat) : UInt8 := UInt8.ofNat n

/-- Python `a & ~m` for non-negative `a` -/
def andNot (a m : Nat) : Nat := a ^^^ (a &&& m)

/-- `SecBootBlckSize.align` / the `if size % 16: size += 16 - size % 16` idiom -/
def align16 (n : Nat) : Nat := (n + 15) / 16 * 16

/-! # Part 1 — builder side (SPSDK) -/

/-! ## Command header (`CmdHeader`, FORMAT `<2BH3L`) -/

structure CmdHdr where
  tag : Nat
  flags : Nat
  address : Nat
  count : Nat
  data : Nat
  deriving DecidableEq, Repr, Inhabited

/-- `CmdHeader._raw_data(crc)`: `pack("<2BH3L", crc, tag, flags, address, count, data)` -/
def rawHdr (crc : Nat) (h : CmdHdr) : Bytes :=
  [u8 crc, u8 h.tag] ++ leEnc 2 h.flags ++ leEnc 4 h.address ++ leEnc 4 h.count ++ leEnc 4 h.data

/-- `struct.pack` raises `struct.error` for a value that does not fit its field -/
def CmdHdr.inRange (h : CmdHdr) : Bool :=
  decide (h.tag < 256) && decide (h.flags < 65536) && decide (h.address < 2 ^ 32) &&
  decide (h.count < 2 ^ 32) && decide (h.data < 2 ^ 32)

/-- `CmdHeader.crc`: `checksum = 0x5A; for i in range(1, SIZE): checksum = (checksum + raw[i]) & 0xFF` -/
def checksum (raw : Bytes) : Nat :=
  (raw.drop Sb2Consts.checksumStart).foldl (fun acc x => (acc + x.toNat) &&& Sb2Consts.checksumMask)
    Sb2Consts.checksumSeed

/-- `CmdHeader.export()` -/
def encodeHdr (h : CmdHdr) : Bytes := rawHdr (checksum (rawHdr 0 h)) h

/-- `CmdHeader.parse(data)` -/
def decodeHdr (d : Bytes) : PyRes CmdHdr :=
  if d.length < Sb2Consts.cmdHeaderFmtSize then .error .spsdk
  else
    let h : CmdHdr :=
      { tag := (d.getD 1 0).toNat, flags := leDec ((d.drop 2).take 2), address := leDec ((d.drop 4).take 4),
        count := leDec ((d.drop 8).take 4), data := leDec ((d.drop 12).take 4) }
    if (d.getD 0 0).toNat ≠ checksum (rawHdr 0 h) then .error .spsdk else .ok h

/-! ## Memory id <-> flags -/

/-- `get_device_id` / `get_group_id` / `get_memory_id` -/
def devOf (memId : Nat) : Nat := (memId &&& Sb2Consts.memDeviceIdMask) >>> Sb2Consts.memDeviceIdShift
def grpOf (memId : Nat) : Nat := (memId &&& Sb2Consts.memGroupIdMask) >>> Sb2Consts.memGroupIdShift
def memIdOf (dev grp : Nat) : Nat :=
  ((grp <<< Sb2Consts.memGroupIdShift) &&& Sb2Consts.memGroupIdMask) |||
  ((dev <<< Sb2Consts.memDeviceIdShift) &&& Sb2Consts.memDeviceIdMask)

/-- the two statements `self.flags |= (self.flags & ~MASK) | ((id << SHIFT) & MASK)` of
    CmdLoad / CmdErase / CmdMemEnable -/
def withMemFlags (flags memId : Nat) : Nat :=
  let f1 := flags ||| (andNot flags Sb2Consts.romDeviceIdMask |||
    ((devOf memId <<< Sb2Consts.romDeviceIdShift) &&& Sb2Consts.romDeviceIdMask))
  f1 ||| (andNot f1 Sb2Consts.romGroupIdMask |||
    ((grpOf memId <<< Sb2Consts.romGroupIdShift) &&& Sb2Consts.romGroupIdMask))

/-- memory id a parser derives from header flags -/
def memIdOfFlags (flags : Nat) : Nat :=
  memIdOf ((flags &&& Sb2Consts.romDeviceIdMask) >>> Sb2Consts.romDeviceIdShift)
          ((flags &&& Sb2Consts.romGroupIdMask) >>> Sb2Consts.romGroupIdShift)

/-! ## Commands -/

/-- The 13 command classes with their constructor arguments (all integers non-negative).
    `load … flags`: extra flag bits set through the public `flags` setter after construction (0 normally).
    `tag`: `CmdTag()` has an all-zero header; the parser keeps whatever header it read. -/
inductive Cmd where
  | nop
  | tag (flags address count data : Nat)
  | load (address : Nat) (data : Bytes) (memId flags : Nat)
  | fill (address pattern length : Nat)
  | jump (address argument : Nat) (spreg : Option Nat)
  | call (address argument : Nat)
  | erase (address length flags memId : Nat)
  | reset
  | memEnable (address size memId : Nat)
  | prog (address memId dataWord1 dataWord2 flags : Nat)
  | versionCheck (verType version : Nat)
  | keystoreToNv (address controllerId : Nat)     -- CmdKeyStoreRestore (WR_KEYSTORE_TO_NV)
  | keystoreFromNv (address controllerId : Nat)   -- CmdKeyStoreBackup (WR_KEYSTORE_FROM_NV)
  deriving DecidableEq, Repr, Inhabited

/-- CRC-32/MPEG-2 of the (padded) load data; `% 2^32` is the identity on a 32-bit CRC register -/
def loadCrc (d : Bytes) : Nat := Crypto.Crc.crc Crypto.Crc.crc32Mpeg2 d % 2 ^ 32

/-- `CmdFill.__init__`: int pattern -> 1/2/4 bytes (3 -> 4) big-endian, replicated to one 32-bit word;
    more than 4 bytes is an SPSDKError -/
def fillWord (pattern : Nat) : PyRes Nat :=
  let n0 := (bitLen pattern + 7) / 8
  let n := if n0 = 0 then 1 else if n0 = 3 then 4 else n0
  if n = 1 then .ok (pattern * 0x01010101)
  else if n = 2 then .ok (pattern * 0x10001)
  else if n = 4 then .ok pattern
  else .error .spsdk

def fillWordT (pattern : Nat) : Nat := match fillWord pattern with | .ok w => w | .error _ => 0

/-- `CmdProg`: the `flags` setter stores `is_eight_byte | value`; the constructor calls it twice -/
def progFlags (memId dataWord2 flags : Nat) : Nat :=
  let is8 := if dataWord2 ≠ 0 then 1 else 0
  let f1 := is8 ||| flags
  is8 ||| (andNot f1 Sb2Consts.romDeviceIdMask ||| ((memId <<< Sb2Consts.romDeviceIdShift) &&& Sb2Consts.romDeviceIdMask))

/-- load data as exported (`align_block_fill_zeros`; every command is built with `zero_filling=True`) -/
def Cmd.payload : Cmd → Bytes
  | .load _ d _ _ => zeroPad16 d
  | _ => []

/-- header of the command at export time -/
def Cmd.hdr : Cmd → CmdHdr
  | .nop => ⟨Sb2Consts.tagNop, 0, 0, 0, 0⟩
  | .tag f a c d => ⟨Sb2Consts.tagTag, f, a, c, d⟩
  | .load a d m f => ⟨Sb2Consts.tagLoad, f ||| withMemFlags 0 m, a, (zeroPad16 d).length, loadCrc (zeroPad16 d)⟩
  | .fill a p l => ⟨Sb2Consts.tagFill, 0, a, if l = 0 then 4 else l, fillWordT p⟩
  | .jump a arg sp => ⟨Sb2Consts.tagJump, if sp.isSome then 2 else 0, a, sp.getD 0, arg⟩
  | .call a arg => ⟨Sb2Consts.tagCall, 0, a, 0, arg⟩
  | .erase a l f m => ⟨Sb2Consts.tagErase, withMemFlags f m, a, l, 0⟩
  | .reset => ⟨Sb2Consts.tagReset, 0, 0, 0, 0⟩
  | .memEnable a s m => ⟨Sb2Consts.tagMemEnable, withMemFlags 0 m, a, s, 0⟩
  | .prog a m w1 w2 f => ⟨Sb2Consts.tagProg, progFlags m w2 f, a, w1, w2⟩
  | .versionCheck t v => ⟨Sb2Consts.tagFwVersionCheck, 0, t, v, 0⟩
  | .keystoreToNv a cid =>
      ⟨Sb2Consts.tagWrKeystoreToNv, (cid <<< Sb2Consts.keystoreDeviceIdShift) &&& Sb2Consts.keystoreDeviceIdMask, a,
       Sb2Consts.keystoreCount, 0⟩
  | .keystoreFromNv a cid =>
      ⟨Sb2Consts.tagWrKeystoreFromNv, (cid <<< Sb2Consts.keystoreDeviceIdShift) &&& Sb2Consts.keystoreDeviceIdMask, a,
       Sb2Consts.keystoreCount, 0⟩

/-- `cmd.export()` (no argument checks; see `exportCmd`) -/
def encodeCmd (x : Cmd) : Bytes := zeroPad16 (encodeHdr x.hdr) ++ x.payload

def addrOk (a : Nat) : Bool := decide (a ≤ 0xFFFFFFFF)

/-- constructor checks, in the order the Python constructors make them -/
def Cmd.check : Cmd → PyRes Unit
  | .load a _ _ _ => if addrOk a then .ok () else .error .spsdk
  | .fill a p l =>
    if (if l = 0 then 4 else l) % 4 ≠ 0 then .error .spsdk
    else match fillWord p with
      | .error e => .error e
      | .ok _ => if addrOk a then .ok () else .error .spsdk
  | .jump a _ _ => if addrOk a then .ok () else .error .spsdk
  | .call a _ => if addrOk a then .ok () else .error .spsdk
  | .erase a _ _ _ => if addrOk a then .ok () else .error .spsdk
  | .prog a m w1 w2 _ =>
    if m > 0xFF then .error .spsdk
    else if addrOk a && addrOk w1 && addrOk w2 then .ok () else .error .spsdk
  | .versionCheck t _ => if t ∈ Sb2Consts.versionCheckTypes then .ok () else .error .spsdk
  | .keystoreToNv a cid => if addrOk a && decide (cid ≤ 0xFF) then .ok () else .error .spsdk
  | .keystoreFromNv a cid => if addrOk a && decide (cid ≤ 0xFF) then .ok () else .error .spsdk
  | _ => .ok ()

/-- construct + `export()`: SPSDKError from the constructor, `struct.error` for a field that does not fit -/
def exportCmd (x : Cmd) : PyRes Bytes :=
  match x.check with
  | .error e => .error e
  | .ok _ => if x.hdr.inRange then .ok (encodeCmd x) else .error .other

/-- `cmd.raw_size` -/
def Cmd.rawSize (x : Cmd) : Nat := 16 + x.payload.length

def knownTags : List Nat :=
  [Sb2Consts.tagNop, Sb2Consts.tagTag, Sb2Consts.tagLoad, Sb2Consts.tagFill, Sb2Consts.tagJump, Sb2Consts.tagCall,
   Sb2Consts.tagErase, Sb2Consts.tagReset, Sb2Consts.tagMemEnable, Sb2Consts.tagProg, Sb2Consts.tagFwVersionCheck,
   Sb2Consts.tagWrKeystoreToNv, Sb2Consts.tagWrKeystoreFromNv]

/-- `parse_command(data)`: the parsed command object (as constructor arguments) and its `raw_size` -/
def decodeCmd (d : Bytes) : PyRes (Cmd × Nat) :=
  if d.length < 2 then .error .other            -- `data[1]`: IndexError
  else
    let t := (d.getD 1 0).toNat
    if t ∉ knownTags then .error .spsdk         -- "Unsupported command"
    else match decodeHdr d with
      | .error e => .error e
      | .ok h =>
        if t = Sb2Consts.tagNop then .ok (.nop, 16)
        else if t = Sb2Consts.tagTag then .ok (.tag h.flags h.address h.count h.data, 16)
        else if t = Sb2Consts.tagLoad then
          let body := (d.drop 16).take (align16 h.count)
          if h.data ≠ loadCrc body then .error .spsdk
          else .ok (.load h.address body (memIdOfFlags h.flags) h.flags, 16 + (zeroPad16 body).length)
        else if t = Sb2Consts.tagFill then
          let l := if h.count = 0 then 4 else h.count
          if l % 4 ≠ 0 then .error .spsdk else .ok (.fill h.address h.data l, 16)
        else if t = Sb2Consts.tagJump then
          .ok (.jump h.address h.data (if h.flags ≠ 0 then some h.count else none), 16)
        else if t = Sb2Consts.tagCall then .ok (.call h.address h.data, 16)
        else if t = Sb2Consts.tagErase then .ok (.erase h.address h.count h.flags (memIdOfFlags h.flags), 16)
        else if t = Sb2Consts.tagReset then .ok (.reset, 16)
        else if t = Sb2Consts.tagMemEnable then .ok (.memEnable h.address h.count (memIdOfFlags h.flags), 16)
        else if t = Sb2Consts.tagProg then
          .ok (.prog h.address ((h.flags &&& Sb2Consts.romDeviceIdMask) >>> Sb2Consts.romDeviceIdShift) h.count h.data h.flags, 16)
        else if t = Sb2Consts.tagFwVersionCheck then
          if h.address ∈ Sb2Consts.versionCheckTypes then .ok (.versionCheck h.address h.count, 16) else .error .spsdk
        else
          let cid := (h.flags &&& Sb2Consts.keystoreDeviceIdMask) >>> Sb2Consts.keystoreDeviceIdShift
          if cid ∉ Sb2Consts.extMemIds then .error .spsdk
          else if t = Sb2Consts.tagWrKeystoreToNv then .ok (.keystoreToNv h.address cid, 16)
          else .ok (.keystoreFromNv h.address cid, 16)

/-- what `parse_command(export(x))` returns for a well-formed `x` (see `Properties/C04.lean`) -/
def Cmd.canon : Cmd → Cmd
  | .load a d m f => .load a (zeroPad16 d) (memIdOfFlags (f ||| withMemFlags 0 m)) (f ||| withMemFlags 0 m)
  | .fill a p l => .fill a (fillWordT p) (if l = 0 then 4 else l)
  | .erase a l f m => .erase a l (withMemFlags f m) (memIdOfFlags (withMemFlags f m))
  | .memEnable a s m => .memEnable a s (memIdOfFlags (withMemFlags 0 m))
  | .prog a m w1 w2 f => .prog a ((progFlags m w2 f &&& Sb2Consts.romDeviceIdMask) >>> Sb2Consts.romDeviceIdShift) w1 w2 (progFlags m w2 f)
  | x => x

/-! ## AES-CTR with the SB2 counter (`spsdk.crypto.symmetric.Counter`, little-endian 32-bit counter
    in the last four nonce bytes; every 16-byte block is encrypted on its own with that IV) -/

/-- initial counter value carried by the nonce -/
def nonceCtr (nonce : Bytes) : Nat := leDec (nonce.drop 12)

/-- `Counter.value` -/
def ctrIv (nonce : Bytes) (ctr : Nat) : Bytes := nonce.take 12 ++ leEnc 4 ctr

def ksBlock (c : CryptoOps) (dek nonce : Bytes) (ctr : Nat) : Bytes := c.encBlk dek (ctrIv nonce ctr)

/-- `n` consecutive blocks of `d`, block `j` xor-ed with the key stream of counter `ctr + j` -/
def ctrBlocks (c : CryptoOps) (dek nonce : Bytes) : Nat → Nat → Bytes → Bytes
  | 0, _, _ => []
  | n + 1, ctr, d => xorBytes (d.take 16) (ksBlock c dek nonce ctr) ++ ctrBlocks c dek nonce n (ctr + 1) (d.drop 16)

def hmac256 (c : CryptoOps) (key m : Bytes) : Bytes := hmac c .sha256 key m

/-! ## Boot section (`BootSectionV2`) -/

structure Section where
  uid : Nat
  hmacCount : Nat      -- constructor argument
  cmds : List Cmd
  deriving DecidableEq, Repr, Inhabited

/-- concatenated exported commands (the `% 16` padding of `export` never triggers: every command is aligned) -/
def cmdsData (cmds : List Cmd) : Bytes := zeroPad16 (cmds.map encodeCmd).flatten

/-- `BootSectionV2.hmac_count` -/
def Section.effHmacCount (s : Section) : Nat :=
  let req := if s.hmacCount = 0 then 1 else s.hmacCount
  let raw := (s.cmds.map Cmd.rawSize).sum
  if raw > 0 then (let blocks := (raw + 15) / 16; if blocks ≥ req then req else blocks) else 0

/-- `BootSectionV2.raw_size` -/
def Section.rawSize (s : Section) : Nat :=
  align16 (16 + 32 + s.effHmacCount * 32 + (s.cmds.map Cmd.rawSize).sum)

/-- the HMAC table: `hc - 1` entries over `bs` bytes each, the last one over the rest -/
def hmacEntries (c : CryptoOps) (mac : Bytes) : Nat → Nat → Bytes → Bytes
  | 0, _, _ => []
  | 1, _, d => hmac256 c mac d
  | n + 2, bs, d => hmac256 c mac (d.take bs) ++ hmacEntries c mac (n + 1) bs (d.drop bs)

/-- `BootSectionV2.export(dek, mac, counter)` with the counter at `ctr`; `flags` = header flags
    (`BOOTABLE`, plus `LAST_SECT` once the image's `update()` has run) -/
def buildSectionWith (c : CryptoOps) (dek mac nonce : Bytes) (ctr flags : Nat) (s : Section) : Bytes :=
  let data := cmdsData s.cmds
  let hc := s.effHmacCount
  let hdr : CmdHdr := ⟨Sb2Consts.tagTag, flags, s.uid, data.length / 16, hc⟩
  let eh := xorBytes (encodeHdr hdr) (ksBlock c dek nonce ctr)
  let ec := ctrBlocks c dek nonce (data.length / 16) (ctr + (1 + (hc + 1) * 2)) data
  eh ++ hmac256 c mac eh ++ hmacEntries c mac hc (data.length / 16 / hc * 16) ec ++ ec

def imageSectionFlags : Nat := Sb2Consts.sectFlagBootable ||| Sb2Consts.sectFlagLastSect

def buildSection (c : CryptoOps) (dek mac nonce : Bytes) (ctr : Nat) (s : Section) : Bytes :=
  buildSectionWith c dek mac nonce ctr imageSectionFlags s

/-- all sections, the counter running on by `len / 16` per section -/
def buildSections (c : CryptoOps) (dek mac nonce : Bytes) : Nat → List Section → Bytes
  | _, [] => []
  | ctr, s :: rest =>
    let b := buildSection c dek mac nonce ctr s
    b ++ buildSections c dek mac nonce (ctr + b.length / 16) rest

/-! ## Image header (`ImageHeaderV2`, FORMAT `<16s4s4s2BH4I4H4sQ12HI4s`) -/

-- `Version3` (BCD version triple) is defined in Spec/Sb2Rom.lean

structure ImageHdr where
  nonce : Bytes
  padding : Bytes             -- 8 bytes
  major : Nat
  minor : Nat
  flags : Nat
  imageBlocks : Nat
  firstBootTagBlock : Nat
  firstBootSectionId : Nat
  offsetToCert : Nat
  headerBlocks : Nat
  keyBlobBlock : Nat
  keyBlobBlockCount : Nat
  maxSectionMacCount : Nat
  timestamp : Nat             -- `pack_timestamp`: microseconds since 2000-01-01 UTC
  productVersion : Version3   -- BCD numbers
  componentVersion : Version3
  buildNumber : Nat
  deriving DecidableEq, Repr, Inhabited

/-- `spsdk.utils.misc.swap16` on a 16-bit value -/
def swap16 (v : Nat) : Nat := ((v <<< 8) &&& 0xFF00) ||| ((v >>> 8) &&& 0xFF)

def versionWords (v : Version3) : Bytes :=
  leEnc 2 (swap16 v.major) ++ leEnc 2 0 ++ leEnc 2 (swap16 v.minor) ++ leEnc 2 0 ++ leEnc 2 (swap16 v.service) ++ leEnc 2 0

/-- `ImageHeaderV2.export()` (`'4s'` keeps the first 4 bytes of the 8-byte padding; the tail field is `padding[4:]`) -/
def encodeImageHdr (h : ImageHdr) : Bytes :=
  h.nonce ++ h.padding.take 4 ++ Sb2Consts.imageSignature1 ++ [u8 h.major, u8 h.minor] ++ leEnc 2 h.flags ++
  leEnc 4 h.imageBlocks ++ leEnc 4 h.firstBootTagBlock ++ leEnc 4 h.firstBootSectionId ++ leEnc 4 h.offsetToCert ++
  leEnc 2 h.headerBlocks ++ leEnc 2 h.keyBlobBlock ++ leEnc 2 h.keyBlobBlockCount ++ leEnc 2 h.maxSectionMacCount ++
  Sb2Consts.imageSignature2 ++ leEnc 8 h.timestamp ++ versionWords h.productVersion ++ versionWords h.componentVersion ++
  leEnc 4 h.buildNumber ++ (h.padding.drop 4).take 4

/-! ## Images -/

/-- everything `BootImageV21(...)` is given (certificate block: the exported bytes, opaque here;
    `signature`: what the signature provider returns for the signed range) -/
structure Cfg where
  kek : Bytes
  dek : Bytes
  mac : Bytes
  nonce : Bytes
  padding : Bytes
  timestamp : Nat
  productVersion : Version3
  componentVersion : Version3
  buildNumber : Nat
  flags : Nat
  certBlock : Bytes
  signature : Bytes
  sections : List Section
  deriving DecidableEq, Repr, Inhabited

def headerKeysLen : Nat := Sb2Consts.imageHeaderFmtSize + Sb2Consts.v21HeaderMacSize + Sb2Consts.v21KeyBlobSize

def Cfg.shaPresent (cfg : Cfg) : Bool := cfg.flags &&& Sb2Consts.v21FlagsShaPresentBit ≠ 0

def maxMacCount (ss : List Section) : Nat := (ss.map Section.effHmacCount).sum

/-- offset of the first boot section in a V2.1 file -/
def Cfg.bsOffset21 (cfg : Cfg) : Nat :=
  headerKeysLen + cfg.certBlock.length + cfg.signature.length + (if cfg.shaPresent then Sb2Consts.v21Sha256Size else 0)

def Cfg.bsData21 (c : CryptoOps) (cfg : Cfg) : Bytes :=
  buildSections c cfg.dek cfg.mac cfg.nonce (nonceCtr cfg.nonce + cfg.bsOffset21 / 16) cfg.sections

/-- header after `BootImageV21.update()` -/
def Cfg.header21 (cfg : Cfg) : ImageHdr :=
  { nonce := cfg.nonce, padding := cfg.padding, major := 2, minor := 1, flags := cfg.flags,
    imageBlocks := (cfg.bsOffset21 + (cfg.sections.map Section.rawSize).sum) / 16,
    firstBootTagBlock := cfg.bsOffset21 / 16,
    firstBootSectionId := (cfg.sections.head?.map (·.uid)).getD 0,
    offsetToCert := headerKeysLen,
    headerBlocks := Sb2Consts.imageHeaderFmtSize / 16,
    keyBlobBlock := Sb2Consts.hdrKeyBlobBlock, keyBlobBlockCount := Sb2Consts.hdrKeyBlobBlockCount,
    maxSectionMacCount := maxMacCount cfg.sections,
    timestamp := cfg.timestamp, productVersion := cfg.productVersion, componentVersion := cfg.componentVersion,
    buildNumber := cfg.buildNumber }

def keyBlob (c : CryptoOps) (kek dek mac : Bytes) : Bytes :=
  let w := kwWrap c kek (dek ++ mac)
  w ++ zeros (Sb2Consts.v21KeyBlobSize - w.length)

/-- the signed part of a V2.1 file -/
def Cfg.signed21 (c : CryptoOps) (cfg : Cfg) : Bytes :=
  let bs := cfg.bsData21 c
  let hc0 := (cfg.sections.head?.map Section.effHmacCount).getD 0
  encodeImageHdr cfg.header21 ++ hmac256 c cfg.mac ((bs.drop 16).take (hc0 * 32 + 32)) ++
  keyBlob c cfg.kek cfg.dek cfg.mac ++ cfg.certBlock ++
  (if cfg.shaPresent then c.hash .sha256 bs else [])

/-- `BootImageV21.export()` -/
def buildV21 (c : CryptoOps) (cfg : Cfg) : Bytes :=
  cfg.signed21 c ++ cfg.signature ++ cfg.bsData21 c

/-! ### SB 2.0: certificate section (`CertSectionV2`) between key blob and boot sections, signature over
    everything at the end; `signed = false`: no certificate section, no signature, flags 0x04 -/

def certSectionFlags : Nat := Sb2Consts.sectFlagCleartext ||| Sb2Consts.sectFlagLastSect

/-- `CertSectionV2.export(dek, mac, counter)` -/
def buildCertSection (c : CryptoOps) (dek mac nonce : Bytes) (ctr : Nat) (certBlock : Bytes) : Bytes :=
  let hdr : CmdHdr := ⟨Sb2Consts.tagTag, certSectionFlags, Sb2Consts.certSectionMark, certBlock.length / 16, 1⟩
  let eh := xorBytes (encodeHdr hdr) (ksBlock c dek nonce ctr)
  eh ++ hmac256 c mac eh ++ hmac256 c mac certBlock ++ certBlock

def Cfg.certSectLen20 (cfg : Cfg) (signed : Bool) : Nat :=
  if signed then 16 + 2 * Sb2Consts.certSectionHmacSize + cfg.certBlock.length else 0

/-- header after `BootImageV20.update()` (`cfg.flags` is not used: 0x08 signed / 0x04 unsigned) -/
def Cfg.header20 (cfg : Cfg) (signed : Bool) : ImageHdr :=
  { nonce := cfg.nonce, padding := cfg.padding, major := 2, minor := 0,
    flags := if signed then Sb2Consts.v20FlagsSigned else Sb2Consts.v20FlagsUnsigned,
    imageBlocks := (headerKeysLen + cfg.certSectLen20 signed + (cfg.sections.map Section.rawSize).sum) / 16,
    firstBootTagBlock := (headerKeysLen + cfg.certSectLen20 signed) / 16,
    firstBootSectionId := (cfg.sections.head?.map (·.uid)).getD 0,
    offsetToCert := if signed then headerKeysLen + 16 + 2 * Sb2Consts.certSectionHmacSize else 0,
    headerBlocks := Sb2Consts.imageHeaderFmtSize / 16,
    keyBlobBlock := Sb2Consts.hdrKeyBlobBlock, keyBlobBlockCount := Sb2Consts.hdrKeyBlobBlockCount,
    maxSectionMacCount := (if signed then 1 else 0) + maxMacCount cfg.sections,
    timestamp := cfg.timestamp, productVersion := cfg.productVersion, componentVersion := cfg.componentVersion,
    buildNumber := cfg.buildNumber }

/-- the part of a V2.0 file that precedes the signature (the whole file when unsigned);
    `export(padding=…)`: the same 8 bytes pad the header and follow the wrapped keys -/
def Cfg.body20 (c : CryptoOps) (cfg : Cfg) (signed : Bool) : Bytes :=
  let h := encodeImageHdr (cfg.header20 signed)
  let pre := h ++ hmac256 c cfg.mac h ++ kwWrap c cfg.kek (cfg.dek ++ cfg.mac) ++ cfg.padding
  let ctr := nonceCtr cfg.nonce + pre.length / 16
  let cs := if signed then buildCertSection c cfg.dek cfg.mac cfg.nonce ctr cfg.certBlock else []
  pre ++ cs ++ buildSections c cfg.dek cfg.mac cfg.nonce (ctr + cs.length / 16) cfg.sections

/-- `BootImageV20.export(padding)` -/
def buildV20 (c : CryptoOps) (cfg : Cfg) (signed : Bool) : Bytes :=
  cfg.body20 c signed ++ (if signed then cfg.signature else [])

/-! # Part 2 — the boot ROM: moved to `SpsdkVerif/Spec/Sb2Rom.lean` (spec only: no import of this file or of `Generated/`) -/

end SpsdkVerif.Sb2
