/-
Hand-written executable model of SPSDK's debug authentication objects
(`spsdk/dat/debug_credential.py`, `dac_packet.py`, `dar_packet.py`), tied to /repo by the C15
correspondence sweep (harness/props/C15.py) and parameterised by `Generated/DatConsts.lean`
(field layouts of export / data-to-sign / parse, size tables, `RotMetaFlags` / RoT-hash / DAC-hash-length /
creation accept-refuse tables — obtained on every run by executing the current classes in a sandbox with stub
objects, i.e. by VALUE, not by spelling — and the device database rows).  Small arithmetic pieces (`flagsBytes`,
`flagsParse`, `dacRotHashLen`, `createCheck`) are hand-written here and pinned to those tables by theorems.

Modelling decisions (each one is listed as an assumption by the harness):
  * Public keys are the byte strings `export_dck_pub()` / `export_rot_pub()` produce; `PublicKey.parse`
    of such a field is taken to succeed and to be the inverse of that export (C08's subject).
  * Integers are naturals (`value_to_int` never yields a negative number).
  * The EdgeLock-enclave SRK table is opaque: an `SrkOracle` says how long the table at the head of a
    buffer is and which key / signature size its `used` record has (AHAB is C06's subject).  The driver
    instantiates it with `srkWalk`, a length walker over the container headers.
  * `DebugCredentialEdgeLockEnclaveV2` (AHAB certificate, PQC) is not modelled: `parseDC` models the path
    taken after `DebugCredentialEdgeLockEnclaveV2.parse` has refused the data.
  * struct.error / KeyError / IndexError are all `PyErr.other`, every `SPSDKError` subclass is `PyErr.spsdk`.
-/
import SpsdkVerif.Base.Py
import SpsdkVerif.Base.DatTypes
import SpsdkVerif.Model.Misc
import SpsdkVerif.Crypto.Iface
import SpsdkVerif.Generated.DatConsts

namespace SpsdkVerif.Dat
open SpsdkVerif SpsdkVerif.Misc
open SpsdkVerif.Crypto (HashAlg SigAlg CryptoOps CryptoLaws PrivKey PubKey Rand)
open SpsdkVerif.Generated

/-! ### small helpers -/

def lookup (k : Nat) : List (Nat × Nat) → Option Nat
  | [] => none
  | (a, b) :: r => if a = k then some b else lookup k r

def zeros (n : Nat) : Bytes := List.replicate n 0

/-- `struct.pack("Ns", b)`: exactly `n` bytes, zero padded or truncated -/
def fitS (n : Nat) (b : Bytes) : Bytes := (b ++ zeros n).take n

def allZero (b : Bytes) : Bool := b.all (· == 0)

/-- sequential reader: `struct.error` (→ `.other`) when the buffer is too short -/
def rd (n : Nat) (d : Bytes) : PyRes (Bytes × Bytes) :=
  if d.length < n then .error .other else .ok (d.take n, d.drop n)

/-- the `(major, minor)` pair names a member of `ProtocolVersion.VERSIONS` -/
def versionOk (major minor : Nat) : Bool := DatConsts.versions.contains (major, minor)

/-! ### objects -/

/-- the Python class of a credential -/
inductive Cls where
  | rsa   -- DebugCredentialCertificateRsa
  | ecc   -- DebugCredentialCertificateEcc
  | ele   -- DebugCredentialEdgeLockEnclave
  deriving DecidableEq, Repr, Inhabited

inductive RotMeta where
  /-- `RotMetaRSA(rot_items)` -/
  | rsa (items : List Bytes)
  /-- `RotMetaEcc(RotMetaFlags(used, cnt), rot_items)` -/
  | ecc (used cnt : Nat) (items : List Bytes)
  /-- `RotMetaEdgeLockEnclave(RotMetaFlags(used, cnt), srk_table)`; `srk` = `srk_table.export()` -/
  | ele (used cnt : Nat) (srk : Bytes)
  deriving DecidableEq, Repr, Inhabited

structure DC where
  cls : Cls
  major : Nat
  minor : Nat
  socc : Nat
  uuid : Bytes
  rotMeta : RotMeta
  /-- `export_dck_pub()` -/
  dck : Bytes
  ccSocu : Nat
  ccVu : Nat
  beacon : Nat
  /-- `export_rot_pub()` (EdgeLock: `rot_pub.export()` of the key recreated from the used SRK record) -/
  rotPub : Bytes
  sig : Bytes
  deriving DecidableEq, Repr, Inhabited

/-! ### RoT meta -/

/-- Python slice assignment `buf[lo:hi] = item` for `0 ≤ lo`, `0 ≤ hi` -/
def sliceSet (buf : Bytes) (lo hi : Nat) (item : Bytes) : Bytes :=
  buf.take lo ++ item ++ buf.drop (max lo hi)

/-- `RotMetaRSA.export`: `bytearray(128)` with item `i` assigned to `[32 i, 32 (i+1))` -/
def rsaMetaFill (w : Nat) : Bytes → Nat → List Bytes → Bytes
  | buf, _, [] => buf
  | buf, i, it :: rest => rsaMetaFill w (sliceSet buf (i * w) ((i + 1) * w) it) (i + 1) rest

def rsaMetaExport (items : List Bytes) : Bytes :=
  rsaMetaFill DatConsts.rotMetaRsaItem (zeros DatConsts.rotMetaRsaSize) 0 items

/-- `RotMetaRSA.parse`: the non-zero ones of the `rotMetaRsaCount` slices -/
def rsaMetaItems (w : Nat) (data : Bytes) : Nat → Nat → List Bytes
  | 0, _ => []
  | n + 1, i =>
    let it := (data.drop (i * w)).take w
    if allZero it then rsaMetaItems w data n (i + 1) else it :: rsaMetaItems w data n (i + 1)

def rsaMetaParse (data : Bytes) : PyRes RotMeta :=
  if data.length < DatConsts.rotMetaRsaMinLen then .error .spsdk
  else .ok (.rsa (rsaMetaItems DatConsts.rotMetaRsaItem data DatConsts.rotMetaRsaCount 0))

/-- `RotMetaFlags.validate()`: `used < cnt ≤ 4` -/
def flagsValid (used cnt : Nat) : Bool := decide (used < cnt) && decide (cnt ≤ 4)

/-- `RotMetaFlags.export()`: marker bit 31, used index in bits 8.., certificate count in bits 4.., packed `<L`
    (`struct.error` when the word does not fit; unreachable for validated flags).  Hand-written; `Properties/C15.lean`
    checks it against the tables the generator obtains by running the current class (`gen_flags`). -/
def flagsBytes (used cnt : Nat) : PyRes Bytes :=
  let w := 2147483648 ||| (used <<< 8) ||| (cnt <<< 4)
  if w / 4294967296 ≠ 0 then .error .other else .ok (leEnc 4 w)

/-- `RotMetaFlags.parse(data)` → `(used, cnt)` after `validate()`: exactly `flagsLen` bytes, marker bit set, 4-bit fields -/
def flagsParse (b : Bytes) : PyRes (Nat × Nat) :=
  if b.length ≠ DatConsts.flagsLen then .error .spsdk else
  let f := leDec b
  if f / 2147483648 % 2 = 0 then .error .spsdk else
  let u := f / 256 % 16
  let c := f / 16 % 16
  if flagsValid u c then .ok (u, c) else .error .spsdk

/-- `RotMetaEcc.export_crtk_table()` -/
def crtkTable (items : List Bytes) : Bytes := if items.length > 1 then items.flatten else []

/-- `self.flags.export() + tail` -/
def withFlags (used cnt : Nat) (tail : Bytes) : PyRes Bytes :=
  match flagsBytes used cnt with
  | .ok f => .ok (f ++ tail)
  | .error e => .error e

def rotMetaExport : RotMeta → PyRes Bytes
  | .rsa items => .ok (rsaMetaExport items)
  | .ecc used cnt items => withFlags used cnt (crtkTable items)
  | .ele used cnt srk => withFlags used cnt srk

/-- SHA-2 width (bits) for an ECC coordinate size: `RotMetaEcc.HASH_SIZES` -/
def eccHashBits (coord : Nat) : Option Nat := lookup coord DatConsts.eccHashBits

/-- width of one CRTK table item read by `RotMetaEcc<n>.parse` for the subclass with `HASH_SIZE = coord`: the table the
    generator obtains by running the current class (`none` = a coordinate size it does not know) -/
def eccItemWidth (coord : Nat) : Option Nat := lookup coord DatConsts.eccItemWidthTbl

/-- read `n` items of `w` bytes -/
def rdItems (w : Nat) : Nat → Bytes → PyRes (List Bytes × Bytes)
  | 0, d => .ok ([], d)
  | n + 1, d => match rd w d with
    | .error e => .error e
    | .ok (it, r) => match rdItems w n r with
      | .error e => .error e
      | .ok (its, r') => .ok (it :: its, r')

/-- `RotMetaEcc<bits>.parse(data)` at the head of `d`; returns the object and the rest of the buffer.
    (The real slices are lenient; a short table is then refused by the `unpack_from` of the tail, with the
    same error class, so strict reads give the same observable result inside `DebugCredential*.parse`.) -/
def eccMetaParse (coord : Nat) (d : Bytes) : PyRes (RotMeta × Bytes) :=
  match flagsParse (d.take DatConsts.flagsLen) with
  | .error e => .error e
  | .ok (used, cnt) =>
    let r := d.drop DatConsts.flagsLen
    if cnt > 1 then
      match eccItemWidth coord with
      | none => .error .other
      | some w => match rdItems w cnt r with
        | .error e => .error e
        | .ok (its, r') => .ok (.ecc used cnt its, r')
    else .ok (.ecc used cnt [], r)

/-! ### EdgeLock enclave: opaque SRK table -/

structure SrkView where
  /-- `len(srk_table.export())` -/
  tableLen : Nat
  /-- `rot_pub.export()` of `srk_table.get_source_keys()[used]` -/
  rotPub : Bytes
  /-- `rot_pub.signature_size` -/
  sigSize : Nat
  deriving DecidableEq, Repr

/-- `SRKTable.parse(data)` + `verify().validate()` + key `used`: `none` = refused (an `SPSDKError`) -/
abbrev SrkOracle := Bytes → Nat → Option SrkView

/-- Executable oracle used by the driver: walks the AHAB container headers
    (`D7 len16 42`, four equally long records `E1 len16 alg hash size 00 flags p1len16 p2len16 p1 p2`). -/
def srkWalk : SrkOracle := fun d used =>
  if d.length < 4 then none else
  let total := leDec ((d.drop 1).take 2)
  if total < 4 ∨ (total - 4) % 4 ≠ 0 ∨ d.length < total ∨ used ≥ 4 then none else
  let rs := (total - 4) / 4
  let r := (d.drop (4 + used * rs)).take rs
  if r.length < 12 then none else
  let alg := (r.getD 3 0).toNat
  let p1 := leDec ((r.drop 8).take 2)
  let p2 := leDec ((r.drop 10).take 2)
  if r.length < 12 + p1 + p2 then none else
  let a := (r.drop 12).take p1
  let b := (r.drop (12 + p1)).take p2
  if alg = 0x21 ∨ alg = 0x22 then
    -- RSA: modulus ‖ exponent on its minimal number of bytes (`PublicKeyRsa.export()`), signature = modulus size
    let e := beDec b
    some ⟨total, a ++ beEnc (byteLen e) e, p1⟩
  else some ⟨total, a ++ b, p1 + p2⟩

/-! ### export -/

def rotMetaBytes (dc : DC) : Bytes := match rotMetaExport dc.rotMeta with | .ok b => b | .error _ => []

def widthVal (dc : DC) : DatW → Option Nat
  | .fixed n => some n
  | .rsaKey => lookup dc.minor DatConsts.rsaKeySize
  | .rsaSig => lookup dc.minor DatConsts.rsaSigSize
  | .lenRotMeta => some (rotMetaBytes dc).length
  | .rotCoord2 => some dc.rotPub.length      -- an exported ECC key is two coordinates
  | .dckCoord2 => some dc.dck.length
  | .lenDck => some dc.dck.length
  | .lenSig => some dc.sig.length
  | _ => none

def argNat (dc : DC) : DatArg → Option Nat
  | .major => some dc.major | .minor => some dc.minor | .socc => some dc.socc
  | .ccSocu => some dc.ccSocu | .ccVu => some dc.ccVu | .beacon => some dc.beacon
  | _ => none

def argBytes (dc : DC) : DatArg → Option Bytes
  | .uuid => some dc.uuid | .dck => some dc.dck | .rotPub => some dc.rotPub | .sig => some dc.sig
  | .rotMeta => match rotMetaExport dc.rotMeta with | .ok b => some b | .error _ => none
  | _ => none

/-- can the field be packed (no `struct.error` / `KeyError`) -/
def fieldOk (dc : DC) : DatFld × DatArg → Bool
  | (.u16, a) => match argNat dc a with | some v => decide (v < 65536) | none => false
  | (.u32, a) => match argNat dc a with | some v => decide (v < 4294967296) | none => false
  | (.bytes w, a) => (argBytes dc a).isSome && (widthVal dc w).isSome
  | _ => false

def fieldBytes (dc : DC) : DatFld × DatArg → Bytes
  | (.u16, a) => leEnc 2 ((argNat dc a).getD 0)
  | (.u32, a) => leEnc 4 ((argNat dc a).getD 0)
  | (.bytes w, a) => fitS ((widthVal dc w).getD 0) ((argBytes dc a).getD [])
  | _ => []

/-- `pack(fmt, args...)` for a generated layout -/
def packFields (dc : DC) (l : List (DatFld × DatArg)) : PyRes Bytes :=
  if l.all (fieldOk dc) then .ok (l.flatMap (fieldBytes dc)) else .error .other

def exportLayout : Cls → List (DatFld × DatArg)
  | .rsa => DatConsts.rsaExport | .ecc => DatConsts.eccExport | .ele => DatConsts.eleExport

def signLayout : Cls → List (DatFld × DatArg)
  | .rsa => DatConsts.rsaSign | .ecc => DatConsts.eccSign | .ele => DatConsts.eleSign

/-- `DebugCredentialCertificate*.export()` -/
def exportDC (dc : DC) : PyRes Bytes :=
  if dc.sig.isEmpty then .error .spsdk else packFields dc (exportLayout dc.cls)

/-- `DebugCredentialCertificate*._get_data_to_sign()` -/
def dataToSign (dc : DC) : PyRes Bytes := packFields dc (signLayout dc.cls)

/-! ### parse -/

/-- `DebugCredentialCertificateRsa.parse` -/
def parseRsa (data : Bytes) : PyRes DC := do
  let (bMaj, d) ← rd 2 data
  let (bMin, d) ← rd 2 d
  let major := leDec bMaj
  let minor := leDec bMin
  if !versionOk major minor then throw .spsdk
  let ks ← match lookup minor DatConsts.rsaKeySize with | some v => pure v | none => throw PyErr.other
  let ss ← match lookup minor DatConsts.rsaSigSize with | some v => pure v | none => throw PyErr.other
  let (bSocc, d) ← rd 4 d
  let (uuid, d) ← rd 16 d
  let (rm, d) ← rd DatConsts.rotMetaRsaSize d
  let (dck, d) ← rd ks d
  let (bSocu, d) ← rd 4 d
  let (bVu, d) ← rd 4 d
  let (bBeacon, d) ← rd 4 d
  let (rotPub, d) ← rd ks d
  let (sig, _) ← rd ss d
  let rotMeta ← rsaMetaParse rm
  pure { cls := .rsa, major, minor, socc := leDec bSocc, uuid, rotMeta, dck, ccSocu := leDec bSocu,
         ccVu := leDec bVu, beacon := leDec bBeacon, rotPub, sig }

structure Head where
  major : Nat
  minor : Nat
  socc : Nat
  uuid : Bytes
  ccSocu : Nat
  ccVu : Nat
  beacon : Nat

/-- `unpack_from("<2HL16sLLL", data)` + `ProtocolVersion.from_version` (ECC and EdgeLock parse) -/
def parseHead (data : Bytes) : PyRes (Head × Bytes) := do
  let (bMaj, d) ← rd 2 data
  let (bMin, d) ← rd 2 d
  let (bSocc, d) ← rd 4 d
  let (uuid, d) ← rd 16 d
  let (bSocu, d) ← rd 4 d
  let (bVu, d) ← rd 4 d
  let (bBeacon, d) ← rd 4 d
  let major := leDec bMaj
  let minor := leDec bMin
  if !versionOk major minor then throw .spsdk
  pure (⟨major, minor, leDec bSocc, uuid, leDec bSocu, leDec bVu, leDec bBeacon⟩, d)

/-- `DebugCredentialCertificateEcc.parse` -/
def parseEcc (data : Bytes) : PyRes DC := do
  let (h, d) ← parseHead data
  let coord ← match lookup h.minor DatConsts.eccCoordSize with | some v => pure v | none => throw PyErr.other
  -- `RotMetaEcc._get_subclass(hash_size)`
  if (eccHashBits coord).isNone then throw .spsdk
  let (rotMeta, d) ← eccMetaParse coord d
  let (rotPub, d) ← rd (coord * 2) d
  let (dck, d) ← rd (coord * 2) d
  let (sig, _) ← rd (coord * 2) d
  pure { cls := .ecc, major := h.major, minor := h.minor, socc := h.socc, uuid := h.uuid, rotMeta, dck,
         ccSocu := h.ccSocu, ccVu := h.ccVu, beacon := h.beacon, rotPub, sig }

/-- `DebugCredentialEdgeLockEnclave.parse` relative to an SRK oracle -/
def parseEle (o : SrkOracle) (data : Bytes) : PyRes DC := do
  let (h, d) ← parseHead data
  let (used, cnt) ← flagsParse (d.take DatConsts.flagsLen)
  let d := d.drop DatConsts.flagsLen
  let v ← match o d used with | some v => pure v | none => throw PyErr.spsdk
  let (srk, d) ← rd v.tableLen d
  let (dck, d) ← rd v.rotPub.length d
  let (sig, _) ← rd v.sigSize d
  pure { cls := .ele, major := h.major, minor := h.minor, socc := h.socc, uuid := h.uuid,
         rotMeta := .ele used cnt srk, dck, ccSocu := h.ccSocu, ccVu := h.ccVu, beacon := h.beacon,
         rotPub := v.rotPub, sig }

def parseCls (o : SrkOracle) : Cls → Bytes → PyRes DC
  | .rsa => parseRsa | .ecc => parseEcc | .ele => parseEle o

/-! ### database dispatch -/

/-- `get_family_ambassador(socc)`: last family (sorted by name; `rows` is generated in that order) having a
    revision with this SoC class -/
def ambassador (rows : List DatRow) (socc : Nat) : Option String :=
  ((rows.filter (fun r => r.socc == socc && r.revision != "latest")).getLast?).map (·.family)

def latestRow (rows : List DatRow) (family : String) : Option DatRow :=
  rows.find? (fun r => r.family == family && r.revision == "latest")

def findRow (rows : List DatRow) (family revision : String) : Option DatRow :=
  rows.find? (fun r => r.family == family && r.revision == revision)

inductive ClsSel where
  | cls (c : Cls)
  | eleV2
  deriving DecidableEq, Repr

/-- `DebugCredentialCertificate._get_class(family, version, revision)` for a database row -/
def getClass (row : DatRow) (major minor : Nat) : PyRes ClsSel :=
  if row.basedOnEle then
    if major = 2 ∧ minor = 0 then .ok (.cls .ele)
    else if row.eleCntVersion = 1 then .ok (.cls .ele)
    else if row.eleCntVersion = 2 then .ok .eleV2
    else .error .spsdk
  else if major = 1 then .ok (.cls .rsa) else .ok (.cls .ecc)

/-- `DebugCredentialCertificate.parse(data)` once `DebugCredentialEdgeLockEnclaveV2.parse` has refused `data` -/
def parseDC (rows : List DatRow) (o : SrkOracle) (data : Bytes) : PyRes DC := do
  let (bMaj, d) ← rd 2 data
  let (bMin, d) ← rd 2 d
  let (bSocc, _) ← rd 4 d
  let fam ← match ambassador rows (leDec bSocc) with | some f => pure f | none => throw PyErr.spsdk
  let major := leDec bMaj
  let minor := leDec bMin
  if !versionOk major minor then throw .spsdk
  let row ← match latestRow rows fam with | some r => pure r | none => throw PyErr.spsdk
  match ← getClass row major minor with
  | .cls c => parseCls o c data
  | .eleV2 => throw .spsdk

/-! ### RoT key hash -/

def hashOfBits : Nat → Option HashAlg
  | 256 => some .sha256 | 384 => some .sha384 | 512 => some .sha512 | _ => none

/-- entry of a probed hash table: a SHA-2 width, `0` = SPSDK error, `1` = another error -/
def hashOfCode (v : Nat) : PyRes HashAlg :=
  if v = 0 then .error .spsdk else if v = 1 then .error .other
  else match hashOfBits v with | some a => .ok a | none => .error .spsdk

/-- hash algorithm of `RotMetaEcc.calculate_hash` for a table of items of `itemLen` bytes (probed table; a width that was not
    probed is answered `.other`) -/
def eccTableHash (itemLen : Nat) : PyRes HashAlg :=
  match lookup itemLen DatConsts.eccTableHashTbl with
  | some v => hashOfCode v
  | none => .error .other

/-- the single-key fallback of `DebugCredentialCertificateEcc.calculate_hash` by coordinate size (probed table) -/
def eccSingleKeyHash (rotPubLen : Nat) : PyRes HashAlg :=
  match lookup (rotPubLen / 2) DatConsts.eccSingleKeyHashTbl with
  | some v => hashOfCode v
  | none => .error .other

/-- `calculate_hash()` of the three classes -/
def calculateHash (c : CryptoOps) (dc : DC) : PyRes Bytes :=
  match dc.cls, dc.rotMeta with
  | .rsa, .rsa items => .ok (c.hash .sha256 (rsaMetaExport items))
  | .ecc, .ecc _ cnt items =>
    let t := crtkTable items
    if t.isEmpty then
      match eccSingleKeyHash dc.rotPub.length with
      | .ok a => .ok (c.hash a dc.rotPub)
      | .error e => .error e
    else if cnt = 0 then .error .other    -- ZeroDivisionError; unreachable for validated flags
    else match eccTableHash (t.length / cnt) with
      | .ok a => .ok (c.hash a t)
      | .error e => .error e
  | .ele, .ele _ _ srk => .ok (c.hash .sha256 srk)
  | _, _ => .error .other

/-! ### RoT meta from raw key material (`load_from_config`) -/

/-- `RotMetaRSA.load_from_config`: items = SHA-256 of `modulus ‖ exponent(3 bytes)` (`export(exp_length=3)`), given
    those exported byte strings -/
def rsaMetaOfKeys (c : CryptoOps) (keys : List Bytes) : PyRes RotMeta :=
  if keys.length > DatConsts.rotMetaRsaMaxKeys then .error .spsdk else .ok (.rsa (keys.map (c.hash .sha256)))

/-- `RotMetaEcc.load_from_config`: keys are `x ‖ y` byte strings of one coordinate size -/
def eccMetaOfKeys (c : CryptoOps) (keys : List Bytes) (used : Nat) : PyRes RotMeta :=
  match keys with
  | [] => .error .spsdk
  | k0 :: _ =>
    let coord := k0.length / 2
    if keys.any (fun k => k.length / 2 ≠ coord) then .error .spsdk else
    match eccHashBits coord with
    | none => .error .spsdk        -- _get_subclass
    | some bits => match hashOfBits bits with
      | none => .error .spsdk
      | some a =>
        if flagsValid used keys.length then .ok (.ecc used keys.length (if keys.length > 1 then keys.map (c.hash a) else []))
        else .error .spsdk

/-! ### what `create_from_yaml_config` refuses -/

/-- type and size of a key file -/
inductive KeyKind where
  | rsa (bits : Nat)
  | ecc (bits : Nat)
  deriving DecidableEq, Repr, Inhabited

/-- `ProtocolVersion.from_public_key` (`none` = KeyError for a size outside the tables) -/
def versionOfKey : KeyKind → Option (Nat × Nat)
  | .rsa bits => (lookup bits DatConsts.rsaMinorOfBits).map (fun m => (1, m))
  | .ecc bits => (lookup bits DatConsts.eccMinorOfBits).map (fun m => (2, m))

/-- What `create_from_yaml_config` refuses before anything is built: a UUID that is not 16 bytes long, a DCK of another type / size
    than the RoT key and, for the RSA / ECC classes, a protocol version other than the one the RoT key implies.  Hand-written;
    `gen_create_probes` checks it against the accept / refuse table the generator obtains by running the current function. -/
def createCheck (cls : Cls) (major minor uuidLen : Nat) (rot dck : KeyKind) : PyRes Unit :=
  if uuidLen != 16 then .error .spsdk
  else if dck != rot then .error .spsdk
  else if cls == .rsa || cls == .ecc then
    match versionOfKey rot with
    | none => .error .other
    | some v => if v != (major, minor) then .error .spsdk else .ok ()
  else .ok ()

/-! ### signing -/

def sigAlg (pss : Bool) (dc : DC) : SigAlg :=
  match dc.cls with
  | .rsa => if pss then .rsaPss .sha256 else .rsaPkcs1v15 .sha256
  | _ =>
    if dc.rotPub.length = 64 then .ecdsa .sha256 else if dc.rotPub.length = 96 then .ecdsa .sha384
    else if dc.rotPub.length = 132 then .ecdsa .sha512
    else if pss then .rsaPss .sha256 else .rsaPkcs1v15 .sha256

/-- `dc.sign()` with a plain-file signature provider holding `sk` -/
def signDC (c : CryptoOps) (pss : Bool) (sk : PrivKey) (r : Rand) (dc : DC) : PyRes DC :=
  match dataToSign dc with
  | .ok m => let s := c.sign (sigAlg pss dc) sk m r
             if s.isEmpty then .error .spsdk else .ok { dc with sig := s }
  | .error e => .error e

/-! ### challenge (DAC) -/

structure DAC where
  major : Nat
  minor : Nat
  socc : Nat
  uuid : Bytes
  revocation : Nat
  rkthHash : Bytes
  socPinned : Nat
  socDefault : Nat
  ccVu : Nat
  challenge : Bytes
  deriving DecidableEq, Repr, Inhabited

def dacArgNat (a : DAC) : DatArg → Option Nat
  | .major => some a.major | .minor => some a.minor | .socc => some a.socc | .revocation => some a.revocation
  | .socPinned => some a.socPinned | .socDefault => some a.socDefault | .ccVu => some a.ccVu | _ => none

def dacArgBytes (a : DAC) : DatArg → Option Bytes
  | .uuid => some a.uuid | .rkthHash => some a.rkthHash | .challenge => some a.challenge | _ => none

def dacFieldOk (a : DAC) : DatFld × DatArg → Bool
  | (.u16, x) => match dacArgNat a x with | some v => decide (v < 65536) | none => false
  | (.u32, x) => match dacArgNat a x with | some v => decide (v < 4294967296) | none => false
  | (.raw, x) => (dacArgBytes a x).isSome
  | _ => false

def dacFieldBytes (a : DAC) : DatFld × DatArg → Bytes
  | (.u16, x) => leEnc 2 ((dacArgNat a x).getD 0)
  | (.u32, x) => leEnc 4 ((dacArgNat a x).getD 0)
  | (.raw, x) => (dacArgBytes a x).getD []
  | _ => []

/-- `DebugAuthenticationChallenge.export()` -/
def dacExport (a : DAC) : PyRes Bytes :=
  if DatConsts.dacExport.all (dacFieldOk a) then .ok (DatConsts.dacExport.flatMap (dacFieldBytes a)) else .error .other

/-- `get_rot_hash_length`: 32 bytes for EdgeLock / "always SHA-256" families and for everything but protocol 2.1 (48) and 2.2 (64).
    Hand-written; `gen_dac` checks it against the table the generator obtains by running the current function. -/
def dacRotHashLen (ele sha : Bool) (major minor : Nat) : Nat :=
  if ele then 32
  else if major = 2 ∧ sha = false then (if minor = 1 then 48 else if minor = 2 then 64 else 32)
  else 32

/-- `DebugAuthenticationChallenge.parse(data)` -/
def dacParse (rows : List DatRow) (data : Bytes) : PyRes DAC := do
  let (bMaj, d) ← rd 2 data
  let (bMin, d) ← rd 2 d
  let (bSocc, d) ← rd 4 d
  let (uuid, d) ← rd 16 d
  let (bRev, d) ← rd 4 d
  let fam ← match ambassador rows (leDec bSocc) with | some f => pure f | none => throw PyErr.spsdk
  let row ← match latestRow rows fam with | some r => pure r | none => throw PyErr.spsdk
  let maj0 := leDec bMaj
  let min0 := leDec bMin
  let hl := dacRotHashLen row.basedOnEle row.sha256Always maj0 min0
  let (major, minor) := if row.dacVersionSwapped then (min0, maj0) else (maj0, min0)
  let (hash, d) ← rd hl d
  let (bPinned, d) ← rd 4 d
  let (bDefault, d) ← rd 4 d
  let (bVu, d) ← rd 4 d
  let (challenge, _) ← rd 32 d
  if !versionOk major minor then throw .spsdk
  pure { major, minor, socc := leDec bSocc, uuid, revocation := leDec bRev, rkthHash := hash,
         socPinned := leDec bPinned, socDefault := leDec bDefault, ccVu := leDec bVu, challenge }

/-- `all(dac[x] == dc[x] for x in range(len(dac)))`: `none` = IndexError -/
def prefixEq : Bytes → Bytes → Option Bool
  | [], _ => some true
  | _ :: _, [] => none
  | a :: as, b :: bs => if a = b then prefixEq as bs else some false

/-- `validate_against_dc(family, dc)` for the latest row of `family`; `dcHash` = `dc.calculate_hash()` -/
def dacValidate (row : DatRow) (a : DAC) (dc : DC) (dcHash : PyRes Bytes) : PyRes Unit :=
  if (a.major ≠ dc.major ∨ a.minor ≠ dc.minor) ∧ !row.basedOnEle then .error .spsdk
  else if a.socc ≠ dc.socc then .error .spsdk
  else if a.uuid ≠ dc.uuid ∧ dc.uuid ≠ zeros dc.uuid.length then .error .spsdk
  else match dcHash with
    | .error e => .error e
    | .ok h =>
      if h.isEmpty then .ok () else
      match prefixEq a.rkthHash h with
      | none => .error .other
      | some true => .ok ()
      | some false =>
        if row.rotNotPartOfDac then .ok ()
        else if row.rotCouldBeInvalid then .ok ()
        else .error .spsdk

/-! ### response (DAR) -/

structure DAR where
  dc : DC
  authBeacon : Nat
  /-- `dac.uuid` -/
  uuid : Bytes
  /-- `dac.challenge` -/
  challenge : Bytes
  /-- the response class derives from `DebugAuthenticateResponseECC` -/
  usesEcc : Bool
  deriving DecidableEq, Repr, Inhabited

/-- `_version_mapping[version]` -/
def darUsesEcc (major minor : Nat) : Option Bool :=
  (DatConsts.darVersionUsesEcc.find? (fun p => p.1 == (major, minor))).map (·.2)

def darCommonLayout (usesEcc : Bool) : List (DatFld × DatArg) :=
  if usesEcc then DatConsts.darCommonEcc else DatConsts.darCommonBase

def darFieldOk (r : DAR) : DatFld × DatArg → Bool
  | (.raw, .dcExport) => match exportDC r.dc with | .ok _ => true | .error _ => false
  | (.u32, .authBeacon) => decide (r.authBeacon < 4294967296)
  | (.bytes (.fixed _), .dacUuid) => true
  | _ => false

def darFieldBytes (r : DAR) : DatFld × DatArg → Bytes
  | (.raw, .dcExport) => match exportDC r.dc with | .ok b => b | .error _ => []
  | (.u32, .authBeacon) => leEnc 4 r.authBeacon
  | (.bytes (.fixed n), .dacUuid) => fitS n r.uuid
  | _ => []

/-- `_get_common_data()` -/
def darCommon (r : DAR) : PyRes Bytes :=
  match exportDC r.dc with
  | .error e => .error e
  | .ok _ =>
    let l := darCommonLayout r.usesEcc
    if l.all (darFieldOk r) then .ok (l.flatMap (darFieldBytes r)) else .error .other

/-- `_get_data_for_signature()` = common data ‖ challenge -/
def darMsg (r : DAR) : PyRes Bytes :=
  if DatConsts.darSignLayout = [(.raw, .skip), (.raw, .dacChallenge)] then
    match darCommon r with | .ok b => .ok (b ++ r.challenge) | .error e => .error e
  else .error .other

def darSigAlg (pss : Bool) (r : DAR) : SigAlg :=
  match r.dc.cls with
  | .rsa => if pss then .rsaPss .sha256 else .rsaPkcs1v15 .sha256
  | _ =>
    if r.dc.dck.length = 64 then .ecdsa .sha256 else if r.dc.dck.length = 96 then .ecdsa .sha384
    else if r.dc.dck.length = 132 then .ecdsa .sha512
    else if pss then .rsaPss .sha256 else .rsaPkcs1v15 .sha256

/-- `export()` = common data ‖ signature of `darMsg` by the DCK private key `sk` -/
def darExport (c : CryptoOps) (pss : Bool) (sk : PrivKey) (rnd : Rand) (r : DAR) : PyRes Bytes :=
  if DatConsts.darExportLayout = [(.raw, .skip), (.raw, .signature)] then
    match darCommon r, darMsg r with
    | .ok b, .ok m =>
      let s := c.sign (darSigAlg pss r) sk m rnd
      if s.isEmpty then .error .spsdk else .ok (b ++ s)
    | .error e, _ => .error e
    | _, .error e => .error e
  else .error .other

/-! ### well-formed objects: what `create_from_yaml_config` / the constructors establish

These are the hypotheses of the C15 theorems.  Everything is stated over the generated size tables, so a
changed size in the source changes the hypothesis as well as the codec. -/

structure WFCommon (dc : DC) : Prop where
  ver : versionOk dc.major dc.minor = true
  socc : dc.socc < 4294967296
  socu : dc.ccSocu < 4294967296
  vu : dc.ccVu < 4294967296
  beacon : dc.beacon < 4294967296
  uuid : dc.uuid.length = 16
  sigNe : dc.sig ≠ []

/-- RSA credential: ≤ 4 non-zero SHA-256 items, keys and signature of the width the minor version dictates -/
structure WFRsa (dc : DC) : Prop where
  common : WFCommon dc
  cls : dc.cls = .rsa
  shape : ∃ items ks ss, dc.rotMeta = .rsa items ∧ items.length ≤ DatConsts.rotMetaRsaCount ∧
    (∀ it ∈ items, it.length = DatConsts.rotMetaRsaItem ∧ allZero it = false) ∧
    lookup dc.minor DatConsts.rsaKeySize = some ks ∧ lookup dc.minor DatConsts.rsaSigSize = some ss ∧
    dc.dck.length = ks ∧ dc.rotPub.length = ks ∧ dc.sig.length = ss

/-- ECC credential: flags `used < cnt ≤ 4`, no table for one key, `cnt` digests otherwise, two coordinates per key
    and signature -/
structure WFEcc (dc : DC) : Prop where
  common : WFCommon dc
  cls : dc.cls = .ecc
  shape : ∃ used cnt items coord w, dc.rotMeta = .ecc used cnt items ∧
    lookup dc.minor DatConsts.eccCoordSize = some coord ∧ (eccHashBits coord).isSome = true ∧
    eccItemWidth coord = some w ∧ used < cnt ∧ cnt ≤ 4 ∧
    (cnt = 1 → items = []) ∧ (1 < cnt → items.length = cnt ∧ ∀ it ∈ items, it.length = w) ∧
    dc.rotPub.length = coord * 2 ∧ dc.dck.length = coord * 2 ∧ dc.sig.length = coord * 2

/-- EdgeLock credential relative to an SRK oracle that recognises the credential's own table -/
structure WFEle (o : SrkOracle) (dc : DC) : Prop where
  common : WFCommon dc
  cls : dc.cls = .ele
  shape : ∃ used cnt srk, dc.rotMeta = .ele used cnt srk ∧ used < cnt ∧ cnt ≤ 4 ∧
    (∀ rest, o (srk ++ rest) used = some ⟨srk.length, dc.rotPub, dc.sig.length⟩) ∧
    dc.dck.length = dc.rotPub.length

def WF (o : SrkOracle) (dc : DC) : Prop :=
  match dc.cls with
  | .rsa => WFRsa dc
  | .ecc => WFEcc dc
  | .ele => WFEle o dc

/-- a challenge as `DebugAuthenticationChallenge.parse` produces it -/
structure WFDac (a : DAC) : Prop where
  uuid : a.uuid.length = 16
  challenge : a.challenge.length = 32

/-- a response request: 32-bit beacon, 16-byte UUID and 32-byte challenge taken from a parsed DAC -/
structure WFDar (o : SrkOracle) (r : DAR) : Prop where
  dc : WF o r.dc
  beacon : r.authBeacon < 4294967296
  uuid : r.uuid.length = 16
  challenge : r.challenge.length = 32

/-! ### the documented binary layouts, written out by hand (specification side)

`Properties/C15.lean` proves that the interpretation of the *generated* layouts (`exportDC`, `dataToSign`) equals these
for well-formed credentials; they do not refer to `Generated/DatConsts.lean` layouts at all. -/

/-- version ‖ SoCC ‖ UUID ‖ RoT meta (128) ‖ DCK ‖ CC_SOCU ‖ CC_VU ‖ CB ‖ RoT key  (RSA, the signed part) -/
def specTbsRsa (dc : DC) (items : List Bytes) : Bytes :=
  leEnc 2 dc.major ++ (leEnc 2 dc.minor ++ (leEnc 4 dc.socc ++ (dc.uuid ++ (rsaMetaExport items ++ (dc.dck ++
    (leEnc 4 dc.ccSocu ++ (leEnc 4 dc.ccVu ++ (leEnc 4 dc.beacon ++ dc.rotPub))))))))

/-- `1 << 31 | used << 8 | cnt << 4`, little endian -/
def specFlags (used cnt : Nat) : Bytes := leEnc 4 (2147483648 + used * 256 + cnt * 16)

/-- version ‖ SoCC ‖ UUID ‖ CC_SOCU ‖ CC_VU ‖ CB ‖ flags ‖ [CRTK table] ‖ RoT key ‖ DCK  (ECC, the signed part) -/
def specTbsEcc (dc : DC) (used cnt : Nat) (items : List Bytes) : Bytes :=
  leEnc 2 dc.major ++ (leEnc 2 dc.minor ++ (leEnc 4 dc.socc ++ (dc.uuid ++ (leEnc 4 dc.ccSocu ++ (leEnc 4 dc.ccVu ++
    (leEnc 4 dc.beacon ++ ((specFlags used cnt ++ crtkTable items) ++ (dc.rotPub ++ dc.dck))))))))

/-- version ‖ SoCC ‖ UUID ‖ CC_SOCU ‖ CC_VU ‖ CB ‖ flags ‖ SRK table ‖ DCK  (EdgeLock enclave, the signed part) -/
def specTbsEle (dc : DC) (used cnt : Nat) (srk : Bytes) : Bytes :=
  leEnc 2 dc.major ++ (leEnc 2 dc.minor ++ (leEnc 4 dc.socc ++ (dc.uuid ++ (leEnc 4 dc.ccSocu ++ (leEnc 4 dc.ccVu ++
    (leEnc 4 dc.beacon ++ ((specFlags used cnt ++ srk) ++ dc.dck)))))))

/-- the signed part of a credential, by class -/
def specTbs (dc : DC) : Bytes :=
  match dc.rotMeta with
  | .rsa items => specTbsRsa dc items
  | .ecc used cnt items => specTbsEcc dc used cnt items
  | .ele used cnt srk => specTbsEle dc used cnt srk

end SpsdkVerif.Dat
