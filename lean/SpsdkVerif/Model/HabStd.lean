/-
C07 — the standard shape of a CSF command list as `CsfHabSegment.load_from_config` produces it from a configuration
with the sections Header, Install SRK, Install CSFK, Authenticate CSF, [Set Engine / Unlock / NOP]*, Install Key,
Authenticate Data and — for encrypted images — Install Secret Key, Decrypt Data (in this order).  Hypothesis of
`Properties/C07.lean: rom_accepts`; the harness generates exactly such configurations (plus fast authentication,
which is outside this shape).
-/
import SpsdkVerif.Model.HabWF

namespace SpsdkVerif.Hab
open SpsdkVerif SpsdkVerif.Misc SpsdkVerif.Generated

structure StdCsf where
  srkAlg : Nat
  srkSrc : Nat
  srkBlob : Bytes          -- exported SRK table
  csfkAlg : Nat
  csfCert : Bytes          -- exported CSF certificate block
  engCsf : Nat
  cfgCsf : Nat
  extras : List Cmd        -- Set / Unlock / NOP commands between Authenticate CSF and Install Key
  imgAlg : Nat
  imgSlot : Nat
  imgCert : Bytes          -- exported image-key certificate block
  engDat : Nat
  cfgDat : Nat
  skAlg : Nat
  kek : Nat
  keySlot : Nat
  engDec : Nat
  cfgDec : Nat

/-- encrypted part: location of the DEK blob, blocks and data block of the Decrypt Data command -/
structure EncPart where
  loc : Nat
  blocks : List (Nat × Nat)
  mac : Option Bytes

/-- the command list; `L k` is the data reference of the k-th referring command (0 as loaded) -/
def StdCsf.list (s : StdCsf) (L : Nat → Nat) (sigC : Bytes) (blocksD : List (Nat × Nat)) (sigD : Bytes) (enc : Option EncPart) :
    List CsfCmd :=
  [⟨.insKey 0 3 s.srkAlg s.srkSrc 0 (L 1), some s.srkBlob⟩, ⟨.insKey 2 9 s.csfkAlg 0 1 (L 2), some s.csfCert⟩,
   ⟨.autDat 0 1 0xC5 s.engCsf s.cfgCsf (L 3) [], some sigC⟩] ++
  (s.extras.map (fun c => (⟨c, none⟩ : CsfCmd)) ++
  ([⟨.insKey 0 9 s.imgAlg 0 s.imgSlot (L 4), some s.imgCert⟩,
    ⟨.autDat 0 s.imgSlot 0xC5 s.engDat s.cfgDat (L 5) blocksD, some sigD⟩] ++
  (match enc with
   | some e => [⟨.insKey 1 0xBB s.skAlg s.kek s.keySlot e.loc, none⟩,
                ⟨.autDat 0 s.keySlot 0xA3 s.engDec s.cfgDec (L 6) e.blocks, e.mac⟩]
   | none => [])))

/-- a certificate-like data block: tag 0xD7 header with its own length -/
def CrtBlob (d : Bytes) : Prop := ∃ p body, p < 256 ∧ d = hdr Spec.tagCRT d.length p ++ body

def isExtra : Cmd → Bool
  | .set .. => true
  | .unlock .. => true
  | .nop _ => true
  | _ => false

/-- the configuration's command list is the standard one (as loaded: signatures empty, no blocks, no MAC yet) -/
structure StdCfg (c : Cfg) (s : StdCsf) : Prop where
  cmds : c.cmds = s.list (fun _ => 0) (sigBlob c.version []) [] (sigBlob c.version [])
            (if isEnc c.flags then some ⟨secretKeyLocN c.ils c.app.length c.start, [], none⟩ else none)
  extras : ∀ e ∈ s.extras, isExtra e = true
  srkSrc : s.srkSrc ≤ 3
  imgSlot : 2 ≤ s.imgSlot ∧ s.imgSlot ≤ 5
  kek : s.kek ≤ 3
  keySlot : s.keySlot ≤ 3
  srkBlob : CrtBlob s.srkBlob
  csfCert : CrtBlob s.csfCert
  imgCert : CrtBlob s.imgCert

end SpsdkVerif.Hab
