/-
Executable model of SPSDK's symmetric-crypto glue, over an arbitrary `c : CryptoOps`:

  spsdk/crypto/symmetric.py   Counter, aes_key_wrap/unwrap, aes_ecb/cbc/ctr/xts/ccm_*, sm4_cbc_*
  spsdk/crypto/cmac.py, spsdk_hmac.py, hkdf.py, hash.py, crc.py
  spsdk/image/keystore.py     KeyStore.derive_*
  spsdk/sbfile/sb31/functions.py   _get_key_derivation_data, _derive_key, derive_kdk, derive_block_key

What is modelled is the SPSDK side: optional-parameter defaults, length checks and which exception
class they raise (`.spsdk` = SPSDKError, `.other` = anything `cryptography` raises: ValueError,
InvalidTag, InvalidUnwrap, UnsupportedAlgorithm …), padding, argument layout.  The library calls
(`cryptography`, `crcmod`) are replaced by the reference definitions of `Crypto/Modes.lean` /
`Crypto/Crc.lean`; that they coincide is checked by the C09 correspondence sweep (assumption, not theorem).

Constants that come from the source (default IV lengths, key-store constants, CRC table) are
imported from `Generated/SymConsts.lean` / `Generated/CrcTable.lean`.
Tied to /repo by harness/props/C09.py.  No Mathlib imports.
-/
import SpsdkVerif.Crypto.Modes
import SpsdkVerif.Crypto.Crc
import SpsdkVerif.Generated.SymConsts
import SpsdkVerif.Generated.CrcTable
import SpsdkVerif.Generated.Sb31Kdf

namespace SpsdkVerif.SymWrappers
open SpsdkVerif SpsdkVerif.Crypto
open SpsdkVerif.Misc (beEnc beDec leEnc leDec)
open SpsdkVerif.Generated

/-! ## `Counter` -/

/-- `Counter`: `_nonce` (first 12 bytes), `_ctr` (unbounded Python int), byte order of the encoding -/
structure Counter where
  nonce : Bytes
  ctr : Int
  little : Bool
  deriving DecidableEq, Repr

def enc32 (little : Bool) (v : Nat) : Bytes := if little then leEnc 4 v else beEnc 4 v
def dec32 (little : Bool) (b : Bytes) : Nat := if little then leDec b else beDec b

/-- `Counter(nonce, ctr_value, ctr_byteorder_encoding)`; `nonce` must be exactly 16 bytes -/
def Counter.new (nonce : Bytes) (ctrValue : Option Int) (little : Bool) : PyRes Counter :=
  if nonce.length ≠ 16 then .error .spsdk
  else .ok ⟨nonce.take 12, (dec32 little (nonce.drop 12) : Int) + ctrValue.getD 0, little⟩

def Counter.increment (c : Counter) (v : Int) : Counter := { c with ctr := c.ctr + v }

/-- `.value`: nonce ‖ 32-bit counter; `_ctr & 0xFFFFFFFF` is the residue modulo 2^32 also for negative values -/
def Counter.value (c : Counter) : Bytes := c.nonce ++ enc32 c.little (c.ctr % 4294967296).toNat

/-! ## AES / SM4 wrappers -/

def aesKeyOk (k : Bytes) : Bool := k.length == 16 || k.length == 24 || k.length == 32

/-- `len(key) * 8 in algorithms.AES.key_sizes` — the class attribute also lists 512 (for XTS) -/
def aesKeySizeListed (k : Bytes) : Bool := aesKeyOk k || k.length == 64

def aesKeyWrap (c : CryptoOps) (kek p : Bytes) : PyRes Bytes :=
  if !aesKeyOk kek then .error .other
  else if p.length < 16 ∨ p.length % 8 ≠ 0 then .error .other
  else .ok (kwWrap c kek p)

def aesKeyUnwrap (c : CryptoOps) (kek w : Bytes) : PyRes Bytes :=
  if !aesKeyOk kek then .error .other
  else match kwUnwrap c kek w with
    | some p => .ok p
    | none => .error .other

def aesEcbEncrypt (c : CryptoOps) (k m : Bytes) : PyRes Bytes :=
  if !aesKeyOk k then .error .other
  else if m.length % 16 ≠ 0 then .error .other
  else .ok (ecbEnc c k m)

def aesEcbDecrypt (c : CryptoOps) (k ct : Bytes) : PyRes Bytes :=
  if !aesKeyOk k then .error .other
  else if ct.length % 16 ≠ 0 then .error .other
  else .ok (ecbDec c k ct)

/-- `iv_data or bytes(n)`: `None` and `b""` are both falsy -/
def ivOrDefault (iv : Option Bytes) (dfltLen : Nat) : Bytes :=
  match iv with
  | none => zeros dfltLen
  | some v => if v.isEmpty then zeros dfltLen else v

def aesCbcEncrypt (c : CryptoOps) (k m : Bytes) (iv : Option Bytes) : PyRes Bytes :=
  if !aesKeySizeListed k then .error .spsdk
  else
    let iv' := ivOrDefault iv SymConsts.aesCbcEncDefaultIvLen
    if iv'.length * 8 ≠ SymConsts.aesCbcEncIvBits then .error .spsdk
    else if !aesKeyOk k then .error .other          -- 64-byte key: listed, but not usable with CBC
    else if iv'.length ≠ 16 then .error .other      -- unreachable while the required IV size is 128 bits
    else .ok (cbcEnc c k iv' (zeroPad16 m))

def aesCbcDecrypt (c : CryptoOps) (k ct : Bytes) (iv : Option Bytes) : PyRes Bytes :=
  if !aesKeySizeListed k then .error .spsdk
  else
    let iv' := ivOrDefault iv SymConsts.aesCbcDecDefaultIvLen
    if iv'.length * 8 ≠ SymConsts.aesCbcDecIvBits then .error .spsdk
    else if !aesKeyOk k then .error .other
    else if iv'.length ≠ 16 then .error .other
    else if ct.length % 16 ≠ 0 then .error .other
    else .ok (cbcDec c k iv' ct)

def aesCtr (c : CryptoOps) (k m nonce : Bytes) : PyRes Bytes :=
  if !aesKeyOk k then .error .other
  else if nonce.length ≠ 16 then .error .other
  else .ok (ctrXor c k nonce m)

/-- XTS with ciphertext stealing for the last partial block (what OpenSSL does for `len % 16 ≠ 0`);
    `f` is the keyed block function of the direction, `dec` tells which tweak goes first at the end -/
def xtsTweakAt (t0 : Bytes) : Nat → Bytes
  | 0 => t0
  | n + 1 => gfDouble (xtsTweakAt t0 n)

def xtsBlock (f : Bytes → Bytes) (t b : Bytes) : Bytes := xorBytes (f (xorBytes b t)) t

def xtsSteal (f : Bytes → Bytes) (dec : Bool) (t0 m : Bytes) : Bytes :=
  let n := m.length / 16          -- full blocks
  let r := m.length % 16
  if r = 0 then xtsAux f n t0 m
  else
    let head := xtsAux f (n - 1) t0 m
    let pLast := (m.drop (16 * (n - 1))).take 16
    let pTail := m.drop (16 * n)
    let tA := xtsTweakAt t0 (n - 1)
    let tB := gfDouble tA
    let cc := xtsBlock f (if dec then tB else tA) pLast
    let pp := pTail ++ cc.drop r
    head ++ xtsBlock f (if dec then tA else tB) pp ++ cc.take r

def xtsCheck (k m tweak : Bytes) : Option PyErr :=
  if !(k.length == 32 || k.length == 64) then some .other
  else if k.take (k.length / 2) == k.drop (k.length / 2) then some .other   -- "duplicated keys"
  else if tweak.length ≠ 16 then some .other
  else if 0 < m.length ∧ m.length < 16 then some .other
  else none

def aesXtsEncrypt (c : CryptoOps) (k m tweak : Bytes) : PyRes Bytes :=
  match xtsCheck k m tweak with
  | some e => .error e
  | none =>
    let k1 := k.take (k.length / 2)
    let k2 := k.drop (k.length / 2)
    .ok (xtsSteal (c.encBlk k1) false (c.encBlk k2 tweak) m)

def aesXtsDecrypt (c : CryptoOps) (k ct tweak : Bytes) : PyRes Bytes :=
  match xtsCheck k ct tweak with
  | some e => .error e
  | none =>
    let k1 := k.take (k.length / 2)
    let k2 := k.drop (k.length / 2)
    .ok (xtsSteal (c.decBlk k1) true (c.encBlk k2 tweak) ct)

def ccmParamsOk (k nonce : Bytes) (tagLen : Int) : Bool :=
  aesKeyOk k && (7 ≤ nonce.length && nonce.length ≤ 13) &&
  (tagLen == 4 || tagLen == 6 || tagLen == 8 || tagLen == 10 || tagLen == 12 || tagLen == 14 || tagLen == 16)

def aesCcmEncrypt (c : CryptoOps) (k m nonce aad : Bytes) (tagLen : Int) : PyRes Bytes :=
  if !ccmParamsOk k nonce tagLen then .error .other
  else if m.length ≥ 256 ^ (15 - nonce.length) then .error .other      -- "data too long for nonce"
  else .ok (ccmEnc c k nonce aad tagLen.toNat m)

def aesCcmDecrypt (c : CryptoOps) (k ct nonce aad : Bytes) (tagLen : Int) : PyRes Bytes :=
  if !ccmParamsOk k nonce tagLen then .error .other
  else match ccmDec c k nonce aad tagLen.toNat ct with
    | some m => .ok m
    | none => .error .other                                              -- InvalidTag

def sm4KeyOk (k : Bytes) : Bool := k.length == 16

def sm4CbcEncrypt (c : CryptoOps) (k m : Bytes) (iv : Option Bytes) : PyRes Bytes :=
  if !sm4KeyOk k then .error .spsdk
  else
    let iv' := ivOrDefault iv SymConsts.sm4CbcEncDefaultIvLen
    if iv'.length * 8 ≠ SymConsts.sm4CbcEncIvBits then .error .spsdk
    else if iv'.length ≠ 16 then .error .other
    else .ok (sm4CbcEnc c k iv' (zeroPad16 m))

def sm4CbcDecrypt (c : CryptoOps) (k ct : Bytes) (iv : Option Bytes) : PyRes Bytes :=
  if !sm4KeyOk k then .error .spsdk
  else
    let iv' := ivOrDefault iv SymConsts.sm4CbcDecDefaultIvLen
    if iv'.length * 8 ≠ SymConsts.sm4CbcDecIvBits then .error .spsdk
    else if iv'.length ≠ 16 then .error .other
    else if ct.length % 16 ≠ 0 then .error .other
    else .ok (sm4CbcDec c k iv' ct)

/-! ## MACs, KDF, hash -/

def cmacW (c : CryptoOps) (k m : Bytes) : PyRes Bytes :=
  if !aesKeyOk k then .error .other else .ok (cmac c k m)

def cmacValidate (c : CryptoOps) (k m sig : Bytes) : PyRes Bool :=
  if !aesKeyOk k then .error .other else .ok (cmac c k m == sig)

def hmacW (c : CryptoOps) (a : HashAlg) (k m : Bytes) : Bytes := hmac c a k m
def hmacValidate (c : CryptoOps) (a : HashAlg) (k m sig : Bytes) : Bool := hmac c a k m == sig

def hkdfAlg : HashAlg := (HashAlg.ofName? SymConsts.hkdfHashName).getD .sha256

/-- `hkdf(salt, ikm, info, length)`; `cryptography` refuses more than 255 blocks -/
def hkdfW (c : CryptoOps) (salt ikm info : Bytes) (len : Nat) : PyRes Bytes :=
  if len > 255 * hkdfAlg.size then .error .other else .ok (hkdf c hkdfAlg salt ikm info len)

def getHash (c : CryptoOps) (a : HashAlg) (m : Bytes) : Bytes := c.hash a m

/-- `Hash.update_int(value)`: big-endian bytes of `abs value`, no bytes at all for 0 -/
def updateIntBytes (v : Int) : Bytes := beEnc (Misc.byteLen v.natAbs) v.natAbs

/-! ## `spsdk.crypto.hash`: `get_hash_algorithm` / `get_hash_length` / the streaming `Hash` object -/

/-- what `getattr(hashes, algorithm.label.upper(), None)` finds for the labels of `EnumHashAlgorithm`
    (`cryptography.hazmat.primitives.hashes` has SHA1, SHA256, SHA384, SHA512, MD5, SM3 — and no `NONE`);
    MD5 and SM3 are recognised but not modelled further (oracle-only) -/
inductive HashKind where
  | modelled (a : HashAlg)
  | md5
  | sm3
  deriving DecidableEq, Repr

def hashKindOfLabel (label : String) : Option HashKind :=
  if label == "sha1" then some (.modelled .sha1) else if label == "sha256" then some (.modelled .sha256)
  else if label == "sha384" then some (.modelled .sha384) else if label == "sha512" then some (.modelled .sha512)
  else if label == "md5" then some .md5 else if label == "sm3" then some .sm3 else none

def HashKind.digestSize : HashKind → Nat
  | .modelled a => a.size
  | .md5 => 16
  | .sm3 => 32

/-- `get_hash_length(algorithm)`; an algorithm without a class in `hashes` is an SPSDKError -/
def getHashLength (label : String) : PyRes Nat :=
  match hashKindOfLabel label with
  | some k => .ok k.digestSize
  | none => .error .spsdk

/-- `Hash(algorithm)`: everything fed so far (the library object is opaque; `finalize` hashes the concatenation) -/
structure HashObj where
  alg : HashAlg
  data : Bytes

def HashObj.new (a : HashAlg) : HashObj := ⟨a, []⟩
def HashObj.update (o : HashObj) (d : Bytes) : HashObj := { o with data := o.data ++ d }
def HashObj.updateInt (o : HashObj) (v : Int) : HashObj := o.update (updateIntBytes v)
def HashObj.finalize (c : CryptoOps) (o : HashObj) : Bytes := c.hash o.alg o.data

/-! ## CRC: `crcmod.mkCrcFun(poly, initCrc, rev, xorOut)` in Rocksoft terms.
    `crcmod` takes the polynomial WITH its leading term (width = bit length − 1) and an `initCrc` that is
    the CRC of the empty string, i.e. register-init XOR xorOut; `rev` reflects both input and output. -/

def crcParams (cfg : CrcTable.CrcConfig) : Crc.Params :=
  let w := Misc.bitLen cfg.polynomial - 1
  ⟨w, cfg.polynomial % 2 ^ w, cfg.initialValue ^^^ cfg.finalXor, cfg.finalXor, cfg.reverse, cfg.reverse⟩

def crcLookup (name : String) : Option CrcTable.CrcConfig :=
  (CrcTable.table.find? (fun e => e.1 == name)).map (·.2.2)

/-- `from_crc_algorithm(CrcAlg.<name>).calculate(data)` -/
def crcCalculate (name : String) (data : Bytes) : PyRes Nat :=
  match crcLookup name with
  | some cfg => .ok (Crc.crc (crcParams cfg) data)
  | none => .error .spsdk

def crcVerify (name : String) (data : Bytes) (crc : Nat) : PyRes Bool :=
  match crcCalculate name data with
  | .ok v => .ok (v == crc)
  | .error e => .error e

/-! ## `KeyStore.derive_*` -/

def deriveHmacKey (c : CryptoOps) (k : Bytes) : PyRes Bytes :=
  if k.length ≠ SymConsts.hmacKeyLen then .error .spsdk else aesEcbEncrypt c k SymConsts.deriveHmacKeyInput

def deriveEncImageKey (c : CryptoOps) (k : Bytes) : PyRes Bytes :=
  if k.length ≠ SymConsts.encImageMasterKeyLen then .error .spsdk else aesEcbEncrypt c k SymConsts.deriveEncImageKeyInput

def deriveSbKekKey (c : CryptoOps) (k : Bytes) : PyRes Bytes :=
  if k.length ≠ SymConsts.sbKekMasterKeyLen then .error .spsdk else aesEcbEncrypt c k SymConsts.deriveSbKekInput

def deriveOtfadKekKey (c : CryptoOps) (k inp : Bytes) : PyRes Bytes :=
  if k.length ≠ SymConsts.otfadKekMasterKeyLen then .error .spsdk
  else if inp.length ≠ SymConsts.otfadKekInputLen then .error .spsdk
  else aesEcbEncrypt c k inp

/-! ## SB3.1 key derivation (CMAC-based KDF in counter mode) -/

inductive KdfMode where
  | kdk | blk
  deriving DecidableEq, Repr

/-- `_get_key_derivation_data`: label (12 B LE) ‖ context (8×00, rights<<6, mode, 00, key option) ‖ length (4 B BE) ‖ i (4 B BE).
    `int.to_bytes` raises OverflowError for values that do not fit / are negative. -/
def kdfData (derivConst : Int) (rights : Int) (mode : KdfMode) (keyLen : Int) (iter : Int) : PyRes Bytes :=
  if ¬ (0 ≤ rights ∧ rights ≤ 3) then .error .spsdk
  else if ¬ (keyLen = 128 ∨ keyLen = 256) then .error .spsdk
  else if derivConst < 0 ∨ derivConst ≥ 2 ^ 96 then .error .other
  else if iter < 0 ∨ iter ≥ 2 ^ 32 then .error .other
  else .ok (leEnc 12 derivConst.toNat ++ zeros 8 ++ [UInt8.ofNat (rights.toNat * 64)] ++
        [if mode = .kdk then 0x01 else 0x10] ++ [0] ++ [if keyLen = 128 then 0x20 else 0x21] ++
        beEnc 4 keyLen.toNat ++ beEnc 4 iter.toNat)

/-- `_derive_key`: one CMAC for 128-bit keys, two for 256-bit keys -/
def deriveKey (c : CryptoOps) (key : Bytes) (derivConst rights : Int) (mode : KdfMode) (keyLen : Int) : PyRes Bytes :=
  match kdfData derivConst rights mode keyLen 1 with
  | .error e => .error e
  | .ok d1 =>
    match cmacW c key d1 with
    | .error e => .error e
    | .ok r1 =>
      if keyLen = 256 then
        match kdfData derivConst rights mode keyLen 2 with
        | .error e => .error e
        | .ok d2 =>
          match cmacW c key d2 with
          | .error e => .error e
          | .ok r2 => .ok (r1 ++ r2)
      else .ok r1

def deriveKdk (c : CryptoOps) (pck : Bytes) (timestamp keyLen rights : Int) : PyRes Bytes :=
  deriveKey c pck timestamp rights .kdk keyLen

def deriveBlockKey (c : CryptoOps) (kdk : Bytes) (blockNumber keyLen rights : Int) : PyRes Bytes :=
  deriveKey c kdk blockNumber rights .blk keyLen

end SpsdkVerif.SymWrappers
