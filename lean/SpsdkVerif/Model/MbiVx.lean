/-
Executable model of the header-less Master Boot Images of the mc56f81xxx / mwct20x2 families ("Vx" images):
`Mbi_MixinBcaTable` offsets (GENERATED: `vxImg…` in Generated/IvtConsts.lean), `Mbi_MixinBcaObsolete`, `Mbi_MixinFcfObsolete`,
`Mbi_MixinCertBlockVx`, the collectors `Mbi_ExportMixinAppFcf` / `Mbi_ExportMixinAppBcaFcf`, `Mbi_ExportMixinCrcSignBca`,
`Mbi_ExportMixinEccSignVx` (mbi_mixin.py 842-1027, 1429-1475, 2389-2667) and their parse side.

These images have no IVT: the tool writes into fixed places of the application itself (BCA image length / firmware
version / CRC words, FCF life-cycle byte, image digest, signature, ISK certificate (+ hash)) and the parser returns the
image as the application.  Domain of the model: applications of at least `vxImgDataStart` (0xC00) bytes, so that every named
sub-image of the collectors has its full size (shorter ones make BinaryImage place the sub-images elsewhere; not modelled).
The ISK certificate block is opaque (bytes + its 16-byte hash), the signature is what the signer returns.
Tied to /repo by the C01 correspondence over every mc56 / mwct row (harness/props/C01.py, stream `vx`).
-/
import SpsdkVerif.Model.Mbi

namespace SpsdkVerif.Mbi.Vx
open SpsdkVerif SpsdkVerif.Misc SpsdkVerif.Crypto SpsdkVerif.Mbi
open SpsdkVerif.Generated.IvtConsts

abbrev Bytes := SpsdkVerif.Misc.Bytes

inductive Kind where
  | plain      -- Mbi_ExportMixinAppFcf
  | crc        -- Mbi_ExportMixinAppFcf + Mbi_ExportMixinCrcSignBca
  | signed     -- Mbi_ExportMixinAppBcaFcf + Mbi_ExportMixinEccSignVx (+ BcaObsolete, CertBlockVx)
  deriving Repr, DecidableEq

/-- `DSASSLifeCycle` tags (mbi_mixin.py 951-959); 0xFF = NOT_SET keeps the byte of the application -/
def lifecycleTags : List Nat := [0xFF, 0xFE, 0x90, 0x95, 0x9B, 0x6B]

structure Cfg where
  app : Bytes
  lifecycle : Nat := 0xFF
  fwVersion : Nat := 0
  /-- `cert_block.export()` of the CertBlockVx (opaque) and `cert_block.cert_hash` -/
  cert : Bytes := []
  certHash : Bytes := []
  addHash : Bool := true
  justHeader : Bool := false
  deriving Repr, DecidableEq

/-- replace the sub-image occupying `[a, b)` by `new`: BinaryImage keeps the offsets of the following sub-images and fills
    the gap behind a shorter binary with zeros -/
def putSlot (img : Bytes) (a b : Nat) (new : Bytes) : Bytes :=
  img.take a ++ new ++ zeros (b - a - new.length) ++ img.drop b

/-- `update_fcf` -/
def updateFcf (cfg : Cfg) (app : Bytes) : PyRes Bytes :=
  if cfg.lifecycle = 0xFF then .ok app
  else if ¬ lifecycleTags.contains cfg.lifecycle then .error .spsdk     -- from_tag: SPSDKKeyError
  else .ok (setAt app vxImgFcfLifecycleOffset [UInt8.ofNat cfg.lifecycle])

/-- `Mbi_MixinBcaObsolete.mix_len` (a negative constant) + application length -/
def totalLen (k : Kind) (app : Bytes) : Int :=
  match k with
  | .signed => (app.length : Int) + ((vxImgDigestOffset : Int) + (vxImgFcfOffset - vxImgBcaOffset : Int) - vxImgDataStart)
  | _ => app.length

/-- `update_bca` -/
def updateBca (cfg : Cfg) (app : Bytes) (total : Nat) : Bytes :=
  setAt (setAt app vxImgBcaImageLengthOffset (le32 total)) vxImgBcaFwVersionOffset (le32 cfg.fwVersion)

def collect (k : Kind) (cfg : Cfg) : PyRes Bytes :=
  let app := align4 cfg.app
  if app.isEmpty then .error .spsdk
  else if app.length < vxImgDataStart then .error .other      -- outside the modelled domain
  else match k with
    | .signed =>
      if totalLen k app < 0 ∨ totalLen k app ≥ 2 ^ 32 ∨ cfg.fwVersion ≥ 2 ^ 32 then .error .other else do
      let b ← updateFcf cfg (updateBca cfg app (totalLen k app).toNat)
      pure (if cfg.justHeader then b.take vxImgDukBlockOffset else b)
    | _ => updateFcf cfg app

/-- the data the CRC / the signature cover behind the header -/
def dataPart (img : Bytes) : Bytes := img.drop vxImgDataStart

/-- `Mbi_ExportMixinCrcSignBca.sign`: CRC start / byte count / value written into the BCA -/
def crcSignBca (img : Bytes) : Bytes :=
  let bca := slice img vxImgBcaOffset vxImgFcfOffset
  let bca := setAt bca 0xC (le32 (crc32m (dataPart img)))
  let bca := setAt bca 0x4 (le32 vxImgDataStart)
  let bca := setAt bca 0x8 (le32 (dataPart img).length)
  putSlot img vxImgBcaOffset vxImgFcfOffset bca

/-- what `Mbi_ExportMixinEccSignVx.sign` hashes and signs -/
def dataToSign (img : Bytes) : Bytes :=
  img.take vxImgDigestOffset ++ slice img vxImgBcaOffset vxImgSignedHeaderEnd ++ img.drop vxImgDataStart

def eccSignVx (co : CryptoOps) (cfg : Cfg) (signer : Signer) (img : Bytes) : PyRes Bytes :=
  let d := dataToSign img
  let sig := signer d
  if sig.isEmpty then .error .spsdk else
  let i := putSlot img vxImgDigestOffset vxImgSignatureOffset (co.hash .sha256 d)
  let i := putSlot i vxImgSignatureOffset vxImgBcaOffset sig
  let i := putSlot i vxImgIskOffset vxImgIskHashOffset cfg.cert
  .ok (if cfg.addHash then putSlot i vxImgIskHashOffset vxImgWpcRootCaCertHashOffset cfg.certHash else i)

/-- `MasterBootImage.export()` for the three Vx classes -/
def exportImage (co : CryptoOps) (k : Kind) (cfg : Cfg) (signer : Signer) : PyRes Bytes := do
  let raw ← collect k cfg
  match k with
  | .plain => pure raw
  | .crc => pure (crcSignBca raw)
  | .signed => eccSignVx co cfg signer raw

/-- what `MasterBootImage.parse` recovers (the ISK certificate block is parsed by the opaque certificate code) -/
structure Parsed where
  app : Bytes
  lifecycle : Nat
  fwVersion : Nat
  deriving Repr, DecidableEq

def parseImage (k : Kind) (data : Bytes) : PyRes Parsed :=
  if data.length ≤ vxImgFcfLifecycleOffset then .error .other else      -- value_to_int(b"") / struct.error on short data
  let lc := (data.getD vxImgFcfLifecycleOffset 0).toNat
  let fw := match k with | .signed => rd32 data vxImgBcaFwVersionOffset | _ => 0
  .ok ⟨align4 data, lc, fw⟩

/-! ## what belongs to the tool: byte ranges of the application the exporters overwrite -/

def owned (k : Kind) (cfg : Cfg) (i : Nat) : Bool :=
  (cfg.lifecycle != 0xFF && i == vxImgFcfLifecycleOffset)
  || (match k with
      | .plain => false
      | .crc => vxImgBcaOffset + 4 ≤ i && i < vxImgBcaOffset + 16
      | .signed =>
        (vxImgDigestOffset ≤ i && i < vxImgBcaOffset)                                  -- digest + signature
        || (vxImgBcaImageLengthOffset ≤ i && i < vxImgBcaFwVersionOffset + 4)          -- BCA image length, firmware version
        || (vxImgIskOffset ≤ i && i < vxImgIskHashOffset)                              -- ISK certificate
        || (cfg.addHash && vxImgIskHashOffset ≤ i && i < vxImgWpcRootCaCertHashOffset)) -- ISK hash slot

/-- the option set is inside the modelled domain and accepted -/
def cfgWF (k : Kind) (cfg : Cfg) : Bool :=
  (align4 cfg.app).length ≥ vxImgDataStart && (align4 cfg.app).length < 2 ^ 31
  && lifecycleTags.contains cfg.lifecycle && cfg.fwVersion < 2 ^ 32
  && (k != .signed → cfg.fwVersion == 0 && cfg.cert.isEmpty && !cfg.justHeader)
  && (k == .signed → cfg.cert.length ≤ vxImgIskHashOffset - vxImgIskOffset && !cfg.cert.isEmpty
        && cfg.certHash.length == vxImgIskHashSize)

end SpsdkVerif.Mbi.Vx
